#!/bin/bash
# usage: try_mutants.sh <dir-with-*/patch.diff or patch files...>   — applies each patch to /repo, runs all checks, reverts.
# prints one line per patch: which properties reported VIOLATION / ERROR
cd /repo || exit 2
if [ -n "$(git status --porcelain)" ]; then echo "/repo not clean"; exit 2; fi
for p in "$@"; do
  if ! git apply --check "$p" 2>/dev/null; then echo "$p: DOES-NOT-APPLY"; continue; fi
  git apply "$p"
  out=$(/verif/bin/taskverif all 2>&1)
  v=$(echo "$out" | grep -o '^VIOLATION property=C[0-9]*' | sort -u | sed 's/VIOLATION property=//' | tr '\n' ' ')
  e=$(echo "$out" | grep -o '^ERROR property=C[0-9]*' | sort -u | sed 's/ERROR property=//' | tr '\n' ' ')
  echo "$p: VIOL[$v] ERR[$e]"
  if [ -n "$VERBOSE" ]; then echo "$out" | grep -A1 '^VIOLATION\|^ERROR' | grep -v '^--' | cut -c1-400; fi
  git checkout -q -- . && git clean -fdq
done
# evidence files were rewritten by mutant runs: restore them by re-running on the clean tree
/verif/bin/taskverif all >/dev/null 2>&1
