#!/usr/bin/env python3
"""Applies every confirmed seeded change (and self-mutant) to /repo, runs all checks, reverts, and records which checks report it."""
import subprocess, json, glob, os, re, sys
def sh(c, cwd=None):
    p = subprocess.run(c, shell=True, cwd=cwd, capture_output=True, text=True); return p.returncode, p.stdout + p.stderr
rc, out = sh("git status --porcelain", "/repo")
if out.strip(): sys.exit("/repo not clean")
rows = []
items = sorted(glob.glob("/verif/seeded/*/patch.diff")) + sorted(glob.glob("/verif/selftest/mutants/*.patch"))
for patch in items:
    seeded = "/seeded/" in patch
    name = os.path.basename(os.path.dirname(patch)) if seeded else os.path.basename(patch)[:-6]
    target = name.split("-")[0]
    rc, out = sh(f"git apply --check {patch}", "/repo")
    if rc:
        rows.append((name, target, "DOES-NOT-APPLY", [], [])); continue
    sh(f"git apply {patch}", "/repo")
    rc, out = sh("/verif/bin/taskverif all")
    sh("git checkout -q -- . && git clean -fdq", "/repo")
    viol = {}
    for m in re.finditer(r'^VIOLATION property=(C\d+) replay=\S+\n\s+\S+\s+rule=(\S+) construct=(.*?): ', out, re.M):
        viol.setdefault(m.group(1), []).append(m.group(2))
    errs = sorted(set(re.findall(r'^ERROR property=(C\d+)', out, re.M)))
    props = sorted(viol)
    status = "DETECTED-BY-OWN-CHECK" if target in viol else ("DETECTED-BY-OTHER-CHECK" if viol else ("ERROR-ONLY" if errs else "MISSED"))
    rows.append((name, target, status, [f"{p}:{'+'.join(sorted(set(viol[p])))}" for p in props], errs))
    if seeded:
        mp = os.path.join(os.path.dirname(patch), "meta.json")
        meta = json.load(open(mp))
        meta["detection"] = {"status": status, "violations": {p: sorted(set(viol[p])) for p in props}, "errors": errs, "command": "git -C /repo apply patch.diff && bin/taskverif all ; git -C /repo checkout -- ."}
        json.dump(meta, open(mp, "w"), indent=1)
sh("/verif/bin/taskverif all")  # restore evidence of the clean tree
with open("/verif/seeded/DETECTION.md", "w") as f:
    f.write("# Detection matrix\n\nEach confirmed seeded change (sub-agent written, see meta.json) and each self-written mutant was applied to /repo, `bin/taskverif all` was run, and the change was reverted.\n\n| change | targets | status | reported by (property:rules) | errors |\n|---|---|---|---|---|\n")
    for r in rows:
        f.write(f"| {r[0]} | {r[1]} | {r[2]} | {'; '.join(r[3])} | {' '.join(r[4])} |\n")
    n = len(rows); own = sum(1 for r in rows if r[2]=="DETECTED-BY-OWN-CHECK"); oth = sum(1 for r in rows if r[2]=="DETECTED-BY-OTHER-CHECK")
    f.write(f"\n{n} changes: {own} reported by the check of the property they target, {oth} only by another property's check, {n-own-oth} not reported by a VIOLATION.\n")
for r in rows: print(r[0], r[2], "; ".join(r[3])[:150], r[4])
