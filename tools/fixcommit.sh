#!/bin/bash
# usage: fixcommit.sh "<commit message>"  — runs the pinned suite in /repo and commits the working tree if it passes
export GOFLAGS=-mod=mod GOPROXY=off GOSUMDB=off GOTOOLCHAIN=local
cd /repo || exit 2
go build ./... 2>&1 | grep -v conda
out=$(go test -vet=off -count=1 -timeout 25m ./... 2>&1 | grep -v conda)
if echo "$out" | grep -qE '^(FAIL|---\s*FAIL|panic:)'; then echo "$out" | grep -vE '^\?|^ok' | tail -60; echo "SUITE FAILED - not committed"; exit 1; fi
echo "$out" | grep -c '^ok' 
git add -A && git commit -q -m "$1" && git log --oneline | head -1
