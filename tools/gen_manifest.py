#!/usr/bin/env python3
"""Regenerates /verif/MANIFEST.json from the table below (claimed checks) and properties.jsonl (everything else -> not_applicable)."""
import json, subprocess, os
V = "/verif"
props = [json.loads(l) for l in open(f"{V}/properties.jsonl")]
claims = json.load(open(f"{V}/tools/claims.json"))
checks, na = [], []
for p in props:
    pid = p["id"]
    c = claims.get(pid)
    if not c or not c.get("claimed"):
        na.append({"property_id": pid, "reason": (c or {}).get("reason", "check not built yet (static rules under construction); not claimed")})
        continue
    checks.append({
        "property_id": pid,
        "quick_cmd": f"bin/taskverif check {pid} --tier quick",
        "thorough_cmd": f"bin/taskverif check {pid} --tier thorough",
        "evidence_file": f"/verif/evidence/{pid}.json",
        "replay_cmd_template": "bin/taskverif replay {path}",
        "engine": "taskverif",
        "level_claimed": {"category": "other", "text": c["text"], "design_ref": f"DESIGN.md §3 {pid}"},
        "level_note": c["note"],
        "technique": c["technique"],
    })
m = {
    "version": 1,
    "setup_cmd": "cd /verif/checker && GOFLAGS=-mod=mod GOPROXY=off GOSUMDB=off GOTOOLCHAIN=local GOWORK=off go build -o /verif/bin/taskverif .",
    "hooks": {"guard": "verif", "enable": "none needed: static analysis reads /repo's source, no instrumentation is compiled in", 
              "baseline_off_cmd": "cd /repo && GOFLAGS=-mod=mod go test -vet=off -count=1 -timeout 25m ./...", "source_commits": [], "add_only": True},
    "engines": [{"name": "taskverif", "path": "/verif/checker", "serves_properties": [c["property_id"] for c in checks],
                 "kind_free_text": "repository-specific static analyzer (go/packages + go/types + go/cfg must-dataflow + go/ssa path enumeration + call graph); executes nothing from /repo"}],
    "checks": checks,
    "not_applicable": na,
    "notes": "All claims are level 'other': structural necessary conditions of each property decided statically for all paths of the implementing code; see DESIGN.md for what each check does not decide. Known findings: /verif/known_findings.json.",
}
json.dump(m, open(f"{V}/MANIFEST.json", "w"), indent=1)
print(len(checks), "claimed;", len(na), "not applicable")
