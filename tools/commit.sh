#!/bin/bash
# usage: tools/commit.sh "<message>" — commits /verif only when every check is clean on /repo's current tree and the manifest validates
cd /verif || exit 2
out=$(bin/taskverif all 2>&1)
if echo "$out" | grep -q '^VIOLATION\|^ERROR'; then echo "$out" | grep -A1 '^VIOLATION\|^ERROR' | cut -c1-300 | head -20; echo "NOT COMMITTED: checks are not clean on the current tree"; exit 1; fi
python3-vt tools/validate.py | tail -1 | grep -q valid || { echo "NOT COMMITTED: manifest/evidence invalid"; exit 1; }
git add -A && git commit -q -m "$1" && git log --oneline | head -1
