#!/usr/bin/env python3
"""Confirms a seeded change in a scratch worktree of /repo's HEAD and, when confirmed, stores it under /verif/seeded/<name>/.
usage: confirm_seeded.py <variant-dir> <name>      e.g. /tmp/wtout/C01/a C01-a
Confirmation = patch applies to HEAD, builds, the unedited suite passes with it, the demonstration fails with it and passes without it."""
import sys, os, subprocess, json, re, shutil, glob, tempfile
src, name = sys.argv[1].rstrip('/'), sys.argv[2]
ENV = dict(os.environ, GOFLAGS="-mod=mod", GOPROXY="off", GOSUMDB="off", GOTOOLCHAIN="local")
def sh(cmd, cwd=None, timeout=900):
    try:
        p = subprocess.run(cmd, shell=True, cwd=cwd, env=ENV, capture_output=True, text=True, timeout=timeout)
        return p.returncode, (p.stdout + p.stderr)
    except subprocess.TimeoutExpired as e:
        return 124, "TIMEOUT " + str(e)
wt = tempfile.mkdtemp(prefix="sw-" + name + "-", dir="/tmp")
os.rmdir(wt)
res = {"name": name, "source": src}
def finish(ok, why):
    res["confirmed"] = ok; res["why"] = why
    sh(f"git -C /repo worktree remove --force {wt}")
    shutil.rmtree(wt, ignore_errors=True)
    print(json.dumps(res))
    sys.exit(0 if ok else 1)
rc, out = sh(f"git -C /repo worktree add -q --detach {wt} HEAD")
if rc: finish(False, "worktree: " + out[-300:])
patch = os.path.join(src, "patch.diff")
rc, out = sh(f"git apply --check {patch}", cwd=wt)
if rc:
    rc, out = sh(f"git apply --3way {patch}", cwd=wt)
    if rc: finish(False, "patch does not apply to HEAD: " + out[-300:])
    sh("git reset -q", cwd=wt)
    res["applied"] = "3way"
else:
    sh(f"git apply {patch}", cwd=wt)
    res["applied"] = "clean"
rc, newpatch = sh("git diff", cwd=wt)
rc, out = sh("go build ./...", cwd=wt)
if rc: finish(False, "build fails with patch: " + out[-400:])
rc, out = sh("go test -vet=off -count=1 -timeout 25m ./...", cwd=wt)
if rc or re.search(r'^(FAIL|--- FAIL|panic:)', out, re.M): finish(False, "suite fails with patch: " + out[-600:])
res["suite_with_patch"] = "pass"
# demo
demo = os.path.join(src, "demo")
tests = glob.glob(os.path.join(demo, "*_test.go"))
scripts = glob.glob(os.path.join(demo, "*.sh"))
runmd = open(os.path.join(demo, "RUN.md")).read() if os.path.exists(os.path.join(demo, "RUN.md")) else ""
PKGDIR = {"task": ".", "task_test": ".", "taskfile": "taskfile", "taskfile_test": "taskfile", "ast": "taskfile/ast", "ast_test": "taskfile/ast",
          "templater": "internal/templater", "templater_test": "internal/templater", "output": "internal/output", "output_test": "internal/output",
          "fingerprint": "internal/fingerprint", "fingerprint_test": "internal/fingerprint", "args": "args", "args_test": "args", "env": "internal/env", "env_test": "internal/env"}
cmds = []
copied = []
for t in tests:
    txt = open(t).read()
    pk = re.search(r'^package (\w+)', txt, re.M).group(1)
    d = PKGDIR.get(pk, ".")
    dst = os.path.join(wt, d, os.path.basename(t))
    copied.append((t, dst))
    names = re.findall(r'^func (Test\w+)\(', txt, re.M)
    race = "-race " if ("-race" in runmd or name.startswith("C18")) else ""
    cmds.append((f"go test -vet=off {race}-count=1 -timeout 10m -run '^({'|'.join(names)})$' ./{d}", os.path.join(d, os.path.basename(t))))
def run_demo():
    for s, dst in copied: shutil.copy(s, dst)
    td = os.path.join(demo, "testdata")
    if os.path.isdir(td):
        for t, _ in copied or [(None, None)]:
            pass
        # demo-specific testdata goes next to the test file(s) (root package when there is none)
        dirs = {os.path.dirname(dst) for _, dst in copied} or {wt}
        for d in dirs:
            shutil.copytree(td, os.path.join(d, "testdata"), dirs_exist_ok=True)
    outs = []; failed = False
    for c, _ in cmds:
        rc, out = sh(c, cwd=wt, timeout=900)
        outs.append(f"$ {c}\n{out[-1500:]}")
        if rc: failed = True
    for s in scripts:
        arg = wt
        if "<task-binary>" in runmd or "task-binary" in runmd or re.search(r'\.sh\s+/tmp/task-', runmd) or os.environ.get("SCRIPT_WANTS_BINARY"):
            rc, out = sh(f"go build -o {wt}/.demo-task ./cmd/task", cwd=wt)
            arg = f"{wt}/.demo-task"
        rc, out = sh(f"bash {s} {arg}", cwd=wt, timeout=900)
        outs.append(f"$ bash {os.path.basename(s)} {arg}\n{out[-1500:]}")
        if rc: failed = True
    for _, dst in copied:
        if os.path.exists(dst): os.remove(dst)
    return failed, "\n".join(outs)
if not cmds and not scripts: finish(False, "no runnable demonstration found")
f1, o1 = run_demo()
if not f1: finish(False, "demonstration does not fail with the patch at HEAD: " + o1[-500:])
sh("git checkout -q -- . && git clean -fdq", cwd=wt)
f2, o2 = run_demo()
if f2: finish(False, "demonstration fails WITHOUT the patch at HEAD: " + o2[-500:])
res["demo_with_patch"] = "fails"; res["demo_without_patch"] = "passes"
# store
dst = os.path.join("/verif/seeded", name)
shutil.rmtree(dst, ignore_errors=True)
os.makedirs(dst)
open(os.path.join(dst, "patch.diff"), "w").write(newpatch)
shutil.copytree(demo, os.path.join(dst, "demo"))
meta = json.load(open(os.path.join(src, "meta.json")))
head = subprocess.run("git -C /repo rev-parse --short HEAD", shell=True, capture_output=True, text=True).stdout.strip()
meta["confirmed_by_main_session"] = {"repo_head": head, "patch_applied": res["applied"], "suite_with_patch": "pass (go test -vet=off -count=1 ./...)",
    "demo_commands": [c for c, _ in cmds] + [f"bash demo/{os.path.basename(s)} <worktree or binary>" for s in scripts],
    "demo_with_patch": "FAILS", "demo_without_patch": "PASSES"}
json.dump(meta, open(os.path.join(dst, "meta.json"), "w"), indent=1)
finish(True, "confirmed")
