#!/bin/bash
# usage: try_in_scratch.sh <patch>...  — like try_mutants.sh but in a scratch worktree of /repo's HEAD (leaves /repo's working tree alone)
S=$(mktemp -d /tmp/tryscratch-XXXX); rmdir $S
git -C /repo worktree add -q --detach $S HEAD || exit 2
V=$(mktemp -d /tmp/tryverif-XXXX); mkdir -p $V/evidence; cp /verif/known_findings.json $V/
for p in "$@"; do
  if ! git -C $S apply --check "$p" 2>/dev/null; then echo "$p: DOES-NOT-APPLY"; continue; fi
  git -C $S apply "$p"
  out=$(VERIF_REPO=$S VERIF_DIR=$V VERIF_TIER=quick ${TASKVERIF:-/verif/bin/taskverif} all 2>&1)
  v=$(echo "$out" | grep -o '^VIOLATION property=C[0-9]*' | sort -u | sed 's/VIOLATION property=//' | tr '\n' ' ')
  e=$(echo "$out" | grep -o '^ERROR property=C[0-9]*' | sort -u | sed 's/ERROR property=//' | tr '\n' ' ')
  echo "$p: VIOL[$v] ERR[$e]"
  if [ -n "$VERBOSE" ]; then echo "$out" | grep -A1 '^VIOLATION\|^ERROR' | grep -v '^--' | cut -c1-500; fi
  git -C $S checkout -q -- . && git -C $S clean -fdq
done
git -C /repo worktree remove --force $S; rm -rf $V
