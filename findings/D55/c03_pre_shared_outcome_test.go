package task_test

import (
	"bytes"
	"context"
	"testing"

	"github.com/stretchr/testify/assert"
	"github.com/stretchr/testify/require"

	"github.com/go-task/task/v3"
	"github.com/go-task/task/v3/errors"
)

// `task main shared`: main (ignore_error: true) calls the run-once task
// `shared`, whose command exits 3; main ignores that and succeeds. The second
// command-line call `shared` is deduplicated and receives the recorded
// outcome. It is a directly called task, so its failure must be reported as
// a *errors.TaskRunError (exit status 201, or 3 with --exit-code).
func TestC03PreexistingSharedOutcomeOfDirectCall(t *testing.T) {
	t.Parallel()

	var buff bytes.Buffer
	e := task.NewExecutor(
		task.WithDir("testdata/c03_pre_shared_outcome"),
		task.WithStdout(&buff),
		task.WithStderr(&buff),
		task.WithSilent(true),
	)
	require.NoError(t, e.Setup())

	err := e.Run(context.Background(), &task.Call{Task: "main"}, &task.Call{Task: "shared"})
	require.Error(t, err)

	var runErr *errors.TaskRunError
	require.ErrorAs(t, err, &runErr, "got %T: %v (cmd/task maps this to exit status 1)", err, err)
	assert.Equal(t, 3, runErr.TaskExitCode())
}
