package task_test

import (
	"context"
	"io"
	"testing"
	"time"

	"github.com/go-task/task/v3"
	"github.com/go-task/task/v3/errors"
)

// `task --parallel top shared`: when the dependency call of "shared" (made by
// "top") registers the shared execution before the direct call of "shared"
// does, the direct call waits for it and returns the bare exit status instead
// of a *errors.TaskRunError, so the process exit code is 1 (CodeUnknown) and
// --exit-code is not honoured.
func TestC03PreexistingDirectWaiterGetsBareExitStatus(t *testing.T) {
	e := task.NewExecutor(
		task.WithDir("testdata/c03pre"),
		task.WithStdout(io.Discard),
		task.WithStderr(io.Discard),
	)
	if err := e.Setup(); err != nil {
		t.Fatal(err)
	}
	ctx := context.Background()
	go func() { _ = e.RunTask(ctx, &task.Call{Task: "top"}) }()
	time.Sleep(300 * time.Millisecond) // "top" has started "shared" by now
	err := e.RunTask(ctx, &task.Call{Task: "shared"})
	if err == nil {
		t.Fatal("want an error")
	}
	if _, ok := err.(*errors.TaskRunError); !ok {
		t.Fatalf("direct call of a failing task returned %T (%v), not *errors.TaskRunError: exit code would be 1, not 201", err, err)
	}
}
