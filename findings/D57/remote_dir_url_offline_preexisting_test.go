package task_test

import (
	"bytes"
	"net/http"
	"net/http/httptest"
	"path/filepath"
	"testing"
	"time"

	"github.com/stretchr/testify/require"

	"github.com/go-task/task/v3"
	"github.com/go-task/task/v3/internal/experiments"
)

// Directory-style URL without a trailing slash ("<srv>/first"): online, the
// HEAD probe rewrites the node URL to "<srv>/first/Taskfile.yml", so the
// relative include "./second/Taskfile.yml" resolves to
// "<srv>/first/second/Taskfile.yml" and is cached under that key. With
// --offline (or when the download fails) the probe never runs / never
// succeeds, the node URL stays "<srv>/first" and the same include resolves to
// "<srv>/second/Taskfile.yml": a different cache key, so the approved cached
// copy is not found.
func TestPreexistingDirURLRelativeIncludeOffline(t *testing.T) {
	enableExperimentForTest(t, &experiments.RemoteTaskfiles, 1)

	files := map[string]string{
		"/first/Taskfile.yml":        "version: '3'\nincludes:\n  second: ./second/Taskfile.yml\ntasks:\n  default:\n    cmds:\n      - task: second:hello\n",
		"/first/second/Taskfile.yml": "version: '3'\ntasks:\n  hello:\n    cmds:\n      - echo hello\n",
	}
	srv := httptest.NewServer(http.HandlerFunc(func(w http.ResponseWriter, r *http.Request) {
		body, ok := files[r.URL.Path]
		if !ok {
			http.NotFound(w, r)
			return
		}
		w.Header().Set("Content-Type", "text/yaml")
		_, _ = w.Write([]byte(body))
	}))
	defer srv.Close()

	dir := t.TempDir()
	tempDir := task.TempDir{Remote: filepath.Join(dir, ".task"), Fingerprint: filepath.Join(dir, ".task")}

	setup := func(name string, opts ...task.ExecutorOption) error {
		var out bytes.Buffer
		e := task.NewExecutor(append([]task.ExecutorOption{
			task.WithEntrypoint(srv.URL + "/first"),
			task.WithDir(dir),
			task.WithTempDir(tempDir),
			task.WithInsecure(true),
			task.WithTimeout(10 * time.Second),
			task.WithStdout(&out),
			task.WithStderr(&out),
			task.WithVerbose(true),
		}, opts...)...)
		err := e.Setup()
		t.Logf("%s:\n%s", name, out.String())
		return err
	}

	require.NoError(t, setup("online, --yes", task.WithAssumeYes(true)))
	require.NoError(t, setup("--offline", task.WithOffline(true)))
}
