package taskfile_test

import (
	"context"
	"fmt"
	"net/http"
	"net/http/httptest"
	"os"
	"path/filepath"
	"strings"
	"testing"

	"github.com/go-task/task/v3/internal/experiments"
	"github.com/go-task/task/v3/taskfile"
)

// UNCHANGED TREE: a remote (http) Taskfile that is included by two local
// Taskfiles with different dirs resolves the relative dir of its own include
// against the dir of whichever parent reached it first.
func TestC09PreexistingRemoteDiamondDir(t *testing.T) {
	prev := experiments.RemoteTaskfiles
	experiments.RemoteTaskfiles = experiments.Experiment{Name: prev.Name, AllowedValues: []int{1}, Value: 1}
	t.Cleanup(func() { experiments.RemoteTaskfiles = prev })

	served := t.TempDir()
	write := func(path, content string) {
		t.Helper()
		if err := os.MkdirAll(filepath.Dir(path), 0o755); err != nil {
			t.Fatal(err)
		}
		if err := os.WriteFile(path, []byte(content), 0o644); err != nil {
			t.Fatal(err)
		}
	}
	write(filepath.Join(served, "lib.yml"), "version: '3'\nincludes:\n  sub:\n    taskfile: ./sub.yml\n    dir: ./work\n")
	write(filepath.Join(served, "sub.yml"), "version: '3'\ntasks:\n  where:\n    cmds:\n      - pwd\n")
	srv := httptest.NewServer(http.FileServer(http.Dir(served)))
	defer srv.Close()

	root := t.TempDir()
	write(filepath.Join(root, "Taskfile.yml"), "version: '3'\nincludes:\n  a:\n    taskfile: ./a/Taskfile.yml\n    dir: ./a\n  b:\n    taskfile: ./b/Taskfile.yml\n    dir: ./b\n")
	for _, d := range []string{"a", "b"} {
		write(filepath.Join(root, d, "Taskfile.yml"), fmt.Sprintf("version: '3'\nincludes:\n  lib: %s/lib.yml\n", srv.URL))
	}

	seen := map[string]int{}
	for i := range 200 {
		node, err := taskfile.NewRootNode(filepath.Join(root, "Taskfile.yml"), root, true, 0)
		if err != nil {
			t.Fatal(err)
		}
		g, err := taskfile.NewReader(
			taskfile.WithInsecure(true),
			taskfile.WithDownload(true),
			taskfile.WithTempDir(t.TempDir()),
		).Read(context.Background(), node)
		if err != nil {
			t.Fatalf("load %d: %v", i, err)
		}
		tf, err := g.Merge()
		if err != nil {
			t.Fatalf("load %d: %v", i, err)
		}
		var b strings.Builder
		for name, task := range tf.Tasks.All(nil) {
			fmt.Fprintf(&b, "%s dir=%s\n", name, strings.TrimPrefix(task.Dir, root))
		}
		seen[b.String()]++
	}
	if len(seen) != 1 {
		t.Errorf("the same tree gave %d different results", len(seen))
		for r, n := range seen {
			t.Logf("%d times:\n%s", n, r)
		}
	}
}
