#!/bin/sh
# UNCHANGED TREE. usage: dynamic_var_cache.sh <WT>
# Two tasks with different dirs declare the same dynamic variable (sh: pwd) and run as parallel deps.
export GOFLAGS=-mod=mod GOPROXY=off GOSUMDB=off GOTOOLCHAIN=local
WT=${1:?worktree}
BIN=$(mktemp -d)/task
(cd "$WT" && go build -o "$BIN" ./cmd/task) || exit 2
D=$(mktemp -d); mkdir -p "$D/one" "$D/two"
cat > "$D/Taskfile.yml" <<'YML'
version: '3'
tasks:
  default:
    deps: [one, two]
  one:
    dir: one
    vars:
      HERE: {sh: pwd}
    cmds:
      - echo one runs in {{.HERE}}
  two:
    dir: two
    vars:
      HERE: {sh: pwd}
    cmds:
      - echo two runs in {{.HERE}}
YML
cd "$D" || exit 2
for i in $(seq 1 30); do
  timeout -s KILL 20 "$BIN" -s 2>/dev/null | sed "s#$D##" | sort | tr '\n' '|'; echo
done | sort | uniq -c
# expected if deterministic: one line "30 one runs in /one|two runs in /two|"
# observed: two different lines (both tasks in /one, or both in /two), about 15 each
