#!/bin/sh
# usage: repro.sh /path/to/task-binary   (built from the UNCHANGED tree: go build -o /tmp/task ./cmd/task)
TASK=${1:?task binary}
D=$(mktemp -d)
cat > "$D/Taskfile.yml" <<'YML'
version: '3'
tasks:
  a:
    ignore_error: true
    cmds:
      - task: x
      - echo a-continues
  x:
    run: once
    cmds:
      - exit 3
      - echo x-after
YML
cd "$D"
timeout -s KILL 20 "$TASK" a x 2>&1;    echo "status without --exit-code: $?  (expected 201)"
timeout -s KILL 20 "$TASK" -x a x 2>&1; echo "status with --exit-code:    $?  (expected 3)"
