package task_test

import (
	"context"
	"regexp"
	"strings"
	"sync"
	"testing"
	"time"

	"github.com/stretchr/testify/assert"
	"github.com/stretchr/testify/require"

	"github.com/go-task/task/v3"
)

// slowStream is one stream shared by stdout and stderr (task ... 2>&1): every
// Write is atomic, like a write(2) to a pipe, and takes a little while.
type slowStream struct {
	mutex sync.Mutex
	sb    strings.Builder
}

func (s *slowStream) Write(p []byte) (int, error) {
	s.mutex.Lock()
	n, err := s.sb.Write(p)
	s.mutex.Unlock()
	time.Sleep(time.Millisecond)
	return n, err
}

func TestC17PrefixedLinesAreWholeWhenStderrIsTheSameStream(t *testing.T) {
	var stream slowStream
	e := task.NewExecutor(
		task.WithDir("testdata/c17_prefixed_2to1"),
		task.WithStdout(&stream),
		task.WithStderr(&stream),
	)
	require.NoError(t, e.Setup())
	require.NoError(t, e.Run(context.Background(), &task.Call{Task: "default"}))

	whole := regexp.MustCompile(`^(\[(a|b)\] line \d+ of (a|b)|task: \[(a|b)\] echo "line \d+ of (a|b)")$`)
	for _, line := range strings.Split(strings.TrimSuffix(stream.sb.String(), "\n"), "\n") {
		assert.Regexp(t, whole, line)
	}
}
