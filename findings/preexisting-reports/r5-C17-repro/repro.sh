#!/bin/sh
# usage: repro.sh /path/to/task-binary   (run from this directory)
T=$1
for o in interleaved group prefixed; do echo "== -o $o bg"; timeout -s KILL 20 "$T" -o $o bg 2>&1; done
echo "== -o prefixed bg-partial"; timeout -s KILL 20 "$T" -o prefixed bg-partial 2>&1
for o in group prefixed; do echo "== -o $o devstderr, real stderr discarded"; timeout -s KILL 20 "$T" -o $o devstderr 2>/dev/null; done
