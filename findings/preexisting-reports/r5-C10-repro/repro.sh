#!/usr/bin/env bash
# Usage: repro.sh <WT>   (unchanged tree). Prints the observed lines; see PREEXISTING.md for the expected ones.
set -eu
WT=${1:?worktree}
export GOFLAGS=-mod=mod GOPROXY=off GOSUMDB=off GOTOOLCHAIN=local
TMP=$(mktemp -d)
( cd "$WT" && go build -o "$TMP/task" ./cmd/task )

mkdir -p "$TMP/p1" "$TMP/p2"
cat > "$TMP/p1/Taskfile.yml" <<'Y'
version: '3'
vars:
  G: file
  D:
    sh: echo dyn
includes:
  inc:
    taskfile: ./inc.yml
    vars:
      X: "{{.G}}"
      Y: "{{.D}}"
Y
cat > "$TMP/p1/inc.yml" <<'Y'
version: '3'
tasks:
  show:
    cmds:
      - echo "X={{.X}} Y={{.Y}} G={{.G}}"
Y
echo "--- 1: include-statement vars are templated when the Taskfile is read"
( cd "$TMP/p1" && timeout -s KILL 30 "$TMP/task" -s inc:show 2>/dev/null )
( cd "$TMP/p1" && timeout -s KILL 30 "$TMP/task" -s inc:show G=cli 2>/dev/null )

cat > "$TMP/p2/Taskfile.yml" <<'Y'
version: '3'
dotenv: ['.env']
vars:
  X:
    sh: echo "got:$FROM_DOTENV"
tasks:
  a:
    vars:
      FOO: a
      Y:
        sh: echo "foo:$FOO"
    cmds:
      - echo "a X={{.X}} Y={{.Y}}"
      - task: b
  b:
    vars:
      FOO: b
      Y:
        sh: echo "foo:$FOO"
    cmds:
      - echo "b X={{.X}} Y={{.Y}}"
Y
echo "FROM_DOTENV=hello" > "$TMP/p2/.env"
echo "--- 2+3: dynamic variable cache"
( cd "$TMP/p2" && timeout -s KILL 30 "$TMP/task" -s a 2>/dev/null )
rm -rf "$TMP"
