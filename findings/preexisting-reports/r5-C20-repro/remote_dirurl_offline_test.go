package task_test

import (
	"bytes"
	"context"
	"net/http"
	"net/http/httptest"
	"os"
	"path/filepath"
	"testing"
	"time"

	"github.com/stretchr/testify/require"

	"github.com/go-task/task/v3"
	"github.com/go-task/task/v3/internal/experiments"
)

// A remote Taskfile given as a directory URL WITHOUT a trailing slash
// (http://host/first) that includes a sibling by a relative path.
// Online: everything is downloaded, approved (--yes) and cached.
// Offline: the cached copies must be enough to run the very same task.
func TestPreexistingDirURLRelativeIncludeOffline(t *testing.T) {
	prev := experiments.RemoteTaskfiles
	experiments.RemoteTaskfiles = experiments.Experiment{Name: prev.Name, AllowedValues: []int{1}, Value: 1}
	t.Cleanup(func() { experiments.RemoteTaskfiles = prev })

	mux := http.NewServeMux()
	serve := func(body string) http.HandlerFunc {
		return func(w http.ResponseWriter, r *http.Request) {
			w.Header().Set("Content-Type", "text/yaml")
			_, _ = w.Write([]byte(body))
		}
	}
	mux.HandleFunc("/first/Taskfile.yml", serve("version: '3'\nincludes:\n  second: ./second/Taskfile.yml\n"))
	mux.HandleFunc("/first/second/Taskfile.yml", serve("version: '3'\ntasks:\n  hello:\n    cmds:\n      - echo hello-from-second\n"))
	srv := httptest.NewServer(mux)
	defer srv.Close()

	dir := t.TempDir()
	require.NoError(t, os.WriteFile(filepath.Join(dir, "Taskfile.yml"),
		[]byte("version: '3'\nincludes:\n  first: "+srv.URL+"/first\n"), 0o644))

	run := func(opts ...task.ExecutorOption) (string, error) {
		var buff bytes.Buffer
		e := task.NewExecutor(append([]task.ExecutorOption{
			task.WithDir(dir),
			task.WithStdout(&buff),
			task.WithStderr(&buff),
			task.WithInsecure(true),
			task.WithTimeout(time.Minute),
		}, opts...)...)
		if err := e.Setup(); err != nil {
			return buff.String(), err
		}
		err := e.Run(context.Background(), &task.Call{Task: "first:second:hello"})
		return buff.String(), err
	}

	out, err := run(task.WithAssumeYes(true))
	require.NoError(t, err, out)
	require.Contains(t, out, "hello-from-second")

	out, err = run(task.WithOffline(true))
	require.NoError(t, err, "offline run after an approved online run: %s", out)
	require.Contains(t, out, "hello-from-second")
}
