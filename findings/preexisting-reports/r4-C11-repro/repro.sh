#!/bin/sh
# usage: repro.sh /path/to/task-binary   (built from the UNCHANGED tree)
TASK=${1:?path to task binary}
D=$(mktemp -d); trap 'rm -rf "$D"' EXIT
cp "$(dirname "$0")/Taskfile.yml" "$D/"; mkdir -p "$D/a" "$D/b"; cd "$D" || exit 1
run() { timeout -s KILL 20 "$TASK" -s "$@" 2>&1 | grep -v conda; }
echo "--- b alone:";        run b
echo "--- a then b:";       run a b
echo "--- eb alone:";       run eb
echo "--- ea then eb:";     run ea eb
echo "--- t V=1, t V=2 (when_changed):"; run w
