package task_test

import (
	"bytes"
	"context"
	"os"
	"path/filepath"
	"strings"
	"testing"

	"github.com/stretchr/testify/require"

	"github.com/go-task/task/v3"
)

// PRE-EXISTING (fails on the unchanged tree): with method timestamp an edit
// that lands within one kernel timer tick after a check of the task is never
// noticed. The checker stamps its state file with time.Now() (fine-grained
// clock), while the kernel stamps the edited file with its coarse clock, which
// may lag up to a tick (1-10 ms) behind: the edited source ends up OLDER than
// the state file. Every later check re-touches the state file, so the edit is
// lost for good.
func TestC05PreexistingTimestampTick(t *testing.T) {
	dir := t.TempDir()
	require.NoError(t, os.WriteFile(filepath.Join(dir, "Taskfile.yml"), []byte(`
version: '3'
method: timestamp
tasks:
  build:
    sources: [in.txt]
    cmds:
      - echo ran >> runs.log
`), 0o644))
	in := filepath.Join(dir, "in.txt")
	require.NoError(t, os.WriteFile(in, []byte("v1\n"), 0o644))

	build := func() int {
		var buff bytes.Buffer
		e := task.NewExecutor(task.WithDir(dir), task.WithStdout(&buff), task.WithStderr(&buff))
		require.NoError(t, e.Setup())
		require.NoError(t, e.Run(context.Background(), &task.Call{Task: "build"}))
		data, _ := os.ReadFile(filepath.Join(dir, "runs.log"))
		return strings.Count(string(data), "ran\n")
	}
	require.Equal(t, 1, build())
	require.Equal(t, 1, build())
	require.NoError(t, os.WriteFile(in, []byte("v2\n"), 0o644)) // right after the check
	require.Equal(t, 2, build(), "the edit of in.txt must run the task again")
}
