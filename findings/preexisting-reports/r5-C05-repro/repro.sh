#!/usr/bin/env bash
# Reproduces pre-existing (UNCHANGED tree) violations of property C05.
# usage: repro.sh <WT>       (builds <WT>/cmd/task into a temp dir)
set -u
export GOFLAGS=-mod=mod GOPROXY=off GOSUMDB=off GOTOOLCHAIN=local NO_COLOR=1
WT=${1:?worktree}
W=$(mktemp -d)
(cd "$WT" && go build -o "$W/task" ./cmd/task) 2>/dev/null || { echo "build failed"; exit 2; }
run() { timeout -s KILL 30 "$W/task" "$@" 2>&1 | grep -v -i conda; }
bad=0
expect_ran() { # $1 = label, rest = output
  if grep -q RAN <<<"$2"; then echo "ok   : $1"; else echo "STALE: $1  ->  $2"; bad=$((bad+1)); fi
}

# P1 project directory whose name contains a glob metacharacter
d="$W/proj[1]"; mkdir -p "$d/src"; cd "$d"
printf "version: '3'\ntasks:\n  build:\n    sources: ['src/*.txt']\n    cmds: ['echo RAN']\n" > Taskfile.yml
echo one > src/a.txt; run build >/dev/null; run build >/dev/null; echo two > src/a.txt
expect_ran "P1 edit of src/a.txt in a project dir named 'proj[1]'" "$(run build)"

# P1b project directory whose name contains '$'
d="$W/my\$HOME"; mkdir -p "$d/src"; cd "$d"
printf "version: '3'\ntasks:\n  build:\n    sources: ['src/*.txt']\n    cmds: ['echo RAN']\n" > Taskfile.yml
echo one > src/a.txt; run build >/dev/null; run build >/dev/null; echo two > src/a.txt
expect_ran "P1b edit of src/a.txt in a project dir named 'my\$HOME'" "$(run build)"

# P2 name and content are hashed back to back without a separator
d="$W/p2"; mkdir -p "$d/s"; cd "$d"
printf "version: '3'\ntasks:\n  build:\n    sources: ['s/*']\n    cmds: ['echo RAN']\n" > Taskfile.yml
printf 'b' > s/a; run build >/dev/null; run build >/dev/null; rm s/a; : > s/ab
expect_ran "P2 s/a (content 'b') replaced by s/ab (empty)" "$(run build)"

# P3 one alternative of a brace expression in generates is missing
d="$W/p3"; mkdir -p "$d"; cd "$d"
printf "version: '3'\ntasks:\n  build:\n    sources: ['in.txt']\n    generates: ['out/{a,b}.txt']\n    cmds:\n      - mkdir -p out && cp in.txt out/a.txt && cp in.txt out/b.txt && echo RAN\n" > Taskfile.yml
echo 1 > in.txt; run build >/dev/null; run build >/dev/null; rm out/a.txt
expect_ran "P3 generated out/a.txt removed (generates: out/{a,b}.txt)" "$(run build)"

# P4 all instances of a wildcard task share one state file (method timestamp)
d="$W/p4"; mkdir -p "$d/a" "$d/b"; cd "$d"
printf "version: '3'\nmethod: timestamp\ntasks:\n  build-*:\n    vars:\n      T: '{{index .MATCH 0}}'\n    sources: ['{{.T}}/*.txt']\n    cmds:\n      - echo RAN {{.T}}\n" > Taskfile.yml
echo 1 > a/x.txt; echo 1 > b/x.txt; sleep 0.1; run build-a >/dev/null
expect_ran "P4 build-b has never run, but build-a has" "$(run build-b)"

# P5 a symlink loop next to the sources drops the whole pattern
d="$W/p5"; mkdir -p "$d/src"; cd "$d"
printf "version: '3'\ntasks:\n  build:\n    sources: ['src/*']\n    cmds: ['echo RAN']\n" > Taskfile.yml
echo 1 > src/a.txt; ln -s loop src/loop; run build >/dev/null; run build >/dev/null; echo 2 > src/a.txt
expect_ran "P5 edit of src/a.txt while src/loop -> loop exists" "$(run build)"

# P6 method timestamp: removing or renaming (mv keeps the mtime) a source goes unnoticed
d="$W/p6"; mkdir -p "$d/src"; cd "$d"
printf "version: '3'\nmethod: timestamp\ntasks:\n  build:\n    sources: ['src/*.txt']\n    cmds: ['echo RAN']\n" > Taskfile.yml
echo 1 > src/a.txt; echo 1 > src/b.txt; sleep 0.1; run build >/dev/null; run build >/dev/null; rm src/b.txt
expect_ran "P6 removal of src/b.txt (method timestamp)" "$(run build)"
mv src/a.txt src/c.txt
expect_ran "P6 rename src/a.txt -> src/c.txt (method timestamp)" "$(run build)"

rm -rf "$W"
echo "$bad stale result(s)"
