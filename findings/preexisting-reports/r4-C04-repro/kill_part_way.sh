#!/bin/sh
# usage: preexisting_kill.sh /path/to/task-binary
# Exit status 1 = property violated (task skipped after a killed attempt), 0 = fine
TASK=${1:?path to task binary}
D=$(mktemp -d)
cd "$D" || exit 2
for METHOD in checksum timestamp; do
mkdir $METHOD && cd $METHOD
cat > Taskfile.yml <<EOT
version: '3'
tasks:
  build:
    method: $METHOD
    sources: [src.txt]
    cmds:
      - echo one > one.txt
      - sleep 5
      - echo two > two.txt
EOT
echo v1 > src.txt
# killed (SIGKILL) while the second command runs
timeout -s KILL 2 "$TASK" build >/dev/null 2>&1
echo "[$METHOD] after kill: one.txt=$(test -f one.txt && echo yes || echo no) two.txt=$(test -f two.txt && echo yes || echo no)"
OUT=$("$TASK" build 2>&1 | grep -v -i conda)
echo "[$METHOD] second run says: $OUT"
if [ ! -f two.txt ]; then echo "[$METHOD] VIOLATION: task skipped although its last attempt was killed part-way"; RC=1; fi
cd ..
done
exit ${RC:-0}
