#!/bin/sh
# usage: same_task_other_instance.sh /path/to/task-binary
# Shows two pre-existing cases in which an instance of a task that has never run is skipped
TASK=${1:?path to task binary}
D=$(mktemp -d); cd "$D" || exit 2
cat > Taskfile.yml <<'EOT'
version: '3'
tasks:
  build:
    method: timestamp
    label: 'build-{{.TARGET}}'
    sources: [src.txt]
    cmds:
      - cat src.txt > out-{{.TARGET}}.txt
  build-*:
    vars:
      TARGET: '{{index .MATCH 0}}'
    sources: [src.txt]
    cmds:
      - cat src.txt > wild-{{.TARGET}}.txt
EOT
echo v1 > src.txt
"$TASK" build TARGET=a 2>&1 | grep -v -i conda
"$TASK" build TARGET=b 2>&1 | grep -v -i conda   # prints: Task "build-b" is up to date
test -f out-b.txt || echo "VIOLATION 1: build-b (method timestamp, own label) skipped, never ran"
"$TASK" build-x 2>&1 | grep -v -i conda
"$TASK" build-y 2>&1 | grep -v -i conda          # prints: Task "build-*" is up to date
test -f wild-y.txt || echo "VIOLATION 2: build-y (wildcard task) skipped, never ran"
