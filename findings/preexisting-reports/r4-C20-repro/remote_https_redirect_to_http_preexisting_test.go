package task_test

import (
	"bytes"
	"crypto/tls"
	"net/http"
	"net/http/httptest"
	"os"
	"path/filepath"
	"sync/atomic"
	"testing"
	"time"

	"github.com/stretchr/testify/require"

	"github.com/go-task/task/v3"
	"github.com/go-task/task/v3/internal/experiments"
)

// Pre-existing: an https:// include that redirects to a plain http:// URL is
// followed and its contents are fetched over plain http although --insecure
// was not given.
func TestPreexistingHTTPSRedirectsToHTTP(t *testing.T) {
	enableExperimentForTest(t, &experiments.RemoteTaskfiles, 1)

	var plainGets atomic.Int32
	plain := httptest.NewServer(http.HandlerFunc(func(w http.ResponseWriter, r *http.Request) {
		if r.Method == http.MethodGet {
			plainGets.Add(1)
		}
		w.Header().Set("Content-Type", "text/yaml")
		_, _ = w.Write([]byte("version: '3'\n\ntasks:\n  hello:\n    cmds:\n      - echo hi\n"))
	}))
	defer plain.Close()

	secure := httptest.NewTLSServer(http.HandlerFunc(func(w http.ResponseWriter, r *http.Request) {
		http.Redirect(w, r, plain.URL+"/Taskfile.yml", http.StatusFound)
	}))
	defer secure.Close()

	// make http.DefaultClient trust the test certificate
	tr := http.DefaultTransport.(*http.Transport)
	prev := tr.TLSClientConfig
	tr.TLSClientConfig = &tls.Config{RootCAs: secure.Client().Transport.(*http.Transport).TLSClientConfig.RootCAs}
	t.Cleanup(func() { tr.TLSClientConfig = prev; tr.CloseIdleConnections() })

	dir := t.TempDir()
	root := "version: '3'\n\nincludes:\n  first: " + secure.URL + "/Taskfile.yml\n"
	require.NoError(t, os.WriteFile(filepath.Join(dir, "Taskfile.yml"), []byte(root), 0o644))

	var buff bytes.Buffer
	e := task.NewExecutor(
		task.WithDir(dir),
		task.WithStdout(&buff),
		task.WithStderr(&buff),
		task.WithInsecure(false),
		task.WithAssumeYes(true),
		task.WithTimeout(5*time.Second),
	)
	err := e.Setup()
	t.Logf("setup error: %v, output: %s", err, buff.String())
	require.Zero(t, plainGets.Load(), "the Taskfile was downloaded over plain http without --insecure")
}
