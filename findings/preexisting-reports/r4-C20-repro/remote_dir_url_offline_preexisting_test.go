package task_test

import (
	"bytes"
	"context"
	"net/http"
	"net/http/httptest"
	"os"
	"path/filepath"
	"testing"
	"time"

	"github.com/stretchr/testify/require"

	"github.com/go-task/task/v3"
	"github.com/go-task/task/v3/internal/experiments"
)

// Pre-existing: a remote include given as a "directory" URL without a trailing
// slash (https://host/first — Task appends Taskfile.yml itself) whose Taskfile
// includes another one with a relative path works online, but after everything
// was downloaded and approved it is NOT runnable from the cache.
func TestPreexistingRemoteDirURLOffline(t *testing.T) {
	enableExperimentForTest(t, &experiments.RemoteTaskfiles, 1)

	files := map[string]string{
		"/first/Taskfile.yml":        "version: '3'\n\nincludes:\n  second: ./second/Taskfile.yml\n\ntasks:\n  hello:\n    cmds:\n      - echo \"hello from first\"\n",
		"/first/second/Taskfile.yml": "version: '3'\n\ntasks:\n  hello:\n    cmds:\n      - echo \"hello from second\"\n",
	}
	srv := httptest.NewServer(http.HandlerFunc(func(w http.ResponseWriter, r *http.Request) {
		content, ok := files[r.URL.Path]
		if !ok {
			http.NotFound(w, r)
			return
		}
		w.Header().Set("Content-Type", "text/yaml")
		_, _ = w.Write([]byte(content))
	}))
	defer srv.Close()

	dir := t.TempDir()
	root := "version: '3'\n\nincludes:\n  first: " + srv.URL + "/first\n"
	require.NoError(t, os.WriteFile(filepath.Join(dir, "Taskfile.yml"), []byte(root), 0o644))

	run := func(opts ...task.ExecutorOption) (string, error) {
		var buff bytes.Buffer
		e := task.NewExecutor(append([]task.ExecutorOption{
			task.WithDir(dir),
			task.WithStdout(&buff),
			task.WithStderr(&buff),
			task.WithInsecure(true),
			task.WithTimeout(5 * time.Second),
			task.WithSilent(true),
		}, opts...)...)
		if err := e.Setup(); err != nil {
			return buff.String(), err
		}
		err := e.Run(context.Background(), &task.Call{Task: "first:hello"}, &task.Call{Task: "first:second:hello"})
		return buff.String(), err
	}

	out, err := run(task.WithAssumeYes(true))
	require.NoError(t, err, out)
	require.Contains(t, out, "hello from second")

	out, err = run(task.WithOffline(true))
	require.NoError(t, err, "offline run after approved download failed: %s", out)
	require.Contains(t, out, "hello from second")
}
