#!/bin/bash
# usage: repro.sh <WT>     (unchanged tree) — prints three VIOLATION lines on the unchanged tree
export GOFLAGS=-mod=mod GOPROXY=off GOSUMDB=off GOTOOLCHAIN=local
WT=${1:?worktree}
BIN=$(mktemp -d)/task
(cd "$WT" && go build -o "$BIN" ./cmd/task) 2>/dev/null || exit 2
D=$(mktemp -d); cd "$D" || exit 2
cat > Taskfile.yml <<'YML'
version: '3'
tasks:
  killed:
    sources: [src.txt]
    cmds:
      - echo one >> killed.log
      - sleep 5
      - echo two >> killed.log
  build-*:
    sources: [src.txt]
    cmds:
      - echo built {{index .MATCH 0}} >> wild.log
  ts:
    method: timestamp
    sources: ['{{.T}}.txt']
    cmds:
      - echo ts {{.T}} >> ts.log
YML
echo hi > src.txt; echo a > a.txt; echo b > b.txt; sleep 1.1

# 1. killed part-way (SIGKILL during the second command)
"$BIN" killed >/dev/null 2>&1 &
pid=$!
sleep 1.5; kill -KILL $pid; wait $pid 2>/dev/null
out=$(timeout -s KILL 20 "$BIN" killed 2>&1)
echo "$out" | grep -q 'up to date' && echo "VIOLATION 1: killed part-way, next run says: $out  (log: $(tr '\n' ' ' < killed.log))"

# 2. wildcard task: build-a ran, build-b never did
timeout -s KILL 20 "$BIN" build-a >/dev/null 2>&1
out=$(timeout -s KILL 20 "$BIN" build-b 2>&1)
echo "$out" | grep -q 'up to date' && echo "VIOLATION 2: build-b never ran, yet: $out  (log: $(tr '\n' ' ' < wild.log))"

# 3. method timestamp, sources depend on a variable
timeout -s KILL 20 "$BIN" ts T=a >/dev/null 2>&1
out=$(timeout -s KILL 20 "$BIN" ts T=b 2>&1)
echo "$out" | grep -q 'up to date' && echo "VIOLATION 3: 'ts T=b' never ran, yet: $out  (log: $(tr '\n' ' ' < ts.log))"
