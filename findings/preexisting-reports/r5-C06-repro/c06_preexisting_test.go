package task_test

import (
	"bytes"
	"context"
	"testing"

	"github.com/stretchr/testify/assert"
	"github.com/stretchr/testify/require"

	"github.com/go-task/task/v3"
)

// Every entry calls a run: when_changed task twice, with X=a and with X=b.
// These are two distinct sets of variable values: the task must execute twice.
// On the unchanged tree each of them executes once (only "ran a" is printed).
func TestC06PreexistingWhenChangedHiddenVars(t *testing.T) {
	t.Parallel()

	for _, target := range []string{"env-only", "subcall-cmd", "subcall-dep", "deferred", "dynamic-env"} {
		t.Run(target, func(t *testing.T) {
			t.Parallel()

			var buff bytes.Buffer
			e := task.NewExecutor(
				task.WithDir("testdata/run_when_changed_hidden_vars"),
				task.WithStdout(&buff),
				task.WithStderr(&buff),
				task.WithSilent(true),
			)
			require.NoError(t, e.Setup())
			require.NoError(t, e.Run(context.Background(), &task.Call{Task: target}))

			assert.Contains(t, buff.String(), "ran a")
			assert.Contains(t, buff.String(), "ran b")
		})
	}
}
