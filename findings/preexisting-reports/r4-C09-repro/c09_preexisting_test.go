package task_test

import (
	"bytes"
	"context"
	"fmt"
	"net/http"
	"net/http/httptest"
	"os"
	"path/filepath"
	"strings"
	"testing"
	"time"

	"github.com/go-task/task/v3"
	"github.com/go-task/task/v3/internal/experiments"
)

// PREEXISTING 1: a remote (HTTP) Taskfile that is included by two local
// Taskfiles (a diamond) resolves the relative `dir` of ITS OWN includes
// against the directory of "its parent" (HTTPNode.ResolveDir uses
// node.Parent().Dir()). The node of the shared Taskfile is created by
// whichever including goroutine gets there first, so the parent, and with it
// the directory in which the tasks of the nested include run, depends on the
// scheduling of the reader goroutines.
func TestC09PreexistingRemoteDiamondDir(t *testing.T) {
	enableExperimentForTest(t, &experiments.RemoteTaskfiles, 1)

	remote := t.TempDir()
	local := t.TempDir()
	write := func(base, name, content string) {
		t.Helper()
		path := filepath.Join(base, name)
		if err := os.MkdirAll(filepath.Dir(path), 0o755); err != nil {
			t.Fatal(err)
		}
		if err := os.WriteFile(path, []byte(content), 0o644); err != nil {
			t.Fatal(err)
		}
	}
	srv := httptest.NewServer(http.FileServer(http.Dir(remote)))
	defer srv.Close()

	write(remote, "shared.yml", "version: '3'\nincludes:\n  leaf:\n    taskfile: ./leaf.yml\n    dir: work\n")
	write(remote, "leaf.yml", "version: '3'\ntasks:\n  where:\n    cmds:\n      - pwd\n")

	const parents = 4
	var root strings.Builder
	root.WriteString("version: '3'\nincludes:\n")
	for i := 1; i <= parents; i++ {
		fmt.Fprintf(&root, "  p%d:\n    taskfile: ./p%d/Taskfile.yml\n    dir: ./p%d\n", i, i, i)
		write(local, fmt.Sprintf("p%d/Taskfile.yml", i), "version: '3'\nincludes:\n  shared: "+srv.URL+"/shared.yml\n")
	}
	write(local, "Taskfile.yml", root.String())

	results := map[string]int{}
	const loads = 40
	for range loads {
		var out bytes.Buffer
		e := task.NewExecutor(
			task.WithDir(local),
			task.WithStdout(&out),
			task.WithStderr(&out),
			task.WithSilent(true),
			task.WithTimeout(time.Minute),
			task.WithInsecure(true),
			task.WithAssumeYes(true),
			task.WithDownload(true),
			task.WithTempDir(task.TempDir{Remote: filepath.Join(local, ".task"), Fingerprint: filepath.Join(local, ".task")}),
		)
		if err := e.Setup(); err != nil {
			t.Fatalf("setup: %v", err)
		}
		if err := e.Run(context.Background(), &task.Call{Task: "p1:shared:leaf:where"}); err != nil {
			t.Fatalf("run: %v\n%s", err, out.String())
		}
		rel, _ := filepath.Rel(local, strings.TrimSpace(out.String()))
		results[rel]++
	}
	if len(results) != 1 {
		t.Errorf("p1:shared:leaf:where ran in %d different directories over %d loads: %v", len(results), loads, results)
	}
}

// PREEXISTING 2: the cache of dynamic variables is keyed by the command only,
// not by the directory it runs in. Two tasks with another `dir` and the same
// `sh` variable get the value of whichever task is compiled first; when they
// run in parallel (deps) that is decided by goroutine scheduling.
func TestC09PreexistingDynamicVarCacheIgnoresDir(t *testing.T) {
	dir := t.TempDir()
	taskfile := `version: '3'
tasks:
  default:
    deps: [a, b]
  a:
    dir: a
    vars:
      HERE: {sh: pwd}
    cmds:
      - echo "a={{base .HERE}}"
  b:
    dir: b
    vars:
      HERE: {sh: pwd}
    cmds:
      - echo "b={{base .HERE}}"
`
	for _, d := range []string{"a", "b"} {
		if err := os.MkdirAll(filepath.Join(dir, d), 0o755); err != nil {
			t.Fatal(err)
		}
	}
	if err := os.WriteFile(filepath.Join(dir, "Taskfile.yml"), []byte(taskfile), 0o644); err != nil {
		t.Fatal(err)
	}

	results := map[string]int{}
	const loads = 60
	for range loads {
		var out SyncBuffer
		e := task.NewExecutor(
			task.WithDir(dir),
			task.WithStdout(&out),
			task.WithStderr(&out),
			task.WithSilent(true),
		)
		if err := e.Setup(); err != nil {
			t.Fatalf("setup: %v", err)
		}
		if err := e.Run(context.Background(), &task.Call{Task: "default"}); err != nil {
			t.Fatalf("run: %v", err)
		}
		lines := strings.Fields(out.buf.String())
		// the two tasks run in parallel: ignore the interleaving
		if len(lines) == 2 && lines[0] > lines[1] {
			lines[0], lines[1] = lines[1], lines[0]
		}
		results[strings.Join(lines, " ")]++
	}
	if len(results) != 1 || results["a=a b=b"] != loads {
		t.Errorf("want 'a=a b=b' for all %d loads, got %v", loads, results)
	}
}
