#!/usr/bin/env bash
# Usage: repro.sh <path-to-clean-worktree>
# Builds the task binary from the unchanged tree and shows five behaviours that
# contradict property C08 without any seeded change.
set -u
export GOFLAGS=-mod=mod GOPROXY=off GOSUMDB=off GOTOOLCHAIN=local
WT=${1:?worktree}
W=$(mktemp -d)
trap 'rm -rf "$W"' EXIT
(cd "$WT" && go build -o "$W/task" ./cmd/task) || exit 2
T="$W/task"
run() { (cd "$1" && shift && timeout -s KILL 30 "$T" -s "$@" 2>&1); }

# ---------------------------------------------------------------- case 1 + 2 + 4
D="$W/p1"; mkdir -p "$D/b/c"
cat > "$D/Taskfile.yml" <<'Y'
version: '3'
includes:
  b:
    taskfile: ./b/Taskfile.yml
    dir: ./b
  f:
    taskfile: ./flat.yml
    flatten: true
tasks:
  hello:
    cmds: [echo root-hello]
Y
cat > "$D/flat.yml" <<'Y'
version: '3'
tasks:
  flat-calls-root:
    cmds:
      - task: :hello
Y
cat > "$D/b/Taskfile.yml" <<'Y'
version: '3'
includes:
  c:
    taskfile: ./c/Taskfile.yml
    dir: ./c
tasks:
  hello:
    cmds: [echo b-hello]
Y
cat > "$D/b/c/Taskfile.yml" <<'Y'
version: '3'
vars:
  WHERE:
    sh: basename "$(pwd)"
tasks:
  callroot:
    cmds:
      - task: :hello
  where:
    cmds:
      - echo "WHERE={{.WHERE}} pwd=$(basename "$(pwd)")"
Y
echo "== 1. ':'-reference inside a flattened include (want: root-hello)"
run "$D" flat-calls-root
echo "== 2. ':'-reference two levels deep (want: root-hello)"
run "$D" b:c:callroot
echo "== 4. dynamic global var of a nested include with dir (want: WHERE=c pwd=c)"
run "$D" b:c:where

# ---------------------------------------------------------------- case 3 + 5
D="$W/p2"; mkdir -p "$D/one" "$D/two" "$D/lib"
cat > "$D/Taskfile.yml" <<'Y'
version: '3'
includes:
  one:
    taskfile: ./lib/Taskfile.yml
    dir: ./one
    aliases: [o]
  two:
    taskfile: ./lib/Taskfile.yml
    dir: ./two
Y
cat > "$D/lib/Taskfile.yml" <<'Y'
version: '3'
vars:
  WHERE:
    sh: basename "$(pwd)"
tasks:
  where:
    cmds:
      - echo "WHERE={{.WHERE}} pwd=$(basename "$(pwd)")"
  build-*:
    cmds:
      - echo "building {{index .MATCH 0}}"
Y
echo "== 3. same file included twice with different dir (want: WHERE=one pwd=one)"
run "$D" one:where
echo "== 5. wildcard task through a namespace alias (want both: building x)"
run "$D" one:build-x
run "$D" o:build-x
