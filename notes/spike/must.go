//go:build ignore

package main

import (
	"go/ast"
	"go/token"
	"go/types"
	"sort"
	"strings"

	"golang.org/x/tools/go/cfg"
	"golang.org/x/tools/go/types/typeutil"
)

// ---- must-dataflow over go/cfg ----

type Facts map[string]bool // nil = TOP (unreached)

func (f Facts) clone() Facts {
	if f == nil {
		return nil
	}
	c := make(Facts, len(f))
	for k := range f {
		c[k] = true
	}
	return c
}

func meet(a, b Facts) Facts {
	if a == nil {
		return b.clone()
	}
	if b == nil {
		return a.clone()
	}
	c := Facts{}
	for k := range a {
		if b[k] {
			c[k] = true
		}
	}
	return c
}

func equal(a, b Facts) bool {
	if (a == nil) != (b == nil) || len(a) != len(b) {
		return false
	}
	for k := range a {
		if !b[k] {
			return false
		}
	}
	return true
}

func (f Facts) String() string {
	var ks []string
	for k := range f {
		ks = append(ks, k)
	}
	sort.Strings(ks)
	return "{" + strings.Join(ks, ", ") + "}"
}

// Labeler names the calls a rule cares about ("" = ignore).
type Labeler func(call *ast.CallExpr, callee types.Object) string

type Must struct {
	fb    *FuncBody
	info  *types.Info
	g     *cfg.CFG
	label Labeler
	// results
	AtCall   map[*ast.CallExpr]Facts // facts holding just before the call is made
	AtReturn map[*ast.ReturnStmt]Facts
	AtDefer  map[*ast.DeferStmt]Facts
	Exit     Facts // facts at implicit fallthrough end
}

// def facts are encoded as "def:<varname>@<pos>=<label>"; cleared on reassignment.
func defPrefix(v *types.Var) string { return "def:" + v.Name() + "#" + itoa(int(v.Pos())) + "=" }

func itoa(i int) string {
	if i == 0 {
		return "0"
	}
	s := ""
	for i > 0 {
		s = string(rune('0'+i%10)) + s
		i /= 10
	}
	return s
}

func RunMust(fb *FuncBody, label Labeler) *Must {
	m := &Must{fb: fb, info: fb.Pkg.TypesInfo, label: label,
		AtCall: map[*ast.CallExpr]Facts{}, AtReturn: map[*ast.ReturnStmt]Facts{}, AtDefer: map[*ast.DeferStmt]Facts{}}
	m.g = cfg.New(fb.Body, func(*ast.CallExpr) bool { return true })
	n := len(m.g.Blocks)
	in := make([]Facts, n)
	in[0] = Facts{}
	type edge struct{ from, to int32 }
	out := map[edge]Facts{}
	work := []int32{0}
	inWork := map[int32]bool{0: true}
	preds := map[int32][]int32{}
	for _, b := range m.g.Blocks {
		for _, s := range b.Succs {
			preds[s.Index] = append(preds[s.Index], b.Index)
		}
	}
	for len(work) > 0 {
		bi := work[0]
		work = work[1:]
		inWork[bi] = false
		b := m.g.Blocks[bi]
		st := in[bi].clone()
		if st == nil {
			continue
		}
		var cond ast.Expr
		for i, node := range b.Nodes {
			isLast := i == len(b.Nodes)-1
			if isLast && len(b.Succs) == 2 {
				if e, ok := node.(ast.Expr); ok {
					cond = e
				}
			}
			m.transfer(node, st, true)
		}
		for si, s := range b.Succs {
			es := st.clone()
			if cond != nil && len(b.Succs) == 2 {
				t, f := m.condFacts(cond, st)
				add := t
				if si == 1 {
					add = f
				}
				for k := range add {
					es[k] = true
				}
			}
			e := edge{bi, s.Index}
			if old, ok := out[e]; ok && equal(old, es) {
				continue
			}
			out[e] = es
			// recompute in[s]
			var ni Facts
			for _, p := range preds[s.Index] {
				if o, ok := out[edge{p, s.Index}]; ok {
					ni = meet(ni, o)
				}
			}
			if !equal(ni, in[s.Index]) || in[s.Index] == nil {
				in[s.Index] = ni
				if !inWork[s.Index] {
					work = append(work, s.Index)
					inWork[s.Index] = true
				}
			}
		}
		if len(b.Succs) == 0 {
			// end of function without return statement
			hasRet := false
			for _, nd := range b.Nodes {
				if _, ok := nd.(*ast.ReturnStmt); ok {
					hasRet = true
				}
			}
			if !hasRet && b.Live {
				m.Exit = meet(m.Exit, st)
			}
		}
	}
	// final recording pass with converged in[]
	for _, b := range m.g.Blocks {
		st := in[b.Index].clone()
		if st == nil {
			continue
		}
		for _, node := range b.Nodes {
			m.transfer(node, st, false)
		}
	}
	return m
}

// transfer applies node effects to st. When !dry it records facts at events.
func (m *Must) transfer(node ast.Node, st Facts, dry bool) {
	switch s := node.(type) {
	case *ast.DeferStmt:
		// arguments evaluated now; the call itself later
		for _, a := range s.Call.Args {
			m.calls(a, st, dry)
		}
		if !dry {
			m.AtDefer[s] = meet(m.AtDefer[s], st)
		}
		if l := m.label(s.Call, typeutil.Callee(m.info, s.Call)); l != "" {
			st["deferred:"+l] = true
		}
		return
	case *ast.GoStmt:
		for _, a := range s.Call.Args {
			m.calls(a, st, dry)
		}
		return
	case *ast.ReturnStmt:
		m.calls(s, st, dry)
		if !dry {
			m.AtReturn[s] = meet(m.AtReturn[s], st)
		}
		return
	case *ast.AssignStmt:
		m.calls(s, st, dry)
		m.assign(s.Lhs, s.Rhs, st)
		return
	case *ast.ValueSpec:
		m.calls(s, st, dry)
		var lhs []ast.Expr
		for _, n := range s.Names {
			lhs = append(lhs, n)
		}
		m.assign(lhs, s.Values, st)
		return
	}
	m.calls(node, st, dry)
}

func (m *Must) assign(lhs, rhs []ast.Expr, st Facts) {
	// kill defs of assigned vars
	for _, l := range lhs {
		if id, ok := l.(*ast.Ident); ok {
			if v, ok := m.obj(id).(*types.Var); ok {
				p := defPrefix(v)
				for k := range st {
					if strings.HasPrefix(k, p) {
						delete(st, k)
					}
				}
			}
		}
	}
	// x, err := call(...)  /  err := call(...)
	if len(rhs) == 1 {
		if call, ok := ast.Unparen(rhs[0]).(*ast.CallExpr); ok {
			if l := m.label(call, typeutil.Callee(m.info, call)); l != "" {
				for _, lx := range lhs {
					if id, ok := lx.(*ast.Ident); ok && id.Name != "_" {
						if v, ok := m.obj(id).(*types.Var); ok {
							st[defPrefix(v)+l] = true
						}
					}
				}
			}
		}
	}
}

func (m *Must) obj(id *ast.Ident) types.Object {
	if o := m.info.Defs[id]; o != nil {
		return o
	}
	return m.info.Uses[id]
}

// calls visits call expressions in evaluation (post) order, skipping func literals.
func (m *Must) calls(node ast.Node, st Facts, dry bool) {
	var visit func(n ast.Node)
	visit = func(n ast.Node) {
		if n == nil {
			return
		}
		switch x := n.(type) {
		case *ast.FuncLit:
			return
		case *ast.CallExpr:
			visit(x.Fun)
			for _, a := range x.Args {
				visit(a)
			}
			if !dry {
				m.AtCall[x] = meet(m.AtCall[x], st)
			}
			if l := m.label(x, typeutil.Callee(m.info, x)); l != "" {
				st["called:"+l] = true
			}
			return
		}
		// generic children
		ast.Inspect(n, func(c ast.Node) bool {
			if c == n || c == nil {
				return true
			}
			visit(c)
			return false
		})
	}
	visit(node)
}

// condFacts returns the facts implied by cond being true / false.
func (m *Must) condFacts(cond ast.Expr, st Facts) (t, f Facts) {
	t, f = Facts{}, Facts{}
	cond = ast.Unparen(cond)
	switch c := cond.(type) {
	case *ast.UnaryExpr:
		if c.Op == token.NOT {
			a, b := m.condFacts(c.X, st)
			return b, a
		}
	case *ast.BinaryExpr:
		switch c.Op {
		case token.LAND:
			at, af := m.condFacts(c.X, st)
			bt, bf := m.condFacts(c.Y, st)
			for k := range at {
				t[k] = true
			}
			for k := range bt {
				t[k] = true
			}
			// false: a false, or (a true and b false)
			alt := Facts{}
			for k := range at {
				alt[k] = true
			}
			for k := range bf {
				alt[k] = true
			}
			for k := range af {
				if alt[k] {
					f[k] = true
				}
			}
			return t, f
		case token.LOR:
			at, af := m.condFacts(c.X, st)
			bt, bf := m.condFacts(c.Y, st)
			for k := range af {
				f[k] = true
			}
			for k := range bf {
				f[k] = true
			}
			alt := Facts{}
			for k := range af {
				alt[k] = true
			}
			for k := range bt {
				alt[k] = true
			}
			for k := range at {
				if alt[k] {
					t[k] = true
				}
			}
			return t, f
		case token.EQL, token.NEQ:
			x, y := ast.Unparen(c.X), ast.Unparen(c.Y)
			if isNil(m.info, y) {
				key := m.atomKey(x, st)
				if key != "" {
					if c.Op == token.NEQ {
						t["nonnil:"+key], f["nil:"+key] = true, true
					} else {
						t["nil:"+key], f["nonnil:"+key] = true, true
					}
				}
				return t, f
			}
		}
	}
	// leaf boolean atom
	if key := m.atomKey(cond, st); key != "" {
		t["true:"+key], f["false:"+key] = true, true
	}
	return t, f
}

func isNil(info *types.Info, e ast.Expr) bool {
	id, ok := e.(*ast.Ident)
	if !ok {
		return false
	}
	_, isNil := info.Uses[id].(*types.Nil)
	return isNil
}

// atomKey names a condition leaf: label of the defining/contained call, or access path.
func (m *Must) atomKey(e ast.Expr, st Facts) string {
	e = ast.Unparen(e)
	switch x := e.(type) {
	case *ast.CallExpr:
		if l := m.label(x, typeutil.Callee(m.info, x)); l != "" {
			return l
		}
		return ""
	case *ast.Ident:
		if v, ok := m.obj(x).(*types.Var); ok {
			p := defPrefix(v)
			for k := range st {
				if strings.HasPrefix(k, p) {
					return strings.TrimPrefix(k, p)
				}
			}
			return "var:" + v.Name()
		}
	case *ast.SelectorExpr:
		return "path:" + types.ExprString(x)
	}
	return ""
}
