//go:build ignore

package main

import (
	"fmt"
	"go/ast"
	"go/types"
	"strings"
)

func enumDemo(p *Prog) {
	lab := func(call *ast.CallExpr, callee types.Object) string {
		if callee == nil {
			return ""
		}
		switch callee.Name() {
		case "IsUpToDate", "NewSourcesChecker", "ReadContext", "ChecksumPrompt", "promptf", "WriteChecksum", "WriteTimestamp", "Write", "Read", "ReadTimestamp":
			return callee.Name()
		}
		return ""
	}
	show := func(fb *FuncBody, bound int) {
		e := RunEnum(fb, lab, bound, 200000)
		fmt.Printf("== %s: %d paths over=%v\n", fb.Name, len(e.Paths), e.Over)
		for _, pth := range e.Paths {
			var ev []string
			for _, x := range pth.Events {
				ev = append(ev, x.Kind+":"+x.Name)
			}
			var rf []string
			for i, f := range pth.RetF {
				if f != nil {
					rf = append(rf, f.fstr())
				} else {
					rf = append(rf, pth.RetS[i])
				}
			}
			fmt.Printf("  [%s] events=%s => return %s\n", pth.Atoms, strings.Join(ev, ","), strings.Join(rf, " ; "))
		}
	}
	show(p.Func(Mod+"/internal/fingerprint", "", "IsTaskUpToDate"), 1)
	show(p.Func(Mod, "Executor", "GetHash"), 1)
	fb := p.Func(Mod+"/taskfile", "Reader", "readRemoteNodeContent")
	show(fb, 1)
}
