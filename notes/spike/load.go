//go:build ignore

package main

import (
	"fmt"
	"go/ast"
	"go/token"
	"go/types"
	"path/filepath"
	"strings"

	"golang.org/x/tools/go/packages"
)

const Mod = "github.com/go-task/task/v3"

type Prog struct {
	Fset *token.FileSet
	Pkgs map[string]*packages.Package
}

func Load(dir string) (*Prog, error) {
	cfg := &packages.Config{Mode: packages.LoadAllSyntax, Dir: dir, Tests: false}
	pkgs, err := packages.Load(cfg, "./...")
	if err != nil {
		return nil, err
	}
	p := &Prog{Pkgs: map[string]*packages.Package{}}
	nerr := 0
	packages.Visit(pkgs, nil, func(pk *packages.Package) {
		if strings.HasPrefix(pk.PkgPath, Mod) {
			nerr += len(pk.Errors)
			p.Pkgs[pk.PkgPath] = pk
			p.Fset = pk.Fset
		}
	})
	if nerr > 0 || len(p.Pkgs) < 30 {
		return nil, fmt.Errorf("load: %d packages, %d errors", len(p.Pkgs), nerr)
	}
	return p, nil
}

// FuncBody is a function declaration or literal with its package.
type FuncBody struct {
	Pkg  *packages.Package
	Name string // e.g. (*Executor).RunTask or (*Executor).RunTask$1
	Decl *ast.FuncDecl
	Lit  *ast.FuncLit
	Body *ast.BlockStmt
	Type *ast.FuncType
}

// Method finds a method or function by "Recv.Name" / "Name" in a package.
func (p *Prog) Func(pkgPath, recv, name string) *FuncBody {
	pk := p.Pkgs[pkgPath]
	if pk == nil {
		return nil
	}
	for _, f := range pk.Syntax {
		for _, d := range f.Decls {
			fd, ok := d.(*ast.FuncDecl)
			if !ok || fd.Name.Name != name || fd.Body == nil {
				continue
			}
			r := ""
			if fd.Recv != nil && len(fd.Recv.List) > 0 {
				r = types.ExprString(fd.Recv.List[0].Type)
			}
			if strings.TrimPrefix(r, "*") == recv {
				n := name
				if r != "" {
					n = "(" + r + ")." + name
				}
				return &FuncBody{Pkg: pk, Name: n, Decl: fd, Body: fd.Body, Type: fd.Type}
			}
		}
	}
	return nil
}

// Lits returns the function literals directly nested in fb (not nested in other literals).
func (fb *FuncBody) Lits() []*FuncBody {
	var out []*FuncBody
	n := 0
	var visit func(node ast.Node) bool
	visit = func(node ast.Node) bool {
		if fl, ok := node.(*ast.FuncLit); ok && fl != fb.Lit {
			n++
			out = append(out, &FuncBody{Pkg: fb.Pkg, Name: fmt.Sprintf("%s$%d", fb.Name, n), Lit: fl, Body: fl.Body, Type: fl.Type})
			return false
		}
		return true
	}
	ast.Inspect(fb.Body, visit)
	return out
}

func (p *Prog) Pos(pos token.Pos) string {
	q := p.Fset.Position(pos)
	return fmt.Sprintf("%s:%d", filepath.Base(q.Filename), q.Line)
}
