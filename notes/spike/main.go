//go:build ignore

package main

import (
	"fmt"
	"go/ast"
	"go/types"
	"os"
	"sort"
)

func main() {
	dir := "/repo"
	if len(os.Args) > 1 {
		dir = os.Args[1]
	}
	p, err := Load(dir)
	if err != nil {
		fmt.Println("ERROR", err)
		os.Exit(2)
	}
	if len(os.Args) > 2 && os.Args[2] == "enum" {
		enumDemo(p)
		return
	}
	rt := p.Func(Mod, "Executor", "RunTask")
	lits := rt.Lits()
	body := lits[len(lits)-1]
	label := func(call *ast.CallExpr, callee types.Object) string {
		if callee == nil {
			return ""
		}
		switch callee.Name() {
		case "runDeps", "runCommand", "runDeferred", "statusOnError", "areTaskPreconditionsMet", "IsTaskUpToDate", "Prompt", "mkdir", "IsExitStatus", "shouldRunOnCurrentPlatform", "areTaskRequiredVarsSet", "areTaskRequiredVarsAllowedValuesSet", "startExecution", "acquireConcurrencyLimit", "CompiledTask", "FastCompiledTask":
			return callee.Name()
		}
		return ""
	}
	for _, fb := range []*FuncBody{rt, body} {
		m := RunMust(fb, label)
		fmt.Println("==", fb.Name)
		type row struct{ pos, what, facts string }
		var rows []row
		for c, f := range m.AtCall {
			if l := label(c, calleeOf(fb, c)); l != "" {
				rows = append(rows, row{p.Pos(c.Pos()), "call " + l, short(f)})
			}
		}
		for d, f := range m.AtDefer {
			rows = append(rows, row{p.Pos(d.Pos()), "defer " + types.ExprString(d.Call.Fun), short(f)})
		}
		for r, f := range m.AtReturn {
			res := ""
			for _, x := range r.Results {
				res += types.ExprString(x) + " "
			}
			rows = append(rows, row{p.Pos(r.Pos()), "return " + res, short(f)})
		}
		sort.Slice(rows, func(i, j int) bool { return rows[i].pos < rows[j].pos || rows[i].pos == rows[j].pos && rows[i].what < rows[j].what })
		for _, r := range rows {
			fmt.Printf("%-14s %-40s %s\n", r.pos, r.what, r.facts)
		}
	}
}

func calleeOf(fb *FuncBody, c *ast.CallExpr) types.Object {
	switch f := c.Fun.(type) {
	case *ast.SelectorExpr:
		return fb.Pkg.TypesInfo.Uses[f.Sel]
	case *ast.Ident:
		return fb.Pkg.TypesInfo.Uses[f]
	}
	return nil
}

func short(f Facts) string {
	g := Facts{}
	for k := range f {
		if len(k) > 4 && k[:4] == "def:" {
			continue
		}
		g[k] = true
	}
	return g.String()
}
