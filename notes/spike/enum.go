//go:build ignore

package main

import (
	"fmt"
	"go/ast"
	"go/constant"
	"go/token"
	"go/types"
	"sort"
	"strings"

	"golang.org/x/tools/go/cfg"
	"golang.org/x/tools/go/types/typeutil"
)

// ---- bounded path enumeration with boolean atoms ----

// Formula over atoms.
type Formula interface{ fstr() string }
type FConst bool
type FAtom string
type FNot struct{ X Formula }
type FAnd struct{ X, Y Formula }
type FOr struct{ X, Y Formula }

func (c FConst) fstr() string { return fmt.Sprint(bool(c)) }
func (a FAtom) fstr() string  { return string(a) }
func (n FNot) fstr() string   { return "!" + n.X.fstr() }
func (a FAnd) fstr() string   { return "(" + a.X.fstr() + " && " + a.Y.fstr() + ")" }
func (o FOr) fstr() string    { return "(" + o.X.fstr() + " || " + o.Y.fstr() + ")" }

type Assign map[string]bool

func (a Assign) clone() Assign {
	c := Assign{}
	for k, v := range a {
		c[k] = v
	}
	return c
}

func (a Assign) String() string {
	var ks []string
	for k, v := range a {
		s := k
		if !v {
			s = "!" + k
		}
		ks = append(ks, s)
	}
	sort.Strings(ks)
	return strings.Join(ks, " ")
}

// eval returns (value, known).
func eval(f Formula, a Assign) (bool, bool) {
	switch x := f.(type) {
	case FConst:
		return bool(x), true
	case FAtom:
		v, ok := a[string(x)]
		return v, ok
	case FNot:
		v, ok := eval(x.X, a)
		return !v, ok
	case FAnd:
		v1, k1 := eval(x.X, a)
		v2, k2 := eval(x.Y, a)
		if k1 && !v1 || k2 && !v2 {
			return false, true
		}
		return v1 && v2, k1 && k2
	case FOr:
		v1, k1 := eval(x.X, a)
		v2, k2 := eval(x.Y, a)
		if k1 && v1 || k2 && v2 {
			return true, true
		}
		return v1 || v2, k1 && k2
	}
	return false, false
}

func firstUnknown(f Formula, a Assign) string {
	switch x := f.(type) {
	case FAtom:
		if _, ok := a[string(x)]; !ok {
			return string(x)
		}
	case FNot:
		return firstUnknown(x.X, a)
	case FAnd:
		if v, k := eval(x.X, a); k && !v {
			return ""
		}
		if u := firstUnknown(x.X, a); u != "" {
			return u
		}
		return firstUnknown(x.Y, a)
	case FOr:
		if v, k := eval(x.X, a); k && v {
			return ""
		}
		if u := firstUnknown(x.X, a); u != "" {
			return u
		}
		return firstUnknown(x.Y, a)
	}
	return ""
}

// solve enumerates extensions of a (short-circuit order) that decide f.
func solve(f Formula, a Assign, emit func(Assign, bool)) {
	if v, ok := eval(f, a); ok {
		emit(a, v)
		return
	}
	u := firstUnknown(f, a)
	if u == "" {
		return
	}
	for _, val := range []bool{true, false} {
		b := a.clone()
		b[u] = val
		solve(f, b, emit)
	}
}

type Event struct {
	Kind string // call, defer, return, go
	Name string
	Node ast.Node
}

type Path struct {
	Atoms  Assign
	Events []Event
	Ret    *ast.ReturnStmt
	RetF   []Formula // boolean results as formulas (nil entries for others)
	RetS   []string  // printable results
}

type Enum struct {
	fb     *FuncBody
	info   *types.Info
	g      *cfg.CFG
	label  Labeler
	bound  int
	budget int
	Paths  []*Path
	Over   bool
}

type pstate struct {
	atoms  Assign
	env    map[*types.Var]Formula // symbolic bool vars
	ver    map[*types.Var]int
	events []Event
	visits map[int32]int
}

func (s *pstate) clone() *pstate {
	c := &pstate{atoms: s.atoms.clone(), env: map[*types.Var]Formula{}, ver: map[*types.Var]int{}, visits: map[int32]int{}}
	for k, v := range s.env {
		c.env[k] = v
	}
	for k, v := range s.ver {
		c.ver[k] = v
	}
	for k, v := range s.visits {
		c.visits[k] = v
	}
	c.events = append([]Event(nil), s.events...)
	return c
}

func RunEnum(fb *FuncBody, label Labeler, bound, budget int) *Enum {
	e := &Enum{fb: fb, info: fb.Pkg.TypesInfo, label: label, bound: bound, budget: budget}
	e.g = cfg.New(fb.Body, func(*ast.CallExpr) bool { return true })
	st := &pstate{atoms: Assign{}, env: map[*types.Var]Formula{}, ver: map[*types.Var]int{}, visits: map[int32]int{}}
	e.walk(e.g.Blocks[0], st)
	return e
}

func (e *Enum) walk(b *cfg.Block, st *pstate) {
	if e.Over {
		return
	}
	if st.visits[b.Index] > e.bound {
		return
	}
	st.visits[b.Index]++
	var cond ast.Expr
	for i, node := range b.Nodes {
		if i == len(b.Nodes)-1 && len(b.Succs) == 2 {
			if x, ok := node.(ast.Expr); ok {
				cond = x
			}
		}
		if ret, ok := node.(*ast.ReturnStmt); ok {
			e.events(node, st)
			p := &Path{Atoms: st.atoms.clone(), Events: st.events, Ret: ret}
			for _, r := range ret.Results {
				p.RetS = append(p.RetS, types.ExprString(r))
				if t := e.info.TypeOf(r); t != nil && isBool(t) {
					p.RetF = append(p.RetF, e.formula(r, st))
				} else {
					p.RetF = append(p.RetF, nil)
				}
			}
			e.add(p)
			return
		}
		e.exec(node, st)
	}
	switch len(b.Succs) {
	case 0:
		e.add(&Path{Atoms: st.atoms.clone(), Events: st.events})
	case 1:
		e.walk(b.Succs[0], st)
	case 2:
		var f Formula
		if cond != nil {
			f = e.formula(cond, st)
			if sw, ok := b.Stmt.(*ast.SwitchStmt); ok && sw.Tag != nil {
				f = FAtom(e.key(sw.Tag, st) + " == " + e.key(cond, st))
			}
		} else {
			// range loop header etc.
			f = FAtom(fmt.Sprintf("iter@%s#%d", e.pos(b.Stmt), st.visits[b.Index]))
		}
		solve(f, st.atoms, func(a Assign, v bool) {
			ns := st.clone()
			ns.atoms = a
			if v {
				e.walk(b.Succs[0], ns)
			} else {
				e.walk(b.Succs[1], ns)
			}
		})
	}
}

func (e *Enum) add(p *Path) {
	e.Paths = append(e.Paths, p)
	if len(e.Paths) > e.budget {
		e.Over = true
	}
}

func isBool(t types.Type) bool {
	b, ok := t.Underlying().(*types.Basic)
	return ok && b.Info()&types.IsBoolean != 0
}

func (e *Enum) pos(n ast.Node) string {
	if n == nil {
		return "?"
	}
	p := e.fb.Pkg.Fset.Position(n.Pos())
	return fmt.Sprintf("%d", p.Line)
}

func (e *Enum) obj(id *ast.Ident) types.Object {
	if o := e.info.Defs[id]; o != nil {
		return o
	}
	return e.info.Uses[id]
}

// key renders an expression with variable versions so that atoms are not conflated across reassignment.
func (e *Enum) key(x ast.Expr, st *pstate) string {
	s := types.ExprString(x)
	var vs []string
	ast.Inspect(x, func(n ast.Node) bool {
		if id, ok := n.(*ast.Ident); ok {
			if v, ok := e.obj(id).(*types.Var); ok && st.ver[v] > 0 {
				vs = append(vs, fmt.Sprintf("%s.%d", v.Name(), st.ver[v]))
			}
		}
		return true
	})
	if len(vs) > 0 {
		sort.Strings(vs)
		s += "{" + strings.Join(uniq(vs), ",") + "}"
	}
	return s
}

func uniq(s []string) []string {
	var o []string
	for i, x := range s {
		if i == 0 || x != s[i-1] {
			o = append(o, x)
		}
	}
	return o
}

func (e *Enum) formula(x ast.Expr, st *pstate) Formula {
	x = ast.Unparen(x)
	if tv, ok := e.info.Types[x]; ok && tv.Value != nil && tv.Value.Kind() == constant.Bool {
		return FConst(constant.BoolVal(tv.Value))
	}
	switch c := x.(type) {
	case *ast.UnaryExpr:
		if c.Op == token.NOT {
			return FNot{e.formula(c.X, st)}
		}
	case *ast.BinaryExpr:
		switch c.Op {
		case token.LAND:
			return FAnd{e.formula(c.X, st), e.formula(c.Y, st)}
		case token.LOR:
			return FOr{e.formula(c.X, st), e.formula(c.Y, st)}
		case token.NEQ:
			eq := *c
			eq.Op = token.EQL
			return FNot{FAtom(e.key(&eq, st))}
		}
	case *ast.Ident:
		if v, ok := e.obj(c).(*types.Var); ok {
			if f, ok := st.env[v]; ok {
				return f
			}
		}
	}
	return FAtom(e.key(x, st))
}

func (e *Enum) exec(node ast.Node, st *pstate) {
	e.events(node, st)
	switch s := node.(type) {
	case *ast.AssignStmt:
		e.assign(s.Lhs, s.Rhs, st)
	case *ast.ValueSpec:
		var lhs []ast.Expr
		for _, n := range s.Names {
			lhs = append(lhs, n)
		}
		if len(s.Values) == 0 {
			for _, n := range s.Names {
				if v, ok := e.obj(n).(*types.Var); ok {
					st.ver[v]++
					if isBool(v.Type()) {
						st.env[v] = FConst(false)
					}
				}
			}
			return
		}
		e.assign(lhs, s.Values, st)
	case *ast.IncDecStmt:
		if id, ok := s.X.(*ast.Ident); ok {
			if v, ok := e.obj(id).(*types.Var); ok {
				st.ver[v]++
			}
		}
	}
}

func (e *Enum) assign(lhs, rhs []ast.Expr, st *pstate) {
	// compute rhs formulas first (old versions)
	var fs []Formula
	if len(lhs) == len(rhs) {
		for i := range lhs {
			if t := e.info.TypeOf(rhs[i]); t != nil && isBool(t) {
				fs = append(fs, e.formula(rhs[i], st))
			} else {
				fs = append(fs, nil)
			}
		}
	}
	for i, l := range lhs {
		id, ok := l.(*ast.Ident)
		if !ok || id.Name == "_" {
			continue
		}
		v, ok := e.obj(id).(*types.Var)
		if !ok {
			continue
		}
		st.ver[v]++
		delete(st.env, v)
		if isBool(v.Type()) {
			if fs != nil && fs[i] != nil {
				st.env[v] = fs[i]
			} else {
				// result of a multi-value call etc.: fresh atom
				st.env[v] = FAtom(fmt.Sprintf("%s.%d", v.Name(), st.ver[v]))
			}
		}
	}
}

func (e *Enum) events(node ast.Node, st *pstate) {
	var visit func(n ast.Node)
	visit = func(n ast.Node) {
		switch x := n.(type) {
		case nil:
			return
		case *ast.FuncLit:
			return
		case *ast.DeferStmt:
			for _, a := range x.Call.Args {
				visit(a)
			}
			if l := e.label(x.Call, typeutil.Callee(e.info, x.Call)); l != "" {
				st.events = append(st.events, Event{"defer", l, x})
			}
			return
		case *ast.CallExpr:
			visit(x.Fun)
			for _, a := range x.Args {
				visit(a)
			}
			if l := e.label(x, typeutil.Callee(e.info, x)); l != "" {
				st.events = append(st.events, Event{"call", l, x})
			}
			return
		}
		ast.Inspect(n, func(c ast.Node) bool {
			if c == n || c == nil {
				return true
			}
			visit(c)
			return false
		})
	}
	visit(node)
}
