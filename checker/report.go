package main

import (
	"encoding/json"
	"fmt"
	"go/token"
	"os"
	"path/filepath"
	"regexp"
	"sort"
	"strings"
	"time"
)

// Obl is one rule instance (obligation) decided on this run.
type Obl struct {
	Rule      string `json:"rule"`
	Construct string `json:"construct"`
	Pos       string `json:"pos"`
	OK        bool   `json:"ok"`
	Detail    string `json:"detail"`
	Known     bool   `json:"known_finding,omitempty"`
}

func (o *Obl) Key() string { return o.Rule + "/" + o.Construct }

// Check is the context of one property check.
type Check struct {
	ID    string
	Tier  string
	Seed  int
	P     *Prog
	Start time.Time

	Obls        []*Obl
	Errs        []string
	Notes       []string
	Rules       map[string]string // rule -> text
	RuleOrder   []string
	Analysed    map[string]bool // functions / constructs analysed
	Paths       int             // paths enumerated
	Sites       int             // call sites / instructions inspected
	NotDecided  []string
	Assumptions []string
	Extra       map[string]any
	seen        map[string]bool
}

func verifDir() string {
	if d := os.Getenv("VERIF_DIR"); d != "" {
		return d
	}
	return "/verif"
}

func NewCheck(id, tier string, p *Prog) *Check {
	return &Check{ID: id, Tier: tier, P: p, Start: time.Now(), Rules: map[string]string{}, Analysed: map[string]bool{}, Extra: map[string]any{}, seen: map[string]bool{}}
}

// Rule declares a rule and its text (shown in evidence).
var ruleClock = time.Now()
var ruleLast = ""

func (c *Check) Rule(name, text string) {
	if os.Getenv("VERIF_TIMING") != "" {
		if ruleLast != "" {
			fmt.Fprintf(os.Stderr, "timing %-6s %-34s %6.2fs\n", c.ID, ruleLast, time.Since(ruleClock).Seconds())
		}
		ruleLast, ruleClock = name, time.Now()
	}
	if _, ok := c.Rules[name]; !ok {
		c.RuleOrder = append(c.RuleOrder, name)
	}
	c.Rules[name] = text
}

func (c *Check) add(o *Obl) {
	k := o.Key()
	if c.seen[k] {
		// the same construct reached twice (e.g. two platforms): a failure wins
		for _, e := range c.Obls {
			if e.Key() == k {
				if !o.OK && e.OK {
					*e = *o
				}
				return
			}
		}
	}
	c.seen[k] = true
	c.Obls = append(c.Obls, o)
}

func (c *Check) OK(rule, construct string, pos token.Pos, how string) {
	c.add(&Obl{Rule: rule, Construct: construct, Pos: c.P.Pos(pos), OK: true, Detail: how})
}

func (c *Check) Bad(rule, construct string, pos token.Pos, what string) {
	c.add(&Obl{Rule: rule, Construct: construct, Pos: c.P.Pos(pos), OK: false, Detail: what})
}

// Decide records an obligation with a computed verdict.
func (c *Check) Decide(ok bool, rule, construct string, pos token.Pos, okHow, badWhat string) {
	if ok {
		c.OK(rule, construct, pos, okHow)
	} else {
		c.Bad(rule, construct, pos, badWhat)
	}
}

// Errorf records an analysis failure (unresolved anchor, vacuous rule...). It makes the check fail.
func (c *Check) Errorf(format string, a ...any) {
	c.Errs = append(c.Errs, fmt.Sprintf(format, a...))
}

func (c *Check) Notef(format string, a ...any) {
	c.Notes = append(c.Notes, fmt.Sprintf(format, a...))
}

func (c *Check) Fn(fb *FuncBody) {
	if fb != nil {
		c.Analysed[fb.Pkg.PkgPath+"."+fb.Name] = true
	}
}

// Floor fails the check when a rule matched fewer instances than confirmed by hand.
func (c *Check) Floor(rule string, n, floor int) {
	if n < floor {
		c.Errorf("rule %s matched %d instance(s), fewer than the %d confirmed on the reference tree: the rule would pass vacuously", rule, n, floor)
	}
}

func (c *Check) count(rule string) (n int) {
	for _, o := range c.Obls {
		if o.Rule == rule {
			n++
		}
	}
	return
}

// ---- known findings ----

type KnownFinding struct {
	Property string `json:"property"`
	Key      string `json:"key"`
	What     string `json:"what"`
	Design   string `json:"design_ref,omitempty"`
}

type KnownFile struct {
	Comment  string         `json:"_comment,omitempty"`
	Findings []KnownFinding `json:"findings"`
	Fixed    []string       `json:"fixed"`
}

func loadKnown() (*KnownFile, error) {
	b, err := os.ReadFile(filepath.Join(verifDir(), "known_findings.json"))
	if err != nil {
		if os.IsNotExist(err) {
			return &KnownFile{}, nil
		}
		return nil, err
	}
	var k KnownFile
	if err := json.Unmarshal(b, &k); err != nil {
		return nil, fmt.Errorf("known_findings.json: %w", err)
	}
	return &k, nil
}

var unsafeName = regexp.MustCompile(`[^A-Za-z0-9_.-]+`)

// Finish writes the evidence, prints the verdict lines and returns the exit code.
func (c *Check) Finish() int {
	known, err := loadKnown()
	if err != nil {
		c.Errorf("%v", err)
		known = &KnownFile{}
	}
	knownSet := map[string]string{}
	for _, k := range known.Findings {
		if k.Property == c.ID {
			knownSet[k.Key] = k.What
		}
	}
	for _, r := range c.RuleOrder {
		if c.count(r) == 0 {
			c.Errorf("rule %s produced no obligation at all (vacuous)", r)
		}
	}
	sort.SliceStable(c.Obls, func(i, j int) bool { return c.Obls[i].Key() < c.Obls[j].Key() })

	vdir := filepath.Join(verifDir(), "evidence", "violations")
	// stale violation files of this property are removed on every run
	if old, _ := filepath.Glob(filepath.Join(vdir, c.ID+"-*.json")); len(old) > 0 {
		for _, f := range old {
			os.Remove(f)
		}
	}
	var viol, knownHit []*Obl
	discharged := 0
	for _, o := range c.Obls {
		switch {
		case o.OK:
			discharged++
		case knownSet[o.Key()] != "":
			o.Known = true
			knownHit = append(knownHit, o)
		default:
			viol = append(viol, o)
		}
	}
	var lines []string
	for _, o := range knownHit {
		lines = append(lines, fmt.Sprintf("KNOWN-FINDING: property=%s %s at %s: %s", c.ID, o.Key(), o.Pos, knownSet[o.Key()]))
	}
	for _, o := range viol {
		os.MkdirAll(vdir, 0o755)
		path := filepath.Join(vdir, c.ID+"-"+unsafeName.ReplaceAllString(o.Key(), "_")+".json")
		b, _ := json.MarshalIndent(map[string]any{
			"property": c.ID, "key": o.Key(), "rule": o.Rule, "rule_text": c.Rules[o.Rule], "construct": o.Construct,
			"pos": o.Pos, "what": o.Detail, "tier": c.Tier, "repo": c.P.Dir,
		}, "", " ")
		os.WriteFile(path, b, 0o644)
		lines = append(lines, fmt.Sprintf("VIOLATION property=%s replay=%s", c.ID, path))
		lines = append(lines, fmt.Sprintf("  %s  rule=%s construct=%s: %s", o.Pos, o.Rule, o.Construct, o.Detail))
	}
	for _, e := range c.Errs {
		lines = append(lines, fmt.Sprintf("ERROR property=%s %s", c.ID, e))
	}

	// evidence
	var samples []any
	perRule := map[string]int{}
	for _, o := range c.Obls {
		if perRule[o.Rule] < 3 || !o.OK {
			samples = append(samples, o)
		}
		perRule[o.Rule]++
	}
	var fns []string
	for f := range c.Analysed {
		fns = append(fns, f)
	}
	sort.Strings(fns)
	var rules []map[string]any
	for _, r := range c.RuleOrder {
		rules = append(rules, map[string]any{"rule": r, "text": c.Rules[r], "instances": perRule[r]})
	}
	cov := map[string]any{
		"explanation": fmt.Sprintf("Static analysis of %s (type-checked AST, go/cfg dataflow, go/ssa, call graph; nothing is executed). "+
			"%d rule(s) were instantiated into %d obligation(s) (one per mechanism site found in the current source); %d hold, %d are listed known findings, %d are violations. "+
			"Each obligation is a structural necessary condition of the property decided over ALL paths of the named function(s); it is not a proof of the behaviour. Not decided: %s",
			c.P.Dir, len(c.RuleOrder), len(c.Obls), discharged, len(knownHit), len(viol), strings.Join(c.NotDecided, "; ")),
		"obligations":         len(c.Obls),
		"discharged":          discharged,
		"known_findings":      len(knownHit),
		"evaluations":         len(c.Obls),
		"distinct_nontrivial": len(c.Obls),
		"rule":                "one obligation per (rule, construct) found in the current source; all are distinct by key; non-trivial = the rule's pattern matched a real site (floors guard against vacuous rules)",
		"rules":               rules,
		"samples":             samples,
		"functions_analysed":  fns,
		"packages_loaded":     len(c.P.Pkgs),
		"function_bodies":     c.P.NumFuncs,
		"paths_enumerated":    c.Paths,
		"sites_inspected":     c.Sites,
		"not_decided":         c.NotDecided,
		"observations":        c.Notes,
		"analysis_errors":     c.Errs,
		"exhaustive":          true,
		"checker_cmd":         "bin/taskverif check " + c.ID + " --tier " + c.Tier,
	}
	for k, v := range c.Extra {
		cov[k] = v
	}
	ev := map[string]any{
		"property_id": c.ID,
		"tier":        c.Tier,
		"seed":        c.Seed,
		"level":       "other",
		"coverage":    cov,
		"assumptions": append([]string{
			"the Go type checker, go/ssa and go/cfg construct a faithful program representation",
			"tables of recognised idioms / allow-listed symbols in /verif/checker are hand-confirmed against the reference tree",
		}, c.Assumptions...),
		"wall_s":     time.Since(c.Start).Seconds(),
		"violations": len(viol),
	}
	os.MkdirAll(filepath.Join(verifDir(), "evidence"), 0o755)
	b, _ := json.MarshalIndent(ev, "", " ")
	if err := os.WriteFile(filepath.Join(verifDir(), "evidence", c.ID+".json"), b, 0o644); err != nil {
		lines = append(lines, fmt.Sprintf("ERROR property=%s cannot write evidence: %v", c.ID, err))
		c.Errs = append(c.Errs, err.Error())
	}
	for _, l := range lines {
		fmt.Println(l)
	}
	fmt.Printf("%s %s: %d obligations, %d hold, %d known finding(s), %d violation(s), %d error(s); %d function bodies analysed; %.1fs\n",
		c.ID, c.Tier, len(c.Obls), discharged, len(knownHit), len(viol), len(c.Errs), len(fns), time.Since(c.Start).Seconds())
	switch {
	case len(viol) > 0:
		return 1
	case len(c.Errs) > 0:
		return 2
	}
	return 0
}
