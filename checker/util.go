package main

import (
	"go/ast"
	"go/token"
	"go/types"
	"strings"
)

// mentions reports whether the expression refers to the object.
func mentions(info *types.Info, e ast.Node, obj types.Object) bool {
	found := false
	ast.Inspect(e, func(n ast.Node) bool {
		if id, ok := n.(*ast.Ident); ok && obj != nil && (info.Uses[id] == obj || info.Defs[id] == obj) {
			found = true
		}
		return !found
	})
	return found
}

// singleDef returns the expression assigned to a local variable when it is assigned exactly once in body.
func singleDef(info *types.Info, body ast.Node, v types.Object) ast.Expr {
	var def ast.Expr
	n := 0
	ast.Inspect(body, func(nd ast.Node) bool {
		switch s := nd.(type) {
		case *ast.AssignStmt:
			for i, l := range s.Lhs {
				if id, ok := l.(*ast.Ident); ok && (info.Defs[id] == v || info.Uses[id] == v) {
					n++
					if len(s.Rhs) == len(s.Lhs) {
						def = s.Rhs[i]
					} else if len(s.Rhs) == 1 {
						def = s.Rhs[0]
					}
				}
			}
		case *ast.ValueSpec:
			for i, id := range s.Names {
				if info.Defs[id] == v && len(s.Values) > 0 {
					n++
					if len(s.Values) == len(s.Names) {
						def = s.Values[i]
					} else {
						def = s.Values[0]
					}
				}
			}
		}
		return true
	})
	if n == 1 {
		return def
	}
	return nil
}

// mentionsVia is mentions, following single-assignment local variables (depth-limited).
func mentionsVia(info *types.Info, body ast.Node, e ast.Node, obj types.Object, depth int) bool {
	if mentions(info, e, obj) {
		return true
	}
	if depth <= 0 {
		return false
	}
	found := false
	ast.Inspect(e, func(n ast.Node) bool {
		if id, ok := n.(*ast.Ident); ok && !found {
			if v, ok := info.Uses[id].(*types.Var); ok && !v.IsField() {
				if d := singleDef(info, body, v); d != nil && mentionsVia(info, body, d, obj, depth-1) {
					found = true
				}
			}
		}
		return !found
	})
	return found
}

func isNilLit(info *types.Info, e ast.Expr) bool { return isNilExpr(info, ast.Unparen(e)) }

// hasJump reports whether the statement contains a return/continue/break/goto outside nested function literals.
func hasJump(s ast.Node) bool {
	found := false
	inspectBody(s, func(n ast.Node) bool {
		switch n.(type) {
		case *ast.ReturnStmt, *ast.BranchStmt:
			found = true
		}
		return !found
	})
	return found
}

// unconditionalIn reports whether target is (inside) a top-level statement of list
// that is reached on every pass through the list: no earlier sibling may jump away.
func unconditionalIn(list []ast.Stmt, target ast.Node) bool {
	for _, s := range list {
		if s.Pos() <= target.Pos() && target.End() <= s.End() {
			if ast.Node(s) == target {
				return true
			}
			switch s.(type) {
			case *ast.ExprStmt, *ast.AssignStmt, *ast.DeclStmt, *ast.GoStmt, *ast.DeferStmt, *ast.ReturnStmt, *ast.SendStmt:
				return true
			}
			return false // nested in an if/for/switch: conditional
		}
		if hasJump(s) {
			return false
		}
	}
	return false
}

// parentMap builds child->parent links for a body.
func parentMap(root ast.Node) map[ast.Node]ast.Node {
	pm := map[ast.Node]ast.Node{}
	var stack []ast.Node
	ast.Inspect(root, func(n ast.Node) bool {
		if n == nil {
			stack = stack[:len(stack)-1]
			return true
		}
		if len(stack) > 0 {
			pm[n] = stack[len(stack)-1]
		}
		stack = append(stack, n)
		return true
	})
	return pm
}

// within reports whether n lies inside outer.
func within(n, outer ast.Node) bool {
	return outer != nil && n != nil && outer.Pos() <= n.Pos() && n.End() <= outer.End()
}

func exprStr(e ast.Expr) string { return types.ExprString(e) }

// calleeName renders a callee for keys.
func calleeName(obj types.Object) string {
	fn, ok := obj.(*types.Func)
	if !ok || fn == nil {
		if obj != nil {
			return obj.Name()
		}
		return "?"
	}
	sig := fn.Type().(*types.Signature)
	pkg := ""
	if fn.Pkg() != nil {
		pkg = fn.Pkg().Name() + "."
	}
	if sig.Recv() != nil {
		return pkg + recvName(sig.Recv().Type()) + "." + fn.Name()
	}
	return pkg + fn.Name()
}

// fnDisplay is a stable, line-free name for a function body.
func fnDisplay(fb *FuncBody) string {
	if fb == nil {
		return "?"
	}
	pk := fb.Pkg.PkgPath
	pk = strings.TrimPrefix(strings.TrimPrefix(pk, Mod), "/")
	if pk == "" {
		pk = "task"
	}
	return pk + "." + fb.Name
}

// returnsOf lists the return statements of a body (not of nested literals).
func returnsOf(body ast.Node) []*ast.ReturnStmt {
	var out []*ast.ReturnStmt
	inspectBody(body, func(n ast.Node) bool {
		if r, ok := n.(*ast.ReturnStmt); ok {
			out = append(out, r)
		}
		return true
	})
	return out
}

// errResult returns the last result expression of a return statement (the error by convention).
func errResult(r *ast.ReturnStmt) ast.Expr {
	if len(r.Results) == 0 {
		return nil
	}
	return r.Results[len(r.Results)-1]
}

// isBuiltin reports whether the call is to the builtin `name`.
func isBuiltin(info *types.Info, call *ast.CallExpr, name string) bool {
	id, ok := ast.Unparen(call.Fun).(*ast.Ident)
	if !ok || id.Name != name {
		return false
	}
	_, isB := info.Uses[id].(*types.Builtin)
	return isB
}

// varOf returns the variable object an identifier expression denotes.
func varOf(info *types.Info, e ast.Expr) *types.Var {
	id, ok := ast.Unparen(e).(*ast.Ident)
	if !ok {
		return nil
	}
	if v, ok := info.Uses[id].(*types.Var); ok {
		return v
	}
	if v, ok := info.Defs[id].(*types.Var); ok {
		return v
	}
	return nil
}

// rootVar returns the variable at the root of a selector / index / star chain.
func rootVar(info *types.Info, e ast.Expr) *types.Var {
	for {
		switch x := ast.Unparen(e).(type) {
		case *ast.SelectorExpr:
			e = x.X
		case *ast.IndexExpr:
			e = x.X
		case *ast.StarExpr:
			e = x.X
		case *ast.UnaryExpr:
			if x.Op == token.AND {
				e = x.X
				continue
			}
			return nil
		case *ast.Ident:
			return varOf(info, x)
		default:
			return nil
		}
	}
}

func ordinal(m map[string]int, k string) string {
	m[k]++
	if m[k] == 1 {
		return k
	}
	return k + "#" + string(rune('0'+m[k]))
}

// staticCallees returns the module function bodies a body calls (static calls and
// interface calls resolved to every module method of that name whose receiver implements the interface).
func (p *Prog) staticCallees(fb *FuncBody, deep bool) []*FuncBody {
	var out []*FuncBody
	seen := map[*FuncBody]bool{}
	add := func(t *FuncBody) {
		if t != nil && !seen[t] {
			seen[t] = true
			out = append(out, t)
		}
	}
	info := fb.Info()
	for _, call := range callsIn(fb, deep) {
		fn, ok := callee(info, call).(*types.Func)
		if !ok {
			continue
		}
		if d := p.DeclOf(fn); d != nil {
			add(d)
			continue
		}
		sig, _ := fn.Type().(*types.Signature)
		if sig != nil && sig.Recv() != nil {
			if iface, ok := sig.Recv().Type().Underlying().(*types.Interface); ok {
				for _, cand := range p.bodies {
					if cand.Obj == nil || cand.Obj.Name() != fn.Name() {
						continue
					}
					csig := cand.Obj.Type().(*types.Signature)
					if csig.Recv() == nil {
						continue
					}
					rt := csig.Recv().Type()
					if types.Implements(rt, iface) || types.Implements(types.NewPointer(rt), iface) {
						add(cand)
					}
				}
			}
		}
	}
	// function values referenced (method values / function identifiers passed around)
	w := inspectBody
	if deep {
		w = inspectDeep
	}
	w(fb.Body, func(n ast.Node) bool {
		if id, ok := n.(*ast.Ident); ok {
			if fn, ok := info.Uses[id].(*types.Func); ok {
				add(p.DeclOf(fn))
			}
		}
		return true
	})
	return out
}

// ReachableFrom computes the module functions reachable from the roots (literals included), not expanding `stop` functions.
func (p *Prog) ReachableFrom(roots []*FuncBody, stop func(*FuncBody) bool) map[*FuncBody]bool {
	seen := map[*FuncBody]bool{}
	var work []*FuncBody
	for _, r := range roots {
		if r != nil && !seen[r] {
			seen[r] = true
			work = append(work, r)
		}
	}
	for len(work) > 0 {
		fb := work[0]
		work = work[1:]
		if stop != nil && stop(fb) {
			continue
		}
		for _, t := range p.staticCallees(fb, true) {
			if !seen[t] {
				seen[t] = true
				work = append(work, t)
			}
		}
	}
	return seen
}

// spawnSites lists go statements and errgroup.Go calls of a body (literals included).
func spawnSites(fb *FuncBody) []ast.Node {
	var out []ast.Node
	info := fb.Info()
	inspectDeep(fb.Body, func(n ast.Node) bool {
		switch x := n.(type) {
		case *ast.GoStmt:
			out = append(out, x)
		case *ast.CallExpr:
			if isFunc(callee(info, x), "golang.org/x/sync/errgroup", "Group", "Go") {
				out = append(out, x)
			}
		}
		return true
	})
	return out
}

// constIs reports whether e is a constant expression (literal or named constant) whose value prints as want
// (strings are given with their quotes, e.g. `"*"`; numbers and booleans plainly).
func constIs(info *types.Info, e ast.Expr, want string) bool {
	if tv, ok := info.Types[e]; ok && tv.Value != nil {
		return tv.Value.ExactString() == want
	}
	return false
}

// constText returns the exact text of a constant expression ("" when e is not constant).
func constText(info *types.Info, e ast.Expr) string {
	if tv, ok := info.Types[e]; ok && tv.Value != nil {
		return tv.Value.ExactString()
	}
	return ""
}

// groupOf returns fb followed by the declared functions of the same package it calls (transitively, up to depth),
// i.e. the helpers an extract-method refactoring would create. Used by structural rules that look for a construct
// "in the function or in a helper it delegates to".
func (p *Prog) groupOf(fb *FuncBody, depth int) []*FuncBody {
	seen := map[*FuncBody]bool{fb: true}
	out := []*FuncBody{fb}
	frontier := []*FuncBody{fb}
	for d := 0; d < depth; d++ {
		var next []*FuncBody
		for _, f := range frontier {
			for _, call := range callsIn(f, true) {
				fn, ok := callee(f.Info(), call).(*types.Func)
				if !ok {
					continue
				}
				t := p.DeclOf(fn)
				if t == nil || t.Pkg != fb.Pkg || seen[t] {
					continue
				}
				seen[t] = true
				out = append(out, t)
				next = append(next, t)
			}
		}
		frontier = next
	}
	return out
}

// setterStoresArg: when call is `x.m(…, a, …)` to a declared method of the module whose body stores the parameter bound to a,
// unconditionally and exactly once, in a field of its receiver (`func (x *T) finish(err error) { x.err = err; … }`): the
// argument a, the receiver expression x and the field.
func setterStoresArg(p *Prog, info *types.Info, call *ast.CallExpr) (ast.Expr, ast.Expr, *types.Var) {
	sel, ok := ast.Unparen(call.Fun).(*ast.SelectorExpr)
	if !ok {
		return nil, nil, nil
	}
	fn, ok := callee(info, call).(*types.Func)
	if !ok {
		return nil, nil, nil
	}
	h := p.DeclOf(fn)
	if h == nil || h.Decl == nil || h.Body == nil || h.Decl.Recv == nil || len(h.Decl.Recv.List) != 1 || len(h.Decl.Recv.List[0].Names) != 1 || !strings.HasPrefix(h.Pkg.PkgPath, Mod) {
		return nil, nil, nil
	}
	hinfo := h.Info()
	recv, _ := hinfo.Defs[h.Decl.Recv.List[0].Names[0]].(*types.Var)
	if recv == nil {
		return nil, nil, nil
	}
	var params []*types.Var
	for _, fld := range h.Type.Params.List {
		for _, id := range fld.Names {
			v, _ := hinfo.Defs[id].(*types.Var)
			params = append(params, v)
		}
		if len(fld.Names) == 0 {
			params = append(params, nil)
		}
	}
	var field *types.Var
	argIdx, nStores := -1, map[*types.Var]int{}
	inspectDeep(h.Body, func(n ast.Node) bool {
		as, ok := n.(*ast.AssignStmt)
		if !ok {
			return true
		}
		for i, l := range as.Lhs {
			ls, ok := ast.Unparen(l).(*ast.SelectorExpr)
			if !ok || varOf(hinfo, ls.X) != recv {
				continue
			}
			f, _ := hinfo.Uses[ls.Sel].(*types.Var)
			if f == nil {
				continue
			}
			nStores[f]++
			top := false
			for _, st := range h.Body.List {
				if st == ast.Stmt(as) {
					top = true
				}
			}
			if !top || len(as.Lhs) != len(as.Rhs) {
				continue
			}
			if v := varOf(hinfo, as.Rhs[i]); v != nil {
				for j, pv := range params {
					if pv == v && pv != nil {
						field, argIdx = f, j
					}
				}
			}
		}
		return true
	})
	if field == nil || nStores[field] != 1 || argIdx >= len(call.Args) {
		return nil, nil, nil
	}
	return call.Args[argIdx], sel.X, field
}

// passThroughArg: when call is to a declared function of the module that yields one of its own parameters, unchanged, as its
// last result on every return (a "finish(err) error { …; return err }" helper), the argument bound to that parameter.
func passThroughArg(p *Prog, info *types.Info, call *ast.CallExpr) ast.Expr {
	fn, ok := callee(info, call).(*types.Func)
	if !ok {
		return nil
	}
	h := p.DeclOf(fn)
	if h == nil || h.Decl == nil || h.Body == nil || !strings.HasPrefix(h.Pkg.PkgPath, Mod) {
		return nil
	}
	hinfo := h.Info()
	var params []*types.Var
	for _, fld := range h.Type.Params.List {
		for _, id := range fld.Names {
			if v, ok := hinfo.Defs[id].(*types.Var); ok {
				params = append(params, v)
			} else {
				params = append(params, nil)
			}
		}
		if len(fld.Names) == 0 {
			params = append(params, nil)
		}
	}
	var ret *types.Var
	nRet, okAll := 0, true
	inspectBody(h.Body, func(n ast.Node) bool {
		switch x := n.(type) {
		case *ast.ReturnStmt:
			nRet++
			res := errResult(x)
			v := (*types.Var)(nil)
			if res != nil {
				v = varOf(hinfo, res)
				if v == nil {
					// `x.err = err; …; return x.err`: a place assigned exactly once, unconditionally, from a parameter
					var from *types.Var
					nAs := 0
					inspectDeep(h.Body, func(m ast.Node) bool {
						if as, ok := m.(*ast.AssignStmt); ok {
							for i, l := range as.Lhs {
								if exprStr(l) == exprStr(res) {
									nAs++
									top := false
									for _, st := range h.Body.List {
										if st == ast.Stmt(as) {
											top = true
										}
									}
									if top && len(as.Lhs) == len(as.Rhs) && as.Pos() < x.Pos() {
										from = varOf(hinfo, as.Rhs[i])
									}
								}
							}
						}
						return true
					})
					if nAs == 1 {
						v = from
					}
				}
			}
			if v == nil || (ret != nil && ret != v) {
				okAll = false
			}
			ret = v
		case *ast.AssignStmt:
			for _, l := range x.Lhs {
				for _, pv := range params {
					if pv != nil && varOf(hinfo, l) == pv {
						okAll = false // a reassigned parameter is not passed through
					}
				}
			}
		case *ast.UnaryExpr:
			if x.Op == token.AND {
				for _, pv := range params {
					if pv != nil && varOf(hinfo, x.X) == pv {
						okAll = false
					}
				}
			}
		}
		return true
	})
	if !okAll || nRet == 0 || ret == nil {
		return nil
	}
	for i, pv := range params {
		if pv == ret && i < len(call.Args) && call.Ellipsis == token.NoPos {
			return call.Args[i]
		}
	}
	return nil
}

// unwrapPassThrough strips pass-through helper calls around an expression.
func unwrapPassThrough(p *Prog, info *types.Info, e ast.Expr) ast.Expr {
	for i := 0; i < 4 && e != nil; i++ {
		call, ok := ast.Unparen(e).(*ast.CallExpr)
		if !ok {
			return e
		}
		arg := passThroughArg(p, info, call)
		if arg == nil {
			return e
		}
		e = arg
	}
	return e
}

// fieldOrLocalOf: the expression is the field pkg.typ.field, or a local variable whose only definition is that field
// (`ns := include.Namespace`).
func fieldOrLocalOf(p *Prog, info *types.Info, e ast.Expr, pkg, typ, field string) bool {
	if fieldSel(info, e, pkg, typ, field) {
		return true
	}
	v := varOf(info, e)
	if v == nil || v.IsField() {
		return false
	}
	for _, b := range p.bodies {
		if b.Decl == nil || b.Body == nil || b.Info() != info || v.Pos() < b.Body.Pos() || v.Pos() > b.Body.End() {
			continue
		}
		if d := singleDef(info, b.Body, v); d != nil && fieldSel(info, d, pkg, typ, field) {
			return true
		}
	}
	return false
}

// prefixTest: the if statement tests "x starts with p": `if strings.HasPrefix(x, p)` or `if s, ok := strings.CutPrefix(x, p); ok`.
// For the second form `cut` is the variable that holds x without the prefix.
func prefixTest(info *types.Info, ifs *ast.IfStmt) (x, p ast.Expr, cut *types.Var, ok bool) {
	if call, isCall := ast.Unparen(ifs.Cond).(*ast.CallExpr); isCall && isFunc(callee(info, call), "strings", "", "HasPrefix") && len(call.Args) == 2 {
		return call.Args[0], call.Args[1], nil, true
	}
	if as, isAs := ifs.Init.(*ast.AssignStmt); isAs && len(as.Lhs) == 2 && len(as.Rhs) == 1 {
		if call, isCall := ast.Unparen(as.Rhs[0]).(*ast.CallExpr); isCall && isFunc(callee(info, call), "strings", "", "CutPrefix") && len(call.Args) == 2 {
			if okv := varOf(info, as.Lhs[1]); okv != nil && varOf(info, ifs.Cond) == okv {
				return call.Args[0], call.Args[1], varOf(info, as.Lhs[0]), true
			}
		}
	}
	return nil, nil, nil, false
}
