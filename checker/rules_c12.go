package main

import (
	"fmt"
	"go/ast"
	"go/token"
	"go/types"
	"sort"
)

func init() { register("C12", checkC12) }

func checkC12(c *Check, a *Anchors) {
	c.NotDecided = []string{
		"what user-written status:/preconditions:/sh: shell snippets do (they are allowed to run in query modes)",
		"Setup-time writes of the remote-Taskfile cache (C20 scope)",
		"byte-identity of the directory tree (value level)",
	}
	c12DryImplied(c, a)
	c12CmdsNotRun(c, a)
	c12NoMutationWhenDry(c, a)
	fpWriteDryGuarded(c, a, "fp-write-dry-guarded")
	checkerConstruction(c, a, "checker-dry-passed")
	queryNeverRecords(c, a, "no-mutation-in-list")
}

func c12DryImplied(c *Check, a *Anchors) {
	c.Rule("dry-implied", "the value handed to task.WithDry by the flags package is exactly `Dry || Status` (so --status implies dry mode)")
	n := 0
	for _, fb := range c.P.BodiesIn(PkgFlags) {
		info := fb.Info()
		inspectDeep(fb.Body, func(nd ast.Node) bool {
			call, ok := nd.(*ast.CallExpr)
			if !ok || !isFunc(callee(info, call), PkgTask, "", "WithDry") || len(call.Args) != 1 {
				return true
			}
			n++
			c.Fn(fb)
			vars := map[string]bool{}
			okShape := true
			depthLeft := 2
			var walk func(e ast.Expr)
			walk = func(e ast.Expr) {
				switch x := ast.Unparen(e).(type) {
				case *ast.BinaryExpr:
					if x.Op != token.LOR {
						okShape = false
					}
					walk(x.X)
					walk(x.Y)
				case *ast.Ident:
					if v, ok := info.Uses[x].(*types.Var); ok && v.Pkg() != nil && v.Pkg().Path() == PkgFlags && v.Parent() == v.Pkg().Scope() {
						vars[v.Name()] = true
					} else if v, ok := info.Uses[x].(*types.Var); ok && !v.IsField() && depthLeft > 0 {
						// a local that holds the disjunction (`dry := Dry || Status`)
						if d := singleDef(info, fb.Root().Body, v); d != nil {
							depthLeft--
							walk(d)
							depthLeft++
						} else {
							okShape = false
						}
					} else {
						okShape = false
					}
				default:
					okShape = false
				}
			}
			walk(call.Args[0])
			ok = okShape && vars["Dry"] && vars["Status"] && len(vars) == 2
			c.Decide(ok, "dry-implied", "WithDry@"+fnDisplay(fb), call.Pos(), "WithDry(Dry || Status)",
				"the executor's dry flag is set from `"+exprStr(call.Args[0])+"`, not from `Dry || Status`: --status would record fingerprints (and could create directories) like a normal run")
			return true
		})
	}
	c.Floor("dry-implied", n, 1)
}

func c12CmdsNotRun(c *Check, a *Anchors) {
	c.Rule("cmds-not-run-when-dry", "the cmds execext.RunCommand site of the command runner is dominated by the false edge of Executor.Dry; in Run every start of a task (RunTask call or its errgroup.Go spawn) is dominated by the false edge of Executor.Summary")
	fb := a.ShellExec
	c.Fn(fb)
	f := NewFlow(c.P, fb, a.labelRun(fb.Info()))
	f.Run()
	n := 0
	for call, l := range f.Labels {
		if l != "runcommand" || callee(fb.Info(), call) != a.RunCommandObj {
			continue
		}
		n++
		st := f.At[call]
		guarded := st.Has("false:field:Executor.Dry")
		if !guarded && fb != a.CmdRunner {
			// the shell execution was split off from the command runner: the guard is at every call site of the helper
			guarded, _ = callersDryGuarded(c.P, fb, 2)
		}
		c.Decide(guarded, "cmds-not-run-when-dry", "RunCommand@"+fnDisplay(a.CmdRunner), call.Pos(), "guarded by !Executor.Dry",
			"the command runner reaches execext.RunCommand without having tested Executor.Dry on every path: --dry / --status would execute cmds; must-facts: "+st.String())
	}
	c.Floor("cmds-not-run-when-dry", n, 1)
	run := a.Run
	c.Fn(run)
	fr := NewFlow(c.P, run, a.labelRun(run.Info()))
	fr.Run()
	ord := map[string]int{}
	m := 0
	for call, l := range fr.Labels {
		if l != "runtask" && l != "go" {
			continue
		}
		m++
		st := fr.At[call]
		c.Decide(st.Has("false:field:Executor.Summary"), "cmds-not-run-when-dry", ordinal(ord, l+"@"+fnDisplay(run)), call.Pos(), "after the --summary early return",
			"Run starts a task without having passed the --summary early return: --summary would execute tasks; must-facts: "+st.String())
	}
	// … also when the start is further down: any function of the package that Run calls and from which RunTask is
	// reachable (the watch loop) starts tasks
	for _, call := range callsIn(run, false) {
		if _, labelled := fr.Labels[call]; labelled && (fr.Labels[call] == "runtask" || fr.Labels[call] == "go") {
			continue
		}
		fn, ok := callee(run.Info(), call).(*types.Func)
		if !ok {
			continue
		}
		d := c.P.DeclOf(fn)
		if d == nil || d == run || d == a.RunTask || d.Pkg != run.Pkg || !c.P.ReachableFrom([]*FuncBody{d}, nil)[a.RunTask] {
			continue
		}
		st, seen := fr.At[call]
		if !seen {
			continue
		}
		m++
		c.Decide(st.Has("false:field:Executor.Summary"), "cmds-not-run-when-dry", ordinal(ord, "starts-tasks:"+fn.Name()+"@"+fnDisplay(run)), call.Pos(), "after the --summary early return",
			"Run calls "+fn.Name()+", which starts tasks, without having passed the --summary early return: --summary (with a watch task or --watch) would execute commands and write fingerprints; must-facts: "+st.String())
	}
	c.Floor("cmds-not-run-when-dry", n+m, 3)
}

func c12NoMutationWhenDry(c *Check, a *Anchors) {
	c.Rule("no-mutation-when-dry", "every filesystem-mutating call reachable in the call graph from Run, RunTask and Status is dominated by the false edge of a dry flag (Executor.Dry or the dry field of a checker that was constructed from it)")
	reach := c.P.ReachableFrom([]*FuncBody{a.Run, a.RunTask, a.Status}, nil)
	var fns []*FuncBody
	for fb := range reach {
		if fb.Decl != nil {
			fns = append(fns, fb)
		}
	}
	sort.Slice(fns, func(i, j int) bool { return fnDisplay(fns[i]) < fnDisplay(fns[j]) })
	n := 0
	ord := map[string]int{}
	for _, fb := range fns {
		sites := mutSites(c.P, fb)
		if len(sites) == 0 {
			continue
		}
		c.Fn(fb)
		for _, s := range sites {
			n++
			ok, by := s.DryGuarded()
			c.Decide(ok, "no-mutation-when-dry", ordinal(ord, s.Callee+"@"+fnDisplay(fb)), s.Call.Pos(), "guarded by !"+by,
				fmt.Sprintf("%s in %s is reachable from Run/RunTask/Status and is not dominated by a dry flag: --dry / --status would modify the project directory; must-facts: %s", s.Callee, fnDisplay(fb), s.Facts))
		}
	}
	c.Sites += len(fns)
	c.Extra["functions_reachable_from_run"] = len(fns)
	c.Floor("no-mutation-when-dry", n, 6)
}
