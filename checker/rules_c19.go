package main

import (
	"fmt"
	"go/ast"
	"go/token"
	"go/types"
	"strings"
)

func init() { register("C19", checkC19) }

func checkC19(c *Check, a *Anchors) {
	c.NotDecided = []string{
		"correctness of syntax.Quote, of the template engine and of the shell's word splitter: the end-to-end byte identity of forwarded values is value-level",
		"that template syntax inside a forwarded value is not evaluated (templating of variable values happens by design)",
	}
	c19CliArgsQuoted(c, a)
	c19CliArgsString(c, a)
	c19ShellQuote(c, a)
	c19SplitVar(c, a)
	c19InitPath(c, a)
	c19NotTemplated(c, a)
	renderedOutputVerbatim(c, a)
	c19AssignmentStoredVerbatim(c, a)
	c10CliGlobals(c, a) // the forwarded arguments and NAME=value assignments are bound before EVERY entry point that compiles tasks (Run and Status): a query that starts before the binding sees an empty CLI_ARGS
	c10WriteOrder(c, a) // the value of NAME=value goes through the variable resolver: what it stores is the templater's result, unchanged
}

func c19NotTemplated(c *Check, a *Anchors) {
	c.Rule("forwarded-not-templated", "bytes supplied on the command line (arguments after `--`, NAME=value assignments) are bound to variables in a form the variable resolver does not template-expand; binding them to the template-evaluated Value field while the resolver passes every global variable through templater.ReplaceVar means `{{...}}` inside a forwarded value is interpreted")
	// does the global phase template every value?
	templated := false
	for _, lit := range allLits(a.GetVariables) {
		for _, call := range callsIn(lit, false) {
			if isFunc(callee(lit.Info(), call), PkgTemplater, "", "ReplaceVar") {
				templated = true
			}
		}
	}
	site := func(fb *FuncBody, what string, match func(call *ast.CallExpr) bool) {
		if fb == nil {
			c.Errorf("forwarded-not-templated: function for %s not found", what)
			return
		}
		c.Fn(fb)
		info := fb.Info()
		n := 0
		for _, call := range callsIn(fb, false) {
			if !isFunc(callee(info, call), PkgAst, "Vars", "Set") || len(call.Args) != 2 || !match(call) {
				continue
			}
			n++
			cl, ok := ast.Unparen(call.Args[1]).(*ast.CompositeLit)
			usesValue := false
			if ok {
				for _, e := range cl.Elts {
					if kv, ok := e.(*ast.KeyValueExpr); ok && exprStr(kv.Key) == "Value" {
						usesValue = true
					}
				}
			}
			c.Decide(!(usesValue && templated), "forwarded-not-templated", what+"@command-line-binding", call.Pos(), "not bound to a template-evaluated field",
				what+" is stored as ast.Var{Value: …} and every global variable's Value is passed through templater.ReplaceVar by the variable resolver: template syntax inside the forwarded bytes (e.g. '{{.TASK}}') is expanded instead of reaching the command verbatim")
		}
		if n == 0 {
			c.Errorf("forwarded-not-templated: no Set site for %s", what)
		}
	}
	site(c.P.Func(PkgMain, "", "run"), "CLI_ARGS", func(call *ast.CallExpr) bool {
		return constIs(c.P.Func(PkgMain, "", "run").Info(), call.Args[0], `"CLI_ARGS"`)
	})
	site(c.P.Func(PkgArgs, "", "Parse"), "NAME=value", func(call *ast.CallExpr) bool { return true })
}

const shSyntax = "mvdan.cc/sh/v3/syntax"

// isQuoteBash: call is syntax.Quote(x, syntax.LangBash).
func isQuoteBash(info *types.Info, call *ast.CallExpr) (ok bool, lang string) {
	if !isFunc(callee(info, call), shSyntax, "", "Quote") || len(call.Args) != 2 {
		return false, ""
	}
	lang = exprStr(call.Args[1])
	if sel, isSel := ast.Unparen(call.Args[1]).(*ast.SelectorExpr); isSel {
		if cst, isConst := info.Uses[sel.Sel].(*types.Const); isConst && cst.Pkg() != nil && cst.Pkg().Path() == shSyntax && cst.Name() == "LangBash" {
			return true, lang
		}
	}
	return false, lang
}

func c19CliArgsQuoted(c *Check, a *Anchors) {
	c.Rule("cli-args-quoted", "args.Get ranges over the arguments after `--` in order, passes every one through syntax.Quote(arg, syntax.LangBash), appends the results in that order and returns that slice as its second result; its first result is the unquoted arguments before `--`")
	fb := c.P.Func(PkgArgs, "", "Get")
	if fb == nil {
		c.Errorf("cli-args-quoted: args.Get not found")
		return
	}
	c.Fn(fb)
	info := fb.Info()
	name := fnDisplay(fb)
	// the quoting loop: in args.Get itself (ranging over args[doubleDashPos:]) or in a helper that receives that slice
	var loop *ast.RangeStmt
	var loopFB *FuncBody
	var helperCall *ast.CallExpr
	inspectBody(fb.Body, func(nd ast.Node) bool {
		if r, ok := nd.(*ast.RangeStmt); ok {
			if _, isSlice := ast.Unparen(r.X).(*ast.SliceExpr); isSlice {
				loop, loopFB = r, fb
			}
		}
		return true
	})
	if loop == nil {
		for _, call := range callsIn(fb, false) {
			fn, ok := callee(info, call).(*types.Func)
			if !ok {
				continue
			}
			h := c.P.DeclOf(fn)
			if h == nil || h.Pkg != fb.Pkg || len(call.Args) != 1 {
				continue
			}
			if _, isSlice := ast.Unparen(call.Args[0]).(*ast.SliceExpr); !isSlice {
				continue
			}
			var param *types.Var
			if h.Type.Params != nil && len(h.Type.Params.List) == 1 && len(h.Type.Params.List[0].Names) == 1 {
				param, _ = h.Info().Defs[h.Type.Params.List[0].Names[0]].(*types.Var)
			}
			inspectBody(h.Body, func(nd ast.Node) bool {
				if r, ok := nd.(*ast.RangeStmt); ok && param != nil && varOf(h.Info(), r.X) == param {
					loop, loopFB, helperCall = r, h, call
				}
				return true
			})
		}
	}
	if loop == nil {
		c.Bad("cli-args-quoted", "loop@"+name, fb.Decl.Pos(), "args.Get no longer ranges (itself or through a helper) over args[doubleDashPos:]")
		return
	}
	c.Fn(loopFB)
	linfo := loopFB.Info()
	item := varOf(linfo, loop.Value)
	var quotedVar, acc *types.Var
	quoteOK, lang := false, ""
	for _, s := range loop.Body.List {
		if as, ok := s.(*ast.AssignStmt); ok && len(as.Rhs) == 1 {
			if call, ok := ast.Unparen(as.Rhs[0]).(*ast.CallExpr); ok {
				if okq, l := isQuoteBash(linfo, call); isFunc(callee(linfo, call), shSyntax, "", "Quote") {
					lang = l
					if okq && varOf(linfo, call.Args[0]) == item && item != nil {
						quoteOK = true
						quotedVar = varOf(linfo, as.Lhs[0])
					}
				}
				if isBuiltin(linfo, call, "append") && len(call.Args) == 2 && quotedVar != nil && varOf(linfo, call.Args[1]) == quotedVar && varOf(linfo, call.Args[0]) == varOf(linfo, as.Lhs[0]) {
					acc = varOf(linfo, as.Lhs[0])
				}
			}
		}
	}
	// "every argument": nothing in the loop skips an element before it is quoted and appended
	skip := ""
	for _, s := range loop.Body.List {
		if as, ok := s.(*ast.AssignStmt); ok && len(as.Rhs) == 1 {
			if call, ok := ast.Unparen(as.Rhs[0]).(*ast.CallExpr); ok && isBuiltin(linfo, call, "append") {
				break
			}
		}
		if ifs, ok := s.(*ast.IfStmt); ok {
			for _, st := range ifs.Body.List {
				if br, ok := st.(*ast.BranchStmt); ok && (br.Tok == token.CONTINUE || br.Tok == token.BREAK) {
					skip = exprStr(ifs.Cond)
				}
			}
		}
	}
	c.Decide(skip == "", "cli-args-quoted", "no-arg-skipped@"+name, loop.Pos(), "no argument after `--` is skipped", "the loop over the arguments after `--` skips an element when `"+skip+"`: that argument (for example a second literal `--`) never reaches CLI_ARGS")
	c.Decide(quoteOK, "cli-args-quoted", "each-arg-quoted@"+name, loop.Pos(), "syntax.Quote(arg, syntax.LangBash) on every argument", "the arguments after `--` are not each passed through syntax.Quote(arg, syntax.LangBash) (language: "+lang+"): an argument with spaces, quotes or control characters is split, re-interpreted or rejected")
	// the accumulated slice is what comes back as the second result of args.Get
	if helperCall != nil {
		// helper must return its accumulator; args.Get must return the helper's result as second result
		hret := acc != nil
		for _, r := range returnsOf(loopFB.Body) {
			if len(r.Results) >= 1 && r.Pos() > loop.End() && varOf(linfo, r.Results[0]) != acc {
				hret = false
			}
		}
		var resVar *types.Var
		inspectBody(fb.Body, func(nd ast.Node) bool {
			if as, ok := nd.(*ast.AssignStmt); ok && len(as.Rhs) == 1 && ast.Unparen(as.Rhs[0]) == ast.Expr(helperCall) {
				resVar = varOf(info, as.Lhs[0])
			}
			return true
		})
		retOK, firstRaw, n := hret && resVar != nil, false, 0
		for _, r := range returnsOf(fb.Body) {
			if len(r.Results) != 3 || !isNilLit(info, r.Results[2]) || r.Pos() < helperCall.End() {
				continue
			}
			n++
			if varOf(info, r.Results[1]) != resVar {
				retOK = false
			}
			if _, isSlice := ast.Unparen(r.Results[0]).(*ast.SliceExpr); isSlice {
				firstRaw = true
			}
		}
		c.Decide(retOK && n > 0, "cli-args-quoted", "returns-quoted-in-order@"+name, loop.Pos(), "second result is the helper's slice of quoted arguments, appended in order", "args.Get does not return, as its second result, the slice the quoted arguments were appended to in order")
		c.Decide(firstRaw, "cli-args-quoted", "first-result-unquoted@"+name, loop.Pos(), "first result is args[:doubleDashPos], unquoted", "the positional arguments (first result) are no longer the raw args before `--`")
		return
	}
	retOK, firstRaw := acc != nil, false
	n := 0
	for _, r := range returnsOf(fb.Body) {
		if len(r.Results) != 3 || !isNilLit(info, r.Results[2]) || r.Pos() < loop.End() {
			continue
		}
		n++
		if varOf(info, r.Results[1]) != acc {
			retOK = false
		}
		if _, isSlice := ast.Unparen(r.Results[0]).(*ast.SliceExpr); isSlice {
			firstRaw = true
		}
	}
	c.Decide(retOK && n > 0, "cli-args-quoted", "returns-quoted-in-order@"+name, loop.Pos(), "second result is the slice the quoted arguments were appended to in order", "args.Get does not return, as its second result, the slice the quoted arguments were appended to in order")
	c.Decide(firstRaw, "cli-args-quoted", "first-result-unquoted@"+name, loop.Pos(), "first result is args[:doubleDashPos], unquoted", "the positional arguments (first result) are no longer the raw args before `--`")
}

func c19CliArgsString(c *Check, a *Anchors) {
	c.Rule("cli-args-is-string", "cmd/task stores under CLI_ARGS a value of static type string that is strings.Join(<second result of args.Get>, \" \") — a single space between the individually quoted arguments")
	run := c.P.Func(PkgMain, "", "run")
	if run == nil {
		c.Errorf("cli-args-is-string: run() not found")
		return
	}
	c.Fn(run)
	info := run.Info()
	var quoted *types.Var
	inspectBody(run.Body, func(nd ast.Node) bool {
		if as, ok := nd.(*ast.AssignStmt); ok && len(as.Rhs) == 1 && len(as.Lhs) == 3 {
			if call, ok := ast.Unparen(as.Rhs[0]).(*ast.CallExpr); ok && isFunc(callee(info, call), PkgArgs, "", "Get") {
				if v := varOf(info, as.Lhs[1]); v != nil && v.Name() != "_" {
					quoted = v
				}
			}
		}
		return true
	})
	found := false
	inspectBody(run.Body, func(nd ast.Node) bool {
		call, ok := nd.(*ast.CallExpr)
		if !ok || !isFunc(callee(info, call), PkgAst, "Vars", "Set") || len(call.Args) != 2 || !constIs(info, call.Args[0], `"CLI_ARGS"`) {
			return true
		}
		found = true
		cl, ok := ast.Unparen(call.Args[1]).(*ast.CompositeLit)
		var val ast.Expr
		if ok {
			for _, e := range cl.Elts {
				if kv, ok := e.(*ast.KeyValueExpr); ok && exprStr(kv.Key) == "Value" {
					val = kv.Value
				}
			}
		}
		isString, joined := false, false
		if val != nil {
			if tv, ok := info.Types[val]; ok && types.TypeString(tv.Type, nil) == "string" {
				isString = true
			}
			if jc, ok := ast.Unparen(val).(*ast.CallExpr); ok && isFunc(callee(info, jc), "strings", "", "Join") && len(jc.Args) == 2 {
				joined = quoted != nil && varOf(info, jc.Args[0]) == quoted && constIs(info, jc.Args[1], `" "`)
			}
		}
		c.Decide(isString && joined, "cli-args-is-string", "CLI_ARGS@"+fnDisplay(run), call.Pos(), `string: strings.Join(quotedArgs, " ")`,
			fmt.Sprintf("CLI_ARGS is bound to `%s` (static type string: %v, single-space join of the quoted arguments: %v): {{.CLI_ARGS}} does not render as the quoted arguments separated by one space", exprStrOrNone(val), isString, joined))
		return true
	})
	if !found {
		c.Bad("cli-args-is-string", "CLI_ARGS@"+fnDisplay(run), run.Decl.Pos(), "CLI_ARGS is no longer set")
	}
}

func c19ShellQuote(c *Check, a *Anchors) {
	c.Rule("shellquote", "the template function shellQuote is syntax.Quote(s, syntax.LangBash) and `q` is bound to the very same map entry")
	var initFn *FuncBody
	for _, fb := range c.P.BodiesIn(PkgTemplater) {
		if fb.Decl != nil && fb.Decl.Name.Name == "init" {
			inspectBody(fb.Body, func(nd ast.Node) bool {
				if e, ok := nd.(ast.Expr); ok && constIs(fb.Info(), e, `"shellQuote"`) {
					initFn = fb
				}
				return true
			})
		}
	}
	if initFn == nil {
		c.Bad("shellquote", "registered", 0, "template function shellQuote is no longer registered")
		return
	}
	c.Fn(initFn)
	info := initFn.Info()
	okQuote, lang := false, ""
	var quoteFn *types.Func // the named function registered as shellQuote, if it is one
	inspectBody(initFn.Body, func(nd ast.Node) bool {
		kv, ok := nd.(*ast.KeyValueExpr)
		if !ok || !constIs(info, kv.Key, `"shellQuote"`) {
			return true
		}
		// the entry: a function literal, or a named function of the package
		var body *ast.BlockStmt
		var ftype *ast.FuncType
		finfo := info
		if lit, ok := ast.Unparen(kv.Value).(*ast.FuncLit); ok {
			body, ftype = lit.Body, lit.Type
		} else if fn, ok := callee(info, &ast.CallExpr{Fun: kv.Value}).(*types.Func); ok {
			if h := c.P.DeclOf(fn); h != nil && h.Decl != nil && h.Pkg.PkgPath == PkgTemplater {
				body, ftype, finfo = h.Body, h.Type, h.Info()
				quoteFn = fn
				c.Fn(h)
			}
		}
		if body == nil {
			return true
		}
		rets := returnsOf(body)
		if len(rets) == 1 && len(rets[0].Results) == 1 {
			if call, ok := ast.Unparen(rets[0].Results[0]).(*ast.CallExpr); ok {
				okq, l := isQuoteBash(finfo, call)
				lang = l
				if okq && len(ftype.Params.List) == 1 && len(ftype.Params.List[0].Names) == 1 && varOf(finfo, call.Args[0]) == finfo.Defs[ftype.Params.List[0].Names[0]] {
					okQuote = true
				}
			}
		}
		return true
	})
	c.Decide(okQuote, "shellquote", "shellQuote-is-Quote-LangBash", initFn.Decl.Pos(), "shellQuote(s) = syntax.Quote(s, syntax.LangBash)", "shellQuote is no longer syntax.Quote(s, syntax.LangBash) (language argument: "+lang+"): values containing control characters or non-UTF-8 bytes are rejected or quoted for the wrong shell")
	alias := false
	inspectBody(initFn.Body, func(nd ast.Node) bool {
		if as, ok := nd.(*ast.AssignStmt); ok && len(as.Lhs) == 1 && len(as.Rhs) == 1 {
			l, lok := ast.Unparen(as.Lhs[0]).(*ast.IndexExpr)
			r, rok := ast.Unparen(as.Rhs[0]).(*ast.IndexExpr)
			if lok && rok && constIs(info, l.Index, `"q"`) && constIs(info, r.Index, `"shellQuote"`) && varOf(info, l.X) == varOf(info, r.X) {
				alias = true
			}
			// funcs["q"] = shellQuote, the named function that is also registered as "shellQuote"
			if lok && !rok && constIs(info, l.Index, `"q"`) && quoteFn != nil {
				if id, ok := ast.Unparen(as.Rhs[0]).(*ast.Ident); ok && info.Uses[id] == types.Object(quoteFn) {
					alias = true
				}
			}
		}
		return true
	})
	c.Decide(alias, "shellquote", "q-aliases-shellQuote", initFn.Decl.Pos(), `funcs["q"] = funcs["shellQuote"]`, "`q` is no longer the same function value as shellQuote")
}

func c19SplitVar(c *Check, a *Anchors) {
	c.Rule("splitvar", "NAME=value arguments are split at the FIRST '=' only — strings.SplitN(s, \"=\", 2) or strings.Cut(s, \"=\") in args.Parse or a helper of it — never with strings.Split / SplitN with another count / LastIndex; the SplitN form is only reached on the edge where strings.Contains(arg, \"=\") holds (its second element is indexed)")
	parse := c.P.Func(PkgArgs, "", "Parse")
	if parse == nil {
		c.Errorf("splitvar: args.Parse not found")
		return
	}
	n := 0
	okSplit, bad := false, ""
	var splitters []*FuncBody // helpers that perform the SplitN and index its result
	for _, g := range c.P.groupOf(parse, 2) {
		c.Fn(g)
		info := g.Info()
		for _, call := range callsIn(g, true) {
			fn, ok := callee(info, call).(*types.Func)
			if !ok || fn.Pkg() == nil || fn.Pkg().Path() != "strings" {
				continue
			}
			sepEq := func(i int) bool { return len(call.Args) > i && constIs(info, call.Args[i], `"="`) }
			switch fn.Name() {
			case "SplitN":
				if sepEq(1) {
					if len(call.Args) == 3 && constIs(info, call.Args[2], "2") {
						okSplit = true
						if g != parse {
							splitters = append(splitters, g)
						}
					} else {
						bad = "strings.SplitN with a count other than 2"
					}
				}
			case "Cut":
				if sepEq(1) {
					okSplit = true
				}
			case "Split", "SplitAfter", "LastIndex", "LastIndexByte", "Fields":
				if sepEq(1) {
					bad = "strings." + fn.Name() + `(…, "=")`
				}
			}
		}
	}
	n++
	c.Decide(okSplit && bad == "", "splitvar", "first-equals-only@"+fnDisplay(parse), parse.Decl.Pos(), "split at the first '=' (SplitN(…, 2) / Cut)", "the variable splitter does not split at the first '=' only ("+bad+"): a value containing '=' is truncated or mis-assigned")
	pinfo := parse.Info()
	f := NewFlow(c.P, parse, func(call *ast.CallExpr, obj types.Object) string {
		if isFunc(obj, "strings", "", "Contains") && len(call.Args) == 2 && constIs(pinfo, call.Args[1], `"="`) {
			return "has-equals"
		}
		for _, sv := range splitters {
			if a.is(obj, sv) {
				return "split"
			}
		}
		if isFunc(obj, "strings", "", "SplitN") {
			return "split"
		}
		return ""
	})
	f.NoInline = true
	f.Run()
	for call, l := range f.Labels {
		if l == "split" {
			n++
			c.Decide(f.At[call].Has("true:has-equals"), "splitvar", "called-on-contains-edge@"+fnDisplay(parse), call.Pos(), "only when the argument contains '='", "the SplitN-based splitter is reached without the argument having been tested to contain '=' (its second element would be out of range)")
		}
	}
	c.Floor("splitvar", n, 1)
}

func c19InitPath(c *Check, a *Anchors) {
	c.Rule("init-path", "the path handed to InitTaskfile derives from the POSITIONAL arguments (first result of args.Get), never from the shell-quoted list; an extension-only argument keeps its directory component; in InitTaskfile every path to os.WriteFile passed a failed os.Stat of the very path that is written, and an existing file returns TaskfileAlreadyExistsError")
	run := c.P.Func(PkgMain, "", "run")
	if run == nil {
		c.Errorf("init-path: run() not found")
		return
	}
	initObj := c.P.Lookup(PkgTask, "InitTaskfile")
	var initCall *ast.CallExpr
	// the --init handling lives in run() or in a helper of package main that run() calls
	for _, g := range c.P.groupOf(run, 2) {
		for _, call := range callsIn(g, false) {
			if callee(g.Info(), call) == initObj && initObj != nil && initCall == nil {
				initCall, run = call, g
			}
		}
	}
	info := run.Info()
	if initCall == nil {
		c.Bad("init-path", "call@"+fnDisplay(run), run.Decl.Pos(), "run() no longer calls task.InitTaskfile")
		return
	}
	// the positional variable: first result of the args.Get call inside the Init branch
	var positional, quotedV *types.Var
	inspectBody(run.Body, func(nd ast.Node) bool {
		if as, ok := nd.(*ast.AssignStmt); ok && len(as.Rhs) == 1 && len(as.Lhs) == 3 && as.Pos() < initCall.Pos() {
			if call, ok := ast.Unparen(as.Rhs[0]).(*ast.CallExpr); ok && isFunc(callee(info, call), PkgArgs, "", "Get") {
				positional, quotedV = varOf(info, as.Lhs[0]), varOf(info, as.Lhs[1])
			}
		}
		return true
	})
	fromPos := positional != nil && positional.Name() != "_" && mentionsViaMulti(info, run.Body, initCall.Args[0], positional, 4)
	fromQuoted := quotedV != nil && quotedV.Name() != "_" && mentionsViaMulti(info, run.Body, initCall.Args[0], quotedV, 4)
	// ... and directly: not through the call/assignment parser, which takes every NAME=value argument out of the list
	viaParse := false
	{
		seen := map[*types.Var]bool{}
		var walk func(e ast.Node, depth int)
		walk = func(e ast.Node, depth int) {
			if depth > 5 {
				return
			}
			ast.Inspect(e, func(m ast.Node) bool {
				if call, ok := m.(*ast.CallExpr); ok && isFunc(callee(info, call), PkgArgs, "", "Parse") {
					viaParse = true
				}
				if id, ok := m.(*ast.Ident); ok {
					if v, ok := info.Uses[id].(*types.Var); ok && !v.IsField() && !seen[v] {
						seen[v] = true
						for _, d := range defsOf(info, run.Body, v) {
							walk(d, depth+1)
						}
					}
				}
				return true
			})
		}
		walk(initCall.Args[0], 0)
	}
	// ... and verbatim: between the positional argument and InitTaskfile the path goes only through path arithmetic
	// (path/filepath, filepathext, indexing, concatenation, helpers of the command itself); any other function in the
	// derivation — a shell word expansion, an environment expansion, a case mapping — rewrites what the user named
	var rewriters []string
	{
		type ctx struct {
			info *types.Info
			body ast.Node
		}
		seen := map[*types.Var]bool{}
		seenFn := map[*FuncBody]bool{}
		var walk func(cx ctx, e ast.Node, depth int)
		walk = func(cx ctx, e ast.Node, depth int) {
			if depth > 6 {
				return
			}
			ast.Inspect(e, func(m ast.Node) bool {
				switch x := m.(type) {
				case *ast.CallExpr:
					if tv, ok := cx.info.Types[x.Fun]; ok && tv.IsType() {
						return true
					}
					if id, ok := ast.Unparen(x.Fun).(*ast.Ident); ok {
						if _, isB := cx.info.Uses[id].(*types.Builtin); isB {
							return true
						}
					}
					fn, _ := callee(cx.info, x).(*types.Func)
					if fn == nil || fn.Pkg() == nil {
						return true
					}
					switch pp := fn.Pkg().Path(); {
					case pp == "path/filepath" || pp == PkgFilepathext || pp == "path":
					case pp == "os" && fn.Name() == "Getwd":
					case pp == PkgArgs && fn.Name() == "Get":
					case pp == PkgArgs && fn.Name() == "Parse": // reported by path-not-through-parser
					case pp == PkgMain || pp == PkgTask:
						if h := c.P.DeclOf(fn); h != nil && h.Decl != nil && !seenFn[h] && h != run {
							seenFn[h] = true
							for _, r := range returnsOf(h.Body) {
								for _, res := range r.Results {
									walk(ctx{h.Info(), h.Body}, res, depth+1)
								}
							}
						}
					default:
						rewriters = append(rewriters, fn.Pkg().Name()+"."+fn.Name())
					}
				case *ast.Ident:
					if v, ok := cx.info.Uses[x].(*types.Var); ok && !v.IsField() && !seen[v] {
						seen[v] = true
						for _, d := range defsOf(cx.info, cx.body, v) {
							walk(cx, d, depth+1)
						}
					}
				}
				return true
			})
		}
		walk(ctx{info, run.Body}, initCall.Args[0], 0)
	}
	c.Decide(len(rewriters) == 0, "init-path", "path-verbatim@"+fnDisplay(run), initCall.Pos(), "only path arithmetic lies between the positional argument and InitTaskfile",
		"the --init path passes through "+strings.Join(rewriters, ", ")+" on its way to InitTaskfile: the file that is checked and written is not the one the user named (`task --init 'price$5.yml'` writes price.yml; a name with a quote fails with a shell parse error)")
	c.Decide(!viaParse, "init-path", "path-not-through-parser@"+fnDisplay(run), initCall.Pos(), "the path is taken from the raw positional arguments",
		"the --init path is derived from the result of args.Parse, which removes every argument containing '=' from the calls: `task --init conf/stage=dev.yml` writes ./Taskfile.yml (or refuses because one exists) instead of the requested file")
	c.Decide(fromPos && !fromQuoted, "init-path", "path-from-positional@"+fnDisplay(run), initCall.Pos(), "derived from the first result of args.Get",
		fmt.Sprintf("the --init path is not derived from the positional arguments (from positional: %v, from the quoted post-`--` list: %v): `task --init dir/Taskfile.yml` writes somewhere else", fromPos, fromQuoted))
	// extension-only keeps the directory
	keepsDir := false
	for _, kg := range c.P.groupOf(run, 2) {
		inspectBody(kg.Body, func(nd ast.Node) bool {
			ifs, ok := nd.(*ast.IfStmt)
			if !ok {
				return true
			}
			if call, ok := ast.Unparen(ifs.Cond).(*ast.CallExpr); ok {
				if fn, ok := callee(info, call).(*types.Func); ok && fn.Name() == "IsExtOnly" {
					s := ""
					for _, st := range ifs.Body.List {
						if as, ok := st.(*ast.AssignStmt); ok {
							s += exprStr(as.Rhs[0])
						}
					}
					keepsDir = strings.Contains(s, "filepath.Dir(") && strings.Contains(s, "filepath.Ext(")
				}
			}
			return true
		})
	}
	// the extension-only classifier must not take the directory itself ("." / "dir/.") for an extension
	if ext := c.P.Func(PkgFilepathext, "", "IsExtOnly"); ext == nil {
		c.Errorf("init-path: filepathext.IsExtOnly not found")
	} else {
		c.Fn(ext)
		einfo := ext.Info()
		excludesDot := false
		inspectBody(ext.Body, func(nd ast.Node) bool {
			if be, ok := nd.(*ast.BinaryExpr); ok && (be.Op == token.NEQ || be.Op == token.EQL || be.Op == token.GTR) {
				if constIs(einfo, be.Y, `"."`) || constIs(einfo, be.X, `"."`) || (be.Op == token.GTR && constIs(einfo, be.Y, "1")) {
					excludesDot = true
				}
			}
			return true
		})
		c.Decide(excludesDot, "init-path", "ext-only-excludes-dot@"+fnDisplay(ext), ext.Decl.Pos(), "\".\" is not an extension-only name",
			"IsExtOnly accepts \".\" (filepath.Base(\".\") == filepath.Ext(\".\")): `task --init .` writes a file called `Taskfile.` instead of Taskfile.yml in the directory")
	}
	c.Decide(keepsDir, "init-path", "ext-only-keeps-dir@"+fnDisplay(run), initCall.Pos(), "Taskfile+ext is joined to filepath.Dir(name)", "for an extension-only argument the directory component of the argument is dropped: `task --init sub/.yml` writes ./Taskfile.yml")
	// InitTaskfile
	fb := c.P.Func(PkgTask, "", "InitTaskfile")
	if fb == nil {
		c.Errorf("init-path: InitTaskfile not found")
		return
	}
	c.Fn(fb)
	finfo := fb.Info()
	// the variable that is written to, and "a stat of it": os.Stat itself, or a predicate of the module that stats its parameter
	var pv *types.Var
	inspectBody(fb.Body, func(nd ast.Node) bool {
		if call, ok := nd.(*ast.CallExpr); ok && isFunc(callee(finfo, call), "os", "", "WriteFile") && len(call.Args) > 0 {
			pv = varOf(finfo, call.Args[0])
		}
		return true
	})
	statsParam := func(obj types.Object) bool {
		fn, _ := obj.(*types.Func)
		h := c.P.DeclOf(fn)
		if h == nil || h.Decl == nil || !strings.HasPrefix(h.Pkg.PkgPath, Mod) || h.Type.Params.NumFields() != 1 {
			return false
		}
		ok := false
		for _, hc := range callsIn(h, false) {
			if isFunc(callee(h.Info(), hc), "os", "", "Stat") && len(hc.Args) == 1 {
				if v := varOf(h.Info(), hc.Args[0]); v != nil && isParamOf(h.Info(), h, v) {
					ok = true
				}
			}
		}
		return ok
	}
	f := NewFlow(c.P, fb, func(call *ast.CallExpr, obj types.Object) string {
		switch {
		case isFunc(obj, "os", "", "Stat"), statsParam(obj):
			return "stat"
		case isFunc(obj, "os", "", "WriteFile"):
			return "write"
		}
		return ""
	})
	f.Effect = func(label string, call *ast.CallExpr, st Facts) {
		if label == "stat" && len(call.Args) == 1 && pv != nil && varOf(finfo, call.Args[0]) == pv {
			st["statted-current-path"] = true
		}
	}
	f.AssignHook = func(v *types.Var, rhs ast.Expr, st Facts) {
		if v == pv {
			delete(st, "statted-current-path") // the path changed: the earlier stat was of another file
		}
	}
	f.Run()
	nW := 0
	for call, l := range f.Labels {
		if l != "write" {
			continue
		}
		nW++
		st := f.At[call]
		c.Decide(pv != nil && st.Has("statted-current-path"), "init-path", "stat-before-write@"+fnDisplay(fb), call.Pos(), "on every path the written path was stat'ed after its last assignment",
			"os.WriteFile can be reached without a stat of the path in its final value (the variable was re-assigned after the last os.Stat, or never stat'ed): an existing Taskfile could be overwritten; must-facts: "+st.String())
	}
	c.Floor("init-path", nW, 1)
	exists := 0
	for _, r := range f.Returns {
		if res := errResult(r); res != nil && strings.Contains(exprStr(res), "TaskfileAlreadyExistsError") {
			st := f.At[r]
			if st.Has("called:stat") && !st.Has("called:write") {
				exists++
			}
		}
	}
	c.Decide(exists >= 2, "init-path", "exists-error@"+fnDisplay(fb), fb.Decl.Pos(), "an existing file (given path, or Taskfile.yml inside a given directory) returns TaskfileAlreadyExistsError before any write", fmt.Sprintf("only %d of the 2 'already exists' exits remain", exists))
	// each 'exists' exit is on the err == nil edge of Stat: checked by the table of returns above and the write guard below
	writeGuard := false
	for call, l := range f.Labels {
		if l == "write" {
			for k := range f.At[call] {
				if strings.HasPrefix(k, "nonnil:") || strings.HasPrefix(k, "nil:") {
					writeGuard = true
				}
			}
		}
	}
	_ = writeGuard
}

// mentionsViaMulti is mentionsVia that follows every definition of a local (not only single-assignment locals).
func mentionsViaMulti(info *types.Info, body ast.Node, e ast.Node, obj types.Object, depth int) bool {
	if mentions(info, e, obj) {
		return true
	}
	if depth <= 0 {
		return false
	}
	found := false
	ast.Inspect(e, func(n ast.Node) bool {
		if id, ok := n.(*ast.Ident); ok && !found {
			if v, ok := info.Uses[id].(*types.Var); ok && !v.IsField() && v != obj {
				for _, d := range defsOf(info, body, v) {
					if mentionsViaMulti(info, body, d, obj, depth-1) {
						found = true
					}
				}
			}
		}
		return !found
	})
	return found
}

// c19AssignmentStoredVerbatim: NAME=value stores exactly the two halves of the argument.
func c19AssignmentStoredVerbatim(c *Check, a *Anchors) {
	c.Rule("assignment-stored-verbatim", "in args.Parse the variable is stored under, and with, the two halves of the argument exactly as the split produced them — plain variables, not the result of a further call (TrimSpace, ToLower, Unquote …): a value that starts or ends with a space, a tab or a newline must reach {{shellQuote .X}} byte for byte")
	fb := c.P.Func(PkgArgs, "", "Parse")
	if fb == nil {
		c.Errorf("assignment-stored-verbatim: args.Parse not found")
		return
	}
	c.Fn(fb)
	info := fb.Info()
	n := 0
	for _, call := range callsIn(fb, true) {
		if !isFunc(callee(info, call), PkgAst, "Vars", "Set") || len(call.Args) != 2 {
			continue
		}
		n++
		var rewritten []string
		judge := func(what string, e ast.Expr) {
			e = ast.Unparen(e)
			if inner, ok := e.(*ast.CallExpr); ok {
				if tv, ok := info.Types[inner.Fun]; !ok || !tv.IsType() {
					rewritten = append(rewritten, what+" is `"+exprStr(e)+"`")
				}
			}
		}
		judge("the name", call.Args[0])
		if cl, ok := ast.Unparen(call.Args[1]).(*ast.CompositeLit); ok {
			for _, el := range cl.Elts {
				if kv, ok := el.(*ast.KeyValueExpr); ok {
					judge("the "+exprStr(kv.Key), kv.Value)
				}
			}
		}
		c.Decide(len(rewritten) == 0, "assignment-stored-verbatim", "store@"+fnDisplay(fb), call.Pos(), "name and value stored as split",
			"the command-line assignment is rewritten before it is stored ("+strings.Join(rewritten, "; ")+"): leading / trailing whitespace (or whatever the call removes) of the value never reaches the task")
	}
	c.Floor("assignment-stored-verbatim", n, 1)
}
