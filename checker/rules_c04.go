package main

import (
	"fmt"
	"go/ast"
	"go/types"
	"sort"
	"strings"

	"golang.org/x/tools/go/ssa"
)

func init() { register("C04", checkC04) }

func checkC04(c *Check, a *Anchors) {
	c.NotDecided = []string{
		"equality of fingerprints (hash collisions, two task names normalised to one state file, label-vs-name keying)",
		"crash atomicity of os.WriteFile / os.Chtimes themselves",
		"what user-written status: commands do",
	}
	fpWriteDryGuarded(c, a, "fp-write-dry-guarded")
	checkerConstruction(c, a, "checker-dry-passed")
	c04Rollback(c, a)
	c04RollbackEffective(c, a)
	c04RecordAfterSuccess(c, a)
	queryNeverRecords(c, a, "query-never-records")
	methodResolution(c, a, "method-resolution-agrees")
	stateKeyInjective(c, a)
	stateAbsentMeansStale(c, a)
	c05Generates(c, a)       // "its generates files still exist": every generates entry is checked on its own
	c03CmdIgnoreScoped(c, a) // a cancelled or failed attempt reaches the rollback only if the command runner does not swallow its error
	timestampFullResolution(c, a, "timestamp-full-resolution")
}

// fpWriteDryGuarded: every state write in internal/fingerprint is on the false edge of the checker's dry flag.
func fpWriteDryGuarded(c *Check, a *Anchors, rule string) {
	c.Rule(rule, "every filesystem-mutating call in internal/fingerprint is dominated by the false edge of the receiver checker's `dry` field (must-dataflow over the CFG; if-form, ||-early-return form and switch form are recognised)")
	n := 0
	ord := map[string]int{}
	for _, fb := range c.P.BodiesIn(PkgFingerprint) {
		if fb.Decl == nil {
			continue
		}
		for _, s := range mutSites(c.P, fb) {
			n++
			c.Fn(fb)
			ok, by := s.DryGuarded()
			key := ordinal(ord, s.Callee+"@"+fnDisplay(fb))
			c.Decide(ok, rule, key, s.Call.Pos(), "guarded by !"+by,
				fmt.Sprintf("%s in %s is not dominated by the checker's dry flag: a dry run / status or list query writes fingerprint state; must-facts: %s", s.Callee, fnDisplay(fb), s.Facts))
		}
	}
	c.Sites += n
	c.Floor(rule, n, 5)
}

// checkerConstruction: the dry flag is threaded unchanged from the executor to the checkers.
func checkerConstruction(c *Check, a *Anchors, rule string) {
	c.Rule(rule, "every construction of a fingerprint checker passes, as its dry flag, the executor's Dry field, the constant true, or the dry value it was itself handed (parameter / CheckerConfig.dry); constructors and WithDry store exactly their parameter")
	n := 0
	ord := map[string]int{}
	for _, fb := range c.P.Bodies() {
		info := fb.Info()
		inspectBody(fb.Body, func(nd ast.Node) bool {
			call, ok := nd.(*ast.CallExpr)
			if !ok {
				return true
			}
			obj := callee(info, call)
			var arg ast.Expr
			switch {
			case isFunc(obj, PkgFingerprint, "", "NewTimestampChecker"), isFunc(obj, PkgFingerprint, "", "NewChecksumChecker"), isFunc(obj, PkgFingerprint, "", "NewSourcesChecker"):
				arg = call.Args[len(call.Args)-1]
			case isFunc(obj, PkgFingerprint, "", "WithDry"):
				arg = call.Args[0]
			default:
				return true
			}
			n++
			kind := dryArgKind(info, fb, arg)
			if kind == "param" && fb.Root().Pkg.PkgPath == PkgTask && fb.Root().Obj != nil {
				// an options helper of package task: the flag it hands down must itself be acceptable at each of its call sites
				if bad := helperDryCallers(c, fb.Root(), arg); bad != "" {
					kind = "param bound to " + bad
				}
			}
			ok = kind == "true" || kind == "Executor.Dry" || kind == "param" || kind == "CheckerConfig.dry"
			key := ordinal(ord, calleeName(obj)+"@"+fnDisplay(fb.Root()))
			c.Decide(ok, rule, key, call.Pos(), "dry flag is "+kind, "the dry flag passed to "+calleeName(obj)+" is `"+exprStr(arg)+"`, which is not the executor's Dry / true / the flag handed down: dry and query modes would write fingerprint state")
			return true
		})
	}
	c.Floor(rule, n, 5)
	// every entry function of the fingerprint package that takes checker options (IsTaskUpToDate, an OnError entry …) is
	// handed a dry flag by its callers in package task: an absent WithDry means dry=false, whatever mode the executor is in
	for _, fb := range c.P.BodiesIn(PkgTask) {
		info := fb.Info()
		for _, call := range callsIn(fb, false) {
			fn, ok := callee(info, call).(*types.Func)
			if !ok || fn.Pkg() == nil || fn.Pkg().Path() != PkgFingerprint {
				continue
			}
			sig := fn.Type().(*types.Signature)
			if !sig.Variadic() || sig.Params().Len() == 0 {
				continue
			}
			last := sig.Params().At(sig.Params().Len() - 1).Type()
			sl, ok := last.(*types.Slice)
			if !ok || !isNamed(sl.Elem(), PkgFingerprint, "CheckerOption") {
				continue
			}
			kind := dryOptionKind(c, info, fb, call)
			okKind := kind == "true" || kind == "Executor.Dry" || kind == "param" || kind == "CheckerConfig.dry"
			c.Decide(okKind, rule, ordinal(ord, "options-carry-dry "+fn.Name()+"@"+fnDisplay(fb.Root())), call.Pos(), "the options carry the dry flag ("+kind+")",
				"fingerprint."+fn.Name()+" is called from "+fnDisplay(fb.Root())+" with a dry flag that is "+kind+": the checker it builds runs with dry=false, so in a dry run (or a --status / --list query) this call writes or removes fingerprint state")
		}
	}
	// constructors store their parameter
	for _, nm := range []string{"NewTimestampChecker", "NewChecksumChecker"} {
		fb := c.P.Func(PkgFingerprint, "", nm)
		if fb == nil {
			c.Errorf("%s: constructor %s not found", rule, nm)
			continue
		}
		c.Fn(fb)
		stores := false
		for _, d := range c.P.dryFields() {
			if d.ctors[fb] {
				stores = true // a field of the checker holds a value that differs between dry=true and dry=false
			}
		}
		c.Decide(stores, rule, "stores-param@"+fnDisplay(fb), fb.Decl.Pos(), "dry: <parameter>", nm+" does not store its dry parameter in the checker's dry field")
	}
	if fb := c.P.Func(PkgFingerprint, "", "WithDry"); fb != nil {
		info := fb.Info()
		stores := false
		inspectDeep(fb.Body, func(nd ast.Node) bool {
			if as, ok := nd.(*ast.AssignStmt); ok && len(as.Lhs) == 1 && fieldSel(info, as.Lhs[0], PkgFingerprint, "CheckerConfig", "dry") {
				if v := varOf(info, as.Rhs[0]); v != nil && len(fb.Type.Params.List) == 1 && info.Defs[fb.Type.Params.List[0].Names[0]] == v {
					stores = true
				}
			}
			return true
		})
		c.Decide(stores, rule, "stores-param@"+fnDisplay(fb), fb.Decl.Pos(), "config.dry = <parameter>", "WithDry does not store its parameter in CheckerConfig.dry")
	}
}

// c04Rollback: every failing exit of the body after the fingerprint was recorded is preceded by the rollback.
func c04Rollback(c *Check, a *Anchors) {
	c.Rule("rollback-on-every-failure", "on every path of the task body that called the up-to-date check (which records the fingerprint) and then returns a non-nil error, the status rollback (statusOnError -> checker.OnError) is an earlier event on that path; the only allow-listed exit is the up-to-date check's own error (the same error recurs on the next run, which therefore cannot report 'up to date')")
	fn := c.P.SSAFunc(a.BodyClosure)
	if fn == nil {
		c.Errorf("rollback-on-every-failure: no SSA for the task body")
		return
	}
	c.Fn(a.BodyClosure)
	pe := &PathEnum{Fn: fn, MaxRevisit: revisit(), Event: a.ssaLabel}
	pe.Name = isExitName(pe)
	pe.Run()
	c.Paths += len(pe.Paths)
	if pe.Truncated {
		c.Errorf("rollback-on-every-failure: path budget exceeded")
		return
	}
	type site struct {
		n   int
		bad []string
	}
	sites := map[string]*site{}
	upKey := ""
	for v, nme := range pe.callOrd {
		if call, ok := v.(*ssa.Call); ok {
			if l, _ := a.ssaLabel(call); l == "uptodate" {
				upKey = "res:" + nme
			}
		}
	}
	if upKey == "" {
		c.Errorf("rollback-on-every-failure: IsTaskUpToDate call not found in the task body")
		return
	}
	for _, p := range pe.Paths {
		if p.Panic || p.Ret == nil {
			continue
		}
		iu := p.EventIndex("uptodate", "call")
		if iu < 0 {
			// a forced run skips the check but not the obligation: an earlier run's record must not survive a failed attempt
			// either, so a path that ran a command and fails is judged from that command on
			if iu = p.EventIndex("cmd", "call"); iu < 0 {
				continue
			}
			iu--
		}
		out := p.Out[len(p.Out)-1]
		if out == "nil" {
			continue
		}
		if v, ok := p.Asg["nil("+upKey+"#1)"]; ok && !v {
			continue // allow-listed: the check's own error
		}
		pos := c.P.Pos(p.Ret.Pos())
		// the classified outcome names the exit
		k := "exit returning " + exitClass(out)
		s := sites[k]
		if s == nil {
			s = &site{}
			sites[k] = s
		}
		s.n++
		rolled := false
		for i := iu + 1; i < len(p.Events); i++ {
			if p.Events[i].Label == "rollback" && p.Events[i].Kind == "call" {
				rolled = true
			}
		}
		if !rolled && len(s.bad) < 2 {
			s.bad = append(s.bad, fmt.Sprintf("at %s: %s", pos, p))
		}
	}
	var keys []string
	for k := range sites {
		keys = append(keys, k)
	}
	sort.Strings(keys)
	for _, k := range keys {
		s := sites[k]
		c.Decide(len(s.bad) == 0, "rollback-on-every-failure", k+"@"+fnDisplay(a.BodyClosure), a.BodyClosure.Body.Pos(),
			fmt.Sprintf("rollback precedes the exit on all %d paths", s.n),
			"the task body can fail after the fingerprint was recorded without rolling it back (the next run would report 'up to date' although the commands did not complete): "+strings.Join(s.bad, " || "))
	}
	c.Floor("rollback-on-every-failure", len(keys), 3)
}

func exitClass(out string) string {
	switch {
	case strings.HasPrefix(out, "new("):
		return strings.TrimSuffix(strings.TrimPrefix(out, "new("), ")")
	case strings.HasPrefix(out, "res:"):
		return "the error of " + strings.TrimPrefix(out, "res:")
	}
	return out
}

// sourcesCheckers lists the named types of internal/fingerprint that implement SourcesCheckable.
func sourcesCheckers(c *Check) []*types.Named {
	iface, _ := c.P.Lookup(PkgFingerprint, "SourcesCheckable").(*types.TypeName)
	if iface == nil {
		c.Errorf("fingerprint.SourcesCheckable not found")
		return nil
	}
	it, _ := iface.Type().Underlying().(*types.Interface)
	var out []*types.Named
	scope := c.P.Pkgs[PkgFingerprint].Types.Scope()
	for _, nm := range scope.Names() {
		tn, ok := scope.Lookup(nm).(*types.TypeName)
		if !ok || tn == iface {
			continue
		}
		named, ok := tn.Type().(*types.Named)
		if !ok {
			continue
		}
		if _, isStruct := named.Underlying().(*types.Struct); !isStruct {
			continue
		}
		if strings.HasPrefix(nm, "Mock") {
			continue
		}
		if types.Implements(named, it) || types.Implements(types.NewPointer(named), it) {
			out = append(out, named)
		}
	}
	return out
}

func c04RollbackEffective(c *Check, a *Anchors) {
	c.Rule("rollback-effective", "sibling agreement inside each SourcesCheckable implementation: if IsUpToDate contains a state write, OnError must remove or invalidate the same state (a filesystem-mutating call on the path computed by the same path helper), itself dry-guarded")
	n := 0
	for _, t := range sourcesCheckers(c) {
		name := t.Obj().Name()
		up := c.P.Func(PkgFingerprint, name, "IsUpToDate")
		oe := c.P.Func(PkgFingerprint, name, "OnError")
		if up == nil || oe == nil {
			continue
		}
		// the writes of IsUpToDate: its own and those of the helpers of the package it delegates the recording to
		var writes []*MutSite
		helpers := map[*types.Func]bool{}
		for _, g := range c.P.groupOf(up, 2) {
			if g.Pkg.PkgPath != PkgFingerprint {
				continue
			}
			writes = append(writes, mutSites(c.P, g)...)
			for _, call := range callsIn(g, true) {
				if fn, ok := callee(g.Info(), call).(*types.Func); ok && fn.Pkg() != nil && fn.Pkg().Path() == PkgFingerprint {
					if statePathHelper(c, fn) {
						helpers[fn] = true // method of the checker or plain function of the package that names the state file
					}
				}
			}
		}
		if len(writes) == 0 {
			c.OK("rollback-effective", name, up.Decl.Pos(), "IsUpToDate writes no state; nothing to roll back")
			continue
		}
		n++
		c.Fn(up)
		c.Fn(oe)
		ok := false
		for _, g := range c.P.groupOf(oe, 2) {
			if g.Pkg.PkgPath != PkgFingerprint {
				continue
			}
			for _, s := range mutSites(c.P, g) {
				for _, arg := range s.Call.Args {
					// the removed path: a call of the path helper, or a variable assigned from one
					exprs := []ast.Expr{arg}
					if v := varOf(g.Info(), arg); v != nil && !v.IsField() {
						exprs = append(exprs, defsOf(g.Info(), g.Body, v)...)
					}
					for _, e := range exprs {
						ast.Inspect(e, func(nd ast.Node) bool {
							if call, isCall := nd.(*ast.CallExpr); isCall {
								if fn, isFn := callee(g.Info(), call).(*types.Func); isFn && helpers[fn] {
									ok = true
								}
							}
							return true
						})
					}
				}
			}
		}
		c.Decide(ok, "rollback-effective", name, oe.Decl.Pos(), "OnError removes the state file named by the same path helper IsUpToDate writes to",
			fmt.Sprintf("(*%s).IsUpToDate records state (%s ...) but (*%s).OnError does not remove or invalidate it: after a failed run the task is reported up to date", name, writes[0].Callee, name))
	}
	c.Floor("rollback-effective", n, 2)
}

func c04RecordAfterSuccess(c *Check, a *Anchors) {
	c.Rule("record-after-success", "no fingerprint state write may be reachable before the cmds loop has completed successfully: recording in the up-to-date query (which the task body calls before the commands) means a process killed between the write and the end of the commands leaves the task marked up to date")
	// the up-to-date check precedes the cmds loop in the body
	body := a.BodyClosure
	info := body.Info()
	loop, _ := cmdsLoop(a)
	var upCall *ast.CallExpr
	for _, call := range callsIn(body, false) {
		if a.isUpToDateCallee(callee(info, call)) {
			upCall = call
		}
	}
	if loop == nil || upCall == nil {
		c.Errorf("record-after-success: cmds loop or IsTaskUpToDate call not found in the task body")
		return
	}
	before := upCall.Pos() < loop.Pos()
	if a.LoopFn != body {
		// the command loop lives in the body's tail: the query precedes it when it precedes the call of the tail
		before = false
		for _, call := range callsIn(body, false) {
			if a.isTailCall(info, call) && upCall.Pos() < call.Pos() {
				before = true
			}
		}
	}
	for _, t := range sourcesCheckers(c) {
		name := t.Obj().Name()
		up := c.P.Func(PkgFingerprint, name, "IsUpToDate")
		if up == nil {
			continue
		}
		writes := mutSites(c.P, up)
		key := "state-write-in-query@" + fnDisplay(up)
		if len(writes) > 0 && before {
			c.Bad("record-after-success", key, writes[len(writes)-1].Call.Pos(), fmt.Sprintf("(*%s).IsUpToDate records the fingerprint (%s) and is called by the task body before the cmds loop: a kill between the write and the end of the commands makes the next run skip the task", name, writes[len(writes)-1].Callee))
		} else {
			c.OK("record-after-success", key, up.Decl.Pos(), "no state write before the commands")
		}
	}
}

// queryNeverRecords: listing entry points never reach a state write.
func queryNeverRecords(c *Check, a *Anchors, rule string) {
	c.Rule(rule, "from the query entry points (ListTasks, ListTaskNames, ToEditorOutput, GetTaskList, Status) no filesystem-mutating call is reachable in the call graph, except inside the fingerprint checkers behind fingerprint.IsTaskUpToDate, and every such call site passes WithDry(true) — never the executor's flag, which is false for a plain --list")
	isUp := func(fb *FuncBody) bool {
		return fb.Obj != nil && isFunc(fb.Obj, PkgFingerprint, "", "IsTaskUpToDate")
	}
	entries := []*FuncBody{a.ListTasks, a.ListTaskNames, a.ToEditor, a.GetTaskList, a.Status}
	reach := c.P.ReachableFrom(entries, isUp)
	n := 0
	ord := map[string]int{}
	var fns []*FuncBody
	for fb := range reach {
		fns = append(fns, fb)
	}
	sort.Slice(fns, func(i, j int) bool { return fnDisplay(fns[i]) < fnDisplay(fns[j]) })
	for _, fb := range fns {
		if fb.Decl == nil || isUp(fb) {
			continue
		}
		c.Fn(fb)
		for _, s := range mutSites(c.P, fb) {
			if fb.Pkg.PkgPath == PkgFingerprint {
				continue // reached only through a checker method called outside IsTaskUpToDate; judged below
			}
			n++
			c.Bad(rule, ordinal(ord, s.Callee+"@"+fnDisplay(fb)), s.Call.Pos(), s.Callee+" is reachable from a listing entry point: --list/--list-all would modify the project directory")
		}
		info := fb.Info()
		inspectDeep(fb.Body, func(nd ast.Node) bool {
			call, ok := nd.(*ast.CallExpr)
			if !ok || !isFunc(callee(info, call), PkgFingerprint, "", "IsTaskUpToDate") {
				return true
			}
			if fb.Obj != nil && a.upToDateWrappers()[fb.Obj] != nil {
				return true // a thin forwarder: judged at each of its call sites, below
			}
			n++
			kind := dryOptionKind(c, info, fb, call)
			c.Decide(kind == "true", rule, ordinal(ord, "IsTaskUpToDate@"+fnDisplay(fb)), call.Pos(), "WithDry(true)",
				"the up-to-date query of a listing passes WithDry("+kind+"): without --dry it records the fingerprint of every listed task, so a later normal run skips tasks whose commands never ran")
			return true
		})
		// calls of a thin forwarder (isTaskUpToDate(ctx, t, dry)): the value bound to the parameter its WithDry receives
		inspectDeep(fb.Body, func(nd ast.Node) bool {
			call, ok := nd.(*ast.CallExpr)
			if !ok {
				return true
			}
			fn, _ := callee(info, call).(*types.Func)
			w := a.upToDateWrappers()[fn]
			if fn == nil || w == nil {
				return true
			}
			n++
			var inner *ast.CallExpr
			inspectDeep(w.Body, func(m ast.Node) bool {
				if ic, ok := m.(*ast.CallExpr); ok && isFunc(callee(w.Info(), ic), PkgFingerprint, "", "IsTaskUpToDate") {
					inner = ic
				}
				return true
			})
			kind := dryOptionKind(c, w.Info(), w, inner)
			if kind == "param" {
				kind = "absent (defaults to false)"
				inspectDeep(inner, func(m ast.Node) bool {
					if wc, ok := m.(*ast.CallExpr); ok && isFunc(callee(w.Info(), wc), PkgFingerprint, "", "WithDry") && len(wc.Args) == 1 {
						if i := paramIndex(w.Info(), w, varOf(w.Info(), wc.Args[0])); i >= 0 && i < len(call.Args) {
							kind = dryArgKind(info, fb, call.Args[i])
						}
					}
					return true
				})
			}
			c.Decide(kind == "true", rule, ordinal(ord, "IsTaskUpToDate@"+fnDisplay(fb)), call.Pos(), "WithDry(true) through "+fnDisplay(w),
				"the up-to-date query of a listing passes WithDry("+kind+") through "+fnDisplay(w)+": without --dry it records the fingerprint of every listed task, so a later normal run skips tasks whose commands never ran")
			return true
		})
		// writing checker methods called directly (not through IsTaskUpToDate)
		inspectDeep(fb.Body, func(nd ast.Node) bool {
			call, ok := nd.(*ast.CallExpr)
			if !ok {
				return true
			}
			if fn, ok := callee(info, call).(*types.Func); ok && fn.Pkg() != nil && fn.Pkg().Path() == PkgFingerprint && (fn.Name() == "IsUpToDate" || fn.Name() == "OnError") {
				if sig := fn.Type().(*types.Signature); sig.Recv() != nil && sig.Params().Len() == 1 {
					n++
					c.Bad(rule, ordinal(ord, "SourcesCheckable."+fn.Name()+"@"+fnDisplay(fb)), call.Pos(), "a state-writing checker method is called directly on a listing path")
				}
			}
			return true
		})
	}
	c.Sites += len(fns)
	c.Floor(rule, n, 1)
}

// methodResolution: sibling agreement on which fingerprint method applies (task-level `method:` wins over the Taskfile's).
func methodResolution(c *Check, a *Anchors, rule string) {
	c.Rule(rule, "every function of package task that hands a fingerprint method to a checker (WithMethod / NewSourcesChecker) resolves it the same way on all paths: the task's own `method:` when it is set, the Taskfile-wide method otherwise — the up-to-date check, --status, the JSON listing and the rollback after a failure must agree, otherwise the rollback removes the state of the wrong checker")
	n := 0
	helpers := map[*ssa.Function]bool{}
	for _, fb := range c.P.BodiesIn(PkgTask) {
		uses := false
		for _, call := range callsIn(fb, false) {
			obj := callee(fb.Info(), call)
			if isFunc(obj, PkgFingerprint, "", "WithMethod") || isFunc(obj, PkgFingerprint, "", "NewSourcesChecker") {
				uses = true
			}
		}
		if !uses {
			continue
		}
		fn := c.P.SSAFunc(fb)
		if fn == nil {
			continue
		}
		c.Fn(fb)
		var pe *PathEnum
		pe = &PathEnum{Fn: fn, MaxRevisit: 0, NoInline: true, EventR: func(in ssa.Instruction, resolve func(ssa.Value) ssa.Value) (string, string) {
			call, ok := in.(*ssa.Call)
			if !ok {
				return "", ""
			}
			f := call.Common().StaticCallee()
			if f == nil || f.Pkg == nil || f.Pkg.Pkg.Path() != PkgFingerprint || (f.Name() != "WithMethod" && f.Name() != "NewSourcesChecker") {
				return "", ""
			}
			// the method may be resolved by a helper of the package (e.fingerprintMethod(t)): the helper is judged on its own
			if hc, ok := resolve(call.Common().Args[0]).(*ssa.Call); ok {
				if hf := hc.Common().StaticCallee(); hf != nil && hf.Pkg != nil && hf.Pkg.Pkg.Path() == PkgTask {
					helpers[hf] = true
					return "method=helper", "call"
				}
			}
			return "method=" + pe.key(resolve(call.Common().Args[0]), nil), "call"
		}}
		pe.Run()
		c.Paths += len(pe.Paths)
		var bad []string
		seen := 0
		for _, p := range pe.Paths {
			for _, e := range p.Events {
				if !strings.HasPrefix(e.Label, "method=") {
					continue
				}
				seen++
				got := strings.TrimPrefix(e.Label, "method=")
				if got == "helper" {
					continue // judged below
				}
				if strings.Contains(got, "cmp.Or") && allMethodArgsCmpOr(fb) {
					continue // cmp.Or(task.Method, Taskfile.Method): the first non-empty one, i.e. the task's own when it is set
				}
				empty, known := false, false
				for k, v := range p.Asg {
					if strings.HasPrefix(k, "eq(field:Task.Method,") && strings.HasSuffix(k, `"")`) {
						empty, known = v, true
					}
				}
				want := "field:Taskfile.Method"
				if known && !empty {
					want = "field:Task.Method"
				}
				if !known {
					bad = append(bad, "the method is chosen without testing whether the task has its own `method:` (got "+got+"): "+p.String())
				} else if got != want {
					bad = append(bad, fmt.Sprintf("task method set: %v, but the checker is given %s (expected %s): %s", !empty, got, want, p))
				}
			}
		}
		if seen == 0 {
			continue
		}
		n++
		c.Decide(len(bad) == 0, rule, "method@"+fnDisplay(fb), fb.Body.Pos(), fmt.Sprintf("task method wins on all %d path(s)", seen), firstN(bad, 2))
	}
	// resolver helpers: every path returns the task's own method when it is set, the Taskfile's otherwise
	for hf := range helpers {
		if hfn, ok := hf.Object().(*types.Func); ok {
			if hb := c.P.DeclOf(hfn); hb != nil {
				rets := returnsOf(hb.Body)
				all := len(rets) > 0
				for _, r := range rets {
					if len(r.Results) != 1 || !isMethodCmpOr(hb.Info(), r.Results[0]) {
						all = false
					}
				}
				if all {
					n++
					c.Fn(hb)
					c.OK(rule, "method@"+hf.String(), hf.Pos(), "cmp.Or(task.Method, Taskfile.Method): the task's own method when it is set, the Taskfile's otherwise")
					continue
				}
			}
		}
		hp := &PathEnum{Fn: hf, MaxRevisit: 0, NoInline: true}
		hp.Run()
		c.Paths += len(hp.Paths)
		var bad []string
		for _, p := range hp.Paths {
			if p.Panic || len(p.Out) != 1 {
				continue
			}
			empty, known := false, false
			for k, v := range p.Asg {
				if strings.HasPrefix(k, "eq(field:Task.Method,") && strings.HasSuffix(k, `"")`) {
					empty, known = v, true
				}
			}
			want := "field:Taskfile.Method"
			if known && !empty {
				want = "field:Task.Method"
			}
			if !known {
				bad = append(bad, "the helper chooses the method without testing whether the task has its own `method:`: "+p.String())
			} else if p.Out[0] != want {
				bad = append(bad, fmt.Sprintf("task method set: %v, but the helper returns %s (expected %s): %s", !empty, p.Out[0], want, p))
			}
		}
		n++
		c.Decide(len(bad) == 0 && len(hp.Paths) > 0, rule, "method@"+hf.String(), hf.Pos(), fmt.Sprintf("task method wins on all %d path(s) of the helper", len(hp.Paths)), firstN(bad, 2))
	}
	c.Floor(rule, n, 2)
}

// dryOptionKind classifies the dry flag an IsTaskUpToDate call is given: a direct fingerprint.WithDry(x) argument, or one that
// an options helper of the same package builds (WithDry(<helper parameter>) is mapped back to the argument at this call site).
func dryOptionKind(c *Check, info *types.Info, fb *FuncBody, call *ast.CallExpr) string {
	kind := "absent (defaults to false)"
	for _, arg := range call.Args {
		opt, ok := ast.Unparen(arg).(*ast.CallExpr)
		if !ok {
			continue
		}
		if isFunc(callee(info, opt), PkgFingerprint, "", "WithDry") {
			kind = dryArgKind(info, fb, opt.Args[0])
			continue
		}
		fn, ok := callee(info, opt).(*types.Func)
		if !ok {
			continue
		}
		h := c.P.DeclOf(fn)
		if h == nil || h.Pkg != fb.Pkg {
			continue
		}
		hinfo := h.Info()
		// the LAST WithDry in the helper's option list wins (options are applied in order)
		inspectDeep(h.Body, func(nd ast.Node) bool {
			wc, ok := nd.(*ast.CallExpr)
			if !ok || !isFunc(callee(hinfo, wc), PkgFingerprint, "", "WithDry") {
				return true
			}
			k := dryArgKind(hinfo, h, wc.Args[0])
			if k == "param" {
				if i := paramIndex(hinfo, h, varOf(hinfo, wc.Args[0])); i >= 0 && i < len(opt.Args) {
					k = dryArgKind(info, fb, opt.Args[i])
				} else if i >= 0 {
					// a variadic options parameter: extra options given by the caller are appended before / after; judged below
					k = "param"
				}
			}
			kind = k
			return true
		})
		// options passed INTO the helper by the caller (fingerprintOptions(t, WithDry(true))): they count only when the helper
		// appends its own defaults before them; a helper that appends its defaults after them overrides them
		for _, ha := range opt.Args {
			if hc, ok := ast.Unparen(ha).(*ast.CallExpr); ok && isFunc(callee(info, hc), PkgFingerprint, "", "WithDry") {
				overridden := false
				inspectDeep(h.Body, func(nd ast.Node) bool {
					ac, ok := nd.(*ast.CallExpr)
					if !ok || !isBuiltin(hinfo, ac, "append") || len(ac.Args) < 2 {
						return true
					}
					if v := varOf(hinfo, ac.Args[0]); v != nil && isParamOf(hinfo, h, v) {
						for _, later := range ac.Args[1:] {
							if lc, ok := ast.Unparen(later).(*ast.CallExpr); ok && isFunc(callee(hinfo, lc), PkgFingerprint, "", "WithDry") {
								overridden = true
							}
						}
					}
					return true
				})
				if !overridden {
					kind = dryArgKind(info, fb, hc.Args[0])
				}
			}
		}
	}
	return kind
}

// helperDryCallers: every call site of the helper binds the parameter `arg` names to an acceptable dry value; returns the
// first offending binding.
func helperDryCallers(c *Check, h *FuncBody, arg ast.Expr) string {
	hinfo := h.Info()
	i := paramIndex(hinfo, h, varOf(hinfo, arg))
	if i < 0 {
		return ""
	}
	for _, cb := range c.P.Bodies() {
		if cb.Pkg != h.Pkg {
			continue
		}
		info := cb.Info()
		for _, call := range callsIn(cb, false) {
			if fn, ok := callee(info, call).(*types.Func); ok && fn == h.Obj && i < len(call.Args) {
				k := dryArgKind(info, cb, call.Args[i])
				if k != "true" && k != "Executor.Dry" && k != "param" && k != "CheckerConfig.dry" {
					return "`" + exprStr(call.Args[i]) + "` in " + fnDisplay(cb.Root())
				}
			}
		}
	}
	return ""
}

// isMethodCmpOr: the expression is cmp.Or(<task>.Method, <Taskfile>.Method) — the first non-empty of the two, in that order.
func isMethodCmpOr(info *types.Info, e ast.Expr) bool {
	call, ok := ast.Unparen(e).(*ast.CallExpr)
	if !ok || !isFunc(callee(info, call), "cmp", "", "Or") || len(call.Args) != 2 {
		return false
	}
	return fieldSel(info, call.Args[0], PkgAst, "Task", "Method") && fieldSel(info, call.Args[1], PkgAst, "Taskfile", "Method")
}

// allMethodArgsCmpOr: every method argument of WithMethod / NewSourcesChecker in fb that is a cmp.Or call has that form.
func allMethodArgsCmpOr(fb *FuncBody) bool {
	info := fb.Info()
	n, all := 0, true
	for _, call := range callsIn(fb, false) {
		obj := callee(info, call)
		if !(isFunc(obj, PkgFingerprint, "", "WithMethod") || isFunc(obj, PkgFingerprint, "", "NewSourcesChecker")) || len(call.Args) == 0 {
			continue
		}
		arg := call.Args[0]
		if v := varOf(info, arg); v != nil && !v.IsField() {
			if d := singleDef(info, fb.Body, v); d != nil {
				arg = d
			}
		}
		if c2, ok := ast.Unparen(arg).(*ast.CallExpr); ok && isFunc(callee(info, c2), "cmp", "", "Or") {
			n++
			if !isMethodCmpOr(info, arg) {
				all = false
			}
		}
	}
	return n > 0 && all
}
