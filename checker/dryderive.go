package main

import (
	"go/ast"
	"go/constant"
	"go/token"
	"go/types"
	"strings"
)

// Dry-flag derivation. A fingerprint checker is constructed with a bool "dry" parameter; which field of the checker holds
// it, and in which representation (the bool itself, an enum computed from it ...), is read off the constructor: a field of
// the constructed struct whose stored value is a different constant for dry=true and dry=false. A condition is a test of the
// dry flag when, with those fields at their dry=true value, it evaluates to a constant: true gives the atom
// "field:<Checker>.dry", false its negation. Small pure functions of the module (predicates, mode mappings) are evaluated.

type dryField struct {
	val   constant.Value // value of the field when the checker is dry
	owner string         // checker type name
	ctors map[*FuncBody]bool
}

var dryFieldsCache = map[*Prog]map[*types.Var]dryField{}

func (p *Prog) dryFields() map[*types.Var]dryField {
	if m, ok := dryFieldsCache[p]; ok {
		return m
	}
	out := map[*types.Var]dryField{}
	dryFieldsCache[p] = out // (set before evaluation: the evaluator consults it)
	for _, fb := range p.BodiesIn(PkgFingerprint) {
		if fb.Decl == nil || fb.Type.Results == nil || len(fb.Type.Results.List) != 1 || fb.Type.Params == nil {
			continue
		}
		info := fb.Info()
		var boolParams []*types.Var
		for _, fld := range fb.Type.Params.List {
			for _, id := range fld.Names {
				if v, ok := info.Defs[id].(*types.Var); ok {
					if b, ok := v.Type().Underlying().(*types.Basic); ok && b.Kind() == types.Bool {
						boolParams = append(boolParams, v)
					}
				}
			}
		}
		if len(boolParams) != 1 {
			continue
		}
		rt, ok := info.Types[fb.Type.Results.List[0].Type]
		if !ok {
			continue
		}
		named := namedOf(rt.Type)
		if named == nil {
			continue
		}
		st, ok := named.Underlying().(*types.Struct)
		if !ok {
			continue
		}
		store := func(field *types.Var, rhs ast.Expr) {
			vt := constEval(p, info, rhs, map[*types.Var]constant.Value{boolParams[0]: constant.MakeBool(true)}, nil, 3)
			vf := constEval(p, info, rhs, map[*types.Var]constant.Value{boolParams[0]: constant.MakeBool(false)}, nil, 3)
			if vt != nil && vf != nil && !constant.Compare(vt, token.EQL, vf) {
				d, ok := out[field]
				if !ok {
					d = dryField{vt, named.Obj().Name(), map[*FuncBody]bool{}}
				}
				d.ctors[fb] = true // a field of a struct shared by several checkers has several constructors
				out[field] = d
			}
		}
		inspectBody(fb.Body, func(n ast.Node) bool {
			switch x := n.(type) {
			case *ast.CompositeLit:
				// the literal of the checker, or of a struct of the module nested in it (an embedded state struct)
				tv, ok := info.Types[x]
				if !ok {
					return true
				}
				ln := namedOf(tv.Type)
				if ln == nil || ln.Obj().Pkg() == nil || !strings.HasPrefix(ln.Obj().Pkg().Path(), Mod) {
					return true
				}
				lst, ok := ln.Underlying().(*types.Struct)
				if !ok {
					return true
				}
				_ = st
				for i, el := range x.Elts {
					if kv, ok := el.(*ast.KeyValueExpr); ok {
						if id, ok := kv.Key.(*ast.Ident); ok {
							if f, ok := info.Uses[id].(*types.Var); ok && f.IsField() {
								store(f, kv.Value)
							}
						}
					} else if i < lst.NumFields() {
						store(lst.Field(i), el)
					}
				}
			case *ast.AssignStmt:
				for i, l := range x.Lhs {
					if sel, ok := ast.Unparen(l).(*ast.SelectorExpr); ok && len(x.Lhs) == len(x.Rhs) {
						if s := info.Selections[sel]; s != nil && s.Kind() == types.FieldVal {
							if f, ok := s.Obj().(*types.Var); ok {
								store(f, x.Rhs[i])
							}
						}
					}
				}
			}
			return true
		})
	}
	return out
}

// dryLeafAtom names a condition leaf that is a test of a checker's dry flag.
func dryLeafAtom(p *Prog, info *types.Info, e ast.Expr) string {
	if p == nil {
		return ""
	}
	dd := p.dryFields()
	if len(dd) == 0 {
		return ""
	}
	owner := ""
	var find func(inf *types.Info, n ast.Node, depth int)
	find = func(inf *types.Info, n ast.Node, depth int) {
		ast.Inspect(n, func(n ast.Node) bool {
			switch x := n.(type) {
			case *ast.SelectorExpr:
				if s := inf.Selections[x]; s != nil && s.Kind() == types.FieldVal {
					if f, ok := s.Obj().(*types.Var); ok {
						if d, ok := dd[f]; ok {
							owner = d.owner
						}
					}
				}
			case *ast.CallExpr:
				// a predicate of the module (checker.writable()): the dry field is read in its body
				if depth > 0 {
					if fn, ok := callee(inf, x).(*types.Func); ok {
						if h := p.DeclOf(fn); h != nil && h.Decl != nil && strings.HasPrefix(h.Pkg.PkgPath, Mod) && len(h.Body.List) <= 4 {
							find(h.Info(), h.Body, depth-1)
						}
					}
				}
			}
			return owner == ""
		})
	}
	find(info, e, 2)
	if owner == "" {
		return ""
	}
	fields := map[*types.Var]constant.Value{}
	for f, d := range dd {
		fields[f] = d.val
	}
	v := constEval(p, info, e, nil, fields, 3)
	if v == nil || v.Kind() != constant.Bool {
		return ""
	}
	if constant.BoolVal(v) {
		return "field:" + owner + ".dry"
	}
	return "!field:" + owner + ".dry"
}

// constEval evaluates an expression to a constant under an environment of variables and struct fields, following calls to
// small pure functions of the module (a chain of `if c { return x }` / `switch` / `return x`). nil when not determined.
func constEval(p *Prog, info *types.Info, e ast.Expr, env map[*types.Var]constant.Value, fields map[*types.Var]constant.Value, depth int) constant.Value {
	e = ast.Unparen(e)
	if tv, ok := info.Types[e]; ok && tv.Value != nil {
		return tv.Value
	}
	switch x := e.(type) {
	case *ast.Ident:
		switch o := info.Uses[x].(type) {
		case *types.Var:
			if v, ok := env[o]; ok {
				return v
			}
		case *types.Const:
			return o.Val()
		}
	case *ast.SelectorExpr:
		if s := info.Selections[x]; s != nil && s.Kind() == types.FieldVal {
			if f, ok := s.Obj().(*types.Var); ok {
				if v, ok := fields[f]; ok {
					return v
				}
			}
		}
	case *ast.UnaryExpr:
		if x.Op == token.NOT {
			if v := constEval(p, info, x.X, env, fields, depth); v != nil && v.Kind() == constant.Bool {
				return constant.MakeBool(!constant.BoolVal(v))
			}
		}
	case *ast.BinaryExpr:
		l := constEval(p, info, x.X, env, fields, depth)
		r := constEval(p, info, x.Y, env, fields, depth)
		switch x.Op {
		case token.LAND:
			if (l != nil && l.Kind() == constant.Bool && !constant.BoolVal(l)) || (r != nil && r.Kind() == constant.Bool && !constant.BoolVal(r)) {
				return constant.MakeBool(false)
			}
			if l != nil && r != nil && l.Kind() == constant.Bool && r.Kind() == constant.Bool {
				return constant.MakeBool(true)
			}
		case token.LOR:
			if (l != nil && l.Kind() == constant.Bool && constant.BoolVal(l)) || (r != nil && r.Kind() == constant.Bool && constant.BoolVal(r)) {
				return constant.MakeBool(true)
			}
			if l != nil && r != nil && l.Kind() == constant.Bool && r.Kind() == constant.Bool {
				return constant.MakeBool(false)
			}
		case token.EQL, token.NEQ:
			if l != nil && r != nil && l.Kind() == r.Kind() {
				return constant.MakeBool(constant.Compare(l, x.Op, r))
			}
		}
	case *ast.CallExpr:
		if tv, ok := info.Types[x.Fun]; ok && tv.IsType() && len(x.Args) == 1 {
			return constEval(p, info, x.Args[0], env, fields, depth) // conversion
		}
		if depth <= 0 {
			return nil
		}
		fn, _ := callee(info, x).(*types.Func)
		h := p.DeclOf(fn)
		if h == nil || h.Decl == nil || h.Body == nil || !strings.HasPrefix(h.Pkg.PkgPath, Mod) || x.Ellipsis != token.NoPos {
			return nil
		}
		hinfo := h.Info()
		henv := map[*types.Var]constant.Value{}
		if h.Decl.Recv != nil && len(h.Decl.Recv.List) == 1 && len(h.Decl.Recv.List[0].Names) == 1 {
			if sel, ok := ast.Unparen(x.Fun).(*ast.SelectorExpr); ok {
				if rv, ok := hinfo.Defs[h.Decl.Recv.List[0].Names[0]].(*types.Var); ok {
					if v := constEval(p, info, sel.X, env, fields, depth); v != nil {
						henv[rv] = v
					}
				}
			}
		}
		i := 0
		for _, fld := range h.Type.Params.List {
			for _, id := range fld.Names {
				if pv, ok := hinfo.Defs[id].(*types.Var); ok && i < len(x.Args) {
					if v := constEval(p, info, x.Args[i], env, fields, depth); v != nil {
						henv[pv] = v
					}
				}
				i++
			}
		}
		v, _ := constEvalBody(p, hinfo, h.Body.List, henv, fields, depth-1)
		return v
	}
	return nil
}

// constEvalBody: (value, returned). A statement that is not interpreted ends the evaluation with (nil, true).
func constEvalBody(p *Prog, info *types.Info, list []ast.Stmt, env, fields map[*types.Var]constant.Value, depth int) (constant.Value, bool) {
	for _, st := range list {
		switch x := st.(type) {
		case *ast.ReturnStmt:
			if len(x.Results) != 1 {
				return nil, true
			}
			return constEval(p, info, x.Results[0], env, fields, depth), true
		case *ast.IfStmt:
			if x.Init != nil {
				return nil, true
			}
			c := constEval(p, info, x.Cond, env, fields, depth)
			if c == nil || c.Kind() != constant.Bool {
				return nil, true
			}
			if constant.BoolVal(c) {
				if v, done := constEvalBody(p, info, x.Body.List, env, fields, depth); done {
					return v, true
				}
			} else if x.Else != nil {
				var el []ast.Stmt
				switch e := x.Else.(type) {
				case *ast.BlockStmt:
					el = e.List
				case *ast.IfStmt:
					el = []ast.Stmt{e}
				}
				if v, done := constEvalBody(p, info, el, env, fields, depth); done {
					return v, true
				}
			}
		case *ast.SwitchStmt:
			if x.Init != nil {
				return nil, true
			}
			var tag constant.Value
			if x.Tag != nil {
				if tag = constEval(p, info, x.Tag, env, fields, depth); tag == nil {
					return nil, true
				}
			}
			var def *ast.CaseClause
			taken := false
			for _, cl := range x.Body.List {
				cc := cl.(*ast.CaseClause)
				if cc.List == nil {
					def = cc
					continue
				}
				hit := false
				for _, ce := range cc.List {
					v := constEval(p, info, ce, env, fields, depth)
					if v == nil {
						return nil, true
					}
					if tag != nil {
						if v.Kind() == tag.Kind() && constant.Compare(tag, token.EQL, v) {
							hit = true
						}
					} else if v.Kind() == constant.Bool && constant.BoolVal(v) {
						hit = true
					}
				}
				if hit {
					taken = true
					if v, done := constEvalBody(p, info, cc.Body, env, fields, depth); done {
						return v, true
					}
					break
				}
			}
			if !taken && def != nil {
				if v, done := constEvalBody(p, info, def.Body, env, fields, depth); done {
					return v, true
				}
			}
		default:
			return nil, true
		}
	}
	return nil, false
}
