package main

import (
	"fmt"
	"go/ast"
	"go/token"
	"go/types"
	"strings"

	"golang.org/x/tools/go/ssa"
)

func init() { register("C17", checkC17) }

func checkC17(c *Check, a *Anchors) {
	c.NotDecided = []string{
		"byte conservation (no loss / duplication of command output): a value-level statement over buffer contents",
		"atomicity of a single Write on the final sink is assumed",
	}
	c17GroupOneWrite(c, a)
	c17GroupErrorOnly(c, a)
	c17PrefixUnderLock(c, a)
	c17CloserAlwaysCalled(c, a)
	c17PrefixLineComplete(c, a)
	closerClosesEveryWriter(c, a)
	writerSerialised(c, a)
	groupDropsOnlyEmpty(c, a)
	noDynamicFormat(c, a, "no-dynamic-format")
	c17StdioIdentity(c, a)
	c17WriteReportsFullCount(c, a)
	c17PrefixFallbackAfterRender(c, a)
	c17ExplicitStyleWins(c, a)
}

// writesTo: the ssa call writes to the value loaded from field `field` of type typ (as receiver of Write or as first argument of a writer helper).
func writesToField(call *ssa.CallCommon, typ, field string) bool {
	isField := func(v ssa.Value) bool {
		for i := 0; i < 4; i++ {
			switch x := v.(type) {
			case *ssa.UnOp:
				if fa, ok := x.X.(*ssa.FieldAddr); ok && x.Op == token.MUL {
					return fieldKeySSA(fa.X.Type(), fa.Field) == "field:"+typ+"."+field
				}
				return false
			case *ssa.MakeInterface:
				v = x.X
			case *ssa.ChangeInterface:
				v = x.X
			default:
				return false
			}
		}
		return false
	}
	if call.IsInvoke() {
		return (call.Method.Name() == "Write" || call.Method.Name() == "WriteString") && isField(call.Value)
	}
	if len(call.Args) > 0 && isField(call.Args[0]) {
		if f := call.StaticCallee(); f != nil {
			n := f.Name()
			return strings.HasPrefix(n, "Write") || strings.HasPrefix(n, "Copy") || strings.HasPrefix(n, "Fprint") || strings.HasPrefix(n, "FOutf")
		}
	}
	// logger.FOutf(w, ...): writer is the second argument after the receiver
	if f := call.StaticCallee(); f != nil && f.Name() == "FOutf" && len(call.Args) > 1 && isField(call.Args[1]) {
		return true
	}
	return false
}

func c17GroupOneWrite(c *Check, a *Anchors) {
	c.Rule("group-one-write", "every path through the group writer's close performs at most one write on the shared stream (begin line, buffered body and end line are handed over in a single Write), so blocks of concurrently finishing commands cannot interleave")
	fb := c.P.Func(PkgOutput, "groupWriter", "close")
	if fb == nil {
		c.Errorf("group-one-write: groupWriter.close not found")
		return
	}
	fn := c.P.SSAFunc(fb)
	c.Fn(fb)
	pe := &PathEnum{Fn: fn, MaxRevisit: revisit(), Event: func(in ssa.Instruction) (string, string) {
		if call, ok := in.(*ssa.Call); ok && writesToField(call.Common(), "groupWriter", "writer") {
			// io.Copy* from anything but a bytes.Buffer / Reader (single WriteTo) may issue several writes
			if f := call.Common().StaticCallee(); f != nil && f.Pkg != nil && f.Pkg.Pkg.Path() == "io" && strings.HasPrefix(f.Name(), "Copy") && len(call.Common().Args) >= 2 {
				src := call.Common().Args[1]
				if mi, ok := src.(*ssa.MakeInterface); ok {
					src = mi.X
				}
				ts := types.TypeString(src.Type(), nil)
				if ts != "*bytes.Buffer" && ts != "*bytes.Reader" && ts != "*strings.Reader" {
					return "write-shared-multi", "call"
				}
			}
			return "write-shared", "call"
		}
		return "", ""
	}}
	pe.Run()
	c.Paths += len(pe.Paths)
	maxW, total := 0, 0
	bad := ""
	for _, p := range pe.Paths {
		n := 0
		for _, e := range p.Events {
			if e.Label == "write-shared" {
				n++
			}
			if e.Label == "write-shared-multi" {
				n += 2 // a streaming copy is not one write
			}
		}
		total += n
		if n > maxW {
			maxW = n
		}
		if n > 1 {
			bad = p.String()
		}
	}
	if total == 0 {
		c.Errorf("group-one-write: no write to the shared stream found in %s (vacuous)", fnDisplay(fb))
	}
	c.Decide(maxW <= 1, "group-one-write", "close@"+fnDisplay(fb), fb.Decl.Pos(), fmt.Sprintf("at most one write on the shared stream on each of %d paths", len(pe.Paths)),
		fmt.Sprintf("a path of the group close performs %d separate writes on the shared stream: the block of another command can appear between them: %s", maxW, bad))
}

func c17GroupErrorOnly(c *Check, a *Anchors) {
	c.Rule("group-error-only", "decision table of the group closer: the buffered block is emitted (close is called) IFF not error_only OR the command's error is non-nil")
	wrap := c.P.Func(PkgOutput, "Group", "WrapWriter")
	if wrap == nil {
		c.Errorf("group-error-only: Group.WrapWriter not found")
		return
	}
	var closer *FuncBody
	for _, cb := range closerBodies(c, wrap) {
		closer = cb.body
	}
	if closer == nil {
		c.Errorf("group-error-only: the CloseFunc returned by Group.WrapWriter is neither a function literal nor a method value")
		return
	}
	fn := c.P.SSAFunc(closer)
	c.Fn(closer)
	pe := &PathEnum{Fn: fn, MaxRevisit: revisit(), Event: func(in ssa.Instruction) (string, string) {
		if call, ok := in.(*ssa.Call); ok {
			if f := call.Common().StaticCallee(); f != nil && f.Name() == "close" {
				return "emit", "call"
			}
		}
		return "", ""
	}}
	pe.Run()
	c.Paths += len(pe.Paths)
	var bad []string
	rows := 0
	for _, p := range pe.Paths {
		eo, eok := atomWith(p.Asg, "ErrorOnly")
		if !eok {
			eo, eok = atomWith(p.Asg, "errorOnly") // the flag copied into a field of a closer object
		}
		en, enk := atomWith(p.Asg, "nil(param:")
		errorOnly, okE := p.Asg[eo], eok
		errNil, okN := p.Asg[en], enk
		emitted := p.HasEvent("emit", "call")
		rows++
		switch {
		case okE && !errorOnly:
			if !emitted {
				bad = append(bad, "error_only is off but the block is not emitted: "+p.String())
			}
		case okE && errorOnly && okN:
			if emitted == errNil {
				bad = append(bad, fmt.Sprintf("error_only with err==nil:%v but emitted:%v: %s", errNil, emitted, p))
			}
		default:
			bad = append(bad, "the closer decides without testing error_only and the error: "+p.String())
		}
	}
	if rows < 3 {
		c.Errorf("group-error-only: only %d paths", rows)
	}
	c.Decide(len(bad) == 0, "group-error-only", "table@"+fnDisplay(closer), closer.Body.Pos(), fmt.Sprintf("holds on all %d paths", rows), strings.Join(bad, " || "))
}

func c17PrefixUnderLock(c *Check, a *Anchors) {
	c.Rule("prefix-under-lock", "in the prefixed style every write to the shared stream and every access to the shared colour bookkeeping (Prefixed.seen, Prefixed.counter) happens while Prefixed.mutex is held (both `Lock(); defer Unlock()` and `defer Unlock(); Lock()` are recognised); all the writes that make up one line are in one critical section")
	n := 0
	ord := map[string]int{}
	// the shared stream: prefixWriter.writer, and every io.Writer parameter of a function of the package that all its call
	// sites bind to the stream (the locked part of the line writer moved into a method that receives the stream)
	streamParams := map[*types.Var]bool{}
	isStream := func(info *types.Info, e ast.Expr) bool {
		if fieldSel(info, e, PkgOutput, "prefixWriter", "writer") {
			return true
		}
		v := varOf(info, e)
		return v != nil && streamParams[v]
	}
	for changed := true; changed; {
		changed = false
		for _, h := range c.P.BodiesIn(PkgOutput) {
			if h.Decl == nil || h.Obj == nil || h.Type.Params == nil {
				continue
			}
			hinfo := h.Info()
			idx := 0
			for _, fld := range h.Type.Params.List {
				for _, id := range fld.Names {
					pv, _ := hinfo.Defs[id].(*types.Var)
					if pv != nil && !streamParams[pv] && types.TypeString(pv.Type(), nil) == "io.Writer" {
						all, sites := true, 0
						for _, cb := range c.P.BodiesIn(PkgOutput) {
							for _, call := range callsIn(cb, false) {
								if fn, ok := callee(cb.Info(), call).(*types.Func); ok && fn == h.Obj {
									sites++
									if idx >= len(call.Args) || !isStream(cb.Info(), call.Args[idx]) {
										all = false
									}
								}
							}
						}
						if all && sites > 0 {
							streamParams[pv] = true
							changed = true
						}
					}
					idx++
				}
			}
		}
	}
	// the flow that tracks Prefixed.mutex in one function
	lockFlow := func(fb *FuncBody) *Flow {
		info := fb.Info()
		f := NewFlow(c.P, fb, func(call *ast.CallExpr, obj types.Object) string {
			if sel, ok := ast.Unparen(call.Fun).(*ast.SelectorExpr); ok && fieldSel(info, sel.X, PkgOutput, "Prefixed", "mutex") {
				if fn, ok := obj.(*types.Func); ok {
					return "mu." + fn.Name()
				}
			}
			return ""
		})
		f.NoInline = true
		f.Effect = func(label string, call *ast.CallExpr, st Facts) {
			switch label {
			case "mu.Lock":
				st["held:mu"] = true
			case "mu.Unlock":
				delete(st, "held:mu")
			}
		}
		f.Run()
		return f
	}
	// callersHold: the unexported function is only called with Prefixed.mutex held (a helper extracted from a critical section)
	var callersHold func(fb *FuncBody, depth int) bool
	callersHold = func(fb *FuncBody, depth int) bool {
		if fb == nil || fb.Obj == nil || fb.Obj.Exported() || depth < 0 {
			return false
		}
		sites := 0
		for _, cb := range c.P.BodiesIn(PkgOutput) {
			var calls []*ast.CallExpr
			for _, call := range callsIn(cb, false) {
				if fn, ok := callee(cb.Info(), call).(*types.Func); ok && fn == fb.Obj {
					calls = append(calls, call)
				}
			}
			if len(calls) == 0 {
				continue
			}
			cf := lockFlow(cb)
			for _, call := range calls {
				sites++
				if !cf.At[call].Has("held:mu") && !callersHold(cb.Root(), depth-1) {
					return false
				}
			}
		}
		return sites > 0
	}
	for _, fb := range c.P.BodiesIn(PkgOutput) {
		info := fb.Info()
		touches := false
		inspectBody(fb.Body, func(nd ast.Node) bool {
			if sel, ok := nd.(*ast.SelectorExpr); ok {
				if fieldSel(info, sel, PkgOutput, "Prefixed", "seen") || fieldSel(info, sel, PkgOutput, "Prefixed", "counter") || fieldSel(info, sel, PkgOutput, "prefixWriter", "writer") {
					touches = true
				}
			}
			if id, ok := nd.(*ast.Ident); ok {
				if v, ok := info.Uses[id].(*types.Var); ok && streamParams[v] {
					touches = true
				}
			}
			return true
		})
		if !touches || (fb.Decl != nil && (fb.Decl.Name.Name == "NewPrefixed" || fb.Decl.Name.Name == "WrapWriter")) {
			continue
		}
		c.Fn(fb)
		f := NewFlow(c.P, fb, func(call *ast.CallExpr, obj types.Object) string {
			if sel, ok := ast.Unparen(call.Fun).(*ast.SelectorExpr); ok && fieldSel(info, sel.X, PkgOutput, "Prefixed", "mutex") {
				if fn, ok := obj.(*types.Func); ok {
					return "mu." + fn.Name()
				}
			}
			return ""
		})
		f.Effect = func(label string, call *ast.CallExpr, st Facts) {
			switch label {
			case "mu.Lock":
				st["held:mu"] = true
			case "mu.Unlock":
				delete(st, "held:mu")
			}
		}
		f.Run()
		for node, st := range f.At {
			var what string
			switch node.(type) {
			case *ast.CallExpr, *ast.AssignStmt, *ast.IncDecStmt:
			default:
				continue
			}
			if call, ok := node.(*ast.CallExpr); ok && strings.HasPrefix(f.Labels[call], "mu.") {
				continue
			}
			ast.Inspect(node, func(m ast.Node) bool {
				if _, isLit := m.(*ast.FuncLit); isLit {
					return false
				}
				if sel, ok := m.(*ast.SelectorExpr); ok {
					switch {
					case fieldSel(info, sel, PkgOutput, "Prefixed", "seen"):
						what = "Prefixed.seen"
					case fieldSel(info, sel, PkgOutput, "Prefixed", "counter"):
						what = "Prefixed.counter"
					case fieldSel(info, sel, PkgOutput, "prefixWriter", "writer"):
						if call, isCall := node.(*ast.CallExpr); isCall && !handsStreamOn(c, info, call) {
							what = "write to the shared stream"
						}
					}
				}
				if id, ok := m.(*ast.Ident); ok {
					if v, ok := info.Uses[id].(*types.Var); ok && streamParams[v] {
						if call, isCall := node.(*ast.CallExpr); isCall && !handsStreamOn(c, info, call) {
							what = "write to the shared stream"
						}
					}
				}
				return true
			})
			if what == "" {
				continue
			}
			// skip inner nodes when an enclosing recorded node already covers them: key by position
			n++
			key := ordinal(ord, what+"@"+fnDisplay(fb))
			held := st.Has("held:mu")
			if !held && fb.Decl != nil && callersHold(fb, 1) {
				held = true // the function is a helper that every caller invokes inside its critical section
			}
			c.Decide(held, "prefix-under-lock", key, node.Pos(), "under Prefixed.mutex",
				what+" in "+fnDisplay(fb)+" happens without Prefixed.mutex held on every path: lines of concurrently running commands can be torn (or the colour map is accessed unsynchronised)")
		}
	}
	c.Floor("prefix-under-lock", n, 6)
}

func c17CloserAlwaysCalled(c *Check, a *Anchors) {
	c.Rule("closer-always-called", "in the command runner the closer returned by WrapWriter is called after RunCommand on every path, with RunCommand's own error value (not a rewritten one); the stdout/stderr handed to RunCommand are the writers returned by the WrapWriter call of the same invocation")
	// the function that runs the command with the wrapped writers: the command runner, or the helper it hands the shell
	// execution to; the wrap itself may be obtained through a helper of the package that returns WrapWriter's results
	fb := a.ShellExec
	if fb == nil {
		fb = a.CmdRunner
	}
	isWrap := func(obj types.Object) bool {
		fn, ok := obj.(*types.Func)
		if !ok || fn.Pkg() == nil {
			return false
		}
		if fn.Name() == "WrapWriter" && fn.Pkg().Path() == PkgOutput {
			return true
		}
		h := c.P.DeclOf(fn)
		if h == nil || h.Decl == nil || h.Pkg.PkgPath != PkgTask || h == fb {
			return false
		}
		for _, call := range callsIn(h, false) {
			if wf, ok := callee(h.Info(), call).(*types.Func); ok && wf.Name() == "WrapWriter" && wf.Pkg() != nil && wf.Pkg().Path() == PkgOutput {
				return true
			}
		}
		return false
	}
	c.Fn(fb)
	info := fb.Info()
	f := NewFlow(c.P, fb, func(call *ast.CallExpr, obj types.Object) string {
		if isWrap(obj) {
			return "wrap"
		}
		if obj == a.RunCommandObj {
			return "runcommand"
		}
		if l := a.labelObj(obj); l != "runcommand" {
			return l
		}
		return ""
	})
	f.Run()
	name := fnDisplay(fb)
	nRet := 0
	for i, r := range f.Returns {
		st := f.At[r]
		if !st.Has("called:runcommand") {
			continue
		}
		nRet++
		c.Decide(st.Has("called:ret(wrap)"), "closer-always-called", fmt.Sprintf("closed-before-return#%d@%s", i+1, name), r.Pos(), "the closer ran before this return",
			"the command runner can return after running a command without calling the output closer: the last partial line / the grouped block of that command is lost")
	}
	c.Floor("closer-always-called", nRet, 1)
	nClose := 0
	for call, l := range f.Labels {
		switch l {
		case "ret(wrap)":
			nClose++
			st := f.At[call]
			okArg := len(call.Args) == 1
			if okArg {
				v := varOf(info, call.Args[0])
				okArg = v != nil && st.Has(defPrefix(v)+"runcommand")
			}
			c.Decide(okArg && st.Has("called:runcommand"), "closer-always-called", "closer-gets-command-error@"+name, call.Pos(), "closer(<error returned by RunCommand>)",
				"the closer is not called with RunCommand's own error (after the command): with error_only the block of a failed command whose error was rewritten (ignore_error) is discarded")
		case "runcommand":
			// Stdout / Stderr come from the wrap call
			okW := 0
			ast.Inspect(call, func(m ast.Node) bool {
				if kv, ok := m.(*ast.KeyValueExpr); ok {
					if k := exprStr(kv.Key); k == "Stdout" || k == "Stderr" {
						if v := varOf(info, kv.Value); v != nil && f.At[call].Has(defPrefix(v)+"wrap") {
							okW++
						}
					}
				}
				return true
			})
			c.Decide(okW == 2, "closer-always-called", "writers-from-wrap@"+name, call.Pos(), "Stdout and Stderr are the writers returned by WrapWriter in this invocation", "the writers handed to RunCommand are not the ones returned by the WrapWriter call of this invocation (a shared or raw writer would interleave or lose output)")
		}
	}
	if nClose == 0 {
		c.Bad("closer-always-called", "closer-gets-command-error@"+name, fb.Decl.Pos(), "the closer returned by WrapWriter is never called")
	}
}

func c17PrefixLineComplete(c *Check, a *Anchors) {
	c.Rule("prefix-line-complete", "the prefixed writer emits a line only when the buffered text ends in a newline, or at close (force): on every enumerated path of writeOutputLines a writeLine call follows either a complete ReadString (nil error) or an EOF with `force` set or a trailing newline")
	fb := c.P.Func(PkgOutput, "prefixWriter", "writeOutputLines")
	if fb == nil {
		c.Errorf("prefix-line-complete: prefixWriter.writeOutputLines not found")
		return
	}
	fn := c.P.SSAFunc(fb)
	c.Fn(fb)
	pe := &PathEnum{Fn: fn, MaxRevisit: revisit(), Event: func(in ssa.Instruction) (string, string) {
		if call, ok := in.(*ssa.Call); ok {
			if f := call.Common().StaticCallee(); f != nil {
				switch f.Name() {
				case "writeLine":
					return "emit", "call"
				case "ReadString":
					return "read", "call"
				}
			}
		}
		return "", ""
	}}
	pe.Run()
	c.Paths += len(pe.Paths)
	var bad []string
	n := 0
	for _, p := range pe.Paths {
		cur := map[string]bool{}
		for _, e := range p.Events {
			switch {
			case e.Kind == "assume":
				cur[e.Label] = e.Val
			case e.Label == "read":
				for k := range cur {
					if strings.Contains(k, "ReadString") || strings.Contains(k, "HasSuffix") {
						delete(cur, k)
					}
				}
			case e.Label == "emit":
				n++
				complete := false
				for k, v := range cur {
					if strings.HasPrefix(k, "nil(res:") && strings.Contains(k, "ReadString") && v {
						complete = true
					}
				}
				force := cur["param:force"]
				suffix := false
				for k, v := range cur {
					if strings.Contains(k, "HasSuffix") && v {
						suffix = true
					}
				}
				if !(complete || force || suffix) {
					bad = append(bad, "a line is emitted although it is incomplete and the writer is not closing: "+p.String())
				}
			}
		}
	}
	if n == 0 {
		c.Errorf("prefix-line-complete: no emitting path (vacuous)")
	}
	if len(bad) > 3 {
		bad = bad[:3]
	}
	c.Decide(len(bad) == 0, "prefix-line-complete", "table@"+fnDisplay(fb), fb.Decl.Pos(), fmt.Sprintf("holds for all %d emissions on %d paths", n, len(pe.Paths)), strings.Join(bad, " || "))
}

type closerBody struct {
	body   *FuncBody
	fields map[string]*types.Var // for a method-value closer: receiver field -> variable of WrapWriter it was initialised from
	recv   *types.Var            // for a method-value closer x.m: the variable x of WrapWriter (the method's receiver is that object)
}

// closerBodies resolves the CloseFunc a WrapWriter returns: a function literal, or a method value x.m whose receiver x is
// built by a composite literal in WrapWriter (the closure turned into a method of a small closer type).
func closerBodies(c *Check, wrap *FuncBody) []closerBody {
	info := wrap.Info()
	var out []closerBody
	for _, r := range returnsOf(wrap.Body) {
		if len(r.Results) != 3 {
			continue
		}
		switch x := ast.Unparen(r.Results[2]).(type) {
		case *ast.FuncLit:
			out = append(out, closerBody{body: c.P.LitBody(x)})
		case *ast.SelectorExpr:
			fn, ok := info.Uses[x.Sel].(*types.Func)
			if !ok {
				continue
			}
			d := c.P.DeclOf(fn)
			if d == nil {
				continue
			}
			cb := closerBody{body: d, fields: map[string]*types.Var{}, recv: varOf(info, x.X)}
			if v := varOf(info, x.X); v != nil {
				for _, def := range defsOf(info, wrap.Body, v) {
					def = ast.Unparen(def)
					if u, ok := def.(*ast.UnaryExpr); ok {
						def = ast.Unparen(u.X)
					}
					if cl, ok := def.(*ast.CompositeLit); ok {
						for _, e := range cl.Elts {
							if kv, ok := e.(*ast.KeyValueExpr); ok {
								if id, ok := kv.Key.(*ast.Ident); ok {
									if fv := varOf(info, kv.Value); fv != nil {
										cb.fields[id.Name] = fv
									}
								}
							}
						}
					}
				}
			}
			out = append(out, cb)
		case *ast.Ident:
			if v := varOf(info, x); v != nil {
				for _, def := range defsOf(info, wrap.Body, v) {
					if fl, ok := ast.Unparen(def).(*ast.FuncLit); ok {
						out = append(out, closerBody{body: c.P.LitBody(fl)})
					}
				}
			}
		}
	}
	return out
}

// handsStreamOn: the call passes the stream to a function of internal/output (which is judged on its own, with the
// parameter it receives the stream in) rather than writing to it.
func handsStreamOn(c *Check, info *types.Info, call *ast.CallExpr) bool {
	fn, ok := callee(info, call).(*types.Func)
	if !ok {
		return false
	}
	d := c.P.DeclOf(fn)
	return d != nil && d.Pkg.PkgPath == PkgOutput
}

// c17StdioIdentity: what the task hands to execext as stdout / stderr is what the interpreter (and through it os/exec) gets.
func c17StdioIdentity(c *Check, a *Anchors) {
	c.Rule("stdio-identity-preserved", "execext.RunCommand hands the interpreter exactly the Stdout and Stderr values of its options (interp.StdIO(…, opts.Stdout, opts.Stderr), directly or through a variable assigned from the field): the output wrappers return the SAME writer for both streams so that os/exec gives an external process one pipe for both and the relative order of its stdout and stderr bytes is kept; wrapping the two separately makes them two pipes drained by two goroutines")
	var rc *FuncBody
	if fn, ok := a.RunCommandObj.(*types.Func); ok {
		rc = c.P.DeclOf(fn)
	}
	if rc == nil {
		c.Errorf("stdio-identity-preserved: execext.RunCommand not found")
		return
	}
	c.Fn(rc)
	info := rc.Info()
	n := 0
	for _, call := range callsIn(rc, true) {
		if !isFunc(callee(info, call), "mvdan.cc/sh/v3/interp", "", "StdIO") || len(call.Args) != 3 {
			continue
		}
		n++
		for i, want := range []string{"", "Stdout", "Stderr"} {
			if want == "" {
				continue
			}
			e := ast.Unparen(call.Args[i])
			if v := varOf(info, e); v != nil && !v.IsField() {
				if d := singleDef(info, rc.Body, v); d != nil {
					e = ast.Unparen(d)
				}
			}
			sel, ok := e.(*ast.SelectorExpr)
			okField := ok && sel.Sel.Name == want && fieldSel(info, sel, PkgExecext, "RunCommandOptions", want)
			c.Decide(okField, "stdio-identity-preserved", "interp.StdIO "+want+"@"+fnDisplay(rc), call.Args[i].Pos(), "the options' "+want+" is handed on as it is",
				"the interpreter is given `"+exprStr(call.Args[i])+"` as "+want+" instead of the options' own "+want+": a per-stream wrapper makes stdout and stderr two different values, os/exec then uses two pipes and two copier goroutines, and the bytes an external command wrote to the two streams reach the group / prefix writer in scheduler-dependent order")
		}
	}
	c.Floor("stdio-identity-preserved", n, 1)
}

// c17WriteReportsFullCount: io.Writer contract of Task's own writers.
func c17WriteReportsFullCount(c *Check, a *Anchors) {
	c.Rule("write-reports-full-count", "a Write method of Task's output writers that reports `len(p)` never re-assigns p: a success result of len(p) after `p = p[k:]` is short by k with a nil error, which io.Copy (os/exec's stream copier) turns into io.ErrShortWrite — the rest of the command's output is dropped and the command is killed by SIGPIPE")
	n := 0
	for _, fb := range c.P.Bodies() {
		if fb.Decl == nil || fb.Decl.Name.Name != "Write" || fb.Decl.Recv == nil || !strings.HasPrefix(fb.Pkg.PkgPath, Mod) || bceSkipPkgs[fb.Pkg.PkgPath] {
			continue
		}
		if fb.Type.Params.NumFields() != 1 || fb.Type.Results == nil || fb.Type.Results.NumFields() != 2 || len(fb.Type.Params.List[0].Names) != 1 {
			continue
		}
		info := fb.Info()
		p, _ := info.Defs[fb.Type.Params.List[0].Names[0]].(*types.Var)
		if p == nil || types.TypeString(p.Type(), nil) != "[]byte" {
			continue
		}
		n++
		c.Fn(fb)
		var reassigned ast.Node
		inspectDeep(fb.Body, func(nd ast.Node) bool {
			if as, ok := nd.(*ast.AssignStmt); ok {
				for _, l := range as.Lhs {
					if varOf(info, l) == p && as.Tok != token.DEFINE {
						reassigned = as
					}
				}
			}
			return true
		})
		usesLen := false
		for _, r := range returnsOf(fb.Body) {
			if len(r.Results) == 2 {
				ast.Inspect(r.Results[0], func(m ast.Node) bool {
					if call, ok := m.(*ast.CallExpr); ok && isBuiltin(info, call, "len") && len(call.Args) == 1 && varOf(info, call.Args[0]) == p {
						usesLen = true
					}
					return true
				})
			}
		}
		pos := fb.Decl.Pos()
		if reassigned != nil {
			pos = reassigned.Pos()
		}
		c.Decide(!(reassigned != nil && usesLen), "write-reports-full-count", "Write@"+fnDisplay(fb), pos, "the byte count reported is that of the slice the caller passed",
			fnDisplay(fb)+" re-assigns its parameter and then reports len of it: the count is short although every byte was consumed, io.Copy stops with ErrShortWrite and the remaining output of the command is lost")
	}
	c.Floor("write-reports-full-count", n, 2)
}

// c17PrefixFallbackAfterRender: "every line carries its task's prefix" — an empty prefix is replaced by the task's name.
func c17PrefixFallbackAfterRender(c *Check, a *Anchors) {
	c.Rule("prefix-fallback-after-render", "the task compiler replaces an empty prefix by the task's name AFTER the prefix was rendered (`if new.Prefix == \"\" { new.Prefix = new.Task }` on the compiled task): a default applied to the unrendered text does not cover a `prefix:` template that renders empty, whose lines then come out as `[] …`")
	fb := a.CompiledTask
	c.Fn(fb)
	info := fb.Info()
	found := false
	inspectBody(fb.Body, func(nd ast.Node) bool {
		ifs, ok := nd.(*ast.IfStmt)
		if !ok {
			return true
		}
		be, ok := ast.Unparen(ifs.Cond).(*ast.BinaryExpr)
		if !ok || be.Op != token.EQL || !constIs(info, be.Y, `""`) || !fieldSel(info, be.X, PkgAst, "Task", "Prefix") {
			return true
		}
		root := rootVar(info, be.X)
		if root == nil || isParamOf(info, fb, root) {
			return true
		}
		// the tested task is the one being built (a local assigned the big literal), and the branch assigns its Prefix
		for _, st := range ifs.Body.List {
			if as, ok := st.(*ast.AssignStmt); ok && len(as.Lhs) == 1 && fieldSel(info, as.Lhs[0], PkgAst, "Task", "Prefix") && rootVar(info, as.Lhs[0]) == root {
				if fieldSel(info, as.Rhs[0], PkgAst, "Task", "Task") {
					found = true
				}
			}
		}
		return true
	})
	c.Decide(found, "prefix-fallback-after-render", "fallback@"+fnDisplay(fb), fb.Decl.Pos(), "an empty rendered prefix becomes the task name",
		"the task compiler no longer replaces an empty RENDERED prefix by the task's name: a task whose `prefix:` template renders empty (a variable that one caller does not set) writes lines with an empty prefix in the prefixed output style")
}

// c17ExplicitStyleWins: an output style requested for the invocation is used as requested.
func c17ExplicitStyleWins(c *Check, a *Anchors) {
	c.Rule("explicit-style-wins", "in package task every assignment that copies (part of) the Taskfile's `output:` into Executor.OutputStyle is made only on the false edge of OutputStyle.IsSet(): a style given for the invocation (--output group --output-group-error-only, WithOutputStyle) is taken whole — copying the Taskfile's group options over it replaces the requested error_only, so the block of a successful command is printed although error_only was asked for (or the reverse)")
	n := 0
	ord := map[string]int{}
	for _, fb := range c.P.BodiesIn(PkgTask) {
		if fb.Decl == nil {
			continue
		}
		info := fb.Info()
		touchesStyle := func(e ast.Expr) bool {
			found := false
			ast.Inspect(e, func(m ast.Node) bool {
				if sel, ok := m.(*ast.SelectorExpr); ok && fieldSel(info, sel, PkgTask, "Executor", "OutputStyle") {
					found = true
				}
				return true
			})
			return found
		}
		fromTaskfile := func(e ast.Expr) bool {
			found := false
			ast.Inspect(e, func(m ast.Node) bool {
				if sel, ok := m.(*ast.SelectorExpr); ok && fieldSel(info, sel, PkgAst, "Taskfile", "Output") {
					found = true
				}
				return true
			})
			return found
		}
		var sites []*ast.AssignStmt
		inspectBody(fb.Body, func(nd ast.Node) bool {
			if as, ok := nd.(*ast.AssignStmt); ok && len(as.Lhs) == len(as.Rhs) {
				for i := range as.Lhs {
					if touchesStyle(as.Lhs[i]) && fromTaskfile(as.Rhs[i]) {
						sites = append(sites, as)
					}
				}
			}
			return true
		})
		if len(sites) == 0 {
			continue
		}
		c.Fn(fb)
		at := map[*ast.AssignStmt]Facts{}
		f := NewFlow(c.P, fb, func(call *ast.CallExpr, obj types.Object) string {
			if fn, ok := obj.(*types.Func); ok && fn.Name() == "IsSet" {
				if sel, ok := ast.Unparen(call.Fun).(*ast.SelectorExpr); ok && fieldSel(info, sel.X, PkgTask, "Executor", "OutputStyle") {
					return "style-set"
				}
			}
			return ""
		})
		f.NoInline = true
		f.AssignEffect = func(s *ast.AssignStmt, st Facts) {
			for _, site := range sites {
				if site == s {
					at[s] = st.clone()
				}
			}
		}
		f.Run()
		for _, site := range sites {
			n++
			st := at[site]
			c.Decide(st != nil && st.Has("false:style-set"), "explicit-style-wins", ordinal(ord, "taskfile-style-copied@"+fnDisplay(fb)), site.Pos(), "only when no style was requested for the invocation",
				"`"+exprStr(site.Lhs[0])+" = "+exprStr(site.Rhs[0])+"` is reached although Executor.OutputStyle.IsSet() was not tested false on the path: (part of) an explicitly requested output style is replaced by the Taskfile's — error_only included; must-facts: "+st.String())
		}
	}
	c.Floor("explicit-style-wins", n, 1)
}
