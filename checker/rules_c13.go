package main

import (
	"fmt"
	"go/ast"
	"go/token"
	"go/types"
	"strings"

	"golang.org/x/tools/go/ssa"
)

func init() { register("C13", checkC13) }

func checkC13(c *Check, a *Anchors) {
	c.NotDecided = []string{
		"the shell's verdict on a precondition command",
		"terminal detection (term.IsTerminal)",
		"exit status seen by the user for guard errors raised inside nested task calls (covered structurally by C03 direct-call-wrapped)",
	}
	c13GuardOrder(c, a)
	c13PromptGate(c, a)
	c13Platform(c, a)
	c13OutcomeTypes(c, a)
	c13LoggerPrompt(c, a)
	c13EnumTotal(c, a)
	c03ExitCodeMap(c, a)                     // "the exit status is the documented class (206, 207, 205, 202)": constants equal the documented numbers
	c03StopOnError(c, a)                     // a guard refusal inside a nested call is not an exit status: the caller must fail too, whatever its ignore_error
	c08IncludeAttrsRegardlessOfFlatten(c, a) // an internal include marks its tasks internal whether or not it is flattened: otherwise they can be named on the command line
	sharedWait(c, a)                         // a guard refusal inside a shared (run: once) execution is its outcome: every caller that joined it must receive it, or its calling task goes on
}

// guard order: must-facts at the dedup call of RunTask and at the command events of the body.
func c13GuardOrder(c *Check, a *Anchors) {
	c.Rule("guards-before-execution", "in RunTask, every path to the dedup call (which starts or joins the execution) passed, in this order: the platform test on its true edge, the required-vars test on its nil edge, the allowed-values test on its nil edge; in the task body every command event is additionally dominated by the nil edges of the dependency runner and of the precondition runner; in Run no task is started for a call whose task is internal")
	rt := a.RunTask
	c.Fn(rt)
	f := NewFlow(c.P, rt, a.labelRun(rt.Info()))
	f.Run()
	need := func(st Facts, facts ...string) (bool, string) {
		var miss []string
		for _, k := range facts {
			if !st.Has(k) {
				miss = append(miss, k)
			}
		}
		return len(miss) == 0, strings.Join(miss, ", ")
	}
	seen := map[string]bool{}
	for call, l := range f.Labels {
		st := f.At[call]
		var want []string
		switch l {
		case "required":
			want = []string{"true:platform"}
		case "allowed":
			want = []string{"true:platform", "nil:required"}
		case "dedup":
			want = []string{"true:platform", "nil:required", "nil:allowed"}
		default:
			continue
		}
		seen[l] = true
		ok, miss := need(st, want...)
		c.Decide(ok, "guards-before-execution", l+"@"+fnDisplay(rt), call.Pos(), "dominated by "+strings.Join(want, ", "),
			fmt.Sprintf("the %s step of RunTask is reachable without %s: a task can start (or join a deduplicated execution) although an earlier guard did not pass; must-facts: %s", l, miss, st))
	}
	for _, l := range []string{"required", "allowed", "dedup"} {
		if !seen[l] {
			c.Bad("guards-before-execution", l+"@"+fnDisplay(rt), rt.Decl.Pos(), "RunTask no longer performs the "+l+" step before the execution starts (guards moved after deduplication are skipped for joined executions)")
		}
	}
	// body: deps and preconditions before every command event
	body := a.BodyClosure
	c.Fn(body)
	fb := NewFlow(c.P, body, a.labelRun(body.Info()))
	fb.Run()
	ord := map[string]int{}
	n := 0
	for _, part := range a.bodyParts() {
		inspectBody(part.Body, func(nd ast.Node) bool {
			var node ast.Node
			var obj types.Object
			switch x := nd.(type) {
			case *ast.DeferStmt:
				node, obj = x, callee(body.Info(), x.Call)
			case *ast.CallExpr:
				node, obj = x, callee(body.Info(), x)
			default:
				return true
			}
			if !a.IsCmdEvent(obj) {
				return true
			}
			n++
			st := fb.At[node]
			ok, miss := need(st, "nil:deps", "nil:preconditions")
			c.Decide(ok, "guards-before-execution", ordinal(ord, "cmd-event "+calleeName(obj)+"@"+fnDisplay(body)), node.Pos(), "dominated by nil:deps, nil:preconditions",
				fmt.Sprintf("a command event is reachable without %s (for example under --force): commands of a task whose precondition failed would run; must-facts: %s", miss, st))
			_, isDefer := nd.(*ast.DeferStmt)
			return !isDefer
		})
	}
	// "...and the invocation fails": no successful exit of the body (up to date, nothing to do, all commands done) without the
	// preconditions having passed
	for i, r := range fb.Returns {
		res := errResult(r)
		if res == nil || !isNilLit(body.Info(), res) {
			continue
		}
		st := fb.At[r]
		n++
		ok, miss := need(st, "nil:deps", "nil:preconditions")
		c.Decide(ok, "guards-before-execution", fmt.Sprintf("success-return#%d@%s", i+1, fnDisplay(body)), r.Pos(), "dominated by nil:deps, nil:preconditions",
			fmt.Sprintf("the task body returns success without %s: a task whose precondition fails is reported as done (for example as \"up to date\") and its callers continue; must-facts: %s", miss, st))
	}
	c.Floor("guards-before-execution", n, 2)
	// Run: internal tasks rejected before any start
	run := a.Run
	c.Fn(run)
	rinfo := run.Info()
	var callsParam *types.Var
	for _, fld := range run.Type.Params.List {
		for _, id := range fld.Names {
			if v, ok := rinfo.Defs[id].(*types.Var); ok {
				if s, ok := v.Type().Underlying().(*types.Slice); ok {
					if p, ok := s.Elem().(*types.Pointer); ok && isNamed(p.Elem(), PkgTask, "Call") {
						callsParam = v
					}
				}
			}
		}
	}
	var validate *ast.RangeStmt
	for _, s := range run.Body.List {
		if r, ok := s.(*ast.RangeStmt); ok && callsParam != nil && varOf(rinfo, r.X) == callsParam && validate == nil {
			rejects := false
			inspectBody(r.Body, func(nd ast.Node) bool {
				if cl, ok := nd.(*ast.CompositeLit); ok {
					if tv, ok := rinfo.Types[cl]; ok && isNamed(tv.Type, PkgErrors, "TaskInternalError") {
						rejects = true
					}
				}
				return true
			})
			if rejects {
				validate = r
			}
		}
	}
	m := 0
	for _, call := range callsIn(run, true) {
		l := a.labelObj(callee(rinfo, call))
		if l != "runtask" && l != "go" {
			continue
		}
		m++
		ok := validate != nil && validate.End() < call.Pos() && unconditionalIn(run.Body.List, validate)
		c.Decide(ok, "guards-before-execution", ordinal(ord, "start "+l+"@"+fnDisplay(run)), call.Pos(), "after the unconditional validation loop over all calls that rejects internal tasks",
			"Run starts a task that is not preceded by an unconditional loop over all requested calls rejecting internal tasks")
	}
	c.Floor("guards-before-execution", m, 2)
}

// prompt gate: path enumeration of the body.
func c13PromptGate(c *Check, a *Anchors) {
	c.Rule("prompt-gate", "on every enumerated path of the task body: after a prompt call, another prompt, the task mkdir or a command event is reached only if the prompt's error was established nil; no mkdir or command event precedes a prompt; ErrNoTerminal maps to *TaskCancelledNoTerminalError and ErrPromptCancelled to *TaskCancelledByUserError; prompts are skipped only under Executor.Dry or for an empty prompt string")
	fn := c.P.SSAFunc(a.BodyClosure)
	if fn == nil {
		c.Errorf("prompt-gate: no SSA for the task body")
		return
	}
	pe := &PathEnum{Fn: fn, MaxRevisit: revisit(), Event: a.ssaLabel}
	pe.Name = isExitName(pe)
	pe.Run()
	c.Paths += len(pe.Paths)
	pk := ""
	for v, nme := range pe.callOrd {
		if call, ok := v.(*ssa.Call); ok {
			if l, _ := a.ssaLabel(call); l == "prompt" {
				pk = "res:" + nme
			}
		}
	}
	name := fnDisplay(a.BodyClosure)
	if pk == "" {
		c.Bad("prompt-gate", "prompt-call@"+name, a.BodyClosure.Body.Pos(), "the task body no longer calls Logger.Prompt: prompts are not enforced")
		return
	}
	var badGate, badOrder, badMap []string
	nPrompt := 0
	for _, p := range pe.Paths {
		if p.Panic {
			continue
		}
		// replay
		cur := map[string]bool{}
		pending := false // a prompt was called and its nil-ness not yet established
		sawWork := false
		for _, e := range p.Events {
			switch {
			case e.Kind == "assume":
				cur[e.Label] = e.Val
				if e.Label == "nil("+pk+")" && e.Val {
					pending = false
				}
			case e.Label == "prompt" && e.Kind == "call":
				nPrompt++
				if pending && len(badGate) < 2 {
					badGate = append(badGate, "a second prompt is shown although the previous one was not established accepted: "+p.String())
				}
				if sawWork && len(badOrder) < 2 {
					badOrder = append(badOrder, "a prompt is shown after the task directory was created or a command ran: "+p.String())
				}
				delete(cur, "nil("+pk+")")
				pending = true
			case (e.Label == "mkdir" || e.Label == "cmd") && (e.Kind == "call" || e.Kind == "defer"):
				sawWork = true
				if pending && len(badGate) < 2 {
					badGate = append(badGate, fmt.Sprintf("%s is reached after a prompt whose error was not established nil: %s", e.Label, p))
				}
			}
		}
		out := ""
		if len(p.Out) > 0 {
			out = p.Out[len(p.Out)-1]
		}
		for k, v := range p.Asg {
			if !v || !strings.HasPrefix(k, "is("+pk+",") {
				continue
			}
			want := ""
			switch {
			case strings.Contains(k, "ErrNoTerminal"):
				want = "new(*errors.TaskCancelledNoTerminalError)"
			case strings.Contains(k, "ErrPromptCancelled"):
				want = "new(*errors.TaskCancelledByUserError)"
			}
			if want != "" && out != want && len(badMap) < 2 {
				badMap = append(badMap, fmt.Sprintf("%s true but the body returns %q (expected %s): %s", k, out, want, p))
			}
		}
	}
	if nPrompt == 0 {
		c.Errorf("prompt-gate: no enumerated path calls the prompt")
		return
	}
	c.Decide(len(badGate) == 0, "prompt-gate", "accepted-before-work@"+name, a.BodyClosure.Body.Pos(), fmt.Sprintf("holds on all %d paths", len(pe.Paths)), strings.Join(badGate, " || "))
	c.Decide(len(badOrder) == 0, "prompt-gate", "prompt-before-work@"+name, a.BodyClosure.Body.Pos(), fmt.Sprintf("holds on all %d paths", len(pe.Paths)), strings.Join(badOrder, " || "))
	c.Decide(len(badMap) == 0, "prompt-gate", "error-classes@"+name, a.BodyClosure.Body.Pos(), "ErrNoTerminal / ErrPromptCancelled map to the two cancelled errors (205)", strings.Join(badMap, " || "))
	// skip condition of the prompt: must-facts at the prompt call
	body := a.BodyClosure
	fl := NewFlow(c.P, body, a.labelRun(body.Info()))
	fl.Run()
	for call, l := range fl.Labels {
		if l != "prompt" {
			continue
		}
		st := fl.At[call]
		extra := []string{}
		for k := range st {
			if (strings.HasPrefix(k, "true:") || strings.HasPrefix(k, "false:")) && !strings.Contains(k, "Executor.Dry") && !strings.Contains(k, "preconditions") && !strings.Contains(k, "uptodate") && !strings.Contains(k, "field:Executor.Force") && !strings.Contains(k, "var:skipFingerprinting") && !strings.Contains(k, "Call.Indirect") && !strings.Contains(k, "var:upToDate") && !strings.Contains(k, "var:preCondMet") {
				extra = append(extra, k)
			}
		}
		c.Decide(len(extra) == 0, "prompt-gate", "skip-condition@"+name, call.Pos(), "the prompt is conditional only on a non-empty text and !Executor.Dry",
			"the prompt call is additionally conditional on "+strings.Join(extra, ", ")+": under that condition the task runs without confirmation")
	}
}

func c13Platform(c *Check, a *Anchors) {
	c.Rule("platform-table", "decision table of the platform test: true IFF the list is empty OR some entry has (OS empty or == GOOS) AND (Arch empty or == GOARCH); in RunTask the false edge returns nil without reaching the dedup call")
	fb := a.PlatformTest
	listFb := fb
	var bad []string
	// the test may be split: slices.ContainsFunc(list, predicate) decides "some entry matches" (library semantics), the
	// predicate — a literal, or the function / method it returns the result of — decides one entry
	elemOnly := false
	if pred, listBad := platformContainsForm(c, fb); pred != nil {
		bad = append(bad, listBad...)
		fb, elemOnly = pred, true
	}
	fn := c.P.SSAFunc(fb)
	if fn == nil {
		c.Errorf("platform-table: no SSA for the platform test")
		return
	}
	c.Fn(fb)
	pe := &PathEnum{Fn: fn, MaxRevisit: revisit()}
	pe.Run()
	c.Paths += len(pe.Paths)
	n := 0
	// a path that returns the value of a comparison stands for two: the comparison true (result true) and false (result false)
	var paths []*Path
	for _, p := range pe.Paths {
		if !p.Panic && len(p.Out) == 1 && strings.HasPrefix(p.Out[0], "bool:") {
			atom := strings.TrimPrefix(p.Out[0], "bool:")
			for _, val := range []bool{true, false} {
				q := *p
				q.Asg = map[string]bool{}
				for k, v := range p.Asg {
					q.Asg[k] = v
				}
				q.Asg[atom] = val
				q.Out = []string{fmt.Sprint(val)}
				paths = append(paths, &q)
			}
			continue
		}
		paths = append(paths, p)
	}
	for _, p := range paths {
		if p.Panic || len(p.Out) != 1 {
			continue
		}
		n++
		var osE, osQ, arE, arQ, empty string
		nilEntry := false
		for k, v := range p.Asg {
			if strings.HasPrefix(k, "nil(param:") && v && elemOnly {
				nilEntry = true // a nil entry matches nothing
			}
		}
		if nilEntry {
			if p.Out[0] != "false" {
				bad = append(bad, "a nil entry is reported as matching: "+p.String())
			}
			continue
		}
		for k := range p.Asg {
			switch {
			case strings.HasPrefix(k, "empty(param:"):
				empty = k
			case strings.HasPrefix(k, "eq(field:Platform.OS,"):
				if strings.HasSuffix(k, `,"")`) {
					osE = k
				} else {
					osQ = k
				}
			case strings.HasPrefix(k, "eq(field:Platform.Arch,"):
				if strings.HasSuffix(k, `,"")`) {
					arE = k
				} else {
					arQ = k
				}
			}
		}
		isTrue := func(k string) bool { return k != "" && p.Asg[k] }
		known := func(k string) bool { _, ok := p.Asg[k]; return k != "" && ok }
		match := (isTrue(osE) || isTrue(osQ)) && (isTrue(arE) || isTrue(arQ))
		refuted := (known(osE) && !p.Asg[osE] && known(osQ) && !p.Asg[osQ]) || (known(arE) && !p.Asg[arE] && known(arQ) && !p.Asg[arQ])
		switch p.Out[0] {
		case "true":
			if !(isTrue(empty) || match) {
				bad = append(bad, "returns true without an empty list or a matching entry: "+p.String())
			}
		case "false":
			if isTrue(empty) || match {
				bad = append(bad, "returns false although the list is empty or an entry matches: "+p.String())
			}
			if !isTrue(empty) && (osE != "" || arE != "") && !refuted {
				bad = append(bad, "returns false without having refuted the entry: "+p.String())
			}
		default:
			bad = append(bad, "non-constant result "+p.Out[0])
		}
	}
	if len(bad) > 3 {
		bad = bad[:3]
	}
	if n < 3 {
		c.Errorf("platform-table: only %d paths enumerated", n)
		for i, p := range pe.Paths {
			if i < 8 {
				c.Notef("platform-table debug path: %s", p)
			}
		}
	}
	c.Decide(len(bad) == 0, "platform-table", "table@"+fnDisplay(listFb), listFb.Decl.Pos(), fmt.Sprintf("holds on all %d paths", n), strings.Join(bad, " || "))
	// RunTask: false edge returns nil before dedup
	rt := a.RunTask
	f := NewFlow(c.P, rt, a.labelRun(rt.Info()))
	f.Run()
	found := false
	for _, r := range f.Returns {
		st := f.At[r]
		if st.Has("false:platform") {
			found = true
			res := errResult(r)
			c.Decide(res != nil && isNilLit(rt.Info(), res) && !st.Has("called:dedup"), "platform-table", "skip-returns-nil@"+fnDisplay(rt), r.Pos(), "platform mismatch returns nil without starting the execution",
				"on a platform mismatch RunTask does not return nil silently before the execution starts")
		}
	}
	if !found {
		c.Bad("platform-table", "skip-returns-nil@"+fnDisplay(rt), rt.Decl.Pos(), "RunTask has no early return on the false edge of the platform test")
	}
}

func returnsNew(fb *FuncBody, pkg, typ string) (found bool, others []string) {
	info := fb.Info()
	for _, r := range returnsOf(fb.Body) {
		res := errResult(r)
		if res == nil {
			continue
		}
		if isNilLit(info, res) {
			continue
		}
		e := ast.Unparen(res)
		if u, ok := e.(*ast.UnaryExpr); ok {
			e = u.X
		}
		if cl, ok := e.(*ast.CompositeLit); ok {
			if tv, ok := info.Types[cl]; ok && isNamed(tv.Type, pkg, typ) {
				found = true
				continue
			}
		}
		others = append(others, exprStr(res))
	}
	return
}

func c13OutcomeTypes(c *Check, a *Anchors) {
	c.Rule("outcome-types", "the guard functions fail with the documented error classes: required-vars -> *TaskMissingRequiredVarsError (206), allowed-values -> *TaskNotAllowedVarsError (207), internal task named on the command line -> *TaskInternalError (202) from Run; RunTask returns the two requires errors unchanged; a failed precondition returns a non-TaskError error")
	for _, g := range []struct {
		fb  *FuncBody
		typ string
	}{{a.RequiredVars, "TaskMissingRequiredVarsError"}, {a.AllowedValues, "TaskNotAllowedVarsError"}} {
		c.Fn(g.fb)
		found, others := returnsNew(g.fb, PkgErrors, g.typ)
		c.Decide(found && len(others) == 0, "outcome-types", g.typ+"@"+fnDisplay(g.fb), g.fb.Decl.Pos(), "returns nil or *errors."+g.typ,
			fmt.Sprintf("%s does not fail with *errors.%s only (found: %v, other non-nil returns: %v)", fnDisplay(g.fb), g.typ, found, others))
	}
	n := resultFollows(c, a, a.RunTask, "required", "outcome-types", nil)
	n += resultFollows(c, a, a.RunTask, "allowed", "outcome-types", nil)
	c.Floor("outcome-types", n+2, 4)
	// Run: internal -> TaskInternalError
	found := false
	info := a.Run.Info()
	f := NewFlow(c.P, a.Run, a.labelRun(info))
	f.Run()
	for _, r := range f.Returns {
		res := errResult(r)
		if res == nil {
			continue
		}
		e := ast.Unparen(res)
		if u, ok := e.(*ast.UnaryExpr); ok {
			e = u.X
		}
		if cl, ok := e.(*ast.CompositeLit); ok {
			if tv, ok := info.Types[cl]; ok && isNamed(tv.Type, PkgErrors, "TaskInternalError") {
				found = true
				st := f.At[r]
				c.Decide(st.Has("true:field:Task.Internal") && !st.Has("called:runtask") && !st.Has("called:go"), "outcome-types", "TaskInternalError@"+fnDisplay(a.Run), r.Pos(), "returned on the Internal edge before any task starts",
					"*TaskInternalError is not returned exactly on the task.Internal edge before any task is started")
			}
		}
	}
	if !found {
		c.Bad("outcome-types", "TaskInternalError@"+fnDisplay(a.Run), a.Run.Decl.Pos(), "Run no longer rejects internal tasks with *errors.TaskInternalError")
	}
	// preconditions: returns (false, non-nil) where the command failed
	pc := a.Preconditions
	c.Fn(pc)
	pf := NewFlow(c.P, pc, a.labelRun(pc.Info()))
	pf.Run()
	okPc, nRet := true, 0
	for _, r := range pf.Returns {
		st := pf.At[r]
		res := errResult(r)
		if st.Has("nonnil:runcommand") {
			nRet++
			if res == nil || isNilLit(pc.Info(), res) {
				okPc = false
			}
		}
	}
	c.Decide(okPc && nRet > 0, "outcome-types", "failed-precondition@"+fnDisplay(pc), pc.Decl.Pos(), "a failing precondition command yields a non-nil error", "the precondition runner can return a nil error although a precondition command failed")
}

func c13LoggerPrompt(c *Check, a *Anchors) {
	c.Rule("logger-prompt", "decision table of Logger.Prompt: nil is returned only under AssumeYes or after a successful read whose answer is one of the continue values; the input is read only when AssumeYes is false and a terminal is present (AssumeTerm or term.IsTerminal)")
	fb := c.P.Func(PkgLogger, "Logger", "Prompt")
	if fb == nil {
		c.Errorf("logger-prompt: (*Logger).Prompt not found")
		return
	}
	fn := c.P.SSAFunc(fb)
	c.Fn(fb)
	pe := &PathEnum{Fn: fn, MaxRevisit: revisit(), Event: func(in ssa.Instruction) (string, string) {
		if call, ok := in.(*ssa.Call); ok {
			if f := call.Common().StaticCallee(); f != nil && f.Name() == "ReadString" {
				return "read", "call"
			}
		}
		return "", ""
	}}
	pe.Run()
	c.Paths += len(pe.Paths)
	var bad []string
	nNil, nRead := 0, 0
	for _, p := range pe.Paths {
		if p.Panic {
			continue
		}
		yes := p.Asg["field:Logger.AssumeYes"]
		term := p.Asg["field:Logger.AssumeTerm"]
		for k, v := range p.Asg {
			if strings.Contains(k, "IsTerminal") && v {
				term = true
			}
		}
		contains := false
		for k, v := range p.Asg {
			if strings.Contains(k, "slices.Contains") && v {
				contains = true
			}
		}
		if p.HasEvent("read", "call") {
			nRead++
			if yes || !term {
				bad = append(bad, "the answer is read although AssumeYes is set or no terminal was established: "+p.String())
			}
		}
		if len(p.Out) == 1 && p.Out[0] == "nil" {
			nNil++
			if !(yes || (p.HasEvent("read", "call") && contains)) {
				bad = append(bad, "Prompt returns nil without --yes and without an accepted answer: "+p.String())
			}
		}
	}
	if nNil < 2 || nRead < 2 {
		c.Errorf("logger-prompt: table is vacuous (%d nil paths, %d reading paths)", nNil, nRead)
	}
	if len(bad) > 3 {
		bad = bad[:3]
	}
	c.Decide(len(bad) == 0, "logger-prompt", "table@"+fnDisplay(fb), fb.Decl.Pos(), fmt.Sprintf("holds on all %d paths", len(pe.Paths)), strings.Join(bad, " || "))
}

func c13EnumTotal(c *Check, a *Anchors) {
	c.Rule("enum-total", "in the allowed-values loop, on every path of one iteration on which the variable has an enum, either the membership test was taken on its true edge or a NotAllowedVar was appended — no path accepts a value without testing it (whatever the value's Go type)")
	fb := a.AllowedValues
	fn := c.P.SSAFunc(fb)
	if fn == nil {
		c.Errorf("enum-total: no SSA")
		return
	}
	c.Fn(fb)
	// a loop over an iterator function is compiled into a synthetic yield function that holds the loop body: one iteration
	// is one call of it
	for _, af := range fn.AnonFuncs {
		if strings.Contains(af.Synthetic, "range-over-func") {
			fn = af
		}
	}
	pe := &PathEnum{Fn: fn, MaxRevisit: revisit(), Event: func(in ssa.Instruction) (string, string) {
		if call, ok := in.(*ssa.Call); ok {
			if b, ok := call.Common().Value.(*ssa.Builtin); ok && b.Name() == "append" {
				if s, ok := call.Type().Underlying().(*types.Slice); ok && isNamed(s.Elem(), PkgErrors, "NotAllowedVar") {
					return "reject", "call"
				}
			}
			if f := call.Common().StaticCallee(); f != nil && f.Name() == "Contains" {
				return "member", "call"
			}
		}
		return "", ""
	}}
	pe.Run()
	c.Paths += len(pe.Paths)
	var bad []string
	n := 0
	for _, p := range pe.Paths {
		if p.Panic {
			continue
		}
		// single-iteration view: paths with exactly one visit of the loop body are those with <= 1 member/reject decision
		enumNil, known := false, false
		for k, v := range p.Asg {
			if strings.HasPrefix(k, "nil(field:VarsWithValidation.Enum") {
				enumNil, known = v, true
			}
		}
		if !known {
			// the enum was never tested: acceptable only if every iteration appended or tested membership
			if strings.Contains(fmt.Sprint(p.Blocks), " ") && !p.HasEvent("member", "call") && !p.HasEvent("reject", "call") && len(p.Blocks) > 4 {
				continue
			}
		}
		if known && !enumNil {
			n++
			member := false
			for k, v := range p.Asg {
				if strings.Contains(k, "slices.Contains") && v {
					member = true
				}
			}
			if !member && !p.HasEvent("reject", "call") {
				bad = append(bad, "a value of a variable with an enum is accepted without a passed membership test and without being rejected: "+p.String())
			}
		}
	}
	if n == 0 {
		c.Errorf("enum-total: no path tests the enum (vacuous)")
		for i, p := range pe.Paths {
			if i < 6 {
				c.Notef("enum-total debug path: %s", p)
			}
		}
	}
	if len(bad) > 3 {
		bad = bad[:3]
	}
	c.Decide(len(bad) == 0, "enum-total", "table@"+fnDisplay(fb), fb.Decl.Pos(), fmt.Sprintf("holds on all %d enum-carrying paths", n), strings.Join(bad, " || "))
}

// platformContainsForm: the platform test decides "some entry matches" with slices.ContainsFunc over its list parameter.
// Returns the function that decides ONE entry and the defects of the list-level part: every return must be `true` on the
// empty-list edge, the ContainsFunc call on the list, or a disjunction of the two.
func platformContainsForm(c *Check, fb *FuncBody) (*FuncBody, []string) {
	info := fb.Info()
	var list *types.Var
	for _, fld := range fb.Type.Params.List {
		for _, id := range fld.Names {
			if v, ok := info.Defs[id].(*types.Var); ok && sliceOfPtrTo(v.Type(), PkgAst, "Platform") {
				list = v
			}
		}
	}
	if list == nil {
		return nil, nil
	}
	var cf *ast.CallExpr
	inspectBody(fb.Body, func(n ast.Node) bool {
		if call, ok := n.(*ast.CallExpr); ok && isFunc(callee(info, call), "slices", "", "ContainsFunc") && len(call.Args) == 2 && varOf(info, call.Args[0]) == list {
			cf = call
		}
		return true
	})
	if cf == nil {
		return nil, nil
	}
	var pred *FuncBody
	switch x := ast.Unparen(cf.Args[1]).(type) {
	case *ast.FuncLit:
		pred = c.P.LitBody(x)
		// a literal that only forwards to a function or method of the module: that one decides; it must be handed GOOS / GOARCH
		if len(x.Body.List) == 1 {
			if r, ok := x.Body.List[0].(*ast.ReturnStmt); ok && len(r.Results) == 1 {
				if call, ok := ast.Unparen(r.Results[0]).(*ast.CallExpr); ok {
					if fn, ok := callee(info, call).(*types.Func); ok {
						if h := c.P.DeclOf(fn); h != nil && h.Decl != nil && strings.HasPrefix(h.Pkg.PkgPath, Mod) {
							pred = h
						}
					}
				}
			}
		}
	case *ast.Ident, *ast.SelectorExpr:
		var id *ast.Ident
		if i, ok := x.(*ast.Ident); ok {
			id = i
		} else {
			id = x.(*ast.SelectorExpr).Sel
		}
		if fn, ok := info.Uses[id].(*types.Func); ok {
			pred = c.P.DeclOf(fn)
		}
	}
	if pred == nil {
		return nil, nil
	}
	var bad []string
	usesOS, usesArch := false, false
	inspectDeep(fb.Body, func(n ast.Node) bool {
		if sel, ok := n.(*ast.SelectorExpr); ok {
			if o := info.Uses[sel.Sel]; o != nil && o.Pkg() != nil && o.Pkg().Path() == "runtime" {
				switch o.Name() {
				case "GOOS":
					usesOS = true
				case "GOARCH":
					usesArch = true
				}
			}
		}
		return true
	})
	if pred.Decl != nil && pred.Pkg.PkgPath != PkgTask {
		// the deciding function takes the platform to compare with as arguments
		if !usesOS || !usesArch {
			bad = append(bad, "the entry predicate is not handed runtime.GOOS and runtime.GOARCH")
		}
	}
	f := NewFlow(c.P, fb, func(call *ast.CallExpr, obj types.Object) string { return "" })
	f.Run()
	var okExpr func(e ast.Expr, st Facts) bool
	okExpr = func(e ast.Expr, st Facts) bool {
		e = ast.Unparen(e)
		if e == ast.Expr(cf) {
			return true
		}
		if tv, ok := info.Types[e]; ok && tv.Value != nil && tv.Value.String() == "true" {
			for k := range st {
				if strings.HasPrefix(k, "empty:") && strings.Contains(k, list.Name()) {
					return true
				}
			}
			return false
		}
		if be, ok := e.(*ast.BinaryExpr); ok && be.Op == token.LOR {
			lenTest := func(x ast.Expr) bool {
				b, ok := ast.Unparen(x).(*ast.BinaryExpr)
				if !ok || b.Op != token.EQL || !constIs(info, b.Y, "0") {
					return false
				}
				call, ok := ast.Unparen(b.X).(*ast.CallExpr)
				return ok && isBuiltin(info, call, "len") && len(call.Args) == 1 && varOf(info, call.Args[0]) == list
			}
			return (lenTest(be.X) || okExpr(be.X, st)) && (lenTest(be.Y) || okExpr(be.Y, st))
		}
		return false
	}
	for _, r := range f.Returns {
		if len(r.Results) != 1 || !okExpr(r.Results[0], f.At[r]) {
			bad = append(bad, "a return of the platform test is neither `true` for the empty list nor the ContainsFunc result: "+exprStrOrNone(errResult(r)))
		}
	}
	return pred, bad
}
