package main

import (
	"fmt"
	"go/ast"
	"go/constant"
	"go/token"
	"go/types"
	"os"
	"path/filepath"
	"regexp"
	"sort"
	"strconv"
	"strings"

	"golang.org/x/tools/go/ssa"
)

func init() { register("C03", checkC03) }

func checkC03(c *Check, a *Anchors) {
	c.NotDecided = []string{
		"that a cancelled sibling's process is really dead before Task exits",
		"the numeric exit status reported by mvdan/sh for a given shell command",
	}
	c03StopOnError(c, a)
	sharedWait(c, a) // a failure inside a shared run-once task must reach every caller
	c03CmdIgnoreScoped(c, a)
	c03NoDroppedError(c, a)
	c03ExitCodeMap(c, a)
	c14Registration(c, a) // a defer entry is registered only when the loop reaches it: nothing listed after a failing command starts
	c07SlotPaired(c, a)   // "the invocation ends with a non-zero status": a slot that is not taken back on the failing path blocks the caller's own release for ever
	c07SlotStates(c, a)
	cancellationPropagates(c, a)
	sharedOutcomeCallIndependent(c, a)
	errorBranchExits(c, a, "error-branch-exits")
	elementLiteralCarriesFields(c, a, "element-literal-carries-fields")
	c03ParallelFirstError(c, a)
	c03ParallelGroupCancels(c, a)
	lockReleasedOnEveryExit(c, a, "lock-released-on-every-exit") // "the invocation ends with a non-zero status": an error return that leaves a mutex locked makes the next task that needs it wait for ever instead
}

// ssaLabel names a call instruction by its (static or interface) callee object.
func (a *Anchors) ssaLabel(in ssa.Instruction) (string, string) {
	var cc *ssa.CallCommon
	kind := "call"
	switch x := in.(type) {
	case *ssa.Call:
		cc = x.Common()
	case *ssa.Defer:
		cc, kind = x.Common(), "defer"
	case *ssa.Go:
		cc, kind = x.Common(), "go"
	case *ssa.RunDefers:
		return "rundefers", "rundefers"
	default:
		return "", ""
	}
	if cc.IsInvoke() {
		return a.labelObj(cc.Method), kind
	}
	if f := cc.StaticCallee(); f != nil {
		if o := f.Object(); o != nil {
			return a.labelObj(o), kind
		}
		if f.Origin() != nil && f.Origin().Object() != nil {
			return a.labelObj(f.Origin().Object()), kind
		}
	}
	return "", kind
}

// isExitName gives the comma-ok result of interp.IsExitStatus(x) the atom name isexit(<x>) and
// errors.Is(x, target) the atom name is(<x>,<target>) (both imply x != nil, see impliedNonNil).
func isExitName(pe *PathEnum) func(v ssa.Value) string {
	keyOf := func(v ssa.Value) string {
		save := pe.Name
		pe.Name = nil
		k := pe.key(v, pe.cur)
		pe.Name = save
		return k
	}
	return func(v ssa.Value) string {
		switch x := v.(type) {
		case *ssa.Extract:
			call, ok := x.Tuple.(*ssa.Call)
			if !ok || x.Index != 1 {
				return ""
			}
			f := call.Common().StaticCallee()
			if f == nil || f.Name() != "IsExitStatus" || f.Pkg == nil || f.Pkg.Pkg.Path() != "mvdan.cc/sh/v3/interp" {
				return ""
			}
			return "isexit(" + keyOf(call.Common().Args[0]) + ")"
		case *ssa.Call:
			f := x.Common().StaticCallee()
			if f == nil || f.Name() != "Is" || f.Pkg == nil || len(x.Common().Args) != 2 {
				return ""
			}
			if p := f.Pkg.Pkg.Path(); p != "errors" && p != PkgErrors {
				return ""
			}
			return "is(" + keyOf(x.Common().Args[0]) + "," + keyOf(x.Common().Args[1]) + ")"
		}
		return ""
	}
}

type segment struct {
	asg      map[string]bool
	nextSame bool // another occurrence of the label follows
	last     bool
}

// segmentsAfter replays a path and returns, for each occurrence of a call label, the atom valuation in effect
// between that occurrence and the next one (or the end of the path).
func segmentsAfter(p *Path, label string, resKey string) []segment {
	var segs []segment
	cur := map[string]bool{}
	open := false
	flush := func(next bool) {
		if open {
			cp := map[string]bool{}
			for k, v := range cur {
				cp[k] = v
			}
			segs = append(segs, segment{asg: cp, nextSame: next})
		}
	}
	for _, e := range p.Events {
		switch {
		case e.Kind == "assume":
			cur[e.Label] = e.Val
		case e.Label == label && e.Kind == "call":
			flush(true)
			for k := range cur {
				if strings.Contains(k, resKey) {
					delete(cur, k)
				}
			}
			open = true
		}
	}
	flush(false)
	if len(segs) > 0 {
		segs[len(segs)-1].last = true
	}
	return segs
}

func tri(asg map[string]bool, atoms ...string) (val, known bool) {
	all := true
	for _, a := range atoms {
		v, ok := asg[a]
		if ok && !v {
			return false, true
		}
		if !ok {
			all = false
		}
	}
	return all, all
}

func c03StopOnError(c *Check, a *Anchors) {
	c.Rule("stop-on-error", "decision table over all paths of the task body: after a command-runner call returned a non-nil error the cmds loop continues IFF the error is an exit status AND the task has ignore_error; on every other path the body returns a non-nil error without running another command")
	c.Rule("direct-call-wrapped", "decision table: a failure of one of the task's own commands leaves the body as *errors.TaskRunError IFF the call is direct (call.Indirect false); an exit-status failure coming from the dependency runner is wrapped IFF the call is direct; indirect callers always get the raw error (so that ignore_error and --exit-code of the callers still see the exit status)")
	fn := c.P.SSAFunc(a.BodyClosure)
	if fn == nil {
		c.Errorf("stop-on-error: no SSA for the task body closure")
		return
	}
	c.Fn(a.BodyClosure)
	pe := &PathEnum{Fn: fn, MaxRevisit: revisit(), Event: a.ssaLabel}
	pe.Name = isExitName(pe)
	pe.Run()
	if pe.Truncated {
		c.Errorf("stop-on-error: path budget exceeded in %s", fnDisplay(a.BodyClosure))
		return
	}
	c.Paths += len(pe.Paths)
	name := fnDisplay(a.BodyClosure)
	const cmdRes = "res:Executor." // result key prefix of the command runner call
	cmdKey := ""
	depKey := ""
	for v, n := range pe.callOrd {
		if call, ok := v.(*ssa.Call); ok {
			if l, _ := a.ssaLabel(call); l == "cmd" && call.Common().StaticCallee() != nil && a.CmdRunner != nil && call.Common().StaticCallee().Object() == a.CmdRunner.Obj {
				cmdKey = "res:" + n
			} else if l == "deps" {
				depKey = "res:" + n
			}
		}
	}
	if cmdKey == "" || depKey == "" {
		c.Errorf("stop-on-error: command runner / dependency runner call not found in SSA of %s", name)
		return
	}
	_ = cmdRes
	nilCmd, exitCmd := "nil("+cmdKey+")", "isexit("+cmdKey+")"
	nilDep, exitDep := "nil("+depKey+")", "isexit("+depKey+")"
	ignore, indirect := "field:Task.IgnoreError", "field:Call.Indirect"

	type agg struct {
		n   int
		bad []string
	}
	res := map[string]*agg{}
	note := func(key string, ok bool, why string) {
		g := res[key]
		if g == nil {
			g = &agg{}
			res[key] = g
		}
		g.n++
		if !ok && len(g.bad) < 3 {
			g.bad = append(g.bad, why)
		}
	}
	for _, p := range pe.Paths {
		if p.Panic {
			continue
		}
		out := ""
		if len(p.Out) > 0 {
			out = p.Out[len(p.Out)-1]
		}
		// --- failing own command
		for _, s := range segmentsAfter(p, "cmd", cmdKey) {
			if v, ok := s.asg[nilCmd]; !ok || v {
				continue // command succeeded (or its error was never tested on this segment)
			}
			cont := s.nextSame || (s.last && out == "nil")
			exp, known := tri(s.asg, exitCmd, ignore)
			switch {
			case cont && !(known && exp):
				note("continue-iff-ignored", false, fmt.Sprintf("after a failing command the loop continues (or the task ends successfully) although `exit status && ignore_error` is not established on the path: %s", p))
			case !cont && known && exp:
				note("continue-iff-ignored", false, fmt.Sprintf("task-level ignore_error is not honoured: the body stops although the error is an exit status and the task has ignore_error: %s", p))
			default:
				note("continue-iff-ignored", true, "")
			}
			if !cont && s.last {
				note("stop-returns-error", out != "nil" && out != "", fmt.Sprintf("the body stops after a failing command but returns %q: %s", out, p))
				// wrapping table
				ind, indKnown := s.asg[indirect]
				wrapped := strings.HasPrefix(out, "new(*errors.TaskRunError)") || out == "new(errors.TaskRunError)"
				raw := out == cmdKey
				switch {
				case !indKnown:
					note("own-cmd-wrap-iff-direct", false, fmt.Sprintf("a failing command leaves the body as %q without call.Indirect having been tested: %s", out, p))
				case ind:
					note("own-cmd-wrap-iff-direct", raw, fmt.Sprintf("indirect call: expected the raw command error, got %q: %s", out, p))
				default:
					note("own-cmd-wrap-iff-direct", wrapped, fmt.Sprintf("direct call: expected *errors.TaskRunError, got %q: %s", out, p))
				}
			}
		}
		// --- failing dependency runner
		if v, ok := p.Asg[nilDep]; ok && !v {
			note("deps-failure-returns-error", out != "nil" && out != "" && !p.HasEvent("cmd", "call"), fmt.Sprintf("a failing dependency runner does not stop the body with an error (returns %q / runs commands): %s", out, p))
			ex, exKnown := p.Asg[exitDep]
			ind, indKnown := p.Asg[indirect]
			wrapped := strings.HasPrefix(out, "new(*errors.TaskRunError)")
			raw := out == depKey
			switch {
			case exKnown && ex && indKnown && !ind:
				note("deps-wrap-iff-direct-exit", wrapped, fmt.Sprintf("direct call, exit-status failure in a dependency: expected *errors.TaskRunError, got %q: %s", out, p))
			case exKnown && ex && indKnown && ind:
				note("deps-wrap-iff-direct-exit", raw, fmt.Sprintf("indirect call: the dependency's exit-status error must be returned unwrapped, got %q: %s", out, p))
			case exKnown && !ex:
				note("deps-wrap-iff-direct-exit", raw, fmt.Sprintf("a non-exit-status error of a dependency (guard errors 202/205/206/207...) must be returned unchanged, got %q: %s", out, p))
			case wrapped && !(exKnown && indKnown):
				note("deps-wrap-iff-direct-exit", false, fmt.Sprintf("the dependency error is wrapped without testing both `exit status` and `call.Indirect`: %s", p))
			case raw && !(exKnown && indKnown):
				note("deps-wrap-iff-direct-exit", false, fmt.Sprintf("the dependency error is returned raw without testing both `exit status` and `call.Indirect` (a direct call would end with status 1 instead of 201): %s", p))
			default:
				note("deps-wrap-iff-direct-exit", true, "")
			}
		}
	}
	ruleOf := map[string]string{
		"continue-iff-ignored": "stop-on-error", "stop-returns-error": "stop-on-error", "deps-failure-returns-error": "stop-on-error",
		"own-cmd-wrap-iff-direct": "direct-call-wrapped", "deps-wrap-iff-direct-exit": "direct-call-wrapped",
	}
	var keys []string
	for k := range ruleOf {
		keys = append(keys, k)
	}
	sort.Strings(keys)
	for _, k := range keys {
		g := res[k]
		if g == nil || g.n == 0 {
			c.Errorf("%s: decision table row %s matched no path in %s (vacuous)", ruleOf[k], k, name)
			continue
		}
		c.Decide(len(g.bad) == 0, ruleOf[k], k+"@"+name, a.BodyClosure.Body.Pos(),
			fmt.Sprintf("holds on all %d path segments (%d paths enumerated, loop bound 2 iterations)", g.n, len(pe.Paths)),
			strings.Join(g.bad, " || "))
	}
	c.Extra["body_paths"] = len(pe.Paths)
}

func c03CmdIgnoreScoped(c *Check, a *Anchors) {
	c.Rule("cmd-ignore-scoped", "decision table over all paths of the command runner (and of the helper it hands the shell execution to, whose call then stands for RunCommand in the runner): a non-nil error of execext.RunCommand becomes nil IFF it is an exit status AND the command has ignore_error; otherwise the error itself is returned")
	c03CmdIgnoreScopedIn(c, a, a.CmdRunner)
	if a.ShellExec != nil && a.ShellExec != a.CmdRunner {
		c03CmdIgnoreScopedIn(c, a, a.ShellExec)
	}
}

func c03CmdIgnoreScopedIn(c *Check, a *Anchors, runner *FuncBody) {
	fn := c.P.SSAFunc(runner)
	if fn == nil {
		c.Errorf("cmd-ignore-scoped: no SSA for the command runner")
		return
	}
	c.Fn(runner)
	pe := &PathEnum{Fn: fn, MaxRevisit: revisit(), Event: a.ssaLabel}
	pe.Name = isExitName(pe)
	pe.Run()
	c.Paths += len(pe.Paths)
	rcKey := ""
	for v, n := range pe.callOrd {
		if call, ok := v.(*ssa.Call); ok {
			if l, _ := a.ssaLabel(call); l == "runcommand" {
				rcKey = "res:" + n
			}
		}
	}
	if rcKey == "" {
		c.Errorf("cmd-ignore-scoped: execext.RunCommand call not found in %s", fnDisplay(runner))
		return
	}
	exit, ignore := "isexit("+rcKey+")", "field:Cmd.IgnoreError"
	n := 0
	var bad []string
	for _, p := range pe.Paths {
		if p.Panic || !p.HasEvent("runcommand", "call") {
			continue
		}
		out := p.Out[len(p.Out)-1]
		exp, known := tri(p.Asg, exit, ignore)
		n++
		switch {
		case out == "nil" && !(known && exp):
			// success is fine when the error was nil: the returned value is the error variable itself then
			bad = append(bad, fmt.Sprintf("the command runner returns the constant nil after running the command although `exit status && cmd.ignore_error` is not established: %s", p))
		case out != "nil" && known && exp:
			bad = append(bad, fmt.Sprintf("command-level ignore_error is not honoured (returns %q): %s", out, p))
		case out != "nil" && out != rcKey:
			bad = append(bad, fmt.Sprintf("the command runner returns %q instead of RunCommand's error: %s", out, p))
		}
	}
	if n == 0 {
		c.Errorf("cmd-ignore-scoped: no path runs the command")
		return
	}
	if len(bad) > 3 {
		bad = bad[:3]
	}
	c.Decide(len(bad) == 0, "cmd-ignore-scoped", "table@"+fnDisplay(runner), runner.Body.Pos(),
		fmt.Sprintf("holds on all %d paths that run the command", n), strings.Join(bad, " || "))
}

// c03NoDroppedError: results of the run-phase calls are never discarded.
func c03NoDroppedError(c *Check, a *Anchors) {
	c.Rule("no-dropped-error", "the error result of every call to RunTask, the dependency runner, the command runner, the dedup function, the execute callback, errgroup.Wait and the cmds RunCommand is bound to a variable or returned — never discarded as an expression statement or assigned to _ (the only enumerated handler that logs instead of returning is the deferred-command runner)")
	watched := map[string]bool{"runtask": true, "deps": true, "cmd": true, "dedup": true, "wait": true, "runcommand": true}
	roots := []*FuncBody{a.Run, a.RunTask, a.DepRunner, a.CmdRunner, a.Dedup, a.DeferRunner, a.Status}
	n := 0
	ord := map[string]int{}
	for _, root := range roots {
		var bodies []*FuncBody
		var collect func(fb *FuncBody)
		collect = func(fb *FuncBody) {
			bodies = append(bodies, fb)
			for _, l := range fb.Lits() {
				collect(l)
			}
		}
		collect(root)
		for _, fb := range bodies {
			c.Fn(fb)
			info := fb.Info()
			pm := parentMap(fb.Body)
			inspectBody(fb.Body, func(nd ast.Node) bool {
				call, ok := nd.(*ast.CallExpr)
				if !ok {
					return true
				}
				l := a.labelObj(callee(info, call))
				if !watched[l] {
					return true
				}
				if l == "cmd" && !a.is(callee(info, call), a.CmdRunner) {
					return true // helper without result (deferred runner)
				}
				if l == "runcommand" && fb.Root() != a.CmdRunner {
					return true
				}
				n++
				key := ordinal(ord, l+"@"+fnDisplay(fb))
				dropped, why := false, ""
				switch par := pm[call].(type) {
				case *ast.ExprStmt:
					dropped, why = true, "the call is an expression statement: its error is discarded"
				case *ast.AssignStmt:
					for i, r := range par.Rhs {
						if ast.Unparen(r) == call {
							idx := i
							if len(par.Rhs) == 1 {
								idx = len(par.Lhs) - 1
							}
							if id, ok := par.Lhs[idx].(*ast.Ident); ok && id.Name == "_" {
								dropped, why = true, "the error result is assigned to _"
							}
						}
					}
				case *ast.GoStmt, *ast.DeferStmt:
					dropped, why = true, "the call is started with go/defer: its error is discarded"
				}
				c.Decide(!dropped, "no-dropped-error", key, call.Pos(), "result is bound or returned", why)
				return true
			})
		}
	}
	c.Sites += n
	c.Floor("no-dropped-error", n, 8)
}

var docRow = regexp.MustCompile(`^\|\s*(\d+)\s*\|\s*(.+?)\s*\|\s*$`)

func c03ExitCodeMap(c *Check, a *Anchors) {
	c.Rule("exit-code-map", "main tests `*TaskRunError && --exit-code` first (TaskExitCode), then errors.TaskError (Code), then falls back to CodeUnknown; every Code() method of package errors returns a named constant; the constants evaluate to the numbers of the documented exit-code table (website/docs/reference/cli.mdx); TaskExitCode returns the interp.IsExitStatus value when there is one")
	// 1. constants vs. documentation
	doc := map[int]string{}
	if b, err := os.ReadFile(filepath.Join(c.P.Dir, "website/docs/reference/cli.mdx")); err == nil {
		in := false
		for _, line := range strings.Split(string(b), "\n") {
			if strings.HasPrefix(line, "## Exit Codes") {
				in = true
			} else if strings.HasPrefix(line, "## ") {
				in = false
			}
			if m := docRow.FindStringSubmatch(line); in && m != nil {
				n, _ := strconv.Atoi(m[1])
				doc[n] = m[2]
			}
		}
	}
	if len(doc) < 10 {
		c.Errorf("exit-code-map: documented exit-code table not found in website/docs/reference/cli.mdx")
		return
	}
	want := map[string]int{
		"CodeOk": 0, "CodeUnknown": 1,
		"CodeTaskfileNotFound": 100, "CodeTaskfileAlreadyExists": 101, "CodeTaskfileDecode": 102, "CodeTaskfileFetchFailed": 103,
		"CodeTaskfileNotTrusted": 104, "CodeTaskfileNotSecure": 105, "CodeTaskfileCacheNotFound": 106, "CodeTaskfileVersionCheckError": 107,
		"CodeTaskNotFound": 200, "CodeTaskRunError": 201, "CodeTaskInternal": 202, "CodeTaskNameConflict": 203,
		"CodeTaskCalledTooManyTimes": 204, "CodeTaskCancelled": 205, "CodeTaskMissingRequiredVars": 206, "CodeTaskNotAllowedVars": 207,
	}
	var names []string
	for k := range want {
		names = append(names, k)
	}
	sort.Strings(names)
	for _, nme := range names {
		obj, _ := c.P.Lookup(PkgErrors, nme).(*types.Const)
		if obj == nil {
			c.Bad("exit-code-map", "const "+nme, 0, "constant errors."+nme+" no longer exists")
			continue
		}
		v, _ := constant.Int64Val(obj.Val())
		_, documented := doc[int(v)]
		c.Decide(int(v) == want[nme] && documented, "exit-code-map", "const "+nme, obj.Pos(),
			fmt.Sprintf("= %d, documented as %q", v, doc[int(v)]),
			fmt.Sprintf("errors.%s evaluates to %d but the documented class is %d (%q)", nme, v, want[nme], doc[want[nme]]))
	}
	// 2. Code() methods return the class constant of their type
	wantCode := map[string]string{
		"TaskNotFoundError": "CodeTaskNotFound", "TaskRunError": "CodeTaskRunError", "TaskInternalError": "CodeTaskInternal",
		"TaskNameConflictError": "CodeTaskNameConflict", "TaskCalledTooManyTimesError": "CodeTaskCalledTooManyTimes",
		"TaskCancelledByUserError": "CodeTaskCancelled", "TaskCancelledNoTerminalError": "CodeTaskCancelled",
		"TaskMissingRequiredVarsError": "CodeTaskMissingRequiredVars", "TaskNotAllowedVarsError": "CodeTaskNotAllowedVars",
		"TaskfileNotFoundError": "CodeTaskfileNotFound", "TaskfileAlreadyExistsError": "CodeTaskfileAlreadyExists",
		"TaskfileInvalidError": "CodeTaskfileInvalid", "TaskfileFetchFailedError": "CodeTaskfileFetchFailed",
		"TaskfileNotTrustedError": "CodeTaskfileNotTrusted", "TaskfileNotSecureError": "CodeTaskfileNotSecure",
		"TaskfileCacheNotFoundError": "CodeTaskfileCacheNotFound", "TaskfileVersionCheckError": "CodeTaskfileVersionCheckError",
		"TaskfileDecodeError": "CodeTaskfileDecode", "TaskfileNetworkTimeoutError": "CodeTaskfileNetworkTimeout",
		"TaskfileCycleError": "CodeTaskfileCycle",
	}
	nCode := 0
	for _, fb := range c.P.BodiesIn(PkgErrors) {
		if fb.Decl == nil || fb.Decl.Name.Name != "Code" || fb.Decl.Recv == nil {
			continue
		}
		nCode++
		c.Fn(fb)
		recv := recvOf(fb)
		rets := returnsOf(fb.Body)
		ok, got := len(rets) == 1, "?"
		if ok {
			if id, isId := ast.Unparen(rets[0].Results[0]).(*ast.Ident); isId {
				got = id.Name
				if w, known := wantCode[recv]; known {
					ok = id.Name == w
				} else {
					_, isConst := fb.Info().Uses[id].(*types.Const)
					ok = isConst
				}
			} else {
				ok = false
				got = exprStr(rets[0].Results[0])
			}
		}
		c.Decide(ok, "exit-code-map", "Code()@"+recv, fb.Decl.Pos(), "returns "+got, fmt.Sprintf("(%s).Code() returns %s, expected the class constant %s", recv, got, wantCode[recv]))
	}
	c.Floor("exit-code-map", nCode, 18)
	// 3. main's mapping order
	mainFn := c.P.Func(PkgMain, "", "main")
	if mainFn == nil {
		c.Errorf("exit-code-map: cmd/task main not found")
		return
	}
	c.Fn(mainFn)
	info := mainFn.Info()
	classify := func(inf *types.Info, e ast.Expr) string {
		if inner, ok := ast.Unparen(e).(*ast.CallExpr); ok {
			switch {
			case isFunc(callee(inf, inner), PkgErrors, "TaskRunError", "TaskExitCode"):
				return "TaskExitCode"
			default:
				if fn, ok := callee(inf, inner).(*types.Func); ok && fn.Name() == "Code" {
					return "Code"
				}
			}
		}
		if tv, ok := inf.Types[e]; ok && tv.Value != nil {
			switch s := ast.Unparen(e).(type) {
			case *ast.SelectorExpr:
				return "const:" + s.Sel.Name
			case *ast.Ident:
				return "const:" + s.Name
			}
		}
		return "other:" + exprStr(e)
	}
	// the mapping error -> exit status, decided per class of error by abstract evaluation of main's error branch (or of the
	// helper main hands the error to): type assertions, type switches and tests of flags.ExitCode are interpreted for
	// {*TaskRunError with / without --exit-code, another TaskError, any other error}; the first os.Exit / return wins
	type errClass struct {
		name            string
		runErr, taskErr bool
		flag            bool
	}
	classes := []errClass{
		{"*TaskRunError with --exit-code", true, true, true},
		{"*TaskRunError without --exit-code", true, true, false},
		{"another TaskError with --exit-code", false, true, true},
		{"another TaskError", false, true, false},
		{"any other error", false, false, false},
		{"any other error with --exit-code", false, false, true},
	}
	wantExit := []string{"TaskExitCode", "Code", "Code", "Code", "const:CodeUnknown", "const:CodeUnknown"}
	isFlag := func(inf *types.Info, e ast.Expr, flagParam *types.Var) bool {
		e = ast.Unparen(e)
		if sel, ok := e.(*ast.SelectorExpr); ok && fieldKey(inf, sel) == "pkgvar:flags.ExitCode" {
			return true
		}
		return flagParam != nil && varOf(inf, e) == flagParam
	}
	matches := func(inf *types.Info, t ast.Expr, cl errClass) bool {
		tv, ok := inf.Types[t]
		if !ok {
			return false
		}
		ts := types.TypeString(tv.Type, nil)
		switch {
		case strings.HasSuffix(ts, "errors.TaskRunError"):
			return cl.runErr
		case strings.HasSuffix(ts, "errors.TaskError"):
			return cl.taskErr
		}
		return false
	}
	var eval func(inf *types.Info, list []ast.Stmt, cl errClass, flagParam *types.Var, okVars map[*types.Var]bool) (string, bool)
	var evalCond func(inf *types.Info, e ast.Expr, cl errClass, flagParam *types.Var, okVars map[*types.Var]bool) (bool, bool)
	evalCond = func(inf *types.Info, e ast.Expr, cl errClass, flagParam *types.Var, okVars map[*types.Var]bool) (bool, bool) {
		e = ast.Unparen(e)
		switch x := e.(type) {
		case *ast.BinaryExpr:
			l, lk := evalCond(inf, x.X, cl, flagParam, okVars)
			r, rk := evalCond(inf, x.Y, cl, flagParam, okVars)
			if x.Op == token.LAND && lk && rk {
				return l && r, true
			}
			if x.Op == token.LOR && lk && rk {
				return l || r, true
			}
			return false, false
		case *ast.UnaryExpr:
			if x.Op == token.NOT {
				v, k := evalCond(inf, x.X, cl, flagParam, okVars)
				return !v, k
			}
		case *ast.Ident:
			if v := varOf(inf, x); v != nil {
				if val, ok := okVars[v]; ok {
					return val, true
				}
			}
		}
		if isFlag(inf, e, flagParam) {
			return cl.flag, true
		}
		return false, false
	}
	eval = func(inf *types.Info, list []ast.Stmt, cl errClass, flagParam *types.Var, okVars map[*types.Var]bool) (string, bool) {
		for _, st := range list {
			switch x := st.(type) {
			case *ast.ReturnStmt:
				if len(x.Results) == 1 {
					return classify(inf, x.Results[0]), true
				}
			case *ast.ExprStmt:
				if call, ok := ast.Unparen(x.X).(*ast.CallExpr); ok && isFunc(callee(inf, call), "os", "", "Exit") && len(call.Args) == 1 {
					// os.Exit(helper(err, flag)): evaluate the helper
					if hc, ok := ast.Unparen(call.Args[0]).(*ast.CallExpr); ok && strings.HasPrefix(classify(inf, call.Args[0]), "other:") {
						if fn, ok := callee(inf, hc).(*types.Func); ok {
							if h := c.P.DeclOf(fn); h != nil && h.Decl != nil && strings.HasPrefix(h.Pkg.PkgPath, Mod) {
								c.Fn(h)
								var fp *types.Var
								pi := 0
								for _, fld := range h.Type.Params.List {
									for _, id := range fld.Names {
										if pi < len(hc.Args) && isFlag(inf, hc.Args[pi], flagParam) {
											fp, _ = h.Info().Defs[id].(*types.Var)
										}
										pi++
									}
								}
								return eval(h.Info(), h.Body.List, cl, fp, map[*types.Var]bool{})
							}
						}
					}
					return classify(inf, call.Args[0]), true
				}
			case *ast.IfStmt:
				ok2 := map[*types.Var]bool{}
				for k, v := range okVars {
					ok2[k] = v
				}
				if as, isAs := x.Init.(*ast.AssignStmt); isAs && len(as.Lhs) == 2 && len(as.Rhs) == 1 {
					if ta, isTA := ast.Unparen(as.Rhs[0]).(*ast.TypeAssertExpr); isTA && ta.Type != nil {
						if v := varOf(inf, as.Lhs[1]); v != nil {
							ok2[v] = matches(inf, ta.Type, cl)
						}
					}
				}
				val, known := evalCond(inf, x.Cond, cl, flagParam, ok2)
				if !known {
					// a condition about something else (err != nil ...): look inside, then go on
					if out, done := eval(inf, x.Body.List, cl, flagParam, ok2); done {
						return out, true
					}
					continue
				}
				if val {
					if out, done := eval(inf, x.Body.List, cl, flagParam, ok2); done {
						return out, true
					}
				} else if x.Else != nil {
					if eb, isB := x.Else.(*ast.BlockStmt); isB {
						if out, done := eval(inf, eb.List, cl, flagParam, ok2); done {
							return out, true
						}
					} else if ei, isI := x.Else.(*ast.IfStmt); isI {
						if out, done := eval(inf, []ast.Stmt{ei}, cl, flagParam, ok2); done {
							return out, true
						}
					}
				}
			case *ast.TypeSwitchStmt:
				var def *ast.CaseClause
				taken := false
				for _, clause := range x.Body.List {
					cc := clause.(*ast.CaseClause)
					if cc.List == nil {
						def = cc
						continue
					}
					hit := false
					for _, t := range cc.List {
						if matches(inf, t, cl) {
							hit = true
						}
					}
					if hit {
						taken = true
						if out, done := eval(inf, cc.Body, cl, flagParam, okVars); done {
							return out, true
						}
						break
					}
				}
				if !taken && def != nil {
					if out, done := eval(inf, def.Body, cl, flagParam, okVars); done {
						return out, true
					}
				}
			case *ast.BlockStmt:
				if out, done := eval(inf, x.List, cl, flagParam, okVars); done {
					return out, true
				}
			}
		}
		return "", false
	}
	// the error branch of main: the body of `if err := run(); err != nil { ... }`
	var errBranch []ast.Stmt
	var okBranch []ast.Stmt // `if err == nil { os.Exit(CodeOk) }`: the success exit, when main is written the other way round
	for i, st := range mainFn.Body.List {
		if ifs, ok := st.(*ast.IfStmt); ok {
			if be, ok := ast.Unparen(ifs.Cond).(*ast.BinaryExpr); ok && isNilLit(info, be.Y) && isErrorType(typeOf(info, be.X)) {
				switch be.Op {
				case token.NEQ:
					errBranch = ifs.Body.List
				case token.EQL:
					// the error branch is what follows, provided the nil branch leaves main
					if n := len(ifs.Body.List); n > 0 && errBranch == nil {
						leaves := false
						switch last := ifs.Body.List[n-1].(type) {
						case *ast.ReturnStmt:
							leaves = true
						case *ast.ExprStmt:
							if call, ok := ast.Unparen(last.X).(*ast.CallExpr); ok && isFunc(callee(info, call), "os", "", "Exit") {
								leaves = true
							}
						}
						if leaves {
							okBranch = ifs.Body.List
							errBranch = mainFn.Body.List[i+1:]
						}
					}
				}
			}
		}
	}
	if errBranch == nil {
		c.Bad("exit-code-map", "main-exit-order", mainFn.Decl.Pos(), "main has no `if err != nil` branch that maps the error of run() to an exit status")
	} else {
		var bad []string
		for i, cl := range classes {
			got, done := eval(info, errBranch, cl, nil, map[*types.Var]bool{})
			if !done {
				got = "no exit reached"
			}
			if got != wantExit[i] {
				bad = append(bad, fmt.Sprintf("%s exits with %s, expected %s", cl.name, got, wantExit[i]))
			}
		}
		c.Decide(len(bad) == 0, "exit-code-map", "main-exit-order", mainFn.Decl.Pos(), "TaskExitCode only for *TaskRunError with --exit-code, Code() for every TaskError, CodeUnknown otherwise",
			"main maps errors to exit statuses wrongly: "+strings.Join(bad, "; "))
		// success exits 0
		last := "none"
		successStmts := mainFn.Body.List
		if okBranch != nil {
			successStmts = okBranch
		}
		for _, st := range successStmts {
			if es, ok := st.(*ast.ExprStmt); ok {
				if call, ok := ast.Unparen(es.X).(*ast.CallExpr); ok && isFunc(callee(info, call), "os", "", "Exit") && len(call.Args) == 1 {
					last = classify(info, call.Args[0])
				}
			}
		}
		c.Decide(last == "const:CodeOk" || last == "none", "exit-code-map", "success-exit", mainFn.Decl.Pos(), "a successful run exits with CodeOk", "after a successful run main exits with "+last)
	}
	// 4. TaskExitCode returns the exit status when there is one
	tec := c.P.Func(PkgErrors, "TaskRunError", "TaskExitCode")
	if tec == nil {
		c.Bad("exit-code-map", "TaskExitCode", 0, "(*TaskRunError).TaskExitCode no longer exists")
		return
	}
	c.Fn(tec)
	usesStatus, usesCode := false, false
	for _, r := range returnsOf(tec.Body) {
		s := exprStr(r.Results[0])
		if strings.Contains(s, "int(") {
			usesStatus = true
		}
		if strings.Contains(s, "Code") {
			usesCode = true
		}
	}
	callsIsExit := false
	for _, call := range callsIn(tec, false) {
		if isFunc(callee(tec.Info(), call), "mvdan.cc/sh/v3/interp", "", "IsExitStatus") {
			callsIsExit = true
		}
	}
	c.Decide(usesStatus && usesCode && callsIsExit, "exit-code-map", "TaskExitCode", tec.Decl.Pos(), "returns the interp exit status when present, else Code()", "TaskExitCode no longer returns the wrapped command's exit status (falls back to Code() otherwise)")
}

// c03ParallelFirstError: with --parallel the error that ends the invocation is the one the errgroup reports — the first
// failure in time. The calls that it cancels return a "context canceled" TaskRunError; picking an error by any other order
// reports one of those instead of the failing command's own (exit code with -x, task name).
func c03ParallelFirstError(c *Check, a *Anchors) {
	c.Rule("parallel-first-error", "in Run every return on the error edge of errgroup.Wait yields Wait's own result (directly or the variable holding it): the failure reported for parallel calls is the first one in time, never a sibling's `context canceled` picked by position")
	fb := a.Run
	c.Fn(fb)
	info := fb.Info()
	f := NewFlow(c.P, fb, a.labelRun(info))
	f.Run()
	n := 0
	for i, r := range f.Returns {
		st := f.At[r]
		res := errResult(r)
		direct := false
		if call, ok := ast.Unparen(res).(*ast.CallExpr); res != nil && ok && f.Labels[call] == "wait" {
			direct = true
		}
		if !direct && !(st.Has("called:wait") && st.Has("nonnil:wait")) {
			continue
		}
		n++
		ok := direct
		if v := varOf(info, res); !ok && v != nil && st.Has(defPrefix(v)+"wait") {
			ok = true
		}
		c.Decide(ok, "parallel-first-error", fmt.Sprintf("return#%d@%s", i+1, fnDisplay(fb)), r.Pos(), "returns errgroup.Wait's result",
			"after errgroup.Wait reported a failure this return yields "+exprStrOrNone(res)+", not Wait's result: with --parallel the reported error (and the exit code under -x) can be that of a call that was merely cancelled by the real failure")
	}
	c.Floor("parallel-first-error", n, 1)
}

// c03ParallelGroupCancels: with --parallel a failing call cancels the others.
func c03ParallelGroupCancels(c *Check, a *Anchors) {
	c.Rule("parallel-group-cancels", "in Run every errgroup.Go is made on a group created by errgroup.WithContext, and the spawned function runs the task under the context that WithContext returned: the first failing call cancels its siblings, which then start no further command (a zero-value errgroup.Group, or the caller's own context, lets them run to the end)")
	fb := a.Run
	c.Fn(fb)
	info := fb.Info()
	n := 0
	ord := map[string]int{}
	inspectDeep(fb.Body, func(nd ast.Node) bool {
		call, ok := nd.(*ast.CallExpr)
		if !ok || !isFunc(callee(info, call), "golang.org/x/sync/errgroup", "Group", "Go") || len(call.Args) != 1 {
			return true
		}
		n++
		sel, _ := ast.Unparen(call.Fun).(*ast.SelectorExpr)
		var gv *types.Var
		if sel != nil {
			gv = varOf(info, sel.X)
		}
		var ctxVar *types.Var
		withCtx := false
		if gv != nil {
			inspectBody(fb.Body, func(m ast.Node) bool {
				if as, ok := m.(*ast.AssignStmt); ok && len(as.Lhs) == 2 && len(as.Rhs) == 1 && varOf(info, as.Lhs[0]) == gv {
					if wc, ok := ast.Unparen(as.Rhs[0]).(*ast.CallExpr); ok && isFunc(callee(info, wc), "golang.org/x/sync/errgroup", "", "WithContext") {
						withCtx, ctxVar = true, varOf(info, as.Lhs[1])
					}
				}
				return true
			})
		}
		okCtx := false
		if lit, ok := ast.Unparen(call.Args[0]).(*ast.FuncLit); ok && ctxVar != nil {
			okCtx = a.ctxReachesRunTask(c.P, c.P.LitBody(lit), ctxVar, 2)
		} else if h, fields := a.methodValueSpawn(c.P, fb, call.Args[0]); h != nil && ctxVar != nil {
			for name, val := range fields {
				if varOf(info, val) == ctxVar && a.ctxReachesRunTaskP(c.P, h, recvFieldIs(h, name), 2) {
					okCtx = true
				}
			}
		}
		c.Decide(withCtx && okCtx, "parallel-group-cancels", ordinal(ord, "spawn@"+fnDisplay(fb)), call.Pos(), "group from errgroup.WithContext, task run under its context",
			fmt.Sprintf("the parallel calls are not started on a cancelling group (created by errgroup.WithContext: %v, RunTask under the group's context: %v): when one call fails the others are not cancelled and go on starting commands", withCtx, okCtx))
		return true
	})
	c.Floor("parallel-group-cancels", n, 1)
}
