package main

import (
	"go/ast"
	"go/types"
)

// isFreshExpr: the expression yields memory that no other call can see: a DeepCopy result,
// a composite literal / new, a templater result (always a copy), or a variable assigned once from one of those.
func isFreshExpr(info *types.Info, body ast.Node, e ast.Expr, depth int) bool {
	e = ast.Unparen(e)
	switch x := e.(type) {
	case *ast.CallExpr:
		if fn, ok := callee(info, x).(*types.Func); ok {
			if fn.Name() == "DeepCopy" {
				return true
			}
			if fn.Pkg() != nil && (fn.Pkg().Path() == PkgTemplater || fn.Pkg().Path() == PkgDeepcopy) {
				return true
			}
			if fn.Pkg() != nil && fn.Pkg().Path() == PkgAst && len(fn.Name()) > 3 && fn.Name()[:3] == "New" {
				return true
			}
		}
		if isBuiltin(info, x, "new") || isBuiltin(info, x, "make") {
			return true
		}
	case *ast.UnaryExpr:
		if _, ok := ast.Unparen(x.X).(*ast.CompositeLit); ok {
			return true
		}
	case *ast.CompositeLit:
		return true
	case *ast.Ident:
		if v, ok := info.Uses[x].(*types.Var); ok && depth > 0 {
			if d := singleDef(info, body, v); d != nil {
				return isFreshExpr(info, body, d, depth-1)
			}
		}
	}
	return false
}

// freshElements: every element the task compiler appends to the compiled Cmds/Deps/Preconditions is a fresh copy.
func freshElements(c *Check, a *Anchors, rule string) {
	c.Rule(rule, "every element the task compiler appends to the compiled task's Cmds, Deps and Preconditions is a fresh copy (DeepCopy result or new literal), never the pointer stored in the shared task definition — the run phase writes into these elements (deferred command text), so a shared element would leak one call's values into the next")
	fb := a.CompiledTask
	c.Fn(fb)
	info := fb.Info()
	n := 0
	ord := map[string]int{}
	inspectBody(fb.Body, func(nd ast.Node) bool {
		call, ok := nd.(*ast.CallExpr)
		if !ok || !isBuiltin(info, call, "append") || len(call.Args) < 2 {
			return true
		}
		for _, f := range []string{"Cmds", "Deps", "Preconditions"} {
			if !fieldSel(info, call.Args[0], PkgAst, "Task", f) {
				continue
			}
			for _, arg := range call.Args[1:] {
				n++
				key := ordinal(ord, "append "+f+"@"+fnDisplay(fb))
				c.Decide(isFreshExpr(info, fb.Body, arg, 2) && call.Ellipsis == 0, rule, key, call.Pos(),
					"appended element is a DeepCopy / fresh literal",
					"the element appended to the compiled "+f+" ("+exprStr(arg)+") is not a fresh copy: it aliases the shared task definition, and later writes (e.g. the lazily rendered deferred command) become visible to other calls of the task")
			}
		}
		return true
	})
	c.Floor(rule, n, 5)
}
