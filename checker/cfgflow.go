package main

// Forward must-dataflow over go/cfg of one function body (engine PE, "must" mode).
//
// Facts are strings:
//   called:L    a call labelled L has returned on every path to this point
//   deferred:L  a defer of a call labelled L has been registered on every path
//   nil:L       the error/pointer result of the latest call L was tested == nil on every path
//   nonnil:L    ... tested != nil
//   true:A / false:A   boolean atom A (result of a labelled call, a field "field:T.F", a variable) was tested
//   def:<var>=L variable currently holds a result of the latest call L
//   held:M      lock M is held (rules add/remove these through Effect)
// Facts are intersected at joins. Function literals are separate bodies.

import (
	"fmt"
	"go/ast"
	"go/token"
	"go/types"
	"sort"
	"strings"

	"golang.org/x/tools/go/cfg"
	"golang.org/x/tools/go/types/typeutil"
)

type Facts map[string]bool // nil = unreached (top)

func (f Facts) clone() Facts {
	if f == nil {
		return nil
	}
	c := make(Facts, len(f))
	for k := range f {
		c[k] = true
	}
	return c
}

func meet(a, b Facts) Facts {
	if a == nil {
		return b.clone()
	}
	if b == nil {
		return a.clone()
	}
	c := Facts{}
	for k := range a {
		if b[k] {
			c[k] = true
		}
	}
	return c
}

func factsEqual(a, b Facts) bool {
	if (a == nil) != (b == nil) || len(a) != len(b) {
		return false
	}
	for k := range a {
		if !b[k] {
			return false
		}
	}
	return true
}

func (f Facts) Has(k string) bool { return f != nil && f[k] }

func (f Facts) String() string {
	var ks []string
	for k := range f {
		if !strings.HasPrefix(k, "def:") {
			ks = append(ks, k)
		}
	}
	sort.Strings(ks)
	return "{" + strings.Join(ks, ", ") + "}"
}

// killPrefix removes every fact with the prefix.
func (f Facts) killPrefix(p string) {
	for k := range f {
		if strings.HasPrefix(k, p) {
			delete(f, k)
		}
	}
}

// Labeler names the calls a rule cares about ("" = not an event).
type Labeler func(call *ast.CallExpr, callee types.Object) string

type Flow struct {
	P     *Prog
	FB    *FuncBody
	Label Labeler
	// Effect lets a rule add/remove custom facts when a labelled call returns.
	Effect func(label string, call *ast.CallExpr, st Facts)
	// RecvLabel names channel receives that count as events ("called:<label>").
	RecvLabel func(x *ast.UnaryExpr) string
	// AssignEffect lets a rule change facts at an assignment statement (after its calls were evaluated).
	AssignEffect func(s *ast.AssignStmt, st Facts)
	// AssignHook is called for every assignment to a plain variable (rhs nil for `var x T`).
	AssignHook func(v *types.Var, rhs ast.Expr, st Facts)
	// Inline: calls to module functions that are not labelled contribute the
	// "called:" facts that hold at every normal exit of the callee (depth-limited).
	Inline bool

	info *types.Info
	g    *cfg.CFG
	tags map[ast.Expr]ast.Expr // case expr of a tagged switch -> tag
	comm map[ast.Node]bool     // comm statements of select clauses (go/cfg hoists them before the select)

	// results
	At      map[ast.Node]Facts // facts just before a CallExpr is invoked / at a ReturnStmt (after its operands) / at a DeferStmt, GoStmt, SendStmt, receive
	Labels  map[*ast.CallExpr]string
	Returns []*ast.ReturnStmt
	Exit    Facts // facts at the implicit end of the body (nil if unreachable)
	depth   int
	memo    map[*types.Func]Facts

	// virtual inlining of small same-package helpers (extract-method robustness)
	NoInline   bool
	OnInline   func(callee *FuncBody, param *types.Var, arg ast.Expr) // lets a rule extend alias sets
	entry      Facts
	root       *Flow
	stack      []*types.Func
	inlineRet  map[*ast.CallExpr]string   // helper call -> label of the call whose error it returns on every path
	inlineRets map[*ast.CallExpr][]string // per result position
	inlineNil  map[*ast.CallExpr][]string // helper call -> labels L such that the helper returns a nil error only when L's error was nil
	Inlined    map[*types.Func]bool
}

func NewFlow(p *Prog, fb *FuncBody, label Labeler) *Flow {
	return &Flow{P: p, FB: fb, Label: label}
}

func mayReturn(info *types.Info) func(*ast.CallExpr) bool {
	return func(call *ast.CallExpr) bool {
		switch fn := typeutil.Callee(info, call).(type) {
		case *types.Builtin:
			return fn.Name() != "panic"
		case *types.Func:
			if fn.Pkg() != nil {
				full := fn.Pkg().Path() + "." + fn.Name()
				switch full {
				case "os.Exit", "log.Fatal", "log.Fatalf", "log.Fatalln", "runtime.Goexit":
					return false
				}
			}
		}
		return true
	}
}

func (m *Flow) Run() *Flow {
	m.info = m.FB.Info()
	m.At = map[ast.Node]Facts{}
	m.Labels = map[*ast.CallExpr]string{}
	if m.inlineRet == nil {
		m.inlineRet = map[*ast.CallExpr]string{}
	}
	if m.inlineRets == nil {
		m.inlineRets = map[*ast.CallExpr][]string{}
	}
	if m.inlineNil == nil {
		m.inlineNil = map[*ast.CallExpr][]string{}
	}
	if m.Inlined == nil {
		m.Inlined = map[*types.Func]bool{}
	}
	if m.memo == nil {
		m.memo = map[*types.Func]Facts{}
	}
	m.tags = map[ast.Expr]ast.Expr{}
	ast.Inspect(m.FB.Body, func(n ast.Node) bool {
		if sw, ok := n.(*ast.SwitchStmt); ok && sw.Tag != nil {
			for _, cl := range sw.Body.List {
				for _, e := range cl.(*ast.CaseClause).List {
					m.tags[e] = sw.Tag
				}
			}
		}
		return true
	})
	m.comm = map[ast.Node]bool{}
	ast.Inspect(m.FB.Body, func(n ast.Node) bool {
		if cc, ok := n.(*ast.CommClause); ok && cc.Comm != nil {
			m.comm[cc.Comm] = true
		}
		return true
	})
	m.g = cfg.New(m.FB.Body, mayReturn(m.info))
	n := len(m.g.Blocks)
	in := make([]Facts, n)
	in[0] = Facts{}
	if m.entry != nil {
		in[0] = m.entry.clone()
	}
	type edge struct{ from, to int32 }
	out := map[edge]Facts{}
	preds := map[int32][]int32{}
	for _, b := range m.g.Blocks {
		for _, s := range b.Succs {
			preds[s.Index] = append(preds[s.Index], b.Index)
		}
	}
	work := []int32{0}
	inWork := map[int32]bool{0: true}
	iter := 0
	for len(work) > 0 {
		iter++
		if iter > 200000 {
			panic("cfgflow: no fixpoint in " + m.FB.Name)
		}
		bi := work[0]
		work = work[1:]
		inWork[bi] = false
		b := m.g.Blocks[bi]
		st := in[bi].clone()
		if st == nil {
			continue
		}
		m.selectCase(b, st, false)
		var cond ast.Expr
		for i, node := range b.Nodes {
			if i == len(b.Nodes)-1 && len(b.Succs) == 2 {
				if e, ok := node.(ast.Expr); ok {
					cond = e
				}
			}
			m.transfer(node, st, false)
		}
		for si, s := range b.Succs {
			es := st.clone()
			if cond != nil {
				t, f := m.condFacts(cond, st)
				add := t
				if si == 1 {
					add = f
				}
				applyEdge(es, add)
			}
			e := edge{bi, s.Index}
			if old, ok := out[e]; ok && factsEqual(old, es) {
				continue
			}
			out[e] = es
			var ni Facts
			for _, p := range preds[s.Index] {
				if o, ok := out[edge{p, s.Index}]; ok {
					ni = meet(ni, o)
				}
			}
			if !factsEqual(ni, in[s.Index]) {
				in[s.Index] = ni
				if !inWork[s.Index] {
					work = append(work, s.Index)
					inWork[s.Index] = true
				}
			}
		}
	}
	// recording pass with the converged in[]
	for _, b := range m.g.Blocks {
		st := in[b.Index].clone()
		if st == nil {
			continue
		}
		m.selectCase(b, st, true)
		for _, node := range b.Nodes {
			m.transfer(node, st, true)
		}
		if len(b.Succs) == 0 && b.Live {
			hasRet := false
			for _, nd := range b.Nodes {
				if _, ok := nd.(*ast.ReturnStmt); ok {
					hasRet = true
				}
			}
			if !hasRet && !endsInNoReturn(m.info, b) {
				m.Exit = meet(m.Exit, st)
			}
		}
	}
	sort.Slice(m.Returns, func(i, j int) bool { return m.Returns[i].Pos() < m.Returns[j].Pos() })
	return m
}

func endsInNoReturn(info *types.Info, b *cfg.Block) bool {
	if len(b.Nodes) == 0 {
		return false
	}
	if es, ok := b.Nodes[len(b.Nodes)-1].(*ast.ExprStmt); ok {
		if call, ok := es.X.(*ast.CallExpr); ok {
			return !mayReturn(info)(call)
		}
	}
	return false
}

// applyEdge adds edge facts, removing the complementary ones.
func applyEdge(st Facts, add Facts) {
	// nil(~implies:A+B) establishes nil(A) and nil(B)
	for k := range add {
		if strings.HasPrefix(k, "nil:~implies:") {
			for _, l := range strings.Split(strings.TrimPrefix(k, "nil:~implies:"), "+") {
				add["nil:"+l] = true
			}
		}
	}
	for k := range add {
		switch {
		case strings.HasPrefix(k, "nil:"):
			delete(st, "nonnil:"+k[4:])
		case strings.HasPrefix(k, "nonnil:"):
			delete(st, "nil:"+k[7:])
		case strings.HasPrefix(k, "true:"):
			delete(st, "false:"+k[5:])
		case strings.HasPrefix(k, "false:"):
			delete(st, "true:"+k[6:])
		case strings.HasPrefix(k, "empty:"):
			delete(st, "nonempty:"+k[6:])
		case strings.HasPrefix(k, "nonempty:"):
			delete(st, "empty:"+k[9:])
		}
		st[k] = true
	}
}

func (m *Flow) record(n ast.Node, st Facts, rec bool) {
	if rec {
		m.At[n] = meet(m.At[n], st)
	}
}

// selectCase applies the communication of a select clause at the start of its body block.
func (m *Flow) selectCase(b *cfg.Block, st Facts, rec bool) {
	if b.Kind != cfg.KindSelectCaseBody {
		return
	}
	cc, ok := b.Stmt.(*ast.CommClause)
	if !ok || cc.Comm == nil {
		return
	}
	var recv *ast.UnaryExpr
	switch s := cc.Comm.(type) {
	case *ast.ExprStmt:
		recv, _ = ast.Unparen(s.X).(*ast.UnaryExpr)
	case *ast.AssignStmt:
		if len(s.Rhs) == 1 {
			recv, _ = ast.Unparen(s.Rhs[0]).(*ast.UnaryExpr)
		}
	case *ast.SendStmt:
		m.record(s, st, rec)
	}
	if recv != nil && recv.Op == token.ARROW {
		m.record(recv, st, rec)
		if m.RecvLabel != nil {
			if l := m.RecvLabel(recv); l != "" {
				st["called:"+l] = true
			}
		}
	}
}

func (m *Flow) transfer(node ast.Node, st Facts, rec bool) {
	if m.comm[node] {
		// hoisted comm statement of a select: only the channel operands are evaluated here
		switch s := node.(type) {
		case *ast.ExprStmt:
			if u, ok := ast.Unparen(s.X).(*ast.UnaryExpr); ok && u.Op == token.ARROW {
				m.calls(u.X, st, rec)
				return
			}
		case *ast.AssignStmt:
			if len(s.Rhs) == 1 {
				if u, ok := ast.Unparen(s.Rhs[0]).(*ast.UnaryExpr); ok && u.Op == token.ARROW {
					m.calls(u.X, st, rec)
					return
				}
			}
		case *ast.SendStmt:
			m.calls(s.Chan, st, rec)
			m.calls(s.Value, st, rec)
			return
		}
	}
	switch s := node.(type) {
	case *ast.DeferStmt:
		m.calls(s.Call.Fun, st, rec)
		for _, a := range s.Call.Args {
			m.calls(a, st, rec)
		}
		m.record(s, st, rec)
		if l := m.labelOf(s.Call, st); l != "" {
			if rec {
				m.Labels[s.Call] = l
			}
			st["deferred:"+l] = true
		}
		return
	case *ast.GoStmt:
		m.calls(s.Call.Fun, st, rec)
		for _, a := range s.Call.Args {
			m.calls(a, st, rec)
		}
		m.record(s, st, rec)
		return
	case *ast.ReturnStmt:
		m.calls(s, st, rec)
		m.record(s, st, rec)
		if rec {
			m.Returns = append(m.Returns, s)
		}
		return
	case *ast.SendStmt:
		m.calls(s, st, rec)
		m.record(s, st, rec)
		return
	case *ast.AssignStmt:
		m.calls(s, st, rec)
		m.record(s, st, rec)
		if m.AssignEffect != nil {
			m.AssignEffect(s, st)
		}
		m.assign(s.Lhs, s.Rhs, st)
		return
	case *ast.ValueSpec:
		m.calls(s, st, rec)
		var lhs []ast.Expr
		for _, n := range s.Names {
			lhs = append(lhs, n)
		}
		m.assign(lhs, s.Values, st)
		return
	case *ast.IncDecStmt, *ast.ExprStmt:
		m.calls(node, st, rec)
		m.record(node, st, rec)
		return
	}
	m.calls(node, st, rec)
}

func defPrefix(v *types.Var) string { return fmt.Sprintf("def:%s#%d=", v.Name(), v.Pos()) }

func (m *Flow) assign(lhs, rhs []ast.Expr, st Facts) {
	if m.AssignHook != nil {
		for i, l := range lhs {
			if id, ok := l.(*ast.Ident); ok && id.Name != "_" {
				if v, ok := m.obj(id).(*types.Var); ok {
					var r ast.Expr
					if len(rhs) == len(lhs) {
						r = rhs[i]
					} else if len(rhs) == 1 {
						r = rhs[0]
					}
					m.AssignHook(v, r, st)
				}
			}
		}
	}
	for _, l := range lhs {
		if id, ok := l.(*ast.Ident); ok {
			if v, ok := m.obj(id).(*types.Var); ok {
				st.killPrefix(defPrefix(v))
			}
		}
	}
	if len(rhs) == 1 {
		if call, ok := ast.Unparen(rhs[0]).(*ast.CallExpr); ok {
			if ls := m.inlineRets[call]; len(ls) == len(lhs) && m.Label(call, typeutil.Callee(m.info, call)) == "" {
				for i, lx := range lhs {
					if id, ok := lx.(*ast.Ident); ok && id.Name != "_" && ls[i] != "" {
						if v, ok := m.obj(id).(*types.Var); ok {
							st[defPrefix(v)+ls[i]] = true
						}
					}
				}
			} else if ls := m.inlineNil[call]; len(ls) > 0 && m.Label(call, typeutil.Callee(m.info, call)) == "" {
				// the error result of a nil-preserving helper: its nil-ness implies the nil-ness of the calls it wraps
				if id, ok := lhs[len(lhs)-1].(*ast.Ident); ok && id.Name != "_" {
					if v, ok := m.obj(id).(*types.Var); ok {
						st[defPrefix(v)+"~implies:"+strings.Join(ls, "+")] = true
					}
				}
			} else if l := m.labelOf(call, st); l != "" {
				for _, lx := range lhs {
					if id, ok := lx.(*ast.Ident); ok && id.Name != "_" {
						if v, ok := m.obj(id).(*types.Var); ok {
							st[defPrefix(v)+l] = true
						}
					}
				}
			}
		}
		// x := !call(): remembered with inverted polarity
		if u, ok := ast.Unparen(rhs[0]).(*ast.UnaryExpr); ok && u.Op == token.NOT && len(lhs) == 1 {
			if call, ok := ast.Unparen(u.X).(*ast.CallExpr); ok {
				if l := m.labelOf(call, st); l != "" {
					if id, ok := lhs[0].(*ast.Ident); ok && id.Name != "_" {
						if v, ok := m.obj(id).(*types.Var); ok {
							st[defPrefix(v)+"!"+l] = true
						}
					}
				}
			}
		}
		// x = y keeps the definition of y
		if id, ok := ast.Unparen(rhs[0]).(*ast.Ident); ok && len(lhs) == 1 {
			if src, ok := m.obj(id).(*types.Var); ok {
				if l := m.defOf(src, st); l != "" {
					if lid, ok := lhs[0].(*ast.Ident); ok && lid.Name != "_" {
						if v, ok := m.obj(lid).(*types.Var); ok {
							st[defPrefix(v)+l] = true
						}
					}
				}
			}
		}
	}
}

func (m *Flow) obj(id *ast.Ident) types.Object {
	if o := m.info.Defs[id]; o != nil {
		return o
	}
	return m.info.Uses[id]
}

func (m *Flow) defOf(v *types.Var, st Facts) string {
	p := defPrefix(v)
	for k := range st {
		if strings.HasPrefix(k, p) {
			return strings.TrimPrefix(k, p)
		}
	}
	return ""
}

// labelOf names a call: the rule's label, or "ret(L)" for a call through a
// variable that holds the (function) result of a call labelled L.
func (m *Flow) labelOf(call *ast.CallExpr, st Facts) string {
	callee := typeutil.Callee(m.info, call)
	if l := m.Label(call, callee); l != "" {
		return l
	}
	if l := m.inlineRet[call]; l != "" {
		return l
	}
	if _, isVar := callee.(*types.Var); callee == nil || isVar {
		if id, ok := ast.Unparen(call.Fun).(*ast.Ident); ok {
			if v, ok := m.obj(id).(*types.Var); ok {
				if l := m.defOf(v, st); l != "" {
					return "ret(" + l + ")"
				}
			}
		}
	}
	return ""
}

// calls visits call expressions (and receives) in evaluation order, skipping func literals.
func (m *Flow) calls(node ast.Node, st Facts, rec bool) {
	var visit func(n ast.Node)
	visit = func(n ast.Node) {
		if n == nil {
			return
		}
		switch x := n.(type) {
		case *ast.FuncLit:
			return
		case *ast.CallExpr:
			visit(x.Fun)
			for _, a := range x.Args {
				visit(a)
			}
			m.record(x, st, rec)
			l := m.labelOf(x, st)
			if l != "" {
				if rec {
					m.Labels[x] = l
				}
				delete(st, "nil:"+l)
				delete(st, "nonnil:"+l)
				delete(st, "true:"+l)
				delete(st, "false:"+l)
				st["called:"+l] = true
				if m.Effect != nil {
					m.Effect(l, x, st)
				}
			} else if fb2 := m.inlinable(x); fb2 != nil {
				m.inlineCall(x, fb2, st, rec)
			} else if m.Inline && m.depth < 2 {
				if fn, ok := typeutil.Callee(m.info, x).(*types.Func); ok {
					for k := range m.summary(fn) {
						st[k] = true
					}
				}
			}
			return
		case *ast.BinaryExpr:
			if x.Op == token.LAND || x.Op == token.LOR {
				// short-circuit: the right operand's calls are not executed on every path
				visit(x.X)
				before := st.clone()
				visit(x.Y)
				for k := range st {
					if !before[k] {
						delete(st, k)
					}
				}
				return
			}
		case *ast.UnaryExpr:
			if x.Op == token.ARROW {
				visit(x.X)
				m.record(x, st, rec)
				if m.RecvLabel != nil {
					if l := m.RecvLabel(x); l != "" {
						st["called:"+l] = true
					}
				}
				return
			}
		}
		ast.Inspect(n, func(c ast.Node) bool {
			if c == n || c == nil {
				return true
			}
			visit(c)
			return false
		})
	}
	visit(node)
}

// summary returns the called:/deferred: facts that hold at every normal exit of a module function.
func (m *Flow) summary(fn *types.Func) Facts {
	if f, ok := m.memo[fn]; ok {
		return f
	}
	m.memo[fn] = Facts{} // recursion guard
	fb := m.P.DeclOf(fn)
	if fb == nil {
		return nil
	}
	sub := &Flow{P: m.P, FB: fb, Label: m.Label, Inline: true, depth: m.depth + 1, memo: m.memo}
	sub.Run()
	var res Facts
	for _, r := range sub.Returns {
		res = meet(res, sub.At[r])
	}
	if sub.Exit != nil {
		res = meet(res, sub.Exit)
	}
	out := Facts{}
	for k := range res {
		if strings.HasPrefix(k, "called:") {
			out[k] = true
		}
	}
	m.memo[fn] = out
	return out
}

// condFacts returns the facts implied by cond being true / false.
func (m *Flow) condFacts(cond ast.Expr, st Facts) (t, f Facts) {
	t, f = Facts{}, Facts{}
	if tag, ok := m.tags[cond]; ok {
		// case value of a tagged switch: tag == cond
		if key := m.atomKey(tag, st); key != "" {
			if bl, ok := ast.Unparen(cond).(*ast.BasicLit); ok {
				t["eq:"+key+"="+bl.Value] = true
			}
		}
		return t, f
	}
	cond = ast.Unparen(cond)
	switch c := cond.(type) {
	case *ast.UnaryExpr:
		if c.Op == token.NOT {
			a, b := m.condFacts(c.X, st)
			return b, a
		}
	case *ast.BinaryExpr:
		switch c.Op {
		case token.LAND:
			at, af := m.condFacts(c.X, st)
			bt, bf := m.condFacts(c.Y, st)
			for k := range at {
				t[k] = true
			}
			for k := range bt {
				t[k] = true
			}
			alt := Facts{}
			for k := range at {
				alt[k] = true
			}
			for k := range bf {
				alt[k] = true
			}
			for k := range af {
				if alt[k] {
					f[k] = true
				}
			}
			return t, f
		case token.LOR:
			at, af := m.condFacts(c.X, st)
			bt, bf := m.condFacts(c.Y, st)
			for k := range af {
				f[k] = true
			}
			for k := range bf {
				f[k] = true
			}
			alt := Facts{}
			for k := range af {
				alt[k] = true
			}
			for k := range bt {
				alt[k] = true
			}
			for k := range at {
				if alt[k] {
					t[k] = true
				}
			}
			return t, f
		case token.GTR, token.GEQ:
			// x > 0 / x >= 1 on a plain value
			if bl, ok := ast.Unparen(c.Y).(*ast.BasicLit); ok && ((c.Op == token.GTR && bl.Value == "0") || (c.Op == token.GEQ && bl.Value == "1")) {
				if _, isCall := ast.Unparen(c.X).(*ast.CallExpr); !isCall {
					if key := m.atomKey(c.X, st); key != "" {
						t["gt0:"+key], f["le0:"+key] = true, true
						return t, f
					}
				}
			}
			// len(x) > 0 / len(x) >= 1
			if call, ok := ast.Unparen(c.X).(*ast.CallExpr); ok {
				if id, ok := call.Fun.(*ast.Ident); ok && id.Name == "len" && len(call.Args) == 1 {
					if bl, ok := ast.Unparen(c.Y).(*ast.BasicLit); ok && ((c.Op == token.GTR && bl.Value == "0") || (c.Op == token.GEQ && bl.Value == "1")) {
						if key := m.atomKey(call.Args[0], st); key != "" {
							t["nonempty:"+key], f["empty:"+key] = true, true
						}
						return t, f
					}
				}
			}
		case token.EQL, token.NEQ:
			x, y := ast.Unparen(c.X), ast.Unparen(c.Y)
			if call, ok := x.(*ast.CallExpr); ok {
				if id, ok := call.Fun.(*ast.Ident); ok && id.Name == "len" && len(call.Args) == 1 {
					if bl, ok := y.(*ast.BasicLit); ok && bl.Value == "0" {
						if key := m.atomKey(call.Args[0], st); key != "" {
							if c.Op == token.EQL {
								t["empty:"+key], f["nonempty:"+key] = true, true
							} else {
								t["nonempty:"+key], f["empty:"+key] = true, true
							}
						}
						return t, f
					}
				}
			}
			if isNilExpr(m.info, x) {
				x, y = y, x
			}
			if isNilExpr(m.info, y) {
				if key := m.atomKey(x, st); key != "" {
					if c.Op == token.NEQ {
						t["nonnil:"+key], f["nil:"+key] = true, true
					} else {
						t["nil:"+key], f["nonnil:"+key] = true, true
					}
				}
				return t, f
			}
			if bl, ok := y.(*ast.BasicLit); ok {
				if key := m.atomKey(x, st); key != "" {
					if c.Op == token.EQL {
						t["eq:"+key+"="+bl.Value], f["ne:"+key+"="+bl.Value] = true, true
					} else {
						f["eq:"+key+"="+bl.Value], t["ne:"+key+"="+bl.Value] = true, true
					}
				}
				return t, f
			}
		}
	case *ast.CallExpr:
		// errors.Is(x, target) true  =>  x != nil
		if fn, ok := typeutil.Callee(m.info, c).(*types.Func); ok && fn.Name() == "Is" && len(c.Args) == 2 && fn.Pkg() != nil &&
			(fn.Pkg().Path() == "errors" || fn.Pkg().Path() == PkgErrors) {
			if key := m.atomKey(c.Args[0], st); key != "" {
				t["nonnil:"+key] = true
				t["true:Is("+key+","+types.ExprString(c.Args[1])+")"], f["false:Is("+key+","+types.ExprString(c.Args[1])+")"] = true, true
			}
			if l := m.labelOf(c, st); l != "" {
				t["true:"+l], f["false:"+l] = true, true
			}
			return t, f
		}
	}
	if key := m.atomKey(cond, st); key != "" {
		if strings.HasPrefix(key, "!") {
			t["false:"+key[1:]], f["true:"+key[1:]] = true, true
		} else {
			t["true:"+key], f["false:"+key] = true, true
		}
	}
	return t, f
}

func isNilExpr(info *types.Info, e ast.Expr) bool {
	id, ok := e.(*ast.Ident)
	if !ok {
		return false
	}
	_, isNil := info.Uses[id].(*types.Nil)
	return isNil
}

// atomKey names a condition leaf: the label of the defining / contained call, a
// field keyed by its owner type ("field:Executor.Dry"), or a variable.
func (m *Flow) atomKey(e ast.Expr, st Facts) string {
	e = ast.Unparen(e)
	switch e.(type) {
	case *ast.SelectorExpr, *ast.CallExpr, *ast.BinaryExpr:
		if k := dryLeafAtom(m.P, m.info, e); k != "" {
			return k // a test of a checker's dry flag, in whatever representation the constructor stores it
		}
	}
	switch x := e.(type) {
	case *ast.CallExpr:
		if l := m.labelOf(x, st); l != "" {
			return l
		}
		// len(path)
		if id, ok := x.Fun.(*ast.Ident); ok && id.Name == "len" && len(x.Args) == 1 {
			if k := m.atomKey(x.Args[0], st); k != "" {
				return "len(" + k + ")"
			}
		}
		return ""
	case *ast.Ident:
		if v, ok := m.obj(x).(*types.Var); ok {
			if l := m.defOf(v, st); l != "" {
				return l
			}
			return fmt.Sprintf("var:%s#%d", v.Name(), v.Pos())
		}
	case *ast.SelectorExpr:
		return fieldKey(m.info, x)
	case *ast.StarExpr:
		if k := m.atomKey(x.X, st); k != "" {
			return "deref:" + k
		}
	}
	return ""
}

// fieldKey renders a field selection keyed by the type that owns the field.
func fieldKey(info *types.Info, x *ast.SelectorExpr) string {
	if sel := info.Selections[x]; sel != nil && sel.Kind() == types.FieldVal {
		recv := sel.Recv()
		if p, ok := recv.Underlying().(*types.Pointer); ok {
			recv = p.Elem()
		}
		name := recv.String()
		if n, ok := recv.(*types.Named); ok {
			name = n.Obj().Name()
		}
		inner := ""
		if ix, ok := ast.Unparen(x.X).(*ast.SelectorExpr); ok {
			if k := fieldKey(info, ix); strings.HasPrefix(k, "field:") {
				inner = strings.TrimPrefix(k, "field:") + ">"
			}
		}
		return "field:" + inner + name + "." + x.Sel.Name
	}
	// package-qualified variable
	if v, ok := info.Uses[x.Sel].(*types.Var); ok && v.Pkg() != nil {
		return "pkgvar:" + v.Pkg().Name() + "." + v.Name()
	}
	return ""
}

// inlinable: the call goes to a small declared function of the same package that is not an event of the rule.
func (m *Flow) inlinable(call *ast.CallExpr) *FuncBody {
	if m.NoInline || m.depth >= 2 {
		return nil
	}
	fn, ok := typeutil.Callee(m.info, call).(*types.Func)
	if !ok {
		return nil
	}
	fb := m.P.DeclOf(fn)
	if fb == nil || fb.Pkg != m.FB.Pkg || fb == m.FB.Root() {
		return nil
	}
	for _, f := range m.stack {
		if f == fn {
			return nil
		}
	}
	n := 0
	ast.Inspect(fb.Body, func(nd ast.Node) bool {
		if _, ok := nd.(ast.Stmt); ok {
			n++
		}
		return true
	})
	if n > 80 {
		return nil
	}
	return fb
}

// inlineCall analyses the helper's body in the caller's current state and continues with the meet of its exits.
func (m *Flow) inlineCall(call *ast.CallExpr, fb *FuncBody, st Facts, rec bool) {
	root := m.root
	if root == nil {
		root = m
	}
	sub := &Flow{P: m.P, FB: fb, Label: m.Label, Effect: m.Effect, RecvLabel: m.RecvLabel, AssignEffect: m.AssignEffect, AssignHook: m.AssignHook,
		OnInline: m.OnInline, depth: m.depth + 1, root: root, stack: append(append([]*types.Func(nil), m.stack...), fb.Obj), inlineRet: root.inlineRet, inlineRets: root.inlineRets, inlineNil: root.inlineNil, Inlined: root.Inlined, memo: m.memo}
	entry := st.clone()
	// parameter bindings
	i := 0
	finfo := fb.Info()
	for _, fld := range fb.Type.Params.List {
		for _, id := range fld.Names {
			if i < len(call.Args) {
				if pv, ok := finfo.Defs[id].(*types.Var); ok {
					arg := call.Args[i]
					if aid, ok := ast.Unparen(arg).(*ast.Ident); ok {
						if av, ok := m.obj(aid).(*types.Var); ok {
							if l := m.defOf(av, st); l != "" {
								entry[defPrefix(pv)+l] = true
							}
						}
					}
					if m.OnInline != nil {
						m.OnInline(fb, pv, arg)
					}
				}
			}
			i++
		}
	}
	sub.entry = entry
	sub.Run()
	root.Inlined[fb.Obj] = true
	if rec {
		for n, f := range sub.At {
			root.At[n] = meet(root.At[n], f)
			if m != root {
				m.At[n] = meet(m.At[n], f)
			}
		}
		for c, l := range sub.Labels {
			root.Labels[c] = l
			m.Labels[c] = l
		}
	}
	// exit state and, per result position, the label of the call whose result the helper returns on every path
	var exit Facts
	var labels []string
	var uniform []bool
	for _, r := range sub.Returns {
		fs := sub.At[r]
		exit = meet(exit, fs)
		if len(r.Results) == 0 {
			continue
		}
		if labels == nil {
			labels = make([]string, len(r.Results))
			uniform = make([]bool, len(r.Results))
			for i := range uniform {
				uniform[i] = true
			}
		}
		if len(r.Results) != len(labels) {
			// `return f()` forwarding a tuple
			if call, ok := ast.Unparen(r.Results[0]).(*ast.CallExpr); ok && len(r.Results) == 1 {
				l := sub.Labels[call]
				for i := range labels {
					if l == "" || (labels[i] != "" && labels[i] != l) {
						uniform[i] = false
					}
					if labels[i] == "" {
						labels[i] = l
					}
				}
			}
			continue
		}
		for i, re := range r.Results {
			res := ast.Unparen(re)
			l := ""
			switch x := res.(type) {
			case *ast.CallExpr:
				l = sub.Labels[x]
				if l == "" {
					l = root.inlineRet[x]
				}
			case *ast.Ident:
				if isNilExpr(finfo, x) {
					continue // `return nil` does not contradict "returns L's result"
				}
				if v, ok := finfo.Uses[x].(*types.Var); ok {
					l = sub.defOf(v, fs)
				}
			}
			if l == "" || (labels[i] != "" && l != labels[i]) {
				uniform[i] = false
			}
			if labels[i] == "" {
				labels[i] = l
			}
		}
	}
	if labels != nil {
		out := make([]string, len(labels))
		any := false
		for i := range labels {
			if uniform[i] && labels[i] != "" {
				out[i] = labels[i]
				any = true
			}
		}
		if any {
			root.inlineRets[call] = out
			if out[len(out)-1] != "" {
				root.inlineRet[call] = out[len(out)-1]
			}
		}
	}
	// nil-preservation: labels L whose error is established nil at every return of the helper that may yield a nil error
	// (a helper that wraps or passes on L's error: `if err := L(); err != nil { return wrap(err) }; return nil`)
	{
		var common map[string]bool
		mayNil := 0
		for _, r := range sub.Returns {
			if len(r.Results) == 0 {
				continue
			}
			last := ast.Unparen(r.Results[len(r.Results)-1])
			if tv, ok := finfo.Types[last]; !ok || !(types.Identical(tv.Type, types.Universe.Lookup("error").Type()) || isNilExpr(finfo, last) || types.Implements(tv.Type, types.Universe.Lookup("error").Type().Underlying().(*types.Interface))) {
				continue
			}
			if u, ok := last.(*ast.UnaryExpr); ok && u.Op == token.AND {
				continue // &T{...}: never nil
			}
			fs := sub.At[r]
			if id, ok := last.(*ast.Ident); ok && !isNilExpr(finfo, last) {
				if v, ok := finfo.Uses[id].(*types.Var); ok {
					if l := sub.defOf(v, fs); l != "" && fs.Has("nonnil:"+l) {
						continue // returns an error established non-nil
					}
				}
			}
			mayNil++
			cur := map[string]bool{}
			for k := range fs {
				if strings.HasPrefix(k, "nil:") && !entry[k] {
					cur[strings.TrimPrefix(k, "nil:")] = true
				}
			}
			if common == nil {
				common = cur
			} else {
				for k := range common {
					if !cur[k] {
						delete(common, k)
					}
				}
			}
		}
		if mayNil > 0 && len(common) > 0 && root.inlineRet[call] == "" {
			var ls []string
			for k := range common {
				if !strings.HasPrefix(k, "var:") && !strings.HasPrefix(k, "field:") {
					ls = append(ls, k)
				}
			}
			sort.Strings(ls)
			if len(ls) > 0 {
				root.inlineNil[call] = ls
			}
		}
	}
	if exit == nil {
		exit = Facts{} // helper never returns normally
	}
	// the helper's deferred calls run when it returns
	for k := range exit {
		if strings.HasPrefix(k, "deferred:") && !entry[k] {
			l := strings.TrimPrefix(k, "deferred:")
			delete(exit, k)
			exit["called:"+l] = true
			if m.Effect != nil {
				m.Effect(l, nil, exit)
			}
		}
	}
	for k := range st {
		delete(st, k)
	}
	for k := range exit {
		st[k] = true
	}
}
