package main

import (
	"fmt"
	"go/ast"
	"go/token"
	"go/types"
	"sort"
	"strings"
)

func init() { register("C11", checkC11) }

func checkC11(c *Check, a *Anchors) {
	c.NotDecided = []string{
		"filesystem or environment mutations performed by the user's commands themselves",
		"value-level equality of a task's commands across schedules (only: shared definitions are never written, memo keys cover their inputs, compiled tasks are fresh)",
	}
	definitionsReadOnly(c, a, "definitions-read-only")
	c11MemoKey(c, a)
	atomicSection(c, a.HandleDynamicVar, PkgTask, "Compiler", "dynamicCache", "muDynamicCache", "memo-atomic",
		"the dynamic-variable cache is looked up, filled and stored inside ONE critical section of muDynamicCache, so a sh: expression is evaluated once and every task sees the same value whatever runs concurrently")
	freshElements(c, a, "fresh-copy-per-call")
	c11FreshTask(c, a)
	copierNeverAliases(c, a)
	memoOnlySuccess(c, a)
	templatePerString(c, a)
	compiledFromDefinition(c, a, "compiled-from-definition")
	c18FieldsClassified(c, a) // a new field of Executor / Compiler is state shared by every call: it must be reviewed (memo tables make a task depend on history)
	noInPlaceMutationOfShared(c, a, "no-in-place-mutation")
	copyReturnsFresh(c, a, "copy-returns-fresh")
	c10WriteOrder(c, a)      // every value the variable resolver stores is the templater's (deep) copy: a map handed over by ref: is not shared between the calls that receive it
	c08CopyExhaustive(c, a)  // the per-call copy of a task must not share mutable elements (matrix rows, globs ...) with the definition: one call's resolved values would reach the next
	hashOptionsDefault(c, a) // two calls whose compiled forms differ must not share one execution: the second would observe the first one's values instead of running with its own
}

// runPhaseRoots: functions whose reachable code runs concurrently / per call.
func runPhaseRoots(a *Anchors) []*FuncBody {
	return []*FuncBody{a.RunTask, a.Run, a.Status, a.CompiledTask, a.GetVariables, a.ListTasks, a.ListTaskNames, a.GetTaskList, a.ToEditor}
}

// astFieldStore: the assignment target is (an element of) a field of a taskfile/ast struct.
func astFieldStore(info *types.Info, l ast.Expr) (owner string, ok bool) {
	e := ast.Unparen(l)
	if ix, isIx := e.(*ast.IndexExpr); isIx {
		e = ast.Unparen(ix.X)
	}
	sel, isSel := e.(*ast.SelectorExpr)
	if !isSel {
		return "", false
	}
	s := info.Selections[sel]
	if s == nil || s.Kind() != types.FieldVal {
		return "", false
	}
	n := namedOf(s.Recv())
	if n == nil || n.Obj().Pkg() == nil || n.Obj().Pkg().Path() != PkgAst {
		return "", false
	}
	return n.Obj().Name() + "." + sel.Sel.Name, true
}

var mutators = map[string]bool{"Set": true, "Merge": true, "Delete": true}

// freshRoot decides whether the memory an lvalue / receiver is rooted at is private to the current call.
func freshRoot(c *Check, a *Anchors, fb *FuncBody, e ast.Expr, depth int) (bool, string) {
	info := fb.Info()
	root := fb.Root()
	rv := rootVar(info, e)
	if rv == nil {
		// rooted at a call result etc.
		if isFreshExpr(info, root.Body, rootExpr(e), 1) {
			return true, "result of a copying call"
		}
		return false, "not rooted at a variable"
	}
	// value-typed local struct (e.g. `new := ast.Task{...}`): the variable itself is private
	if rv.Parent() != nil && rv.Pkg() != nil && !rv.IsField() {
		if _, isStruct := rv.Type().Underlying().(*types.Struct); isStruct && !isParamOf(info, root, rv) && !isParamOf(info, fb, rv) {
			// writing new.F = ... is private; writing new.F.G = ... or new.F[i] = ... goes through a reference
			if directField(e) {
				return true, "field of a local struct value"
			}
		}
	}
	if isParamOf(info, fb, rv) || isParamOf(info, root, rv) || isRecvOf(info, root, rv) {
		if depth > 0 && root.Obj != nil && !root.Obj.Exported() {
			// every caller must pass a fresh argument
			idx := paramIndex(info, root, rv)
			if idx >= 0 {
				callers, allFresh := 0, true
				for _, cb := range c.P.Bodies() {
					if cb.Pkg.PkgPath != root.Pkg.PkgPath {
						continue
					}
					for _, call := range callsIn(cb, false) {
						if a.is(callee(cb.Info(), call), root) && idx < len(call.Args) {
							callers++
							if ok, _ := freshRoot(c, a, cb, call.Args[idx], depth-1); !ok {
								allFresh = false
							}
						}
					}
				}
				if callers > 0 && allFresh {
					return true, fmt.Sprintf("parameter that every one of %d caller(s) binds to call-private memory", callers)
				}
			}
		}
		// a field of the receiver of a small unexported struct of the package (a resolver / visitor object): private when every
		// literal of that struct in the package binds the field to call-private memory and the field is assigned nowhere else
		if depth > 0 && isRecvOf(info, root, rv) {
			if named := namedOf(rv.Type()); named != nil && !named.Obj().Exported() && named.Obj().Pkg() != nil && named.Obj().Pkg().Path() == root.Pkg.PkgPath {
				field := ""
				for x := ast.Unparen(e); ; {
					sel, ok := x.(*ast.SelectorExpr)
					if !ok {
						break
					}
					if varOf(info, sel.X) == rv {
						field = sel.Sel.Name
						break
					}
					x = ast.Unparen(sel.X)
				}
				if field != "" {
					lits, allFresh := 0, true
					for _, cb := range c.P.BodiesIn(root.Pkg.PkgPath) {
						cinfo := cb.Info()
						inspectBody(cb.Body, func(nd ast.Node) bool {
							switch y := nd.(type) {
							case *ast.CompositeLit:
								if tv, ok := cinfo.Types[y]; ok && namedOf(tv.Type) == named {
									for _, el := range y.Elts {
										if kv, ok := el.(*ast.KeyValueExpr); ok {
											if id, ok := kv.Key.(*ast.Ident); ok && id.Name == field {
												lits++
												if ok, _ := freshRoot(c, a, cb, kv.Value, depth-1); !ok {
													allFresh = false
												}
											}
										} else {
											allFresh = false // positional literal: not followed
										}
									}
								}
							case *ast.AssignStmt:
								for _, l := range y.Lhs {
									if sel, ok := ast.Unparen(l).(*ast.SelectorExpr); ok && sel.Sel.Name == field {
										if s := cinfo.Selections[sel]; s != nil && s.Kind() == types.FieldVal && namedOf(s.Recv()) == named {
											allFresh = false
										}
									}
								}
							}
							return true
						})
					}
					if lits > 0 && allFresh {
						return true, fmt.Sprintf("field of the receiver that every one of %d literal(s) of %s binds to call-private memory", lits, named.Obj().Name())
					}
				}
			}
		}
		return false, "rooted at parameter/receiver `" + rv.Name() + "`"
	}
	// several definitions: every one of them must be fresh
	if defs := defsOf(info, root.Body, rv); len(defs) > 1 {
		all := true
		for _, d := range defs {
			fresh := isFreshExpr(info, root.Body, d, 2)
			if call, ok := ast.Unparen(d).(*ast.CallExpr); ok && !fresh {
				obj := callee(info, call)
				fresh = isFunc(obj, PkgTask, "Compiler", "GetVariables") || isFunc(obj, PkgTask, "Compiler", "FastGetVariables") || isFunc(obj, PkgEnv, "", "GetEnviron") || a.is(obj, a.GetVariables)
			}
			all = all && fresh
		}
		if all {
			return true, "local whose every definition is a copying call / fresh variable set"
		}
	}
	// range variables over a fresh container
	if d := singleDef(info, root.Body, rv); d != nil {
		if isFreshExpr(info, root.Body, d, 2) {
			return true, "local assigned from a copying call / literal"
		}
		if call, ok := ast.Unparen(d).(*ast.CallExpr); ok {
			obj := callee(info, call)
			if isFunc(obj, PkgTask, "Compiler", "GetVariables") || isFunc(obj, PkgTask, "Compiler", "FastGetVariables") || isFunc(obj, PkgEnv, "", "GetEnviron") || a.is(obj, a.GetVariables) {
				return true, "freshly resolved variable set"
			}
		}
		// alias of something else: recurse on the definition
		if depth > 0 {
			if _, isCall := ast.Unparen(d).(*ast.CallExpr); !isCall {
				return freshRoot(c, a, fb, d, depth-1)
			}
		}
	}
	// range statement variable
	var fromRange ast.Expr
	inspectDeep(root.Body, func(nd ast.Node) bool {
		if r, ok := nd.(*ast.RangeStmt); ok {
			if (r.Key != nil && varOf(info, r.Key) == rv) || (r.Value != nil && varOf(info, r.Value) == rv) {
				fromRange = r.X
			}
		}
		return true
	})
	if fromRange != nil && depth > 0 {
		if call, ok := ast.Unparen(fromRange).(*ast.CallExpr); ok {
			if sel, ok := ast.Unparen(call.Fun).(*ast.SelectorExpr); ok {
				return freshRoot(c, a, fb, sel.X, depth-1)
			}
		}
		return freshRoot(c, a, fb, fromRange, depth-1)
	}
	return false, "rooted at `" + rv.Name() + "`, which is not provably call-private"
}

func rootExpr(e ast.Expr) ast.Expr {
	for {
		switch x := ast.Unparen(e).(type) {
		case *ast.SelectorExpr:
			e = x.X
		case *ast.IndexExpr:
			e = x.X
		case *ast.StarExpr:
			e = x.X
		default:
			return ast.Unparen(e)
		}
	}
}

// directField: x.F (one selector on a plain variable), no further indirection.
func directField(e ast.Expr) bool {
	sel, ok := ast.Unparen(e).(*ast.SelectorExpr)
	if !ok {
		return false
	}
	_, isId := ast.Unparen(sel.X).(*ast.Ident)
	return isId
}

func isParamOf(info *types.Info, fb *FuncBody, v *types.Var) bool {
	return paramIndex(info, fb, v) >= 0
}

func paramIndex(info *types.Info, fb *FuncBody, v *types.Var) int {
	if fb == nil || fb.Type.Params == nil {
		return -1
	}
	i := 0
	for _, fld := range fb.Type.Params.List {
		for _, id := range fld.Names {
			if info.Defs[id] == v {
				return i
			}
			i++
		}
		if len(fld.Names) == 0 {
			i++
		}
	}
	return -1
}

func isRecvOf(info *types.Info, fb *FuncBody, v *types.Var) bool {
	if fb == nil || fb.Decl == nil || fb.Decl.Recv == nil {
		return false
	}
	for _, id := range fb.Decl.Recv.List[0].Names {
		if info.Defs[id] == v {
			return true
		}
	}
	return false
}

// ownedAllow: stores through a parameter that are legitimate because the parameter is call-owned.
var ownedAllow = map[string]string{
	"task.(*Executor).runDeferred|Cmd.Cmd":    "the compiled task handed to the deferred-command runner is private to this call (built by the task compiler with fresh Cmd copies: rule fresh-copy-per-call); the lazily rendered text is written into that private copy",
	"task.(*Executor).GetTask|Call.Vars.Set":  "the Call object is created per invocation of RunTask / per command-line target; its Vars come from the freshly compiled Dep/Cmd or are created here; that no two goroutines resolve the same Call object is decided by rule call-object-per-goroutine (C18)",
	"task.(*Executor).setupDefaults|Taskfile": "setup phase: runs once before any task is compiled or started",
}

func definitionsReadOnly(c *Check, a *Anchors, rule string) {
	c.Rule(rule, "in every function reachable from RunTask, Run, Status, the task compiler, the variable resolver and the listing entry points, each store to a field (or element of a field) of a taskfile/ast type, and each mutating method call (Set/Merge) on an ast container, targets memory that is provably private to the current call: a local built from a DeepCopy / literal / templater result / fresh variable set, a field of a local struct value, or a parameter that every caller binds to such memory (one allow-listed site: the lazily rendered fields of a deferred entry, whose freshness is rule defer-element-fresh). The merged Taskfile is shared by all concurrently compiling calls, so any other write changes what a different task sees")
	reach := c.P.ReachableFrom(runPhaseRoots(a), nil)
	var fns []*FuncBody
	for fb := range reach {
		if fb.Decl != nil && strings.HasPrefix(fb.Pkg.PkgPath, Mod) {
			fns = append(fns, fb)
		}
	}
	sort.Slice(fns, func(i, j int) bool { return fnDisplay(fns[i]) < fnDisplay(fns[j]) })
	n := 0
	ord := map[string]int{}
	for _, root := range fns {
		// methods of the ast containers themselves implement the (locked) mutation; their call sites are judged instead
		if root.Pkg.PkgPath == PkgAst || root.Pkg.PkgPath == PkgDeepcopy {
			continue
		}
		bodies := append([]*FuncBody{root}, allLits(root)...)
		for _, fb := range bodies {
			info := fb.Info()
			inspectBody(fb.Body, func(nd ast.Node) bool {
				switch x := nd.(type) {
				case *ast.AssignStmt:
					if x.Tok == token.DEFINE {
						return true
					}
					for _, l := range x.Lhs {
						owner, ok := astFieldStore(info, l)
						if !ok {
							continue
						}
						n++
						c.Fn(root)
						key := ordinal(ord, "store "+owner+"@"+fnDisplay(root))
						if why, allowed := ownedAllow[fnDisplay(root)+"|"+owner]; allowed {
							c.OK(rule, key, l.Pos(), "call-owned: "+why)
							continue
						}
						if root == a.DeferRunner && strings.HasPrefix(owner, "Cmd.") {
							// the lazily rendered fields of the deferred entry (text, and for a deferred task call its name and vars)
							c.OK(rule, key, l.Pos(), "call-owned: "+ownedAllow["task.(*Executor).runDeferred|Cmd.Cmd"])
							continue
						}
						if strings.Contains(fnDisplay(root), "setupDefaults") {
							c.OK(rule, key, l.Pos(), "call-owned: "+ownedAllow["task.(*Executor).setupDefaults|Taskfile"])
							continue
						}
						ok2, why := freshRoot(c, a, fb, l, 2)
						c.Decide(ok2, rule, key, l.Pos(), why, fmt.Sprintf("store to %s (`%s`) in %s: the target is %s — it may be the shared task definition, so concurrent or later calls of other tasks observe this call's value", owner, exprStr(l), fnDisplay(root), why))
					}
				case *ast.CallExpr:
					fn, ok := callee(info, x).(*types.Func)
					if !ok || !mutators[fn.Name()] || fn.Pkg() == nil || fn.Pkg().Path() != PkgAst {
						return true
					}
					sel, ok := ast.Unparen(x.Fun).(*ast.SelectorExpr)
					if !ok {
						return true
					}
					n++
					c.Fn(root)
					recvT := ""
					if sig := fn.Type().(*types.Signature); sig.Recv() != nil {
						recvT = recvName(sig.Recv().Type())
					}
					key := ordinal(ord, "call "+recvT+"."+fn.Name()+"@"+fnDisplay(root))
					allowKey := fnDisplay(root) + "|" + ownerPath(info, sel.X) + "." + fn.Name()
					if why, allowed := ownedAllow[allowKey]; allowed {
						c.OK(rule, key, x.Pos(), "call-owned: "+why)
						return true
					}
					ok2, why := freshRoot(c, a, fb, sel.X, 2)
					c.Decide(ok2, rule, key, x.Pos(), why, fmt.Sprintf("%s.%s on `%s` in %s: the receiver is %s — it may be a container of the shared Taskfile", recvT, fn.Name(), exprStr(sel.X), fnDisplay(root), why))
				}
				return true
			})
		}
	}
	c.Sites += len(fns)
	c.Extra["run_phase_functions"] = len(fns)
	c.Floor(rule, n, 30)
}

// ownerPath renders e.g. call.Vars as Call.Vars.
func ownerPath(info *types.Info, e ast.Expr) string {
	if sel, ok := ast.Unparen(e).(*ast.SelectorExpr); ok {
		if s := info.Selections[sel]; s != nil {
			if n := namedOf(s.Recv()); n != nil {
				return n.Obj().Name() + "." + sel.Sel.Name
			}
		}
	}
	return exprStr(e)
}

func c11MemoKey(c *Check, a *Anchors) {
	c.Rule("memo-key-complete", "for the dynamic-variable memo table, every parameter of HandleDynamicVar that flows into the executed command (command text, directory, environment) also flows into the cache key; otherwise a value computed for one task (directory / environment) is served to another")
	fb := a.HandleDynamicVar
	c.Fn(fb)
	info := fb.Info()
	var params []*types.Var
	for _, fld := range fb.Type.Params.List {
		for _, id := range fld.Names {
			if v, ok := info.Defs[id].(*types.Var); ok {
				params = append(params, v)
			}
		}
	}
	// inputs: parameters that flow (directly, via single-assignment locals, or through a helper's parameters) into the
	// Command / Dir / Env fields of the RunCommandOptions literal
	inputs := map[*types.Var]bool{}
	var scan func(g *FuncBody, bind map[*types.Var]ast.Expr, depth int)
	scan = func(g *FuncBody, bind map[*types.Var]ast.Expr, depth int) {
		ginfo := g.Info()
		flows := func(e ast.Expr) {
			for _, p := range params {
				if g == fb && mentionsVia(info, fb.Body, e, p, 2) {
					inputs[p] = true
				}
			}
			// through the helper's own parameters
			for hp, arg := range bind {
				if mentionsVia(ginfo, g.Body, e, hp, 2) {
					for _, p := range params {
						if mentionsVia(info, fb.Body, arg, p, 2) {
							inputs[p] = true
						}
					}
				}
			}
		}
		inspectBody(g.Body, func(nd ast.Node) bool {
			switch x := nd.(type) {
			case *ast.CompositeLit:
				if tv, ok := ginfo.Types[x]; ok && isNamed(tv.Type, PkgExecext, "RunCommandOptions") {
					for _, e := range x.Elts {
						if kv, ok := e.(*ast.KeyValueExpr); ok {
							if k := exprStr(kv.Key); k == "Command" || k == "Dir" || k == "Env" {
								flows(kv.Value)
							}
						}
					}
				}
			case *ast.CallExpr:
				if depth > 0 && g == fb {
					if fn, ok := callee(ginfo, x).(*types.Func); ok {
						if h := c.P.DeclOf(fn); h != nil && h.Pkg == fb.Pkg && h != fb {
							b := map[*types.Var]ast.Expr{}
							pi := 0
							for _, fld := range h.Type.Params.List {
								for _, id := range fld.Names {
									if pi < len(x.Args) {
										if pv, ok := h.Info().Defs[id].(*types.Var); ok {
											b[pv] = x.Args[pi]
										}
									}
									pi++
								}
							}
							c.Fn(h)
							scan(h, b, depth-1)
						}
					}
				}
			}
			return true
		})
	}
	scan(fb, nil, 1)
	// key: parameters that flow into index expressions on the cache (in this function or through a helper's parameters)
	keyed := map[*types.Var]bool{}
	nIdx := 0
	var scanKey func(g *FuncBody, bind map[*types.Var]ast.Expr, depth int)
	scanKey = func(g *FuncBody, bind map[*types.Var]ast.Expr, depth int) {
		ginfo := g.Info()
		inspectBody(g.Body, func(nd ast.Node) bool {
			switch x := nd.(type) {
			case *ast.IndexExpr:
				if fieldSel(ginfo, x.X, PkgTask, "Compiler", "dynamicCache") || memoOf(c.P).IsMap(ginfo, x.X) {
					nIdx++
					for _, p := range params {
						if g == fb && mentionsVia(info, fb.Body, x.Index, p, 2) {
							keyed[p] = true
						}
					}
					for hp, arg := range bind {
						if mentionsVia(ginfo, g.Body, x.Index, hp, 2) {
							for _, p := range params {
								if mentionsVia(info, fb.Body, arg, p, 2) {
									keyed[p] = true
								}
							}
						}
					}
				}
			case *ast.CallExpr:
				if depth > 0 && g == fb {
					if fn, ok := callee(ginfo, x).(*types.Func); ok {
						if h := c.P.DeclOf(fn); h != nil && h.Pkg == fb.Pkg && h != fb {
							b := map[*types.Var]ast.Expr{}
							pi := 0
							for _, fld := range h.Type.Params.List {
								for _, id := range fld.Names {
									if pi < len(x.Args) {
										if pv, ok := h.Info().Defs[id].(*types.Var); ok {
											b[pv] = x.Args[pi]
										}
									}
									pi++
								}
							}
							scanKey(h, b, depth-1)
						}
					}
				}
			}
			return true
		})
	}
	scanKey(fb, nil, 1)
	if nIdx == 0 || len(inputs) == 0 {
		c.Errorf("memo-key-complete: cache index (%d) or command options literal not found in %s", nIdx, fnDisplay(fb))
		return
	}
	for _, p := range params {
		if !inputs[p] {
			continue
		}
		c.Decide(keyed[p], "memo-key-complete", "key-covers "+p.Name()+"@"+fnDisplay(fb), fb.Decl.Pos(), "the cache key depends on `"+p.Name()+"`",
			"parameter `"+p.Name()+"` determines the executed command but not the cache key: the result computed for one task's "+p.Name()+" is served to every other task that uses the same command text")
	}
}

// atomicSection: lookup and store of a map field happen in one critical section of its mutex.
func atomicSection(c *Check, fb *FuncBody, pkg, typ, mapField, muField, rule, text string) {
	c.Rule(rule, text)
	if fb == nil {
		c.Errorf("%s: function not found", rule)
		return
	}
	c.Fn(fb)
	info := fb.Info()
	// the memo of the compiler may live in a struct of its own with accessor methods (memo.go)
	memo := &MemoModel{}
	if typ == "Compiler" && mapField == "dynamicCache" {
		memo = memoOf(c.P)
	}
	isMu := func(call *ast.CallExpr) bool {
		sel, ok := ast.Unparen(call.Fun).(*ast.SelectorExpr)
		return ok && (fieldSel(info, sel.X, pkg, typ, muField) || memo.IsMu(info, sel.X))
	}
	f := NewFlow(c.P, fb, func(call *ast.CallExpr, obj types.Object) string {
		if fn, ok := obj.(*types.Func); ok && isMu(call) {
			return "mu." + fn.Name()
		}
		if acc := memo.accessor(info, call); acc != "" {
			return "memo." + acc
		}
		return ""
	})
	f.Effect = func(label string, call *ast.CallExpr, st Facts) {
		switch label {
		case "mu.Lock":
			st["held:mu"] = true
		case "mu.Unlock":
			delete(st, "held:mu")
			delete(st, "section-of-lookup")
		case "memo.lookup":
			if st.Has("held:mu") {
				st["section-of-lookup"] = true
			}
		}
	}
	isMapIdx := func(e ast.Expr) bool {
		ix, ok := ast.Unparen(e).(*ast.IndexExpr)
		return ok && (fieldSel(info, ix.X, pkg, typ, mapField) || memo.IsMap(info, ix.X))
	}
	f.AssignEffect = func(s *ast.AssignStmt, st Facts) {
		for _, r := range s.Rhs {
			if isMapIdx(r) && st.Has("held:mu") {
				st["section-of-lookup"] = true
			}
		}
	}
	f.Run()
	nL, nS := 0, 0
	for node, st := range f.At {
		as, ok := node.(*ast.AssignStmt)
		if !ok {
			continue
		}
		for _, r := range as.Rhs {
			if isMapIdx(r) {
				nL++
				c.Decide(st.Has("held:mu"), rule, "lookup-locked@"+fnDisplay(fb), as.Pos(), "lookup under "+muField, "the table "+mapField+" is read without holding "+muField)
			}
		}
		for _, l := range as.Lhs {
			if isMapIdx(l) {
				nS++
				c.Decide(st.Has("held:mu") && st.Has("section-of-lookup"), rule, "store-in-lookup-section@"+fnDisplay(fb), as.Pos(), "stored in the same critical section as the lookup",
					"the store into "+mapField+" is not in the same critical section as the lookup ("+muField+" is released in between or not held): two concurrent callers both miss and both compute; must-facts: "+st.String())
			}
		}
	}
	for call, l := range f.Labels {
		st := f.At[call]
		switch l {
		case "memo.lookup":
			nL++
			c.Decide(st.Has("held:mu"), rule, "lookup-locked@"+fnDisplay(fb), call.Pos(), "lookup (through an accessor) under "+muField, "the table "+mapField+" is read without holding "+muField)
		case "memo.store":
			nS++
			c.Decide(st.Has("held:mu") && st.Has("section-of-lookup"), rule, "store-in-lookup-section@"+fnDisplay(fb), call.Pos(), "stored (through an accessor) in the same critical section as the lookup",
				"the store into "+mapField+" is not in the same critical section as the lookup ("+muField+" is released in between or not held): two concurrent callers both miss and both compute; must-facts: "+st.String())
		}
	}
	if nL == 0 || nS == 0 {
		c.Bad(rule, "shape@"+fnDisplay(fb), fb.Decl.Pos(), fmt.Sprintf("lookup (%d) or store (%d) of %s not found directly in %s under %s (moved into helpers that lock separately?)", nL, nS, mapField, fnDisplay(fb), muField))
	}
}

func c11FreshTask(c *Check, a *Anchors) {
	c.Rule("fresh-task-per-call", "the task compiler returns the address of a local ast.Task value built by a composite literal in that very call (never the definition, never a cached object)")
	fb := a.CompiledTask
	info := fb.Info()
	var local *types.Var
	inspectBody(fb.Body, func(nd ast.Node) bool {
		if as, ok := nd.(*ast.AssignStmt); ok && len(as.Rhs) == 1 {
			if cl, ok := ast.Unparen(as.Rhs[0]).(*ast.CompositeLit); ok {
				if tv, ok := info.Types[cl]; ok && isNamed(tv.Type, PkgAst, "Task") && len(cl.Elts) > 10 {
					local = varOf(info, as.Lhs[0])
				}
			}
		}
		return true
	})
	n := 0
	okAll := local != nil
	for _, r := range returnsOf(fb.Body) {
		if len(r.Results) != 2 || isNilLit(info, r.Results[0]) {
			continue
		}
		n++
		u, ok := ast.Unparen(r.Results[0]).(*ast.UnaryExpr)
		if !ok || u.Op != token.AND || varOf(info, u.X) != local {
			okAll = false
		}
	}
	c.Decide(okAll && n > 0, "fresh-task-per-call", "returns-local@"+fnDisplay(fb), fb.Decl.Pos(), "every non-nil result is &<local ast.Task literal>", "the task compiler can return something other than the address of the ast.Task value it built in this call")
}

// defsOf lists every expression assigned to a local variable.
func defsOf(info *types.Info, body ast.Node, v types.Object) []ast.Expr {
	var out []ast.Expr
	ast.Inspect(body, func(nd ast.Node) bool {
		switch s := nd.(type) {
		case *ast.AssignStmt:
			for i, l := range s.Lhs {
				if id, ok := l.(*ast.Ident); ok && (info.Defs[id] == v || info.Uses[id] == v) {
					if len(s.Rhs) == len(s.Lhs) {
						out = append(out, s.Rhs[i])
					} else if len(s.Rhs) == 1 {
						out = append(out, s.Rhs[0])
					}
				}
			}
		case *ast.ValueSpec:
			for i, id := range s.Names {
				if info.Defs[id] == v && len(s.Values) > 0 {
					if len(s.Values) == len(s.Names) {
						out = append(out, s.Values[i])
					} else {
						out = append(out, s.Values[0])
					}
				}
			}
		}
		return true
	})
	return out
}
