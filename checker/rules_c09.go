package main

import (
	"fmt"
	"go/ast"
	"go/token"
	"go/types"
	"sort"
	"strings"
)

func init() { register("C09", checkC09) }

// mapRangeTable: the hand-confirmed range-over-Go-map loops of the load/compile phase and why each is order-insensitive.
// Key: function + "|" + type of the ranged map. A loop that is not listed is an unreviewed order source.
var mapRangeTable = map[string]string{
	"task.(*Compiler).getVariables|map[string]string":                     "special variables: keys are unique and values independent of each other; every later phase overrides by key",
	"internal/env.GetFromVars|map[string]any":                             "builds the process environment list: names are unique, the order of environment entries is immaterial",
	"internal/experiments.readDotEnv|map[string]string":                   "setenv per key: names unique",
	"taskfile/ast.(*TaskfileGraph).Merge$1|map[string]graph.Edge[string]": "",
	"taskfile/ast.(*TaskfileGraph).Merge|map[string]graph.Edge[string]":   "each iteration merges the included file into a DISTINCT parent, and merging never writes to the included file (rule merge-sources-read-only)",
	"task.(*Executor).compiledTask|map[string]string":                     "task dotenv: first-wins per key across files; keys within one file are unique",
	"internal/templater.ReplaceWithExtra|map[string]any":                  "",
	"internal/deepcopy.TraverseStringsFunc$1|[]reflect.Value":             "",
	"internal/sort.AlphaNumericWithRootTasksFirst|":                       "",
}

func checkC09(c *Check, a *Anchors) {
	c.NotDecided = []string{
		"determinism of third-party code outside the order-source table, of the shell and of the filesystem",
		"the documented unordered iteration over map variables and the interleaving of parallel tasks (explicitly permitted by the property)",
	}
	c09MapRanges(c, a)
	c09StableSort(c, a)
	c09GoroutineAppends(c, a)
	mergeSourcesReadOnly(c, a, "merge-sources-read-only")
	c08IncludeBase(c, a) // a file is one vertex however often it is included; a base that depends on the including node depends on which include read it first
	orderedRebuildSinglePass(c, a, "ordered-rebuild-single-pass")
	copyReturnsFresh(c, a, "copy-returns-fresh")
	c09VertexDependsOnNodeOnly(c, a)
	c08CopyExhaustive(c, a) // a task copy that shares a reference-typed field with its source is written by every includer: which value it ends up with depends on the order of a map range
}

func loadPhaseRoots(c *Check, a *Anchors) []*FuncBody {
	roots := []*FuncBody{a.CompiledTask, a.GetVariables, a.Setup}
	for _, q := range [][3]string{{PkgTaskfile, "Reader", "Read"}, {PkgAst, "TaskfileGraph", "Merge"}, {PkgAst, "Taskfile", "Merge"}, {PkgAst, "Tasks", "Merge"}, {PkgAst, "Vars", "Merge"}, {PkgTaskfile, "", "Dotenv"}} {
		if fb := c.P.Func(q[0], q[1], q[2]); fb != nil {
			roots = append(roots, fb)
		} else {
			c.Errorf("load-phase root %s.%s.%s not found", q[0], q[1], q[2])
		}
	}
	return roots
}

func c09MapRanges(c *Check, a *Anchors) {
	c.Rule("map-range-reviewed", "every `range` over a Go map in a function reachable from loading, merging, variable resolution and task compilation is one of the hand-confirmed order-insensitive loops (table with one reason per loop); any other such loop is an unreviewed source of run-to-run variation")
	reach := c.P.ReachableFrom(loadPhaseRoots(c, a), nil)
	var fns []*FuncBody
	for fb := range reach {
		fns = append(fns, fb)
	}
	sort.Slice(fns, func(i, j int) bool { return fnDisplay(fns[i]) < fnDisplay(fns[j]) })
	n := 0
	ord := map[string]int{}
	done := map[*FuncBody]bool{}
	var visit func(fb *FuncBody)
	visit = func(fb *FuncBody) {
		if done[fb] {
			return
		}
		done[fb] = true
		info := fb.Info()
		inspectBody(fb.Body, func(nd ast.Node) bool {
			r, ok := nd.(*ast.RangeStmt)
			if !ok {
				return true
			}
			tv, ok := info.Types[r.X]
			if !ok {
				return true
			}
			if _, isMap := tv.Type.Underlying().(*types.Map); !isMap {
				// ranging over maps.Keys / maps.Values / maps.All of a Go map is the same unordered iteration
				isMapIter := false
				if mc, ok := ast.Unparen(r.X).(*ast.CallExpr); ok {
					if fn, ok := callee(info, mc).(*types.Func); ok && fn.Pkg() != nil && fn.Pkg().Path() == "maps" && (fn.Name() == "Keys" || fn.Name() == "Values" || fn.Name() == "All") {
						isMapIter = true
					}
				}
				if !isMapIter {
					return true
				}
			}
			n++
			c.Fn(fb)
			k := fnDisplay(fb) + "|" + types.TypeString(tv.Type, shortQual)
			reason := mapRangeTable[k]
			if shape := orderInsensitiveShape(info, fb, r); shape != "" {
				k = "shape:" + strings.SplitN(shape, ":", 2)[0] + "@" + strings.TrimPrefix(fb.Pkg.PkgPath, Mod+"/")
				reason = shape
			}
			key := ordinal(ord, k)
			if reason != "" && strings.Contains(reason, "DISTINCT") {
				// the reason given for this loop is a claim about the loop body: decide it
				if why := distinctTargets(info, r); why != "" {
					c.Bad("map-range-reviewed", key, r.Pos(), "the loop over "+exprStr(r.X)+" is order-insensitive only while each iteration writes to a target of its own, but "+why+": the iterations now write to the same object in Go-map order (the result changes from run to run, and the goroutines of the loop race)")
					return true
				}
			}
			c.Decide(reason != "", "map-range-reviewed", key, r.Pos(), "reviewed: "+reason,
				"range over a Go map ("+exprStr(r.X)+") in the load/compile phase that is not in the reviewed table: its iteration order changes from run to run, and whatever is built from it (task order, variable values, command lines) may change with it")
			return true
		})
		for _, l := range fb.Lits() {
			visit(l)
		}
	}
	for _, fb := range fns {
		if fb.Decl != nil {
			visit(fb)
		}
	}
	c.Sites += len(fns)
	c.Floor("map-range-reviewed", n, 5)
}

func c09StableSort(c *Check, a *Anchors) {
	c.Rule("stable-order-sources", "the include graph is linearised with the STABLE topological sort (graph.TopologicalSort gives no order between independent vertices); no other unstable graph traversal (BFS/DFS callbacks over adjacency maps) feeds the merge")
	n := 0
	for _, fb := range c.P.Bodies() {
		if !strings.HasPrefix(fb.Pkg.PkgPath, Mod) {
			continue
		}
		info := fb.Info()
		for _, call := range callsIn(fb, false) {
			fn, ok := callee(info, call).(*types.Func)
			if !ok || fn.Pkg() == nil || fn.Pkg().Path() != "github.com/dominikbraun/graph" {
				continue
			}
			switch fn.Name() {
			case "TopologicalSort":
				n++
				c.Fn(fb)
				c.Bad("stable-order-sources", "TopologicalSort@"+fnDisplay(fb), call.Pos(), "graph.TopologicalSort is unstable: Taskfiles included at the same level are merged in a different order from run to run, so a variable or task defined by several siblings changes its winner")
			case "StableTopologicalSort":
				n++
				c.Fn(fb)
				// the less function must be a strict total order on the vertex keys: exactly `a < b` on its two parameters
				strict := false
				if len(call.Args) == 2 {
					if fl, ok := ast.Unparen(call.Args[1]).(*ast.FuncLit); ok && fl.Type.Params.NumFields() == 2 && len(fl.Body.List) == 1 {
						var ps []*types.Var
						for _, fld := range fl.Type.Params.List {
							for _, id := range fld.Names {
								if v, ok := info.Defs[id].(*types.Var); ok {
									ps = append(ps, v)
								}
							}
						}
						if r, ok := fl.Body.List[0].(*ast.ReturnStmt); ok && len(r.Results) == 1 && len(ps) == 2 {
							if be, ok := ast.Unparen(r.Results[0]).(*ast.BinaryExpr); ok && be.Op == token.LSS && varOf(info, be.X) == ps[0] && varOf(info, be.Y) == ps[1] {
								strict = true
							}
						}
					}
				}
				c.Decide(strict, "stable-order-sources", "StableTopologicalSort@"+fnDisplay(fb), call.Pos(), "stable sort whose less function is `a < b` on the vertex keys (a strict total order)",
					"the less function of the stable topological sort is not plain `a < b` on its parameters: if it maps distinct vertex keys to equal ones (case folding, trimming, ...) they tie and the library leaves them in map order")
			case "BFS", "DFS", "BFSWithDepth":
				n++
				c.Bad("stable-order-sources", fn.Name()+"@"+fnDisplay(fb), call.Pos(), "graph traversal over adjacency maps visits neighbours in map order")
			}
		}
	}
	c.Floor("stable-order-sources", n, 1)
}

func c09GoroutineAppends(c *Check, a *Anchors) {
	c.Rule("completion-order-sorted", "in load-phase goroutine closures (literals handed to errgroup.Go) a slice that grows by append and is then stored in shared state (graph edge data) is sorted after the append and before the store, so that goroutine completion order does not leak into the result")
	n := 0
	for _, fb := range c.P.Bodies() {
		if fb.Pkg.PkgPath != PkgTaskfile && fb.Pkg.PkgPath != PkgAst {
			continue // (a goroutine literal, or the method of the package it hands the update of the shared state to)
		}
		info := fb.Info()
		inspectBody(fb.Body, func(nd ast.Node) bool {
			as, ok := nd.(*ast.AssignStmt)
			if !ok || len(as.Rhs) != 1 || len(as.Lhs) != 1 {
				return true
			}
			call, ok := ast.Unparen(as.Rhs[0]).(*ast.CallExpr)
			if !ok || !isBuiltin(info, call, "append") {
				return true
			}
			v := varOf(info, as.Lhs[0])
			if v == nil {
				return true
			}
			// is the appended slice derived from shared state (not a purely local accumulator)?
			shared := false
			inspectBody(fb.Body, func(m ast.Node) bool {
				d, ok := m.(*ast.AssignStmt)
				if !ok {
					return true
				}
				for i, l := range d.Lhs {
					if varOf(info, l) != v || i >= len(d.Rhs) {
						continue
					}
					r := ast.Unparen(d.Rhs[i])
					switch x := r.(type) {
					case *ast.CompositeLit:
					case *ast.Ident:
						if x.Name != "nil" {
							shared = true
						}
					case *ast.CallExpr:
						if isBuiltin(info, x, "make") {
							break
						}
						if isBuiltin(info, x, "append") && len(x.Args) > 0 {
							if varOf(info, x.Args[0]) != v {
								if _, isLit := ast.Unparen(x.Args[0]).(*ast.CompositeLit); !isLit {
									shared = true
								}
							}
							break
						}
						shared = true
					default:
						shared = true
					}
				}
				return true
			})
			if !shared {
				return true
			}
			n++
			c.Fn(fb)
			// find a sort of v after the append and a later use of v as an argument
			sortPos, usePos := ast.Node(nil), ast.Node(nil)
			inspectBody(fb.Body, func(m ast.Node) bool {
				cl, ok := m.(*ast.CallExpr)
				if !ok || cl.Pos() < as.End() {
					return true
				}
				fn, _ := callee(info, cl).(*types.Func)
				isSort := fn != nil && fn.Pkg() != nil && (fn.Pkg().Path() == "slices" || fn.Pkg().Path() == "sort") && (strings.HasPrefix(fn.Name(), "Sort") || fn.Name() == "Slice" || fn.Name() == "SliceStable" || fn.Name() == "Strings")
				uses := false
				for _, arg := range cl.Args {
					if mentions(info, arg, v) {
						uses = true
					}
				}
				if uses && isSort && sortPos == nil {
					sortPos = cl
				} else if uses && !isSort && !isBuiltin(info, cl, "len") && usePos == nil {
					usePos = cl
				}
				return true
			})
			ok = sortPos != nil && (usePos == nil || sortPos.Pos() < usePos.Pos())
			c.Decide(ok, "completion-order-sorted", "append "+v.Name()+"@"+fnDisplay(fb), as.Pos(), "sorted after the append, before it is stored",
				"a slice taken from shared state is appended to inside a goroutine and stored without being sorted after the append: the order of its elements is the completion order of the reader goroutines")
			return true
		})
	}
	c.Floor("completion-order-sorted", n, 1)
	// second form: goroutines of a function append to a slice of that function (a captured accumulator, usually under a
	// mutex): its element order is the completion order until it is sorted by a total order
	m := 0
	for _, lit := range c.P.Bodies() {
		if lit.Lit == nil || !strings.HasPrefix(lit.Pkg.PkgPath, Mod) || bceSkipPkgs[lit.Pkg.PkgPath] {
			continue
		}
		root := lit.Root()
		rinfo := root.Info()
		// the literal is spawned: operand of a go statement or argument of errgroup.Go
		spawned := false
		inspectDeep(root.Body, func(nd ast.Node) bool {
			switch x := nd.(type) {
			case *ast.GoStmt:
				if fl, ok := ast.Unparen(x.Call.Fun).(*ast.FuncLit); ok && fl == lit.Lit {
					spawned = true
				}
			case *ast.CallExpr:
				if isFunc(callee(rinfo, x), "golang.org/x/sync/errgroup", "Group", "Go") && len(x.Args) == 1 {
					if fl, ok := ast.Unparen(x.Args[0]).(*ast.FuncLit); ok && fl == lit.Lit {
						spawned = true
					}
				}
			}
			return true
		})
		if !spawned {
			continue
		}
		info := lit.Info()
		inspectBody(lit.Body, func(nd ast.Node) bool {
			as, ok := nd.(*ast.AssignStmt)
			if !ok || len(as.Rhs) != 1 || len(as.Lhs) != 1 {
				return true
			}
			call, ok := ast.Unparen(as.Rhs[0]).(*ast.CallExpr)
			if !ok || !isBuiltin(info, call, "append") || len(call.Args) < 2 {
				return true
			}
			v := varOf(info, as.Lhs[0])
			if v == nil || v.IsField() || varOf(info, call.Args[0]) != v || (v.Pos() >= lit.Body.Pos() && v.Pos() <= lit.Body.End()) {
				return true // not an accumulator captured from the enclosing function
			}
			m++
			c.Fn(root)
			// first use of the accumulator after the literal, in the enclosing function
			var first *ast.CallExpr
			sorted := false
			inspectDeep(root.Body, func(mm ast.Node) bool {
				cl, ok := mm.(*ast.CallExpr)
				if !ok || cl.Pos() < lit.Lit.End() || first != nil || isBuiltin(rinfo, cl, "len") || isBuiltin(rinfo, cl, "cap") || isBuiltin(rinfo, cl, "make") {
					return true
				}
				uses := false
				for _, arg := range cl.Args {
					if mentions(rinfo, arg, v) {
						uses = true
					}
				}
				if !uses {
					return true
				}
				first = cl
				fn, _ := callee(rinfo, cl).(*types.Func)
				sorted = fn != nil && fn.Pkg() != nil && (fn.Pkg().Path() == "slices" || fn.Pkg().Path() == "sort") && (strings.HasPrefix(fn.Name(), "Sort") || fn.Name() == "Strings" || fn.Name() == "Slice" || fn.Name() == "SliceStable")
				return true
			})
			how := "never handed on"
			if first != nil {
				how = "first handed to " + exprStr(first.Fun)
			}
			c.Decide(first == nil || sorted, "completion-order-sorted", "accumulator "+v.Name()+"@"+fnDisplay(root), as.Pos(), "the accumulator is sorted by a library sort before anything else sees it",
				"goroutines of "+fnDisplay(root)+" append to its slice `"+v.Name()+"`, which is "+how+" without having been sorted by a total order first: its element order is the completion order of the goroutines (a configurable sorter may be the identity, e.g. --sort none)")
			return true
		})
	}
	c.Extra["captured_accumulators"] = m
}

// mergeSourcesReadOnly: merging reads the included side only.
func mergeSourcesReadOnly(c *Check, a *Anchors, rule string) {
	c.Rule(rule, "the merge functions (Vars.Merge, Tasks.Merge, Taskfile.Merge, Includes.Merge...) never store through their source parameter (the included Taskfile's data): one file may be merged into several parents, in an order given by a Go map, so a write to the source makes the result depend on that order")
	n := 0
	for _, fb := range c.P.BodiesIn(PkgAst) {
		if fb.Decl == nil || fb.Decl.Name.Name != "Merge" || fb.Decl.Recv == nil {
			continue
		}
		info := fb.Info()
		// source parameters: pointer parameters whose type is the receiver's type
		recvT := recvOf(fb)
		tainted := map[*types.Var]bool{}
		for _, fld := range fb.Type.Params.List {
			for _, id := range fld.Names {
				if v, ok := info.Defs[id].(*types.Var); ok && recvName(v.Type()) == recvT {
					tainted[v] = true
				}
			}
		}
		if len(tainted) == 0 {
			continue
		}
		c.Fn(fb)
		// propagate through assignments / range (not through DeepCopy or other calls returning copies)
		for changed := true; changed; {
			changed = false
			inspectDeep(fb.Body, func(nd ast.Node) bool {
				mark := func(lhs ast.Expr, rhs ast.Expr) {
					v := varOf(info, lhs)
					if v == nil || tainted[v] || rhs == nil {
						return
					}
					if derivesAlias(info, rhs, tainted) {
						tainted[v] = true
						changed = true
					}
				}
				switch s := nd.(type) {
				case *ast.AssignStmt:
					for i, l := range s.Lhs {
						if len(s.Rhs) == len(s.Lhs) {
							mark(l, s.Rhs[i])
						} else if len(s.Rhs) == 1 {
							mark(l, s.Rhs[0])
						}
					}
				case *ast.RangeStmt:
					if s.Key != nil {
						mark(s.Key, s.X)
					}
					if s.Value != nil {
						mark(s.Value, s.X)
					}
				}
				return true
			})
		}
		bad := ""
		inspectDeep(fb.Body, func(nd ast.Node) bool {
			as, ok := nd.(*ast.AssignStmt)
			if !ok {
				return true
			}
			for _, l := range as.Lhs {
				switch ast.Unparen(l).(type) {
				case *ast.SelectorExpr, *ast.IndexExpr, *ast.StarExpr:
					if rv := rootVar(info, l); rv != nil && tainted[rv] {
						// value-typed locals (copies) are not aliases
						if !aliasesMemory(rv) {
							continue
						}
						bad = fmt.Sprintf("%s at %s", exprStr(l), c.P.Pos(as.Pos()))
					}
				}
			}
			return true
		})
		n++
		c.Decide(bad == "", rule, "no-store-through-source@"+fnDisplay(fb), fb.Decl.Pos(), "no assignment through the source parameter or an alias of it",
			"the merge writes into the data of the included Taskfile ("+bad+"): when the file is included by several parents the result depends on the (random) order in which the parents are merged")
	}
	c.Floor(rule, n, 3)
}

// derivesAlias: the expression yields memory reachable from a tainted variable without copying (selectors, index, method calls that return iterators/elements).
func derivesAlias(info *types.Info, e ast.Expr, tainted map[*types.Var]bool) bool {
	e = ast.Unparen(e)
	switch x := e.(type) {
	case *ast.Ident:
		if v, ok := info.Uses[x].(*types.Var); ok {
			return tainted[v]
		}
	case *ast.SelectorExpr:
		return derivesAlias(info, x.X, tainted)
	case *ast.IndexExpr:
		return derivesAlias(info, x.X, tainted)
	case *ast.StarExpr:
		return derivesAlias(info, x.X, tainted)
	case *ast.UnaryExpr:
		return derivesAlias(info, x.X, tainted)
	case *ast.CallExpr:
		if fn, ok := callee(info, x).(*types.Func); ok {
			if fn.Name() == "DeepCopy" || (fn.Pkg() != nil && fn.Pkg().Path() == PkgDeepcopy) {
				return false
			}
		}
		if sel, ok := ast.Unparen(x.Fun).(*ast.SelectorExpr); ok {
			// iterator / element accessors on a tainted container: Front(), Next(), All(), Values(), Get()
			return derivesAlias(info, sel.X, tainted)
		}
	}
	return false
}

// aliasesMemory: a variable of pointer, map, slice or iterator-element type refers to shared memory; a struct/basic value is a copy.
func aliasesMemory(v *types.Var) bool {
	switch v.Type().Underlying().(type) {
	case *types.Pointer, *types.Map, *types.Slice, *types.Interface:
		return true
	}
	return false
}

// distinctTargets decides the claim "each iteration of this map loop writes to a target of its own": every Merge/Set call in
// the loop body has a receiver that is derived from the loop's key or value variable (looked up with it), and no argument of
// such a call that is written to. Returns "" when the claim holds, otherwise what contradicts it.
func distinctTargets(info *types.Info, r *ast.RangeStmt) string {
	var loopVars []*types.Var
	for _, e := range []ast.Expr{r.Key, r.Value} {
		if e != nil {
			if v := varOf(info, e); v != nil && v.Name() != "_" {
				loopVars = append(loopVars, v)
			}
		}
	}
	bad := ""
	ast.Inspect(r.Body, func(m ast.Node) bool {
		call, ok := m.(*ast.CallExpr)
		if !ok {
			return true
		}
		fn, ok := callee(info, call).(*types.Func)
		if !ok || !mutators[fn.Name()] || fn.Pkg() == nil || !strings.HasPrefix(fn.Pkg().Path(), Mod) {
			return true
		}
		sel, ok := ast.Unparen(call.Fun).(*ast.SelectorExpr)
		if !ok {
			return true
		}
		recv := rootVar(info, sel.X)
		if recv == nil {
			bad = "the receiver of " + exprStr(call.Fun) + " is not a variable of the iteration"
			return true
		}
		derived := false
		for _, lv := range loopVars {
			if recv == lv || mentionsVia(info, r.Body, sel.X, lv, 2) {
				derived = true
			}
		}
		if !derived {
			bad = "the receiver of `" + exprStr(call.Fun) + "` does not depend on the loop variable"
		}
		return true
	})
	return bad
}

// orderInsensitiveShape recognises, from the loop alone, the two shapes of a map range whose result cannot depend on the
// iteration order: a collector that only appends to one local slice which is sorted right after the loop, and a loop that
// only stores into another map under the ranged key.
func orderInsensitiveShape(info *types.Info, fb *FuncBody, r *ast.RangeStmt) string {
	keyVar := (*types.Var)(nil)
	if r.Key != nil {
		keyVar = varOf(info, r.Key)
	}
	var appendTo *types.Var
	onlyAppends, onlyStores := true, true
	nStmt := 0
	var walk func(list []ast.Stmt)
	walk = func(list []ast.Stmt) {
		for _, st := range list {
			switch x := st.(type) {
			case *ast.IfStmt:
				if x.Init != nil {
					if as, ok := x.Init.(*ast.AssignStmt); !ok || as.Tok != token.DEFINE || hasCall(info, as) {
						onlyAppends, onlyStores = false, false
					}
				}
				if hasCall(info, x.Cond) {
					onlyAppends, onlyStores = false, false
				}
				walk(x.Body.List)
				switch e := x.Else.(type) {
				case *ast.BlockStmt:
					walk(e.List)
				case *ast.IfStmt:
					walk([]ast.Stmt{e})
				}
			case *ast.AssignStmt:
				nStmt++
				if len(x.Lhs) != 1 || len(x.Rhs) != 1 {
					onlyAppends, onlyStores = false, false
					continue
				}
				// x = append(x, ...)
				isApp := false
				if call, ok := ast.Unparen(x.Rhs[0]).(*ast.CallExpr); ok && isBuiltin(info, call, "append") && len(call.Args) >= 1 {
					if v := varOf(info, x.Lhs[0]); v != nil && varOf(info, call.Args[0]) == v && (appendTo == nil || appendTo == v) && !v.IsField() && v.Parent() != v.Pkg().Scope() {
						appendTo, isApp = v, true
					}
				}
				if !isApp {
					onlyAppends = false
				}
				// dst[key] = ...
				isStore := false
				if ix, ok := ast.Unparen(x.Lhs[0]).(*ast.IndexExpr); ok && keyVar != nil && varOf(info, ix.Index) == keyVar {
					if tv, ok := info.Types[ix.X]; ok {
						if _, isMap := tv.Type.Underlying().(*types.Map); isMap && varOf(info, ix.X) != nil && varOf(info, ix.X) != varOf(info, r.X) {
							isStore = true
						}
					}
				}
				if !isStore {
					onlyStores = false
				}
			default:
				onlyAppends, onlyStores = false, false
			}
		}
	}
	walk(r.Body.List)
	if nStmt == 0 {
		return ""
	}
	if onlyStores {
		return "map-to-map: the loop only stores into another Go map under the ranged key (the result is itself unordered)"
	}
	if onlyAppends && appendTo != nil {
		// the next use of the slice after the loop is a sort
		var firstUse ast.Node
		sorted := false
		inspectBody(fb.Body, func(nd ast.Node) bool {
			if nd.Pos() <= r.End() || firstUse != nil {
				return true
			}
			switch x := nd.(type) {
			case *ast.CallExpr:
				if fn, ok := callee(info, x).(*types.Func); ok && fn.Pkg() != nil && (fn.Pkg().Path() == "sort" || fn.Pkg().Path() == "slices") && (strings.HasPrefix(fn.Name(), "Sort") || fn.Name() == "Strings" || fn.Name() == "Slice" || fn.Name() == "SliceStable") && len(x.Args) >= 1 && varOf(info, x.Args[0]) == appendTo {
					firstUse, sorted = x, true
					return false
				}
			case *ast.Ident:
				if info.Uses[x] == appendTo {
					firstUse = x
				}
			}
			return true
		})
		if sorted {
			return "sorted-collector: the loop only appends to a local slice that is sorted right after the loop"
		}
	}
	return ""
}

func hasCall(info *types.Info, n ast.Node) bool {
	found := false
	ast.Inspect(n, func(m ast.Node) bool {
		if call, ok := m.(*ast.CallExpr); ok {
			if tv, ok := info.Types[call.Fun]; ok && tv.IsType() {
				return true // conversion
			}
			found = true
		}
		return !found
	})
	return found
}

// c09VertexDependsOnNodeOnly: a Taskfile is one vertex of the include graph however many Taskfiles include it, and it is read
// by whichever includer's goroutine gets there first.
func c09VertexDependsOnNodeOnly(c *Check, a *Anchors) {
	c.Rule("vertex-depends-on-node-only", "the recursive reader function that adds a Taskfile's vertex and explores its includes takes nothing from its caller but the context and the node: the vertex is created once, by the first includer to arrive, so anything else handed down (the include statement's vars, its dir …) makes what is read below it depend on goroutine scheduling when a file is included more than once")
	n := 0
	for _, fb := range c.P.BodiesIn(PkgTaskfile) {
		if fb.Decl == nil || recvOf(fb) != "Reader" {
			continue
		}
		addsVertex, recurses := false, false
		for _, call := range callsIn(fb, true) {
			fn, ok := callee(fb.Info(), call).(*types.Func)
			if !ok {
				continue
			}
			if fn.Name() == "AddVertex" {
				addsVertex = true
			}
			if fn == fb.Obj {
				recurses = true
			}
		}
		if !addsVertex || !recurses {
			continue
		}
		n++
		c.Fn(fb)
		var extra []string
		for _, fld := range fb.Type.Params.List {
			tv, ok := fb.Info().Types[fld.Type]
			if !ok {
				continue
			}
			ts := types.TypeString(tv.Type, nil)
			if ts == "context.Context" || isNamed(tv.Type, PkgTaskfile, "Node") {
				continue
			}
			for _, id := range fld.Names {
				extra = append(extra, id.Name+" "+types.TypeString(tv.Type, shortQual))
			}
		}
		c.Decide(len(extra) == 0, "vertex-depends-on-node-only", "params@"+fnDisplay(fb), fb.Decl.Pos(), "parameters: the context and the node",
			fnDisplay(fb)+" also receives "+strings.Join(extra, ", ")+" from the including side: a Taskfile that is included twice (with different values) is explored with those of whichever includer reached it first, so the Taskfiles loaded below it — task names, commands — change from run to run")
	}
	c.Floor("vertex-depends-on-node-only", n, 1)
}
