package main

// Rules about the deduplication of shared executions (run: once / when_changed), decided on the
// enumerated paths of the dedup function with small same-package helpers virtually inlined, so that an
// extracted helper (awaitExecution, registerExecution, ...), an inverted condition or another lock idiom
// does not change the verdict. Used by C01, C03, C06, C07 and C18.

import (
	"fmt"
	"go/ast"
	"go/token"
	"go/types"
	"strings"

	"golang.org/x/tools/go/ssa"
)

type dedupPaths struct {
	pe        *PathEnum
	name      string
	lookupOK  string // atom: the comma-ok of the table lookup
	recordKey string // key prefix of the looked-up record
}

func isFieldAddrOf(v ssa.Value, typ, field string) bool {
	fa, ok := v.(*ssa.FieldAddr)
	return ok && fieldKeySSA(fa.X.Type(), fa.Field) == "field:"+typ+"."+field
}

func loadOfField(v ssa.Value, typ, field string) bool {
	u, ok := v.(*ssa.UnOp)
	return ok && u.Op == token.MUL && isFieldAddrOf(u.X, typ, field)
}

func enumerateDedup(c *Check, a *Anchors) *dedupPaths {
	if v, ok := c.Extra["_dedup"]; ok {
		return v.(*dedupPaths)
	}
	fb := a.Dedup
	fn := c.P.SSAFunc(fb)
	if fn == nil {
		c.Errorf("dedup: no SSA for %s", fnDisplay(fb))
		return nil
	}
	c.Fn(fb)
	var execParam *ssa.Parameter
	for _, p := range fn.Params {
		if _, isSig := p.Type().Underlying().(*types.Signature); isSig {
			execParam = p
		}
	}
	d := &dedupPaths{name: fnDisplay(fb)}
	isRecordType := func(t types.Type) bool {
		// the element type of the execution table
		ex := c.P.NamedType(PkgTask, "Executor")
		if ex == nil {
			return false
		}
		st := ex.Underlying().(*types.Struct)
		for i := 0; i < st.NumFields(); i++ {
			if st.Field(i).Name() == "executionHashes" {
				if m, ok := st.Field(i).Type().Underlying().(*types.Map); ok {
					return types.Identical(m.Elem(), t) || types.Identical(types.NewPointer(m.Elem()), t)
				}
			}
		}
		return false
	}
	pe := &PathEnum{Fn: fn, MaxRevisit: revisit(), EventR: func(in ssa.Instruction, resolve func(ssa.Value) ssa.Value) (string, string) {
		switch x := in.(type) {
		case *ssa.Lookup:
			if loadOfField(x.X, "Executor", "executionHashes") {
				return "lookup", "lookup"
			}
		case *ssa.MapUpdate:
			if loadOfField(x.Map, "Executor", "executionHashes") {
				return "register", "store"
			}
		case *ssa.Call, *ssa.Defer:
			var cc *ssa.CallCommon
			kind := "call"
			if cx, ok := x.(*ssa.Call); ok {
				cc = cx.Common()
			} else {
				cc, kind = x.(*ssa.Defer).Common(), "defer"
			}
			if f := cc.StaticCallee(); f != nil && len(cc.Args) > 0 && isFieldAddrOf(cc.Args[0], "Executor", "executionHashesMutex") {
				return "mu." + f.Name(), kind
			}
			if b, ok := cc.Value.(*ssa.Builtin); ok && b.Name() == "close" && len(cc.Args) == 1 {
				if u, ok := cc.Args[0].(*ssa.UnOp); ok {
					if fa, ok := u.X.(*ssa.FieldAddr); ok && isRecordType(fa.X.Type()) {
						return "signal", kind
					}
				}
			}
			if execParam != nil && resolve(cc.Value) == ssa.Value(execParam) {
				return "execute", kind
			}
			if l := labelOfCommon(a, cc); l == "release" || l == "acquire" {
				return l, kind
			}
			// the closure returned by the slot-release function
			if inner, ok := resolve(cc.Value).(*ssa.Call); ok {
				if l := labelOfCommon(a, inner.Common()); l == "release" || l == "acquire" {
					return "ret(" + l + ")", kind
				}
			}
		case *ssa.UnOp:
			if x.Op == token.ARROW {
				if u, ok := x.X.(*ssa.UnOp); ok {
					if fa, ok := u.X.(*ssa.FieldAddr); ok && isRecordType(fa.X.Type()) {
						if ex, ok := resolve(fa.X).(*ssa.Extract); ok {
							if _, isLookup := ex.Tuple.(*ssa.Lookup); isLookup {
								return "recv-record", "recv"
							}
						}
						return "recv-other-record", "recv"
					}
				}
				return "recv-other", "recv"
			}
		case *ssa.Select:
			onRecord := false
			for _, s := range x.States {
				if u, ok := s.Chan.(*ssa.UnOp); ok {
					if fa, ok := u.X.(*ssa.FieldAddr); ok && isRecordType(fa.X.Type()) {
						onRecord = true
					}
				}
			}
			if onRecord && len(x.States) == 1 && x.Blocking {
				return "recv-record", "recv"
			}
			return "select", "recv"
		case *ssa.Store:
			if fa, ok := x.Addr.(*ssa.FieldAddr); ok && isRecordType(fa.X.Type()) {
				if call, ok := resolve(x.Val).(*ssa.Call); ok && execParam != nil && resolve(call.Common().Value) == ssa.Value(execParam) {
					return "store-outcome", "store"
				}
				return "store-record-field", "store"
			}
		case *ssa.RunDefers:
			return "rundefers", "rundefers"
		}
		return "", ""
	}}
	pe.Name = isExitName(pe)
	if tableStoresOnlyNonNil(c) {
		pe.NonNilTables = map[string]bool{"lookup(field:Executor.executionHashes)": true}
	}
	pe.Run()
	c.Paths += len(pe.Paths)
	if pe.Truncated || len(pe.Paths) == 0 {
		c.Errorf("dedup: path enumeration of %s failed (%d paths, truncated %v)", d.name, len(pe.Paths), pe.Truncated)
		return nil
	}
	d.pe = pe
	for _, p := range pe.Paths {
		for k := range p.Asg {
			if strings.HasPrefix(k, "lookup(") && strings.Contains(k, "executionHashes") && strings.HasSuffix(k, "#1") {
				d.lookupOK = k
				d.recordKey = strings.TrimSuffix(k, "#1") + "#0"
			}
		}
	}
	if d.lookupOK == "" {
		c.Errorf("dedup: no path of %s tests the comma-ok result of a lookup in Executor.executionHashes", d.name)
		return nil
	}
	c.Extra["_dedup"] = d
	c.Extra["dedup_paths"] = len(pe.Paths)
	c.Extra["dedup_helpers_inlined"] = pe.Inlined
	return d
}

func labelOfCommon(a *Anchors, cc *ssa.CallCommon) string {
	if cc.IsInvoke() {
		return a.labelObj(cc.Method)
	}
	if f := cc.StaticCallee(); f != nil && f.Object() != nil {
		return a.labelObj(f.Object())
	}
	return ""
}

// lockSim replays lock events (incl. deferred unlocks executed at the frame's RunDefers) and calls visit with the lock depth before each event.
func lockSim(p *Path, visit func(i int, e PEvent, held int)) (heldAtEnd int) {
	held := 0
	deferred := map[int]int{} // frame depth -> deferred unlocks
	for i, e := range p.Events {
		visit(i, e, held)
		switch {
		case e.Label == "mu.Lock" && e.Kind == "call":
			held++
		case e.Label == "mu.Unlock" && e.Kind == "call":
			held--
		case e.Label == "mu.Unlock" && e.Kind == "defer":
			deferred[e.Depth]++
		case e.Label == "rundefers":
			held -= deferred[e.Depth]
			deferred[e.Depth] = 0
		}
	}
	return held
}

func firstN(s []string, n int) string {
	if len(s) > n {
		s = s[:n]
	}
	return strings.Join(s, " || ")
}

// sharedWait (C01 rule 4, C03, C06 rule 3, C18): callers that find a registered execution wait for it and observe its outcome;
// the registering caller stores the outcome and then raises the completion signal.
func sharedWait(c *Check, a *Anchors) {
	c.Rule("shared-wait", "on every enumerated path of the dedup function (helpers inlined): a caller that finds the key registered (a) blocks on the looked-up record's completion channel before it returns, (b) returns the error stored in that very record, (c) neither executes nor registers; the registering caller (d) calls the execute callback after registering, stores its result in the registered record and only then closes the completion channel, before returning")
	d := enumerateDedup(c, a)
	if d == nil {
		return
	}
	var badWait, badOutcome, badFound, badReg []string
	nFound, nReg := 0, 0
	for _, p := range d.pe.Paths {
		if p.Panic || len(p.Out) == 0 {
			continue
		}
		found, known := p.Asg[d.lookupOK]
		if !known {
			continue
		}
		out := p.Out[len(p.Out)-1]
		if found {
			nFound++
			if !p.HasEvent("recv-record", "recv") {
				badWait = append(badWait, "returns without a blocking receive on the looked-up record's completion channel: "+p.String())
			}
			if !strings.HasPrefix(out, d.recordKey) {
				badOutcome = append(badOutcome, fmt.Sprintf("returns %q, which is not read from the looked-up record: a failed or unfinished shared execution looks successful to this caller: %s", out, p))
			}
			if p.HasEvent("execute", "") || p.HasEvent("register", "") {
				badFound = append(badFound, "a caller that found a registered execution executes or registers again: "+p.String())
			}
			continue
		}
		if !p.HasEvent("register", "") {
			continue
		}
		nReg++
		ir, ie, is, ig := p.EventIndex("register", ""), p.EventIndex("execute", "call"), p.EventIndex("store-outcome", ""), p.EventIndex("signal", "call")
		switch {
		case ie < 0 || ie < ir:
			badReg = append(badReg, "the registering caller does not run the execute callback after registering: "+p.String())
		case is < ie:
			badReg = append(badReg, "the result of execute is not stored in the registered record before the function returns (waiters cannot observe the outcome): "+p.String())
		case ig < is:
			badReg = append(badReg, "the completion channel is not closed after the outcome was stored (closed earlier, only deferred before the store, or never): waiters are released before the real execution finished or block forever: "+p.String())
		}
	}
	if nFound == 0 || nReg == 0 {
		c.Errorf("shared-wait: vacuous (found paths %d, registering paths %d)", nFound, nReg)
	}
	pos := a.Dedup.Decl.Pos()
	c.Decide(len(badWait) == 0, "shared-wait", "wait-before-return@"+d.name, pos, fmt.Sprintf("holds on all %d paths that find a registered execution", nFound), firstN(badWait, 2))
	c.Decide(len(badOutcome) == 0, "shared-wait", "outcome-observed@"+d.name, pos, fmt.Sprintf("the returned error is read from the looked-up record on all %d paths", nFound), firstN(badOutcome, 2))
	c.Decide(len(badFound) == 0, "shared-wait", "found-does-not-execute@"+d.name, pos, "found paths neither execute nor register", firstN(badFound, 2))
	c.Decide(len(badReg) == 0, "shared-wait", "signal-after-outcome@"+d.name, pos, fmt.Sprintf("register -> execute -> store outcome -> close -> return on all %d registering paths", nReg), firstN(badReg, 2))
}

// dedupAtomic (C06 rule 2, C18): lookup and registration in one critical section.
func dedupAtomic(c *Check, a *Anchors, rule string) {
	c.Rule(rule, "on every enumerated path of the dedup function (helpers inlined) the lookup in Executor.executionHashes and the registering store happen while executionHashesMutex is held, with no Unlock between them; the table is indexed in no function that the dedup function does not reach")
	d := enumerateDedup(c, a)
	if d == nil {
		return
	}
	var bad []string
	n := 0
	for _, p := range d.pe.Paths {
		sinceLookup := false
		lockSim(p, func(i int, e PEvent, held int) {
			switch e.Label {
			case "lookup":
				n++
				sinceLookup = true
				if held < 1 {
					bad = append(bad, "the table is read without holding executionHashesMutex: "+p.String())
				}
			case "mu.Unlock":
				if e.Kind == "call" {
					sinceLookup = false
				}
			case "rundefers":
				// deferred unlocks of this frame run now
			case "register":
				if held < 1 || !sinceLookup {
					bad = append(bad, "the registering store is not in the same critical section as the lookup (mutex released in between or not held): two concurrent callers can both miss and both execute: "+p.String())
				}
			}
		})
	}
	if n == 0 {
		c.Errorf("%s: no lookup event on any path", rule)
	}
	c.Decide(len(bad) == 0, rule, "lookup-and-register-one-section@"+d.name, a.Dedup.Decl.Pos(), fmt.Sprintf("holds on all %d paths", len(d.pe.Paths)), firstN(bad, 2))
	// nowhere else
	reach := c.P.ReachableFrom([]*FuncBody{a.Dedup}, func(fb *FuncBody) bool { return fb != a.Dedup && fb.Pkg.PkgPath != PkgTask })
	for _, fb := range c.P.BodiesIn(PkgTask) {
		if reach[fb.Root()] {
			continue
		}
		inspectBody(fb.Body, func(nd ast.Node) bool {
			if ix, ok := nd.(*ast.IndexExpr); ok && fieldSel(fb.Info(), ix.X, PkgTask, "Executor", "executionHashes") {
				c.Bad(rule, "foreign-access@"+fnDisplay(fb), ix.Pos(), "the execution table is indexed outside the dedup function and its helpers")
			}
			return true
		})
	}
}

// dedupNoLockAcrossBlock (C07 rule 4).
func dedupNoLockAcrossBlock(c *Check, a *Anchors) {
	c.Rule("no-lock-across-block", "on every enumerated path of the dedup function (helpers inlined) executionHashesMutex is not held at a blocking receive, at the execute callback or at the final return (path-sensitive lock counting; deferred unlocks run at their frame's exit)")
	d := enumerateDedup(c, a)
	if d == nil {
		return
	}
	var bad []string
	nBlock := 0
	for _, p := range d.pe.Paths {
		end := lockSim(p, func(i int, e PEvent, held int) {
			if e.Kind == "recv" || (e.Label == "execute" && e.Kind == "call") {
				nBlock++
				if held > 0 {
					bad = append(bad, e.Label+" happens while executionHashesMutex is held: "+p.String())
				}
			}
		})
		if end != 0 && !p.Panic {
			bad = append(bad, fmt.Sprintf("the function returns with lock depth %d: %s", end, p))
		}
	}
	if nBlock == 0 {
		c.Errorf("no-lock-across-block: no blocking event on any path")
	}
	c.Decide(len(bad) == 0, "no-lock-across-block", "lock-count@"+d.name, a.Dedup.Decl.Pos(), fmt.Sprintf("lock released before every blocking event / return on all %d paths", len(d.pe.Paths)), firstN(bad, 2))
}

// dedupWaitSlot (C07): the wait for another execution happens after the slot was handed back, and the slot is taken back on exit.
func dedupWaitSlot(c *Check, a *Anchors) {
	d := enumerateDedup(c, a)
	if d == nil {
		return
	}
	var bad []string
	n := 0
	for _, p := range d.pe.Paths {
		ir := p.EventIndex("recv-record", "recv")
		if ir < 0 {
			continue
		}
		n++
		rel := p.EventIndex("release", "call")
		back := p.EventIndex("ret(release)", "defer")
		if back < 0 {
			back = p.EventIndex("ret(release)", "call")
		}
		if back < 0 && a.SlotDirect {
			// direct form: the slot is taken back by a (deferred) call of the acquire function after the hand-back
			if back = p.EventIndex("acquire", "defer"); back < 0 {
				back = p.EventIndex("acquire", "call")
			}
		}
		switch {
		case rel < 0 || rel > ir:
			bad = append(bad, "the wait for a deduplicated execution blocks while the caller still holds its concurrency slot: "+p.String())
		case back < 0:
			bad = append(bad, "the slot handed back before the wait is not taken back (closure neither deferred nor called): the token count is not restored: "+p.String())
		}
	}
	if n == 0 {
		c.Errorf("slot-states: no waiting path in the dedup function")
	}
	c.Decide(len(bad) == 0, "slot-states", "dedup-wait-after-handback@"+d.name, a.Dedup.Decl.Pos(), fmt.Sprintf("slot handed back before, and re-acquired after, the wait on all %d waiting paths", n), firstN(bad, 2))
}

// dedupEmptyKey (C06 rule 1): the empty key executes directly.
func dedupEmptyKey(c *Check, a *Anchors) {
	d := enumerateDedup(c, a)
	if d == nil {
		return
	}
	var bad []string
	n := 0
	for _, p := range d.pe.Paths {
		empty := false
		for k, v := range p.Asg {
			if strings.HasPrefix(k, "eq(") && strings.HasSuffix(k, `,"")`) && v {
				empty = true
			}
		}
		if !empty {
			continue
		}
		n++
		if p.HasEvent("lookup", "") || p.HasEvent("register", "") || !p.HasEvent("execute", "call") {
			bad = append(bad, "with an empty key the table is consulted or the task is not executed directly: "+p.String())
		}
	}
	c.Decide(len(bad) == 0 && n > 0, "run-mode-switch", "empty-key-executes-directly@"+d.name, a.Dedup.Decl.Pos(), fmt.Sprintf("the empty key executes directly on %d path(s)", n), "run: always (empty key) does not bypass the execution table: "+firstN(bad, 2))
}

// tableEntriesPermanent (C06): a registered execution is never removed or replaced within an invocation.
func tableEntriesPermanent(c *Check, a *Anchors) {
	c.Rule("table-entries-permanent", "an entry of Executor.executionHashes is never deleted and is stored only by the registering path of the dedup function: a forgotten entry lets a later reference execute the task a second time and hides the first execution's outcome")
	n := 0
	for _, fb := range c.P.BodiesIn(PkgTask) {
		info := fb.Info()
		inspectBody(fb.Body, func(nd ast.Node) bool {
			call, ok := nd.(*ast.CallExpr)
			if !ok {
				return true
			}
			if (isBuiltin(info, call, "delete") || isBuiltin(info, call, "clear")) && len(call.Args) >= 1 && fieldSel(info, call.Args[0], PkgTask, "Executor", "executionHashes") {
				n++
				c.Bad("table-entries-permanent", "delete@"+fnDisplay(fb.Root()), call.Pos(), "an entry of the execution table is removed during the invocation: a later reference to the deduplicated task runs it again (commands start twice) and does not observe the first outcome")
			}
			return true
		})
	}
	if n == 0 {
		c.OK("table-entries-permanent", "package task", a.Dedup.Decl.Pos(), "no delete/clear on Executor.executionHashes")
	}
}

// tableStoresOnlyNonNil: every store into Executor.executionHashes in package task stores the address of a composite literal
// (directly or through a variable whose every definition is one): a found entry is never nil.
func tableStoresOnlyNonNil(c *Check) bool {
	n, ok := 0, true
	for _, fb := range c.P.BodiesIn(PkgTask) {
		info := fb.Info()
		inspectBody(fb.Body, func(nd ast.Node) bool {
			as, isAs := nd.(*ast.AssignStmt)
			if !isAs {
				return true
			}
			for i, l := range as.Lhs {
				ix, isIx := ast.Unparen(l).(*ast.IndexExpr)
				if !isIx || !fieldSel(info, ix.X, PkgTask, "Executor", "executionHashes") || i >= len(as.Rhs) {
					continue
				}
				n++
				nonNil := func(e ast.Expr) bool {
					u, isU := ast.Unparen(e).(*ast.UnaryExpr)
					if !isU || u.Op != token.AND {
						return false
					}
					_, isLit := ast.Unparen(u.X).(*ast.CompositeLit)
					return isLit
				}
				r := as.Rhs[i]
				if nonNil(r) {
					continue
				}
				if v := varOf(info, r); v != nil {
					defs := defsOf(info, fb.Root().Body, v)
					all := len(defs) > 0
					for _, d := range defs {
						if !nonNil(d) {
							all = false
						}
					}
					if all {
						continue
					}
				}
				ok = false
			}
			return true
		})
	}
	return n > 0 && ok
}
