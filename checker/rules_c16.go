package main

import (
	"fmt"
	"go/ast"
	"go/token"
	"go/types"
	"strings"
)

func init() { register("C16", checkC16) }

// bceReviewed: the repository index/slice expressions the compiler's prove pass cannot discharge, each with the
// reason it cannot go out of range for any Taskfile / argument input. Key: function|expression.
// An expression that is not listed is an unreviewed potential panic.
var bceReviewed = map[string]string{
	"args.Get|args[doubleDashPos:]":                                                "pflag.ArgsLenAtDash() is a position inside pflag.Args() (library post-condition); tested != -1 first",
	"args.splitVar|pair[0]":                                                        "strings.SplitN always returns at least one element",
	"args.splitVar|pair[1]":                                                        "splitVar is only called on the strings.Contains(arg, \"=\") edge (rule C19 splitvar), so SplitN(…, 2) yields two elements",
	"task.(*Compiler).getSpecialVars|os.Args[0]":                                   "process-level: os.Args always holds the program name; not Taskfile input",
	"errors.(*TaskfileDecodeError).Error|te.Errors[0]":                             "yaml.TypeError is only constructed with at least one message; the > 1 case is handled by the other branch",
	"task.(*Executor).ToEditorOutput$1|o.Tasks[i]":                                 "o.Tasks is made with len(tasks) and i ranges over tasks",
	"task.(*Executor).ToEditorOutput$1|tasks[i]":                                   "i ranges over the same slice",
	"internal/env.GetEnviron|keyVal[0]":                                            "strings.SplitN always returns at least one element",
	"internal/env.GetEnviron|keyVal[1]":                                            "process-level: every os.Environ() entry has the form key=value; not Taskfile input",
	"internal/execext.ExpandLiteral|words[0]":                                      "guarded by the len(words) == 0 return just above",
	"internal/flags.init|os.Args[1:]":                                              "process-level: os.Args is never empty",
	"internal/slicesext.UniqueJoin|r[i:]":                                          "i is the running sum of copied lengths and r was made with the total length",
	"internal/sort.AlphaNumericWithRootTasksFirst$1|items[i]":                      "sort callback: indices are supplied by sort.Slice over the same slice",
	"internal/sort.AlphaNumericWithRootTasksFirst$1|items[j]":                      "sort callback: indices are supplied by sort.Slice over the same slice",
	"internal/version.getCommit|setting.Value[:7]":                                 "build-info string (a VCS revision hash), not user input",
	"task.(*Executor).RunTask$1|t.Cmds[i]":                                         "i ranges over t.Cmds of the call-private compiled task, which is not resized while it runs",
	"task.(*Executor).runDeferred|t.Cmds[i]":                                       "i is the loop index of the cmds loop over the same compiled task (rule defer-registration: receives the loop variable)",
	"task.(*Executor).runCommand|t.Cmds[i]":                                        "i is the loop index of the cmds loop over the same compiled task (rule cmds-in-order: loop-var-to-runner)",
	"task.(*Executor).GetTaskList$1|tasks[i]":                                      "closure created inside `for i := range tasks`",
	"taskfile/ast.(*TaskfileGraph).Merge|hashes[0]":                                "the reader adds the root vertex before Merge is called, so the topological order is never empty",
	"taskfile/ast.(*Includes).UnmarshalYAML|node.Content[i]":                       "i < len(node.Content) is the loop condition",
	"taskfile/ast.(*Includes).UnmarshalYAML|node.Content[i + 1]":                   "a yaml.v3 MappingNode always has an even number of Content entries (key/value pairs); the function only indexes under `case yaml.MappingNode`",
	"taskfile/ast.(*Matrix).UnmarshalYAML|node.Content[i]":                         "i < len(node.Content) is the loop condition",
	"taskfile/ast.(*Matrix).UnmarshalYAML|node.Content[i + 1]":                     "yaml.v3 MappingNode: even number of Content entries",
	"taskfile/ast.(*Tasks).UnmarshalYAML|node.Content[i]":                          "i < len(node.Content) is the loop condition",
	"taskfile/ast.(*Tasks).UnmarshalYAML|node.Content[i + 1]":                      "yaml.v3 MappingNode: even number of Content entries",
	"taskfile/ast.(*Vars).UnmarshalYAML|node.Content[i]":                           "i < len(node.Content) is the loop condition",
	"taskfile/ast.(*Vars).UnmarshalYAML|node.Content[i + 1]":                       "yaml.v3 MappingNode: even number of Content entries",
	"taskfile/ast.(*Platform).parsePlatform|splitValues[0]":                        "strings.Split always returns at least one element",
	"taskfile/ast.(*Tasks).Merge|task.Aliases[i]":                                  "i ranges over task.Aliases",
	"taskfile.getScheme|strings.Split(u.Path, \"//\")[0]":                          "strings.Split always returns at least one element",
	"taskfile.getScheme|uri[:i]":                                                   "i is strings.Index(uri, …) and was tested != -1",
	"taskfile.NewSnippet|linesRaw[snippet.start - 1:snippet.end]":                  "both ends are clamped: end = max(min(…, len(linesRaw)-1, len(linesHighlighted)), 0), start = min(max(…, 1), end+1)",
	"taskfile.NewSnippet|linesHighlighted[snippet.start - 1:snippet.end]":          "both ends are clamped to min(len(linesRaw)-1, len(linesHighlighted)) (see above)",
	"taskfile.(*Snippet).String|s.linesRaw[i]":                                     "linesRaw and linesHighlighted are cut with the same bounds in NewSnippet, i ranges over linesHighlighted",
	"task.(*Executor).compiledTask|keys[i]":                                        "itemsFromFor appends keys and values in lockstep (map case) so len(keys) == len(list) whenever keys is non-empty; guarded by len(keys) > 0",
}

// bceRequires: facts that must dominate a reviewed site for its reason to apply.
var bceRequires = map[string]string{
	"task.(*Executor).compiledTask|keys[i]":       "nonempty:var:keys",
	"internal/execext.ExpandLiteral|words[0]":     "nonempty:var:words",
	"taskfile/ast.(*Includes).UnmarshalYAML|node.Content[i + 1]": "",
}

var bceSkipPkgs = map[string]bool{Mod + "/cmd/release": true, Mod + "/cmd/sleepit": true, Mod + "/cmd/tmp": true}

func checkC16(c *Check, a *Anchors) {
	c.NotDecided = []string{
		"termination of reading, merging, listing and compiling (no termination argument is attempted)",
		"nil-pointer dereferences other than the YAML-null element class and the checked-then-dereferenced contradictions; panics inside third-party libraries; stack or heap exhaustion",
	}
	c16BCE(c, a)
	c16OtherPanics(c, a)
	c16NilElements(c, a)
	nilContradictions(c, a, "checked-then-dereferenced", []string{PkgTask, PkgAst, PkgTaskfile})
	// a load error that is swallowed leaves a vertex without a parsed Taskfile in the graph (nil dereference later)
	c08CycleVersionMissing(c, a)
}

func c16BCE(c *Check, a *Anchors) {
	c.Rule("bounds-reviewed", "every index / slice expression written in the repository that the Go compiler's prove pass cannot show in range (go build -gcflags=-d=ssa/check_bce/debug=1, re-run on every check) is one of the reviewed expressions (table: one reason per expression; some require a dominating guard fact); bounds checks that belong to library code inlined at a call are the library's own. A new unproven expression is an unreviewed potential panic")
	sites, err := runBCE(c.P)
	if err != nil {
		c.Errorf("bounds-reviewed: %v", err)
		return
	}
	nRepo, nInl := 0, 0
	ord := map[string]int{}
	flows := map[*FuncBody]*Flow{}
	for _, s := range sites {
		if s.FB == nil || bceSkipPkgs[s.FB.Pkg.PkgPath] || strings.HasSuffix(s.File, "_mock.go") {
			continue
		}
		if s.Inlined || s.Node == nil {
			nInl++
			continue
		}
		nRepo++
		c.Fn(s.FB)
		k := fnDisplay(s.FB) + "|" + s.Expr
		key := ordinal(ord, k)
		reason, ok := bceReviewed[k]
		if !ok {
			c.Bad("bounds-reviewed", key, s.Node.Pos(), fmt.Sprintf("`%s` in %s: the compiler cannot prove this %s in range and the expression is not in the reviewed table — for some Taskfile, task name or argument it may panic with index/slice out of range", s.Expr, fnDisplay(s.FB), strings.ToLower(strings.TrimPrefix(s.Kind, "Is"))))
			continue
		}
		if req := bceRequires[k]; req != "" {
			f := flows[s.FB]
			if f == nil {
				f = NewFlow(c.P, s.FB, func(*ast.CallExpr, types.Object) string { return "" })
				f.Run()
				flows[s.FB] = f
			}
			if !factAtExpr(f, s.Node, req) {
				c.Bad("bounds-reviewed", key, s.Node.Pos(), fmt.Sprintf("`%s` in %s is reviewed as safe only under the guard `%s`, which no longer dominates it", s.Expr, fnDisplay(s.FB), req))
				continue
			}
		}
		c.OK("bounds-reviewed", key, s.Node.Pos(), "reviewed: "+reason)
	}
	c.Sites += nRepo + nInl
	c.Extra["bce_repo_expressions"] = nRepo
	c.Extra["bce_inlined_library_checks"] = nInl
	c.Extra["bce_cmd"] = "go build -gcflags=" + Mod + "/...=-d=ssa/check_bce/debug=1 ./..."
	c.Floor("bounds-reviewed", nRepo, 25)
}

// factAtExpr: the fact (prefix match on the variable name part) holds at the statement containing the expression.
func factAtExpr(f *Flow, n ast.Node, req string) bool {
	parts := strings.SplitN(req, ":var:", 2)
	best := Facts(nil)
	var bestNode ast.Node
	for node, st := range f.At {
		if node.Pos() <= n.Pos() && n.End() <= node.End() {
			if bestNode == nil || (node.End()-node.Pos()) < (bestNode.End()-bestNode.Pos()) {
				best, bestNode = st, node
			}
		}
	}
	if best == nil {
		return false
	}
	for k := range best {
		if len(parts) == 2 && strings.HasPrefix(k, parts[0]+":var:"+parts[1]+"#") {
			return true
		}
		if k == req {
			return true
		}
	}
	return false
}

var otherReviewed = map[string]string{
	"taskfile/ast.(*Task).WildcardMatch|regexp.MustCompile":      "the pattern consists of regexp.QuoteMeta'd pieces joined by a fixed group (decided by rule pattern-literal, re-run here)",
	"internal/deepcopy.TraverseStringsFunc|copy.Interface().(T)":  "the copy is created with reflect.New(original.Type()), so it has the static type T",
	"taskfile.(*Reader).include$1|edge.Properties.Data.([]*ast.Include)": "edge data is only ever written by this function as []*ast.Include",
	"taskfile.init|panic":      "init-time registration of the embedded syntax-highlighting style / lexer; independent of user input",
	"taskfile.init#2|panic":    "init-time registration of the embedded syntax-highlighting style / lexer; independent of user input",
}

func c16OtherPanics(c *Check, a *Anchors) {
	c.Rule("panic-sites-reviewed", "every other instruction that can panic by construction in repository code — single-value type assertions, Must*-style callees with a non-constant argument, explicit panic calls, integer division or remainder by a non-constant — is one of the reviewed sites (table with one reason each)")
	n := 0
	ord := map[string]int{}
	for _, fb := range c.P.Bodies() {
		if bceSkipPkgs[fb.Pkg.PkgPath] || strings.HasSuffix(c.P.Fset.Position(fb.Body.Pos()).Filename, "_mock.go") {
			continue
		}
		info := fb.Info()
		pm := parentMap(fb.Body)
		report := func(kind, expr string, pos token.Pos) {
			n++
			c.Fn(fb)
			k := fnDisplay(fb) + "|" + expr
			key := ordinal(ord, k)
			if kind == "panic" {
				k = fnDisplay(fb) + "|panic"
				key = ordinal(ord, k)
				if ord[k] > 1 {
					k = fmt.Sprintf("%s#%d|panic", fnDisplay(fb), ord[k])
				}
			}
			if reason, ok := otherReviewed[k]; ok {
				c.OK("panic-sites-reviewed", key, pos, "reviewed: "+reason)
				return
			}
			if strings.HasPrefix(fnDisplay(fb), "taskfile.init") && kind == "panic" {
				c.OK("panic-sites-reviewed", key, pos, "reviewed: "+otherReviewed["taskfile.init|panic"])
				return
			}
			c.Bad("panic-sites-reviewed", key, pos, fmt.Sprintf("%s `%s` in %s can panic and is not in the reviewed table", kind, expr, fnDisplay(fb)))
		}
		inspectBody(fb.Body, func(nd ast.Node) bool {
			switch x := nd.(type) {
			case *ast.TypeAssertExpr:
				if x.Type == nil {
					return true // type switch
				}
				// comma-ok form?
				commaOK := false
				switch p := pm[x].(type) {
				case *ast.AssignStmt:
					if len(p.Lhs) == 2 && len(p.Rhs) == 1 {
						commaOK = true
					}
				case *ast.ValueSpec:
					if len(p.Names) == 2 {
						commaOK = true
					}
				}
				if !commaOK {
					report("single-value type assertion", exprStr(x), x.Pos())
				}
			case *ast.CallExpr:
				if isBuiltin(info, x, "panic") {
					report("panic", "panic", x.Pos())
					return true
				}
				if fn, ok := callee(info, x).(*types.Func); ok && strings.HasPrefix(fn.Name(), "Must") && fn.Pkg() != nil && !strings.HasPrefix(fn.Pkg().Path(), Mod) {
					constArgs := true
					for _, arg := range x.Args {
						if tv, ok := info.Types[arg]; !ok || tv.Value == nil {
							constArgs = false
						}
					}
					if !constArgs {
						report("Must-call with a non-constant argument", fn.Pkg().Name()+"."+fn.Name(), x.Pos())
					}
				}
			case *ast.BinaryExpr:
				if x.Op == token.QUO || x.Op == token.REM {
					if tv, ok := info.Types[x.Y]; ok && tv.Value == nil && tv.Type != nil && isIntType(tv.Type) {
						if v := lenOfNonEmptyPkgVar(c.P, info, x.Y); v != "" {
							n++
							c.OK("panic-sites-reviewed", ordinal(ord, fnDisplay(fb)+"|"+x.Op.String()+" len("+v+")"), x.Pos(), "divisor is the length of the package-level literal "+v+", which is non-empty and never reassigned")
						} else {
							report("integer division by a non-constant", x.Op.String(), x.Pos())
						}
					}
				}
			}
			return true
		})
	}
	c.Floor("panic-sites-reviewed", n, 3)
	// the discharge of MustCompile depends on the quoting rule
	c15PatternLiteral(c, a)
}

// nilFreeInputs: loops over []*ast.T whose input cannot contain nil elements, with the producer that guarantees it.
var nilFreeInputs = map[string]string{
	"task.(*Executor).runDeps|Task.Deps":                                  "ranges over the compiled task: the task compiler skips nil deps",
	"task.(*Executor).areTaskPreconditionsMet|Task.Preconditions":         "compiled task: the task compiler skips nil preconditions",
	"internal/fingerprint.(*ChecksumChecker).IsUpToDate|Task.Generates":   "compiled task: templater.ReplaceGlobs drops nil globs",
	"internal/fingerprint.Globs|param globs":                              "callers pass Sources/Generates of a compiled task (templater.ReplaceGlobs drops nil globs)",
	"internal/summary.printTaskDependencies|Task.Deps":                    "compiled task",
	"internal/summary.printTaskCommands|Task.Cmds":                        "compiled task: the task compiler skips nil cmds",
	"task.(*Executor).registerWatchedDirs|Task.Deps":                      "compiled task",
	"task.(*Executor).registerWatchedDirs|Task.Cmds":                      "compiled task",
	"task.(*Executor).ListTasks|expr tasks":                               "result of GetTaskList: every element is a compiled task (address of a fresh literal) or a map value stored by Tasks.UnmarshalYAML as &v, never nil",
	"taskfile/ast.NewVars|param els":                                      "variadic constructor arguments written in Go code, not decoded input",
	"taskfile/ast.NewTasks|param els":                                     "variadic constructor arguments written in Go code",
	"taskfile/ast.NewIncludes|param els":                                  "variadic constructor arguments written in Go code",
	"taskfile/ast.NewMatrix|param els":                                    "variadic constructor arguments written in Go code",
}

func c16NilElements(c *Check, a *Anchors) {
	c.Rule("yaml-nil-elements", "a YAML null inside a list decodes to a nil element of a []*T field of the ast types; every loop over such a slice that dereferences the element either tests the element against nil before the first dereference, or ranges over input that a named producer made nil-free (table)")
	n := 0
	ord := map[string]int{}
	for _, fb := range c.P.Bodies() {
		if !strings.HasPrefix(fb.Pkg.PkgPath, Mod) || bceSkipPkgs[fb.Pkg.PkgPath] {
			continue
		}
		info := fb.Info()
		inspectBody(fb.Body, func(nd ast.Node) bool {
			r, ok := nd.(*ast.RangeStmt)
			if !ok || r.Value == nil {
				return true
			}
			tv, ok := info.Types[r.X]
			if !ok {
				return true
			}
			sl, ok := tv.Type.Underlying().(*types.Slice)
			if !ok {
				return true
			}
			ptr, ok := sl.Elem().(*types.Pointer)
			if !ok {
				return true
			}
			nt := namedOf(ptr.Elem())
			if nt == nil || nt.Obj().Pkg() == nil || nt.Obj().Pkg().Path() != PkgAst {
				return true
			}
			el := varOf(info, r.Value)
			if el == nil {
				return true
			}
			// first dereference of the element and first nil test
			var firstDeref, firstTest token.Pos
			inspectDeep(r.Body, func(m ast.Node) bool {
				switch x := m.(type) {
				case *ast.SelectorExpr:
					if varOf(info, x.X) == el {
						if s := info.Selections[x]; s != nil && s.Kind() == types.FieldVal && (firstDeref == 0 || x.Pos() < firstDeref) {
							firstDeref = x.Pos()
						}
					}
				case *ast.BinaryExpr:
					if (x.Op == token.EQL || x.Op == token.NEQ) && varOf(info, x.X) == el && isNilExpr(info, ast.Unparen(x.Y)) && (firstTest == 0 || x.Pos() < firstTest) {
						firstTest = x.Pos()
					}
				}
				return true
			})
			if firstDeref == 0 {
				return true // element only passed along (e.g. to a nil-safe DeepCopy)
			}
			n++
			c.Fn(fb)
			src := "expr " + exprStr(r.X)
			if sel, ok := ast.Unparen(r.X).(*ast.SelectorExpr); ok {
				if s := info.Selections[sel]; s != nil {
					if on := namedOf(s.Recv()); on != nil {
						src = on.Obj().Name() + "." + sel.Sel.Name
					}
				}
			} else if v := varOf(info, r.X); v != nil && (isParamOf(info, fb, v) || isParamOf(info, fb.Root(), v)) {
				src = "param " + v.Name()
			}
			k := fnDisplay(fb.Root()) + "|" + src
			key := ordinal(ord, k)
			switch {
			case firstTest != 0 && firstTest < firstDeref:
				c.OK("yaml-nil-elements", key, r.Pos(), "element tested against nil before its first dereference")
			case nilFreeInputs[k] != "":
				c.OK("yaml-nil-elements", key, r.Pos(), "nil-free input: "+nilFreeInputs[k])
			default:
				c.Bad("yaml-nil-elements", key, r.Pos(), fmt.Sprintf("loop over %s (%s) in %s dereferences the element without a nil test, and the input is not known to be nil-free: a `- null` / empty list item in the Taskfile makes Task panic with a nil pointer dereference", exprStr(r.X), types.TypeString(tv.Type, shortQual), fnDisplay(fb.Root())))
			}
			return true
		})
	}
	c.Floor("yaml-nil-elements", n, 10)
}

// lenOfNonEmptyPkgVar: e is len(V) (possibly converted) for a package-level variable V initialised with a non-empty composite literal and never assigned elsewhere.
func lenOfNonEmptyPkgVar(p *Prog, info *types.Info, e ast.Expr) string {
	e = ast.Unparen(e)
	if call, ok := e.(*ast.CallExpr); ok && len(call.Args) == 1 {
		if tv, ok := info.Types[call.Fun]; ok && tv.IsType() {
			e = ast.Unparen(call.Args[0])
		}
	}
	call, ok := e.(*ast.CallExpr)
	if !ok || len(call.Args) != 1 {
		return ""
	}
	if id, ok := call.Fun.(*ast.Ident); !ok || id.Name != "len" {
		return ""
	}
	var v *types.Var
	switch x := ast.Unparen(call.Args[0]).(type) {
	case *ast.Ident:
		v, _ = info.Uses[x].(*types.Var)
	case *ast.SelectorExpr:
		v, _ = info.Uses[x.Sel].(*types.Var)
	}
	if v == nil || v.Pkg() == nil || v.Parent() != v.Pkg().Scope() {
		return ""
	}
	pk := p.Pkgs[v.Pkg().Path()]
	if pk == nil {
		return ""
	}
	nonEmpty, assigned := false, false
	for _, f := range pk.Syntax {
		ast.Inspect(f, func(nd ast.Node) bool {
			switch s := nd.(type) {
			case *ast.ValueSpec:
				for i, id := range s.Names {
					if pk.TypesInfo.Defs[id] == v && i < len(s.Values) {
						if cl, ok := ast.Unparen(s.Values[i]).(*ast.CompositeLit); ok && len(cl.Elts) > 0 {
							nonEmpty = true
						}
					}
				}
			case *ast.AssignStmt:
				for _, l := range s.Lhs {
					if id, ok := ast.Unparen(l).(*ast.Ident); ok && pk.TypesInfo.Uses[id] == v {
						assigned = true
					}
				}
			}
			return true
		})
	}
	for _, other := range p.Pkgs {
		if other == pk {
			continue
		}
		for _, f := range other.Syntax {
			ast.Inspect(f, func(nd ast.Node) bool {
				if as, ok := nd.(*ast.AssignStmt); ok {
					for _, l := range as.Lhs {
						if sel, ok := ast.Unparen(l).(*ast.SelectorExpr); ok && other.TypesInfo.Uses[sel.Sel] == v {
							assigned = true
						}
					}
				}
				return true
			})
		}
	}
	if nonEmpty && !assigned {
		return v.Name()
	}
	return ""
}
