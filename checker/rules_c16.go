package main

import (
	"fmt"
	"go/ast"
	"go/token"
	"go/types"
	"regexp"
	"strconv"
	"strings"
)

func init() { register("C16", checkC16) }

// bceReviewed: the repository index/slice expressions the compiler's prove pass cannot discharge, each with the
// reason it cannot go out of range for any Taskfile / argument input. Key: function|expression.
// An expression that is not listed is an unreviewed potential panic.
// Key: package | shape of the expression, where local variables and parameters are replaced by their types
// (so that renaming a function, parameter or local does not matter). Value: how many such expressions are reviewed
// in that package and why they cannot go out of range.
type bceEntry struct {
	n      int
	reason string
	guard  string // optional: a fact kind that must dominate the expression ("nonempty" on the indexed operand)
}

var bceReviewed = map[string]bceEntry{
	"args|[]string[int:]":                                                  {1, "args[doubleDashPos:]: pflag.ArgsLenAtDash() is a position inside pflag.Args() (library post-condition); tested != -1 first", ""},
	"args|[]string[0]":                                                     {1, "strings.SplitN always returns at least one element", ""},
	"args|[]string[1]":                                                     {1, "the splitter is only called on the strings.Contains(arg, \"=\") edge (rule C19 splitvar), so SplitN(…, 2) yields two elements", ""},
	"task|os.Args[0]":                                                      {1, "process-level: os.Args always holds the program name; not Taskfile input", ""},
	"errors|*yaml.TypeError.Errors[0]":                                     {1, "yaml.TypeError is only constructed with at least one message; the > 1 case is handled by the other branch", ""},
	"task|*editors.Taskfile.Tasks[int]":                                    {2, "o.Tasks is made with len(tasks) and the index ranges over tasks", ""},
	"task|[]*ast.Task[int]":                                                {3, "index is the loop variable of a `for i := range tasks` over the same slice (closure per iteration)", ""},
	"internal/execext|[]*syntax.Word[0]":                                   {1, "guarded by the len(words) == 0 return just above", "nonempty"},
	"internal/flags|os.Args[1:]":                                           {1, "process-level: os.Args is never empty", ""},
	"internal/slicesext|[]T[int:]":                                         {1, "i is the running sum of copied lengths and r was made with the total length", ""},
	"internal/sort|[]string[int]":                                          {2, "sort callback: indices are supplied by sort.Slice over the same slice", ""},
	"internal/version|debug.BuildSetting.Value[:7]":                        {1, "build-info string (a VCS revision hash), not user input", ""},
	"task|*ast.Task.Cmds[int]":                                             {3, "the index is the loop variable of the cmds loop over the call-private compiled task, handed unchanged to the command runner / deferred-command runner (rules cmds-in-order, defer-registration)", ""},
	"taskfile/ast|[]string[0]":                                             {2, "topological order of a graph to which the reader always adds the root vertex first / strings.Split always returns at least one element", ""},
	"taskfile/ast|*yaml.Node.Content[int]":                                 {4, "i < len(node.Content) is the loop condition", ""},
	"taskfile/ast|*yaml.Node.Content[int + 1]":                             {4, "a yaml.v3 MappingNode always has an even number of Content entries (key/value pairs); only indexed under `case yaml.MappingNode`", ""},
	"taskfile/ast|*ast.Task.Aliases[int]":                                  {1, "index ranges over the same slice", ""},
	"taskfile|strings.Split(*url.URL.Path, \"//\")[0]":                     {1, "strings.Split always returns at least one element", ""},
	"taskfile|string[:int]":                                                {1, "i is strings.Index(uri, …) and was tested != -1", ""},
	"taskfile|[]string[*taskfile.Snippet.start - 1:*taskfile.Snippet.end]": {2, "both ends are clamped in NewSnippet: end = max(min(…, len(linesRaw)-1, len(linesHighlighted)), 0), start = min(max(…, 1), end+1)", ""},
	"taskfile|*taskfile.Snippet.linesRaw[int]":                             {1, "linesRaw and linesHighlighted are cut with the same bounds in NewSnippet, the index ranges over linesHighlighted", ""},
	"task|[]string[int]":                                                   {2, "keys[i]: itemsFromFor appends keys and values in lockstep (map case) so len(keys) == len(list) whenever keys is non-empty; guarded by len(keys) > 0", "nonempty"},
}

var bceSkipPkgs = map[string]bool{Mod + "/cmd/release": true, Mod + "/cmd/sleepit": true, Mod + "/cmd/tmp": true}

func checkC16(c *Check, a *Anchors) {
	c.NotDecided = []string{
		"termination of reading, merging, listing and compiling (no termination argument is attempted)",
		"nil-pointer dereferences other than the YAML-null element class and the checked-then-dereferenced contradictions; panics inside third-party libraries; stack or heap exhaustion",
	}
	c16BCE(c, a)
	c16OtherPanics(c, a)
	c16NilElements(c, a)
	nilContradictions(c, a, "checked-then-dereferenced", []string{PkgTask, PkgAst, PkgTaskfile})
	// a load error that is swallowed leaves a vertex without a parsed Taskfile in the graph (nil dereference later)
	c08CycleVersionMissing(c, a)
	lookupResultChecked(c, a)
	reflectFieldsSettable(c, a)
	containerValuesNonNil(c, a)
	fieldNotClobberedOnError(c, a, "field-not-clobbered-on-error")
	lockReleasedOnEveryExit(c, a, "lock-released-on-every-exit")
	errorsNotSwallowed(c, a)
	errorBranchExits(c, a, "error-branch-exits")
	noSlotHeldAcrossRecursion(c, a, "no-slot-held-across-recursion")
	deepCopyNilSafe(c, a, "deepcopy-nil-safe")
	reflectIsNilGuarded(c, a, "reflect-isnil-guarded")
	discardedErrorValueUsed(c, a, "discarded-error-value-used")
	pointerDefaultsAfterDecode(c, a)
	recursionReviewed(c, a, "recursion-reviewed") // termination of loading / merging / compiling: the recursions are the only unbounded construct besides the reviewed loops
}

func c16BCE(c *Check, a *Anchors) {
	c.Rule("bounds-reviewed", "every index / slice expression written in the repository that the Go compiler's prove pass cannot show in range (go build -gcflags=-d=ssa/check_bce/debug=1, re-run on every check) is one of the reviewed expressions (table: one reason per expression; some require a dominating guard fact); bounds checks that belong to library code inlined at a call are the library's own. A new unproven expression is an unreviewed potential panic")
	sites, err := runBCE(c.P)
	if err != nil {
		c.Errorf("bounds-reviewed: %v", err)
		return
	}
	nRepo, nInl := 0, 0
	ord := map[string]int{}
	flows := map[*FuncBody]*Flow{}
	used := map[string]int{}
	for _, s := range sites {
		if s.FB == nil || bceSkipPkgs[s.FB.Pkg.PkgPath] || strings.HasSuffix(s.File, "_mock.go") {
			continue
		}
		if s.Inlined || s.Node == nil {
			nInl++
			continue
		}
		nRepo++
		c.Fn(s.FB)
		pk := strings.TrimPrefix(strings.TrimPrefix(s.FB.Pkg.PkgPath, Mod), "/")
		if pk == "" {
			pk = "task"
		}
		if why := parallelMadeIndex(s.FB, s.Node); why != "" {
			c.OK("bounds-reviewed", ordinal(ord, pk+"|made-with-len-of-ranged-slice"), s.Node.Pos(), why)
			continue
		}
		k := pk + "|" + shapeOf(s.FB.Info(), s.Node.(ast.Expr))
		if _, listed := bceReviewed[k]; !listed {
			// the indexed slice bundled into a small struct of the package (`items.keys[i]` for `keys[i]`): the reviewed
			// entry of the same operand TYPE applies when it demands a guard, which is then checked on this operand
			if alt := bundleShape(s.FB, s.Node.(ast.Expr)); alt != "" {
				if e2, ok := bceReviewed[pk+"|"+alt]; ok && e2.guard != "" {
					k = pk + "|" + alt
				}
			}
		}
		key := ordinal(ord, k)
		ent, ok := bceReviewed[k]
		used[k]++
		if !ok || used[k] > ent.n {
			why := "the expression (shape " + k + ") is not in the reviewed table"
			if ok {
				why = fmt.Sprintf("only %d expression(s) of shape %s are reviewed; this is one more", ent.n, k)
			}
			c.Bad("bounds-reviewed", key, s.Node.Pos(), fmt.Sprintf("`%s` in %s: the compiler cannot prove this %s in range and %s — for some Taskfile, task name or argument it may panic with index/slice out of range", s.Expr, fnDisplay(s.FB), strings.ToLower(strings.TrimPrefix(s.Kind, "Is")), why))
			continue
		}
		if ent.guard != "" {
			f := flows[s.FB]
			if f == nil {
				f = NewFlow(c.P, s.FB, func(*ast.CallExpr, types.Object) string { return "" })
				f.NoInline = true
				f.Run()
				flows[s.FB] = f
			}
			var operand ast.Expr
			switch x := s.Node.(type) {
			case *ast.IndexExpr:
				operand = x.X
			case *ast.SliceExpr:
				operand = x.X
			}
			req := ent.guard + ":" + f.atomKey(operand, Facts{})
			if !factAtExpr(f, s.Node, req) {
				c.Bad("bounds-reviewed", key, s.Node.Pos(), fmt.Sprintf("`%s` in %s is reviewed as safe only under the guard `%s`, which no longer dominates it", s.Expr, fnDisplay(s.FB), req))
				continue
			}
		}
		c.OK("bounds-reviewed", key, s.Node.Pos(), "reviewed: "+ent.reason)
	}
	c.Sites += nRepo + nInl
	c.Extra["bce_repo_expressions"] = nRepo
	c.Extra["bce_inlined_library_checks"] = nInl
	c.Extra["bce_cmd"] = "go build -gcflags=" + Mod + "/...=-d=ssa/check_bce/debug=1 ./..."
	c.Floor("bounds-reviewed", nRepo, 25)
}

// factAtExpr: the fact holds at the innermost recorded statement containing the expression.
func factAtExpr(f *Flow, n ast.Node, req string) bool {
	best := Facts(nil)
	var bestNode ast.Node
	for node, st := range f.At {
		if node.Pos() <= n.Pos() && n.End() <= node.End() {
			if bestNode == nil || (node.End()-node.Pos()) < (bestNode.End()-bestNode.Pos()) {
				best, bestNode = st, node
			}
		}
	}
	return best != nil && best[req]
}

// shapeOf renders an index/slice expression with local variables and parameters replaced by their types.
func shapeOf(info *types.Info, e ast.Expr) string {
	var r func(e ast.Expr) string
	tstr := func(t types.Type) string { return types.TypeString(t, shortQual) }
	r = func(e ast.Expr) string {
		switch x := e.(type) {
		case *ast.ParenExpr:
			return "(" + r(x.X) + ")"
		case *ast.Ident:
			switch o := info.Uses[x].(type) {
			case *types.Var:
				if o.Pkg() != nil && o.Parent() == o.Pkg().Scope() {
					return o.Pkg().Name() + "." + o.Name()
				}
				return tstr(o.Type())
			case *types.Const, *types.Nil, *types.Builtin, *types.Func, *types.TypeName, *types.PkgName:
				return x.Name
			}
			if o, ok := info.Defs[x].(*types.Var); ok {
				return tstr(o.Type())
			}
			return x.Name
		case *ast.SelectorExpr:
			if id, ok := x.X.(*ast.Ident); ok {
				if _, isPkg := info.Uses[id].(*types.PkgName); isPkg {
					return id.Name + "." + x.Sel.Name
				}
			}
			return r(x.X) + "." + x.Sel.Name
		case *ast.IndexExpr:
			return r(x.X) + "[" + r(x.Index) + "]"
		case *ast.SliceExpr:
			lo, hi := "", ""
			if x.Low != nil {
				lo = r(x.Low)
			}
			if x.High != nil {
				hi = r(x.High)
			}
			return r(x.X) + "[" + lo + ":" + hi + "]"
		case *ast.BinaryExpr:
			return r(x.X) + " " + x.Op.String() + " " + r(x.Y)
		case *ast.UnaryExpr:
			return x.Op.String() + r(x.X)
		case *ast.StarExpr:
			return "*" + r(x.X)
		case *ast.BasicLit:
			return x.Value
		case *ast.CallExpr:
			var as []string
			for _, a := range x.Args {
				as = append(as, r(a))
			}
			return r(x.Fun) + "(" + strings.Join(as, ", ") + ")"
		}
		return exprStr(e)
	}
	return r(e)
}

var otherReviewed = map[string]string{
	"pkg internal/deepcopy|copy.Interface().(T)":         "the copy is created with reflect.New(original.Type()), so it has the static type T",
	"pkg taskfile|edge.Properties.Data.([]*ast.Include)": "edge data of the include graph is only ever written by the reader, as []*ast.Include",
	"taskfile.init|panic":                                "init-time registration of the embedded syntax-highlighting style / lexer; independent of user input",
	"taskfile.init#2|panic":                              "init-time registration of the embedded syntax-highlighting style / lexer; independent of user input",
}

func c16OtherPanics(c *Check, a *Anchors) {
	c.Rule("panic-sites-reviewed", "every other instruction that can panic by construction in repository code — single-value type assertions, Must*-style callees with a non-constant argument, explicit panic calls, integer division or remainder by a non-constant — is one of the reviewed sites (table with one reason each)")
	n := 0
	ord := map[string]int{}
	for _, fb := range c.P.Bodies() {
		if bceSkipPkgs[fb.Pkg.PkgPath] || strings.HasSuffix(c.P.Fset.Position(fb.Body.Pos()).Filename, "_mock.go") {
			continue
		}
		info := fb.Info()
		pm := parentMap(fb.Body)
		report := func(kind, expr string, pos token.Pos) {
			n++
			c.Fn(fb)
			k := fnDisplay(fb) + "|" + expr
			key := ordinal(ord, k)
			if kind == "panic" {
				k = fnDisplay(fb) + "|panic"
				key = ordinal(ord, k)
				if ord[k] > 1 {
					k = fmt.Sprintf("%s#%d|panic", fnDisplay(fb), ord[k])
				}
			}
			if reason, ok := otherReviewed[k]; ok {
				c.OK("panic-sites-reviewed", key, pos, "reviewed: "+reason)
				return
			}
			// reviewed per package and expression (the reason is about the value, not about the function it is written in)
			if reason, ok := otherReviewed["pkg "+strings.TrimPrefix(fb.Pkg.PkgPath, Mod+"/")+"|"+expr]; ok && kind != "panic" {
				c.OK("panic-sites-reviewed", ordinal(ord, "pkg "+strings.TrimPrefix(fb.Pkg.PkgPath, Mod+"/")+"|"+expr), pos, "reviewed: "+reason)
				return
			}
			if strings.HasPrefix(fnDisplay(fb), "taskfile.init") && kind == "panic" {
				c.OK("panic-sites-reviewed", key, pos, "reviewed: "+otherReviewed["taskfile.init|panic"])
				return
			}
			c.Bad("panic-sites-reviewed", key, pos, fmt.Sprintf("%s `%s` in %s can panic and is not in the reviewed table", kind, expr, fnDisplay(fb)))
		}
		inspectBody(fb.Body, func(nd ast.Node) bool {
			switch x := nd.(type) {
			case *ast.TypeAssertExpr:
				if x.Type == nil {
					return true // type switch
				}
				// comma-ok form?
				commaOK := false
				switch p := pm[x].(type) {
				case *ast.AssignStmt:
					if len(p.Lhs) == 2 && len(p.Rhs) == 1 {
						commaOK = true
					}
				case *ast.ValueSpec:
					if len(p.Names) == 2 {
						commaOK = true
					}
				}
				if !commaOK {
					report("single-value type assertion", exprStr(x), x.Pos())
				}
			case *ast.CallExpr:
				if isBuiltin(info, x, "panic") {
					report("panic", "panic", x.Pos())
					return true
				}
				if fn, ok := callee(info, x).(*types.Func); ok && strings.HasPrefix(fn.Name(), "Must") && fn.Pkg() != nil && !strings.HasPrefix(fn.Pkg().Path(), Mod) {
					constArgs := true
					for _, arg := range x.Args {
						if tv, ok := info.Types[arg]; !ok || tv.Value == nil {
							constArgs = false
						}
					}
					if !constArgs {
						// regexp.MustCompile of constants and regexp.QuoteMeta'd values only: the constant skeleton is compiled here,
						// with a literal in place of every quoted value — if that compiles, the call cannot panic
						if fn.Pkg().Path() == "regexp" && fn.Name() == "MustCompile" && len(x.Args) == 1 {
							sample, raw := "", ""
							for _, pc := range rxProvenance(info, fb, x.Args[0], 0) {
								switch pc.kind {
								case "const":
									sample += pc.text
								case "quoted":
									sample += "x"
								default:
									raw = pc.text
								}
							}
							if _, err := regexp.Compile(sample); raw == "" && err == nil {
								n++
								c.Fn(fb)
								c.OK("panic-sites-reviewed", ordinal(ord, "regexp.MustCompile(constants+QuoteMeta)@"+strings.TrimPrefix(fb.Pkg.PkgPath, Mod+"/")), x.Pos(), "the pattern consists of constants and regexp.QuoteMeta'd values; its skeleton "+strconv.Quote(sample)+" compiles")
								return true
							}
						}
						report("Must-call with a non-constant argument", fn.Pkg().Name()+"."+fn.Name(), x.Pos())
					}
				}
			case *ast.BinaryExpr:
				if x.Op == token.QUO || x.Op == token.REM {
					if tv, ok := info.Types[x.Y]; ok && tv.Value == nil && tv.Type != nil && isIntType(tv.Type) {
						if v := lenOfNonEmptyPkgVar(c.P, info, x.Y); v != "" {
							n++
							c.OK("panic-sites-reviewed", ordinal(ord, fnDisplay(fb)+"|"+x.Op.String()+" len("+v+")"), x.Pos(), "divisor is the length of the package-level literal "+v+", which is non-empty and never reassigned")
						} else {
							report("integer division by a non-constant", x.Op.String(), x.Pos())
						}
					}
				}
			}
			return true
		})
	}
	c.Floor("panic-sites-reviewed", n, 3)
	// the discharge of MustCompile depends on the quoting rule
	c15PatternLiteral(c, a)
}

// nilFreeInputs: loops over []*ast.T whose input cannot contain nil elements, with the producer that guarantees it.
var nilFreeInputs = map[string]string{
	"task.(*Executor).runDeps|Task.Deps":                          "ranges over the compiled task: the task compiler skips nil deps",
	"task.(*Executor).areTaskPreconditionsMet|Task.Preconditions": "compiled task: the task compiler skips nil preconditions",
	"pkg internal/fingerprint|Task.Generates":                     "every function of the fingerprint package receives the compiled task: templater.ReplaceGlobs drops nil globs",
	"pkg internal/fingerprint|Task.Sources":                       "every function of the fingerprint package receives the compiled task: templater.ReplaceGlobs drops nil globs",
	"pkg internal/summary|Task.Deps":                              "the summary printer receives the compiled task: the task compiler skips nil deps",
	"pkg internal/summary|Task.Cmds":                              "the summary printer receives the compiled task: the task compiler skips nil cmds",
	"task.(*Executor).registerWatchedDirs|Task.Deps":              "compiled task",
	"task.(*Executor).registerWatchedDirs|Task.Cmds":              "compiled task",
	"task.(*Executor).ListTasks|expr tasks":                       "result of GetTaskList: every element is a compiled task (address of a fresh literal) or a map value stored by Tasks.UnmarshalYAML as &v, never nil",
	"taskfile/ast.NewVars|param els":                              "variadic constructor arguments written in Go code, not decoded input",
	"taskfile/ast.NewTasks|param els":                             "variadic constructor arguments written in Go code",
	"taskfile/ast.NewIncludes|param els":                          "variadic constructor arguments written in Go code",
	"taskfile/ast.NewMatrix|param els":                            "variadic constructor arguments written in Go code",
}

func c16NilElements(c *Check, a *Anchors) {
	producing := map[*types.Func]bool{}
	builtSliceProducer = func(fn *types.Func) bool {
		h := c.P.DeclOf(fn)
		if h == nil || h.Decl == nil || !strings.HasPrefix(h.Pkg.PkgPath, Mod) || producing[fn] {
			return false
		}
		producing[fn] = true
		defer delete(producing, fn)
		rets := returnsOf(h.Body)
		if len(rets) == 0 {
			return false
		}
		for _, r := range rets {
			if len(r.Results) != 1 {
				return false
			}
			if isNilLit(h.Info(), r.Results[0]) {
				continue
			}
			if !builtFromDereferenced(h.Info(), h, r.Results[0]) {
				return false
			}
		}
		return true
	}
	c.Rule("yaml-nil-elements", "a YAML null inside a list decodes to a nil element of a []*T field of the ast types; every loop over such a slice that dereferences the element either tests the element against nil before the first dereference, or ranges over input that a named producer made nil-free (table)")
	n := 0
	ord := map[string]int{}
	for _, fb := range c.P.Bodies() {
		if !strings.HasPrefix(fb.Pkg.PkgPath, Mod) || bceSkipPkgs[fb.Pkg.PkgPath] {
			continue
		}
		info := fb.Info()
		inspectBody(fb.Body, func(nd ast.Node) bool {
			r, ok := nd.(*ast.RangeStmt)
			if !ok || r.Value == nil {
				return true
			}
			tv, ok := info.Types[r.X]
			if !ok {
				return true
			}
			sl, ok := tv.Type.Underlying().(*types.Slice)
			if !ok {
				return true
			}
			ptr, ok := sl.Elem().(*types.Pointer)
			if !ok {
				return true
			}
			nt := namedOf(ptr.Elem())
			if nt == nil || nt.Obj().Pkg() == nil || nt.Obj().Pkg().Path() != PkgAst {
				return true
			}
			el := varOf(info, r.Value)
			if el == nil {
				return true
			}
			// first dereference of the element and first nil test
			var firstDeref, firstTest token.Pos
			inspectDeep(r.Body, func(m ast.Node) bool {
				switch x := m.(type) {
				case *ast.SelectorExpr:
					if varOf(info, x.X) == el {
						if s := info.Selections[x]; s != nil && s.Kind() == types.FieldVal && (firstDeref == 0 || x.Pos() < firstDeref) {
							firstDeref = x.Pos()
						}
					}
				case *ast.BinaryExpr:
					if (x.Op == token.EQL || x.Op == token.NEQ) && varOf(info, x.X) == el && isNilExpr(info, ast.Unparen(x.Y)) && (firstTest == 0 || x.Pos() < firstTest) {
						firstTest = x.Pos()
					}
				}
				return true
			})
			if firstDeref == 0 {
				return true // element only passed along (e.g. to a nil-safe DeepCopy)
			}
			n++
			c.Fn(fb)
			src := "expr " + exprStr(r.X)
			if sel, ok := ast.Unparen(r.X).(*ast.SelectorExpr); ok {
				if s := info.Selections[sel]; s != nil {
					if on := namedOf(s.Recv()); on != nil {
						src = on.Obj().Name() + "." + sel.Sel.Name
					}
				}
			} else if v := varOf(info, r.X); v != nil && (isParamOf(info, fb, v) || isParamOf(info, fb.Root(), v)) {
				src = "param " + v.Name()
			}
			k := fnDisplay(fb.Root()) + "|" + src
			key := ordinal(ord, k)
			producer := ""
			if rv := rootVar(info, r.X); rv != nil {
				for _, d := range defsOf(info, fb.Root().Body, rv) {
					if call, ok := ast.Unparen(d).(*ast.CallExpr); ok {
						obj := callee(info, call)
						if isFunc(obj, PkgTask, "Executor", "CompiledTask") || isFunc(obj, PkgTask, "Executor", "FastCompiledTask") || a.is(obj, a.CompiledTask) || isFunc(obj, PkgTask, "Executor", "GetTaskList") {
							producer = calleeName(obj)
						}
					}
				}
			}
			anchored := (fb.Root() == a.DepRunner && src == "Task.Deps") || (fb.Root() == a.Preconditions && src == "Task.Preconditions")
			switch {
			case producer != "":
				c.OK("yaml-nil-elements", key, r.Pos(), "nil-free input: the ranged value comes from "+producer+" in this function (the task compiler skips nil cmds/deps/preconditions and ReplaceGlobs drops nil globs)")
			case anchored:
				c.OK("yaml-nil-elements", key, r.Pos(), "nil-free input: this function is only handed the compiled task by the task body")
			case firstTest != 0 && firstTest < firstDeref:
				c.OK("yaml-nil-elements", key, r.Pos(), "element tested against nil before its first dereference")
			case builtFromDereferenced(info, fb.Root(), r.X):
				c.OK("yaml-nil-elements", key, r.Pos(), "the slice is built in this function, by appending values that were already dereferenced when they were appended (so none of them is nil)")
			case nilFreeInputs[k] != "":
				c.OK("yaml-nil-elements", key, r.Pos(), "nil-free input: "+nilFreeInputs[k])
			case nilFreeInputs["pkg "+strings.TrimPrefix(fb.Pkg.PkgPath, Mod+"/")+"|"+src] != "":
				c.OK("yaml-nil-elements", key, r.Pos(), "nil-free input: "+nilFreeInputs["pkg "+strings.TrimPrefix(fb.Pkg.PkgPath, Mod+"/")+"|"+src])
			default:
				c.Bad("yaml-nil-elements", key, r.Pos(), fmt.Sprintf("loop over %s (%s) in %s dereferences the element without a nil test, and the input is not known to be nil-free: a `- null` / empty list item in the Taskfile makes Task panic with a nil pointer dereference", exprStr(r.X), types.TypeString(tv.Type, shortQual), fnDisplay(fb.Root())))
			}
			return true
		})
	}
	c.Floor("yaml-nil-elements", n, 10)
}

// lenOfNonEmptyPkgVar: e is len(V) (possibly converted) for a package-level variable V initialised with a non-empty composite literal and never assigned elsewhere.
func lenOfNonEmptyPkgVar(p *Prog, info *types.Info, e ast.Expr) string {
	e = ast.Unparen(e)
	if call, ok := e.(*ast.CallExpr); ok && len(call.Args) == 1 {
		if tv, ok := info.Types[call.Fun]; ok && tv.IsType() {
			e = ast.Unparen(call.Args[0])
		}
	}
	call, ok := e.(*ast.CallExpr)
	if !ok || len(call.Args) != 1 {
		return ""
	}
	if id, ok := call.Fun.(*ast.Ident); !ok || id.Name != "len" {
		return ""
	}
	var v *types.Var
	switch x := ast.Unparen(call.Args[0]).(type) {
	case *ast.Ident:
		v, _ = info.Uses[x].(*types.Var)
	case *ast.SelectorExpr:
		v, _ = info.Uses[x.Sel].(*types.Var)
	}
	if v == nil || v.Pkg() == nil || v.Parent() != v.Pkg().Scope() {
		return ""
	}
	pk := p.Pkgs[v.Pkg().Path()]
	if pk == nil {
		return ""
	}
	nonEmpty, assigned := false, false
	for _, f := range pk.Syntax {
		ast.Inspect(f, func(nd ast.Node) bool {
			switch s := nd.(type) {
			case *ast.ValueSpec:
				for i, id := range s.Names {
					if pk.TypesInfo.Defs[id] == v && i < len(s.Values) {
						if cl, ok := ast.Unparen(s.Values[i]).(*ast.CompositeLit); ok && len(cl.Elts) > 0 {
							nonEmpty = true
						}
					}
				}
			case *ast.AssignStmt:
				for _, l := range s.Lhs {
					if id, ok := ast.Unparen(l).(*ast.Ident); ok && pk.TypesInfo.Uses[id] == v {
						assigned = true
					}
				}
			}
			return true
		})
	}
	for _, other := range p.Pkgs {
		if other == pk {
			continue
		}
		for _, f := range other.Syntax {
			ast.Inspect(f, func(nd ast.Node) bool {
				if as, ok := nd.(*ast.AssignStmt); ok {
					for _, l := range as.Lhs {
						if sel, ok := ast.Unparen(l).(*ast.SelectorExpr); ok && other.TypesInfo.Uses[sel.Sel] == v {
							assigned = true
						}
					}
				}
				return true
			})
		}
	}
	if nonEmpty && !assigned {
		return v.Name()
	}
	return ""
}

// bundleShape: for `v.f[i]` where v is a local of an unexported struct type of the same package, the shape of `<type of v.f>[i]`.
func bundleShape(fb *FuncBody, e ast.Expr) string {
	info := fb.Info()
	ix, ok := ast.Unparen(e).(*ast.IndexExpr)
	if !ok {
		return ""
	}
	sel, ok := ast.Unparen(ix.X).(*ast.SelectorExpr)
	if !ok {
		return ""
	}
	v := varOf(info, sel.X)
	if v == nil || v.IsField() || (v.Parent() != nil && v.Pkg() != nil && v.Parent() == v.Pkg().Scope()) {
		return ""
	}
	nt := namedOf(v.Type())
	if nt == nil || nt.Obj().Exported() || nt.Obj().Pkg() == nil || nt.Obj().Pkg().Path() != fb.Pkg.PkgPath {
		return ""
	}
	if _, isStruct := nt.Underlying().(*types.Struct); !isStruct {
		return ""
	}
	tv, ok := info.Types[ix.X]
	if !ok {
		return ""
	}
	return types.TypeString(tv.Type, shortQual) + "[" + shapeOf(info, ix.Index) + "]"
}

// parallelMadeIndex: `s[i]` where i is the key of an enclosing `for i := range t` and s is a local slice whose only
// definition is make([]T, len(t)) — the two slices have the same length, so the index is in range by construction.
func parallelMadeIndex(fb *FuncBody, n ast.Node) string {
	ix, ok := n.(*ast.IndexExpr)
	if !ok {
		return ""
	}
	info := fb.Info()
	sv, iv := varOf(info, ix.X), varOf(info, ix.Index)
	if sv == nil || iv == nil || sv.IsField() {
		return ""
	}
	root := fb.Root()
	def := singleDef(root.Info(), root.Body, sv)
	if def == nil {
		return ""
	}
	mk, ok := ast.Unparen(def).(*ast.CallExpr)
	if !ok || !isBuiltin(info, mk, "make") || len(mk.Args) != 2 {
		return ""
	}
	ln, ok := ast.Unparen(mk.Args[1]).(*ast.CallExpr)
	if !ok || !isBuiltin(info, ln, "len") || len(ln.Args) != 1 {
		return ""
	}
	pm := parentMap(root.Body) // the loop may enclose the literal the expression is in (a closure per iteration)
	for p := pm[n]; p != nil; p = pm[p] {
		r, ok := p.(*ast.RangeStmt)
		if !ok || r.Key == nil || varOf(info, r.Key) != iv {
			continue
		}
		if exprStr(r.X) != exprStr(ln.Args[0]) {
			return ""
		}
		if tv := varOf(info, r.X); tv != nil && !tv.IsField() {
			// the ranged slice is not re-assigned between the make and the loop
			nAs := 0
			inspectDeep(root.Body, func(m ast.Node) bool {
				if as, ok := m.(*ast.AssignStmt); ok && as.Pos() > mk.Pos() && as.Pos() < r.End() {
					for _, l := range as.Lhs {
						if varOf(info, l) == tv {
							nAs++
						}
					}
				}
				return true
			})
			if nAs > 0 {
				return ""
			}
			return "`" + exprStr(ix.X) + "` is made with len(" + exprStr(r.X) + ") and the index is the key of the loop over " + exprStr(r.X)
		}
		if _, isSel := ast.Unparen(r.X).(*ast.SelectorExpr); isSel && rootVar(info, r.X) != nil {
			// a field path (`err.MissingVars`): nothing at all happens between the make and the loop — no assignment, no call
			// that could reach the field — so the header the loop copies is the one whose length was taken
			quiet := true
			inspectDeep(root.Body, func(m ast.Node) bool {
				if m == nil || m.Pos() <= mk.End() || m.Pos() >= r.Pos() {
					return true
				}
				switch m.(type) {
				case *ast.AssignStmt, *ast.CallExpr, *ast.IncDecStmt, *ast.GoStmt, *ast.SendStmt:
					quiet = false
				}
				return true
			})
			if quiet {
				return "`" + exprStr(ix.X) + "` is made with len(" + exprStr(r.X) + ") immediately before the loop over " + exprStr(r.X) + " whose key is the index"
			}
		}
		return ""
	}
	return ""
}

// builtFromDereferenced: e is a local slice of this function every definition of which is empty (var / nil / make with
// length 0) or an append, to itself, of variables that had a field selected before the append — a nil value would not have
// got that far.
func builtFromDereferenced(info *types.Info, root *FuncBody, e ast.Expr) bool {
	v := varOf(info, e)
	if v == nil || v.IsField() || isParamOf(info, root, v) || v.Parent() == v.Pkg().Scope() {
		return false
	}
	nApp := 0
	for _, d := range defsOf(info, root.Body, v) {
		d = ast.Unparen(d)
		if isNilLit(info, d) {
			continue
		}
		call, ok := d.(*ast.CallExpr)
		if !ok {
			return false
		}
		// the result of a function of the package every return of which hands back such a slice
		if fn, isFn := callee(info, call).(*types.Func); isFn && builtSliceProducer != nil {
			if builtSliceProducer(fn) {
				nApp++
				continue
			}
		}
		if isBuiltin(info, call, "make") {
			if len(call.Args) >= 2 && !constIs(info, call.Args[1], "0") {
				return false
			}
			continue
		}
		if !isBuiltin(info, call, "append") || len(call.Args) < 2 || varOf(info, call.Args[0]) != v || call.Ellipsis != token.NoPos {
			return false
		}
		for _, arg := range call.Args[1:] {
			av := varOf(info, arg)
			if av == nil {
				return false
			}
			deref := false
			inspectDeep(root.Body, func(m ast.Node) bool {
				if sel, ok := m.(*ast.SelectorExpr); ok && sel.Pos() < call.Pos() && varOf(info, sel.X) == av {
					if s := info.Selections[sel]; s != nil && s.Kind() == types.FieldVal && s.Indirect() {
						deref = true
					}
				}
				return true
			})
			if !deref {
				return false
			}
			nApp++
		}
	}
	return nApp > 0
}

// builtSliceProducer (set by the nil-elements rule): the function is declared in the module and every return of it yields a
// local slice that is builtFromDereferenced in it.
var builtSliceProducer func(fn *types.Func) bool

// pointerDefaultsAfterDecode: a default for a pointer-typed section survives an explicit YAML null only when it is applied
// after decoding.
func pointerDefaultsAfterDecode(c *Check, a *Anchors) {
	c.Rule("pointer-defaults-after-decode", "for every yaml Decode into a local struct in taskfile/ast: a pointer field of that struct that was given a non-nil default BEFORE the Decode is tested against nil after it (yaml.v3 assigns nil to a pointer field whose key is present with a null value — `tasks:` with nothing under it — so a default set before decoding does not survive, and Tasks.Merge, Vars.Merge … lock the mutex of the nil container)")
	n := 0
	ord := map[string]int{}
	for _, fb := range c.P.BodiesIn(PkgAst) {
		if fb.Decl == nil {
			continue
		}
		info := fb.Info()
		for _, call := range callsIn(fb, false) {
			fn, ok := callee(info, call).(*types.Func)
			if !ok || fn.Name() != "Decode" || fn.Pkg() == nil || !strings.HasSuffix(fn.Pkg().Path(), "yaml.v3") || len(call.Args) != 1 {
				continue
			}
			u, ok := ast.Unparen(call.Args[0]).(*ast.UnaryExpr)
			if !ok || u.Op != token.AND {
				continue
			}
			target := varOf(info, u.X)
			if target == nil || target.IsField() {
				continue
			}
			if _, isStruct := target.Type().Underlying().(*types.Struct); !isStruct {
				continue
			}
			n++
			c.Fn(fb)
			// non-nil defaults of pointer fields before the Decode
			var lost []string
			inspectBody(fb.Body, func(nd ast.Node) bool {
				as, ok := nd.(*ast.AssignStmt)
				if !ok || as.Pos() >= call.Pos() || len(as.Lhs) != len(as.Rhs) {
					return true
				}
				for i, l := range as.Lhs {
					sel, ok := ast.Unparen(l).(*ast.SelectorExpr)
					if !ok || varOf(info, sel.X) != target || isNilLit(info, as.Rhs[i]) {
						continue
					}
					if _, isPtr := typeOf(info, sel).Underlying().(*types.Pointer); !isPtr {
						continue
					}
					// tested against nil after the Decode (on the decode target or on whatever it is copied to)?
					tested := false
					inspectBody(fb.Body, func(m ast.Node) bool {
						be, ok := m.(*ast.BinaryExpr)
						if !ok || be.Pos() <= call.End() || (be.Op != token.EQL && be.Op != token.NEQ) {
							return true
						}
						for _, side := range []ast.Expr{be.X, be.Y} {
							if s2, ok := ast.Unparen(side).(*ast.SelectorExpr); ok && s2.Sel.Name == sel.Sel.Name {
								tested = true
							}
						}
						return true
					})
					if !tested {
						lost = append(lost, exprStr(sel))
					}
				}
				return true
			})
			c.Decide(len(lost) == 0, "pointer-defaults-after-decode", ordinal(ord, "decode@"+fnDisplay(fb)), call.Pos(), "no pointer default is set before the Decode without a nil test after it",
				"the default of "+strings.Join(lost, ", ")+" is assigned before the Decode and the field is not tested against nil afterwards: a key that is present with a null value (`tasks:` and nothing under it) leaves the field nil, and the merge / run code locks the mutex of a nil container — a panic for an input that is accepted today")
		}
	}
	c.Floor("pointer-defaults-after-decode", n, 5)
}
