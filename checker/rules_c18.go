package main

import (
	"fmt"
	"go/ast"
	"go/token"
	"go/types"
	"sort"
	"strings"
)

func init() { register("C18", checkC18) }

// fieldClass: every field of Executor and Compiler, and how concurrent access to it is made safe.
var fieldClass = map[string]string{
	// Executor: configuration, written by options / Setup before any task starts
	"Executor.Dir": "config", "Executor.Entrypoint": "config", "Executor.TempDir": "config", "Executor.Force": "config", "Executor.ForceAll": "config",
	"Executor.Insecure": "config", "Executor.Download": "config", "Executor.Offline": "config", "Executor.Timeout": "config", "Executor.CacheExpiryDuration": "config",
	"Executor.Watch": "config", "Executor.Verbose": "config", "Executor.Silent": "config", "Executor.AssumeYes": "config", "Executor.AssumeTerm": "config",
	"Executor.Dry": "config", "Executor.Summary": "config", "Executor.Parallel": "config", "Executor.Color": "config", "Executor.Concurrency": "config",
	"Executor.Interval": "config", "Executor.Stdin": "config", "Executor.Stdout": "config", "Executor.Stderr": "config", "Executor.Logger": "config",
	"Executor.Compiler": "config", "Executor.Output": "config", "Executor.OutputStyle": "config", "Executor.UserWorkingDir": "config",
	"Executor.EnableVersionCheck": "config", "Executor.fuzzyModel": "config", "Executor.Taskfile": "config",
	"Executor.TaskSorter":           "config (defaulted by the listing functions before their own goroutines start)",
	"Executor.concurrencySemaphore": "channel",
	"Executor.taskCallCount":        "map fixed at Setup; elements only through sync/atomic",
	"Executor.mkdirMutexMap":        "map fixed at Setup; elements are mutexes",
	"Executor.executionHashes":      "guarded by executionHashesMutex",
	"Executor.executionHashesMutex": "sync",
	"Executor.watchedDirs":          "xsync.MapOf (concurrent map)",
	// Compiler
	"Compiler.Dir": "config", "Compiler.Entrypoint": "config", "Compiler.UserWorkingDir": "config", "Compiler.TaskfileEnv": "config", "Compiler.TaskfileVars": "config",
	"Compiler.Logger": "config", "Compiler.dynamicCache": "guarded by muDynamicCache", "Compiler.muDynamicCache": "sync",
}

func checkC18(c *Check, a *Anchors) {
	c.NotDecided = []string{
		"races on memory outside the inventory (third-party internals, writers handed to user commands): this is a lockset / ownership discipline over the enumerated shared state, not a proof of race-freedom over all executions",
	}
	c18FieldsClassified(c, a)
	c18ConfigStable(c, a)
	c18AtomicCounter(c, a)
	c18CapturedWrites(c, a)
	definitionsReadOnly(c, a, "definitions-read-only")
	dedupAtomic(c, a, "execution-table-locked")
	atomicSection(c, a.HandleDynamicVar, PkgTask, "Compiler", "dynamicCache", "muDynamicCache", "dynamic-cache-locked", "every read and write of Compiler.dynamicCache happens under muDynamicCache")
	c17PrefixUnderLock(c, a)
	noInPlaceMutationOfShared(c, a, "no-in-place-mutation")
	copierNeverAliases(c, a)
	callObjectPerGoroutine(c, a)
	templatePerString(c, a)
	writerSerialised(c, a)
	c08CopyExhaustive(c, a) // a "copy" that keeps a mutable reference of the definition is state shared by every concurrent run of the task
	sharedWait(c, a)        // the recorded outcome is written before the completion signal (happens-before for the waiters' read)
	copyReturnsFresh(c, a, "copy-returns-fresh")
	c18CachePerGoroutine(c, a)
}

func c18FieldsClassified(c *Check, a *Anchors) {
	c.Rule("fields-classified", "every field of Executor and Compiler is classified as configuration (written only before the concurrent region), guarded by a named mutex, atomic, or a synchronisation type; an unclassified (new) field is reported")
	for _, tn := range []string{"Executor", "Compiler"} {
		t := c.P.NamedType(PkgTask, tn)
		if t == nil {
			c.Errorf("fields-classified: type %s not found", tn)
			continue
		}
		st := t.Underlying().(*types.Struct)
		for i := 0; i < st.NumFields(); i++ {
			f := st.Field(i)
			k := tn + "." + f.Name()
			cls, ok := fieldClass[k]
			if m := memoOf(c.P); !ok && m.Holder == f {
				// the memo in a struct of its own: nothing but the memo map and its mutex (the map is judged by dynamic-cache-locked)
				if inner, isSt := derefStruct(f.Type()); isSt && inner.NumFields() == 2 {
					cls, ok = "struct of {memo map, its mutex}; the map is guarded by that mutex", true
				}
			}
			c.Decide(ok, "fields-classified", k, f.Pos(), cls, "field "+k+" is not classified: it is shared by all concurrently running tasks, so it must be configuration-only, guarded by a lock, atomic or a concurrency-safe type")
		}
	}
}

// concurrentRegion: functions reachable from where goroutines run task code.
func concurrentRegion(c *Check, a *Anchors) []*FuncBody {
	reach := c.P.ReachableFrom([]*FuncBody{a.RunTask, a.GetTaskList, a.ToEditor}, nil)
	var fns []*FuncBody
	for fb := range reach {
		if fb.Decl != nil && strings.HasPrefix(fb.Pkg.PkgPath, Mod) {
			fns = append(fns, fb)
		}
	}
	sort.Slice(fns, func(i, j int) bool { return fnDisplay(fns[i]) < fnDisplay(fns[j]) })
	return fns
}

func c18ConfigStable(c *Check, a *Anchors) {
	c.Rule("config-stable", "no function reachable from RunTask or from the listing goroutines assigns a configuration field of Executor or Compiler (they are read without synchronisation by every running task); the only exception is the sorter defaulting done by the listing functions before they start goroutines")
	n := 0
	ord := map[string]int{}
	for _, root := range concurrentRegion(c, a) {
		for _, fb := range append([]*FuncBody{root}, allLits(root)...) {
			info := fb.Info()
			inspectBody(fb.Body, func(nd ast.Node) bool {
				var lhs []ast.Expr
				switch x := nd.(type) {
				case *ast.AssignStmt:
					lhs = x.Lhs
				case *ast.IncDecStmt:
					lhs = []ast.Expr{x.X}
				}
				for _, l := range lhs {
					for _, tn := range []string{"Executor", "Compiler"} {
						sel, ok := ast.Unparen(l).(*ast.SelectorExpr)
						if !ok || !fieldSel(info, sel, PkgTask, tn, sel.Sel.Name) {
							continue
						}
						k := tn + "." + sel.Sel.Name
						n++
						c.Fn(root)
						cls := fieldClass[k]
						key := ordinal(ord, "store "+k+"@"+fnDisplay(root))
						switch {
						case strings.HasPrefix(cls, "guarded") || cls == "sync" || cls == "channel":
							c.OK("config-stable", key, l.Pos(), "not a configuration field ("+cls+"); judged by its own lock rule")
						case k == "Executor.TaskSorter" && fb.Lit == nil:
							c.OK("config-stable", key, l.Pos(), fieldClass[k])
						case k == "Compiler.dynamicCache":
							c.OK("config-stable", key, l.Pos(), "guarded")
						default:
							c.Bad("config-stable", key, l.Pos(), "configuration field "+k+" is assigned in "+fnDisplay(root)+", which runs concurrently with tasks that read it without synchronisation")
						}
					}
				}
				return true
			})
		}
	}
	c.Floor("config-stable", n, 1)
}

func c18AtomicCounter(c *Check, a *Anchors) {
	c.Rule("counter-atomic", "in the concurrent region the elements of Executor.taskCallCount are touched only as arguments of sync/atomic operations")
	n := 0
	ord := map[string]int{}
	for _, root := range concurrentRegion(c, a) {
		for _, fb := range append([]*FuncBody{root}, allLits(root)...) {
			info := fb.Info()
			pm := parentMap(fb.Body)
			inspectBody(fb.Body, func(nd ast.Node) bool {
				ix, ok := nd.(*ast.IndexExpr)
				if !ok || !fieldSel(info, ix.X, PkgTask, "Executor", "taskCallCount") {
					return true
				}
				n++
				c.Fn(root)
				atomicUse := false
				for p := pm[ix]; p != nil; p = pm[p] {
					if call, ok := p.(*ast.CallExpr); ok {
						if fn, ok := callee(info, call).(*types.Func); ok && fn.Pkg() != nil && fn.Pkg().Path() == "sync/atomic" {
							atomicUse = true
						}
						break
					}
					if _, isStmt := p.(ast.Stmt); isStmt {
						break
					}
				}
				c.Decide(atomicUse, "counter-atomic", ordinal(ord, "taskCallCount@"+fnDisplay(root)), ix.Pos(), "argument of a sync/atomic operation", "an element of Executor.taskCallCount is read or written outside a sync/atomic call while tasks run concurrently")
				return true
			})
		}
	}
	c.Floor("counter-atomic", n, 1)
}

func c18CapturedWrites(c *Check, a *Anchors) {
	c.Rule("captured-writes", "a closure that runs as a goroutine (handed to errgroup.Go or started with `go`) assigns a variable it captured only when the target is an element indexed by that goroutine's own loop variable (distinct element per goroutine), a per-iteration loop variable, or the write happens under a held mutex")
	n := 0
	ord := map[string]int{}
	for _, fb := range c.P.Bodies() {
		if !strings.HasPrefix(fb.Pkg.PkgPath, Mod) || bceSkipPkgs[fb.Pkg.PkgPath] {
			continue
		}
		info := fb.Info()
		pm := (map[ast.Node]ast.Node)(nil)
		goLits := goroutineLits(info, fb.Root())
		inspectBody(fb.Body, func(nd ast.Node) bool {
			var lit *ast.FuncLit
			switch x := nd.(type) {
			case *ast.GoStmt:
				lit, _ = ast.Unparen(x.Call.Fun).(*ast.FuncLit)
			case *ast.CallExpr:
				if isFunc(callee(info, x), "golang.org/x/sync/errgroup", "Group", "Go") && len(x.Args) == 1 {
					lit, _ = ast.Unparen(x.Args[0]).(*ast.FuncLit)
				}
			}
			if lit == nil {
				return true
			}
			if pm == nil {
				pm = parentMap(fb.Body)
			}
			// loop variables of the loops enclosing the spawn
			loopVars := map[*types.Var]bool{}
			for p := pm[nd]; p != nil; p = pm[p] {
				switch l := p.(type) {
				case *ast.RangeStmt:
					for _, e := range []ast.Expr{l.Key, l.Value} {
						if e != nil {
							if v := varOf(info, e); v != nil {
								loopVars[v] = true
							}
						}
					}
				case *ast.ForStmt:
					if as, ok := l.Init.(*ast.AssignStmt); ok {
						for _, e := range as.Lhs {
							if v := varOf(info, e); v != nil {
								loopVars[v] = true
							}
						}
					}
				}
			}
			lb := c.P.LitBody(lit)
			fl := NewFlow(c.P, lb, func(call *ast.CallExpr, obj types.Object) string {
				if fn, ok := obj.(*types.Func); ok && (fn.Name() == "Lock" || fn.Name() == "Unlock") {
					return "mu." + fn.Name()
				}
				return ""
			})
			fl.Effect = func(label string, call *ast.CallExpr, st Facts) {
				if label == "mu.Lock" {
					st["held:any"] = true
				} else {
					delete(st, "held:any")
				}
			}
			fl.Run()
			inspectBody(lit.Body, func(m ast.Node) bool {
				as, ok := m.(*ast.AssignStmt)
				if !ok || as.Tok == token.DEFINE {
					return true
				}
				for _, l := range as.Lhs {
					rv := rootVar(info, l)
					if rv == nil || rv.Name() == "_" {
						continue
					}
					// declared inside the literal?
					if lit.Pos() <= rv.Pos() && rv.Pos() < lit.End() {
						continue
					}
					n++
					c.Fn(fb.Root())
					key := ordinal(ord, "write "+exprStr(l)+"@"+fnDisplay(lb))
					ok, why := false, ""
					switch {
					case loopVars[rv]:
						ok, why = true, "per-iteration loop variable (Go >= 1.22 semantics, go.mod says 1.23)"
					case fl.At[as].Has("held:any"):
						ok, why = true, "under a held mutex"
					case confinedTo(info, fb.Root(), rv, lit, nd, goLits):
						ok, why = true, "after the spawn the variable is accessed by this goroutine only"
					default:
						// x[i] = ... / x[i].f = ... with i a loop variable
						e := ast.Unparen(l)
						for {
							if sel, isSel := e.(*ast.SelectorExpr); isSel {
								e = ast.Unparen(sel.X)
								continue
							}
							break
						}
						if ix, isIx := e.(*ast.IndexExpr); isIx {
							if iv := varOf(info, ix.Index); iv != nil && loopVars[iv] {
								ok, why = true, "element indexed by the goroutine's own loop variable"
							}
						}
					}
					c.Decide(ok, "captured-writes", key, l.Pos(), why, fmt.Sprintf("the goroutine closure %s assigns the captured variable `%s` without a lock and not through its own element: concurrent goroutines write the same memory", fnDisplay(lb), exprStr(l)))
				}
				return true
			})
			return true
		})
	}
	c.Floor("captured-writes", n, 3)
}

// goroutineLits: the function literals of a declaration that are started as goroutines.
func goroutineLits(info *types.Info, root *FuncBody) map[*ast.FuncLit]bool {
	out := map[*ast.FuncLit]bool{}
	ast.Inspect(root.Body, func(nd ast.Node) bool {
		switch x := nd.(type) {
		case *ast.GoStmt:
			if l, ok := ast.Unparen(x.Call.Fun).(*ast.FuncLit); ok {
				out[l] = true
			}
		case *ast.CallExpr:
			if isFunc(callee(info, x), "golang.org/x/sync/errgroup", "Group", "Go") && len(x.Args) == 1 {
				if l, ok := ast.Unparen(x.Args[0]).(*ast.FuncLit); ok {
					out[l] = true
				}
			}
		}
		return true
	})
	return out
}

// confinedTo: every use of v is inside the goroutine literal `lit` itself (not in goroutines nested in it), or in non-goroutine code before the spawn.
func confinedTo(info *types.Info, root *FuncBody, v *types.Var, lit *ast.FuncLit, spawn ast.Node, goLits map[*ast.FuncLit]bool) bool {
	ok := true
	var stack []ast.Node
	ast.Inspect(root.Body, func(nd ast.Node) bool {
		if nd == nil {
			stack = stack[:len(stack)-1]
			return true
		}
		stack = append(stack, nd)
		id, isId := nd.(*ast.Ident)
		if !isId || (info.Uses[id] != v && info.Defs[id] != v) {
			return true
		}
		var owner *ast.FuncLit
		for i := len(stack) - 1; i >= 0; i-- {
			if l, isLit := stack[i].(*ast.FuncLit); isLit && goLits[l] {
				owner = l
				break
			}
		}
		switch {
		case owner == lit:
		case owner == nil:
			if id.Pos() > spawn.Pos() {
				ok = false
			}
		default:
			ok = false
		}
		return true
	})
	return ok
}

// c18CachePerGoroutine: a templater.Cache is a single-goroutine object (lazily built map, sticky error written on every use).
func c18CachePerGoroutine(c *Check, a *Anchors) {
	c.Rule("templater-cache-per-goroutine", "no function literal that is started as a goroutine (go statement, errgroup.Go) uses a templater.Cache variable of the enclosing function: the cache builds its map lazily and writes its error field on every Replace without a lock, so a cache hoisted out of the loop that spawns the goroutines is written by all of them (and one goroutine's template error leaks into its siblings' results)")
	n := 0
	ord := map[string]int{}
	for _, lit := range c.P.Bodies() {
		if lit.Lit == nil || !strings.HasPrefix(lit.Pkg.PkgPath, Mod) || bceSkipPkgs[lit.Pkg.PkgPath] {
			continue
		}
		root := lit.Root()
		rinfo := root.Info()
		spawned := false
		inspectDeep(root.Body, func(nd ast.Node) bool {
			switch x := nd.(type) {
			case *ast.GoStmt:
				if fl, ok := ast.Unparen(x.Call.Fun).(*ast.FuncLit); ok && fl == lit.Lit {
					spawned = true
				}
			case *ast.CallExpr:
				if isFunc(callee(rinfo, x), "golang.org/x/sync/errgroup", "Group", "Go") && len(x.Args) == 1 {
					if fl, ok := ast.Unparen(x.Args[0]).(*ast.FuncLit); ok && fl == lit.Lit {
						spawned = true
					}
				}
			}
			return true
		})
		if !spawned {
			continue
		}
		n++
		info := lit.Info()
		seen := map[*types.Var]bool{}
		inspectDeep(lit.Body, func(nd ast.Node) bool {
			id, ok := nd.(*ast.Ident)
			if !ok {
				return true
			}
			v, ok := info.Uses[id].(*types.Var)
			if !ok || v.IsField() || seen[v] || !isNamed(v.Type(), PkgTemplater, "Cache") {
				return true
			}
			if v.Pos() >= lit.Body.Pos() && v.Pos() <= lit.Body.End() {
				return true // the goroutine's own cache
			}
			seen[v] = true
			c.Fn(root)
			c.Bad("templater-cache-per-goroutine", ordinal(ord, "captured "+v.Name()+"@"+fnDisplay(root)), id.Pos(), "the goroutine started in "+fnDisplay(root)+" uses the templater.Cache `"+v.Name()+"` of the enclosing function: every goroutine of the loop writes the same cache (data race on its map and error; a template error of one leaks into the others)")
			return true
		})
	}
	if n == 0 {
		c.Errorf("templater-cache-per-goroutine: no spawned function literal found")
		return
	}
	c.OK("templater-cache-per-goroutine", "spawned-literals", 0, fmt.Sprintf("%d spawned function literal(s) inspected", n))
}

func derefStruct(t types.Type) (*types.Struct, bool) {
	if pt, ok := t.Underlying().(*types.Pointer); ok {
		t = pt.Elem()
	}
	st, ok := t.Underlying().(*types.Struct)
	return st, ok
}
