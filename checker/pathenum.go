package main

// Engine PE, "enum" mode: explicit enumeration of the paths of one go/ssa function
// with boolean atoms. Branch conditions are turned into formulas over atoms
// (field loads keyed by owner type and field, call results keyed by callee,
// nil tests, emptiness tests); a path carries a consistent valuation of the
// atoms it tested, the ordered list of events (calls, defers, go, sends,
// receives, stores the rule asks for) and the classified return values.
// No solver: an infeasible path that survives can only make a rule stricter.

import (
	"fmt"
	"go/constant"
	"go/token"
	"go/types"
	"sort"
	"strings"

	"golang.org/x/tools/go/ssa"
)

type BX struct {
	Op   byte // 'c' const, 'a' atom, '!' not, '&' and, '|' or
	C    bool
	A    string
	X, Y *BX
}

func bxConst(b bool) *BX  { return &BX{Op: 'c', C: b} }
func bxAtom(a string) *BX { return &BX{Op: 'a', A: a} }
func bxNot(x *BX) *BX     { return &BX{Op: '!', X: x} }
func bxAnd(x, y *BX) *BX  { return &BX{Op: '&', X: x, Y: y} }
func bxOr(x, y *BX) *BX   { return &BX{Op: '|', X: x, Y: y} }
func (b *BX) String() string {
	switch b.Op {
	case 'c':
		return fmt.Sprint(b.C)
	case 'a':
		return b.A
	case '!':
		return "!" + b.X.String()
	case '&':
		return "(" + b.X.String() + " && " + b.Y.String() + ")"
	default:
		return "(" + b.X.String() + " || " + b.Y.String() + ")"
	}
}

// Eval evaluates under a partial assignment; unknown names the first unassigned atom when not known.
func (b *BX) Eval(asg map[string]bool) (val, known bool, unknown string) {
	switch b.Op {
	case 'c':
		return b.C, true, ""
	case 'a':
		v, ok := asg[b.A]
		if !ok {
			return false, false, b.A
		}
		return v, true, ""
	case '!':
		v, k, u := b.X.Eval(asg)
		return !v, k, u
	case '&':
		xv, xk, xu := b.X.Eval(asg)
		if xk && !xv {
			return false, true, ""
		}
		yv, yk, yu := b.Y.Eval(asg)
		if yk && !yv {
			return false, true, ""
		}
		if xk && yk {
			return true, true, ""
		}
		if !xk {
			return false, false, xu
		}
		return false, false, yu
	default:
		xv, xk, xu := b.X.Eval(asg)
		if xk && xv {
			return true, true, ""
		}
		yv, yk, yu := b.Y.Eval(asg)
		if yk && yv {
			return true, true, ""
		}
		if xk && yk {
			return false, true, ""
		}
		if !xk {
			return false, false, xu
		}
		return false, false, yu
	}
}

func (b *BX) Atoms(into map[string]bool) {
	switch b.Op {
	case 'a':
		into[b.A] = true
	case '!':
		b.X.Atoms(into)
	case '&', '|':
		b.X.Atoms(into)
		b.Y.Atoms(into)
	}
}

type PEvent struct {
	Label string
	Kind  string // call, defer, go, send, recv, store, rundefers, mapupdate, assume
	Instr ssa.Instruction
	Val   bool // for assume events
	Depth int  // inlining depth of the frame that produced the event
}

type Path struct {
	Asg    map[string]bool
	Events []PEvent
	Ret    *ssa.Return
	Panic  bool
	Blocks []int
	Out    []string // classified results
	OutBX  []*BX    // boolean results as residual formulas (nil when not boolean)
}

func (p *Path) String() string {
	var as []string
	for k, v := range p.Asg {
		if v {
			as = append(as, k)
		} else {
			as = append(as, "!"+k)
		}
	}
	sort.Strings(as)
	var ev []string
	for _, e := range p.Events {
		if e.Kind == "assume" {
			continue
		}
		ev = append(ev, e.Kind+":"+e.Label)
	}
	return fmt.Sprintf("[%s] events=%v -> %v", strings.Join(as, " "), ev, p.Out)
}

// HasEvent reports whether the path has an event with that label (and kind, if non-empty).
func (p *Path) HasEvent(label, kind string) bool { return p.EventIndex(label, kind) >= 0 }

func (p *Path) EventIndex(label, kind string) int {
	for i, e := range p.Events {
		if e.Label == label && (kind == "" || e.Kind == kind) {
			return i
		}
	}
	return -1
}

type PathEnum struct {
	Fn *ssa.Function
	// Event labels an instruction ("" = not recorded).
	Event func(in ssa.Instruction) (label, kind string)
	// EventR is like Event but also gets a resolver (phis, inlined parameters, tracked cells) valid at that point of the path.
	EventR func(in ssa.Instruction, resolve func(ssa.Value) ssa.Value) (label, kind string)
	// Name overrides the default atom/value key of a value ("" = default).
	Name       func(v ssa.Value) string
	MaxRevisit int
	Budget     int
	MaxDepth   int      // virtual inlining depth for small same-package helpers (default 2)
	cur        *peState // state in which the naming hook is being called (see key)
	NoInline   bool     // disable virtual inlining
	Inlined    int      // helper activations inlined (statistics)
	named      map[*ssa.Function]bool

	Paths     []*Path
	Truncated bool
	depth     int
	callOrd   map[ssa.Value]string
	atomBlock map[string]map[*ssa.BasicBlock]bool
	// NonNilTables: keys of lookup atoms ("lookup(field:T.f)") of maps into which only non-nil values are ever stored
	NonNilTables map[string]bool
}

type peState struct {
	asg    map[string]bool
	events []PEvent
	blocks []int
	visits map[*ssa.BasicBlock]int
	env    map[ssa.Value]ssa.Value             // parameters of inlined helpers -> arguments; inlined calls -> returned value
	tuple  map[ssa.Value][]ssa.Value           // inlined calls with several results
	pred   map[*ssa.BasicBlock]*ssa.BasicBlock // latest predecessor through which a block was entered
	mem    map[*ssa.Alloc]ssa.Value            // last value stored into a local cell on this path (defer-spilled results, captured locals)
}

func (s *peState) clone() *peState {
	c := &peState{asg: make(map[string]bool, len(s.asg)), visits: make(map[*ssa.BasicBlock]int, len(s.visits)), pred: make(map[*ssa.BasicBlock]*ssa.BasicBlock, len(s.pred)), mem: make(map[*ssa.Alloc]ssa.Value, len(s.mem)),
		env: make(map[ssa.Value]ssa.Value, len(s.env)), tuple: make(map[ssa.Value][]ssa.Value, len(s.tuple))}
	for k, v := range s.mem {
		c.mem[k] = v
	}
	for k, v := range s.env {
		c.env[k] = v
	}
	for k, v := range s.tuple {
		c.tuple[k] = v
	}
	for k, v := range s.asg {
		c.asg[k] = v
	}
	for k, v := range s.visits {
		c.visits[k] = v
	}
	for k, v := range s.pred {
		c.pred[k] = v
	}
	c.events = append([]PEvent(nil), s.events...)
	c.blocks = append([]int(nil), s.blocks...)
	return c
}

// peFrame is one activation in the (virtually inlined) call stack of a path.
type peFrame struct {
	fn       *ssa.Function
	call     *ssa.Call // call site in the caller (nil for the root)
	retBlock *ssa.BasicBlock
	retIdx   int
	parent   *peFrame
	depth    int
}

func (pe *PathEnum) nameCalls(fn *ssa.Function, suffix string) {
	if pe.named[fn] {
		return
	}
	pe.named[fn] = true
	count := map[string]int{}
	for _, b := range fn.Blocks {
		for _, in := range b.Instrs {
			if c, ok := in.(*ssa.Call); ok {
				n := shortCallee(c.Common())
				count[n]++
				if count[n] == 1 {
					pe.callOrd[c] = n + suffix
				} else {
					pe.callOrd[c] = fmt.Sprintf("%s~%d%s", n, count[n], suffix)
				}
			}
		}
	}
}

func (pe *PathEnum) Run() *PathEnum {
	if pe.Budget == 0 {
		pe.Budget = 200000
	}
	if pe.MaxDepth == 0 {
		pe.MaxDepth = 2
	}
	pe.callOrd = map[ssa.Value]string{}
	pe.named = map[*ssa.Function]bool{}
	pe.atomBlock = map[string]map[*ssa.BasicBlock]bool{}
	pe.nameCalls(pe.Fn, "")
	if len(pe.Fn.Blocks) == 0 {
		return pe
	}
	st := &peState{asg: map[string]bool{}, visits: map[*ssa.BasicBlock]int{}, pred: map[*ssa.BasicBlock]*ssa.BasicBlock{}, mem: map[*ssa.Alloc]ssa.Value{},
		env: map[ssa.Value]ssa.Value{}, tuple: map[ssa.Value][]ssa.Value{}}
	pe.walk(&peFrame{fn: pe.Fn}, pe.Fn.Blocks[0], 0, nil, st)
	return pe
}

// inlinable: a small declared function of the same package whose call is not itself an event of the rule.
func (pe *PathEnum) inlinable(fr *peFrame, call *ssa.Call) *ssa.Function {
	if pe.NoInline || fr.depth >= pe.MaxDepth {
		return nil
	}
	f := call.Common().StaticCallee()
	if f == nil || len(f.Blocks) == 0 || len(f.Blocks) > 30 || f.Parent() != nil || f.Pkg == nil || pe.Fn.Package() == nil || f.Pkg != pe.Fn.Package() {
		return nil
	}
	if pe.Event != nil {
		if l, _ := pe.Event(call); l != "" {
			return nil
		}
	}
	if pe.EventR != nil {
		if l, _ := pe.EventR(call, func(v ssa.Value) ssa.Value { return v }); l != "" {
			return nil
		}
	}
	for p := fr; p != nil; p = p.parent {
		if p.fn == f {
			return nil // recursion
		}
	}
	return f
}

func (pe *PathEnum) walk(fr *peFrame, b *ssa.BasicBlock, idx int, from *ssa.BasicBlock, st *peState) {
	if pe.Truncated {
		return
	}
	if idx == 0 {
		if st.visits[b] > pe.MaxRevisit {
			return // path abandoned: loop bound reached
		}
		st.visits[b]++
		if fr.depth == 0 {
			st.blocks = append(st.blocks, b.Index)
		}
		if from != nil {
			st.pred[b] = from
		}
		// results produced in this block are new values on re-entry
		if st.visits[b] > 1 {
			for a, blks := range pe.atomBlock {
				if blks[b] {
					delete(st.asg, a)
				}
			}
		}
	}
	for i := idx; i < len(b.Instrs); i++ {
		in := b.Instrs[i]
		if call, ok := in.(*ssa.Call); ok {
			if f := pe.inlinable(fr, call); f != nil {
				pe.nameCalls(f, "@"+f.Name())
				pe.Inlined++
				for j, p := range f.Params {
					if j < len(call.Common().Args) {
						st.env[p] = pe.resolve(call.Common().Args[j], st)
					}
				}
				for _, fb := range f.Blocks {
					delete(st.visits, fb)
				}
				pe.walk(&peFrame{fn: f, call: call, retBlock: b, retIdx: i + 1, parent: fr, depth: fr.depth + 1}, f.Blocks[0], 0, nil, st)
				return
			}
		}
		if pe.Event != nil {
			if l, k := pe.Event(in); l != "" {
				st.events = append(st.events, PEvent{Label: l, Kind: k, Instr: in, Depth: fr.depth})
			}
		}
		if pe.EventR != nil {
			if l, k := pe.EventR(in, func(v ssa.Value) ssa.Value { return pe.resolve(v, st) }); l != "" {
				st.events = append(st.events, PEvent{Label: l, Kind: k, Instr: in, Depth: fr.depth})
			}
		}
		switch x := in.(type) {
		case *ssa.Store:
			if a, ok := x.Addr.(*ssa.Alloc); ok {
				st.mem[a] = pe.resolve(x.Val, st)
			}
		case *ssa.Return:
			if fr.parent != nil {
				// return from an inlined helper: bind the call's value(s) and resume the caller
				var vals []ssa.Value
				for _, r := range x.Results {
					vals = append(vals, pe.resolve(r, st))
				}
				if len(vals) == 1 {
					st.env[fr.call] = vals[0]
				} else if len(vals) > 1 {
					st.tuple[fr.call] = vals
				}
				pe.walk(fr.parent, fr.retBlock, fr.retIdx, nil, st)
				return
			}
			p := &Path{Asg: st.asg, Events: st.events, Ret: x, Blocks: st.blocks}
			for _, r := range x.Results {
				p.Out = append(p.Out, pe.classify(r, st))
				if isBool(r.Type()) {
					p.OutBX = append(p.OutBX, pe.cond(r, st))
				} else {
					p.OutBX = append(p.OutBX, nil)
				}
			}
			pe.emit(p)
			return
		case *ssa.Panic:
			pe.emit(&Path{Asg: st.asg, Events: st.events, Panic: true, Blocks: st.blocks})
			return
		case *ssa.If:
			pe.branch(fr, b, pe.cond(x.Cond, st), st)
			return
		case *ssa.Jump:
			pe.walk(fr, b.Succs[0], 0, b, st)
			return
		}
	}
	// blocks ending in other terminators (e.g. unreachable)
	for _, s := range b.Succs {
		pe.walk(fr, s, 0, b, st.clone())
	}
}

// resolve follows phis (along the path) and loads of tracked local cells.
func (pe *PathEnum) resolve(v ssa.Value, st *peState) ssa.Value {
	for i := 0; i < 20 && st != nil; i++ {
		if m, ok := st.env[v]; ok && m != v {
			v = m
			continue
		}
		switch x := v.(type) {
		case *ssa.Extract:
			if t, ok := st.tuple[x.Tuple]; ok && x.Index < len(t) {
				v = t[x.Index]
				continue
			}
		case *ssa.Phi:
			if e := pe.phiEdge(x, st); e != nil && e != ssa.Value(x) {
				v = e
				continue
			}
		case *ssa.UnOp:
			if x.Op == token.MUL {
				if a, ok := x.X.(*ssa.Alloc); ok {
					if m, ok := st.mem[a]; ok && m != v {
						v = m
						continue
					}
				}
			}
		}
		break
	}
	return v
}

func (pe *PathEnum) emit(p *Path) {
	pe.Paths = append(pe.Paths, p)
	if len(pe.Paths) >= pe.Budget {
		pe.Truncated = true
	}
}

func (pe *PathEnum) branch(fr *peFrame, b *ssa.BasicBlock, f *BX, st *peState) {
	v, known, unk := f.Eval(st.asg)
	if known {
		if v {
			pe.walk(fr, b.Succs[0], 0, b, st)
		} else {
			pe.walk(fr, b.Succs[1], 0, b, st)
		}
		return
	}
	for _, val := range []bool{true, false} {
		c := st.clone()
		c.asg[unk] = val
		c.events = append(c.events, PEvent{Label: unk, Kind: "assume", Val: val})
		// comma-ok lookups in a table that only ever stores non-nil values: found <=> the value is non-nil
		if infeasible := pe.lookupImplication(unk, val, c.asg); infeasible {
			continue
		}
		// implication table: isexit(K) / is(K, target) true  =>  K != nil
		if val {
			if k := impliedNonNil(unk); k != "" {
				if v, ok := c.asg["nil("+k+")"]; ok && v {
					continue // infeasible: K was established nil on this path
				}
				c.asg["nil("+k+")"] = false
			}
		}
		pe.branch(fr, b, f, c)
	}
}

// impliedNonNil: atoms whose truth implies that their first operand is non-nil.
func impliedNonNil(atom string) string {
	for _, p := range []string{"isexit(", "is("} {
		if strings.HasPrefix(atom, p) && strings.HasSuffix(atom, ")") {
			inner := atom[len(p) : len(atom)-1]
			depth := 0
			for i, r := range inner {
				switch r {
				case '(':
					depth++
				case ')':
					depth--
				case ',':
					if depth == 0 {
						return inner[:i]
					}
				}
			}
			return inner
		}
	}
	return ""
}

func isBool(t types.Type) bool {
	b, ok := t.Underlying().(*types.Basic)
	return ok && b.Info()&types.IsBoolean != 0
}

// cond converts a boolean ssa value into a formula over atoms, resolving phis along the path.
func (pe *PathEnum) cond(v ssa.Value, st *peState) *BX {
	v = pe.resolve(v, st)
	if pe.Name != nil {
		saved := pe.cur
		if st != nil {
			pe.cur = st
		}
		n := pe.Name(v)
		pe.cur = saved
		if n != "" {
			return pe.atom(n, v)
		}
	}
	switch x := v.(type) {
	case *ssa.Const:
		if x.Value != nil && x.Value.Kind() == constant.Bool {
			return bxConst(constant.BoolVal(x.Value))
		}
	case *ssa.UnOp:
		if x.Op == token.NOT {
			return bxNot(pe.cond(x.X, st))
		}
	case *ssa.Phi:
		if e := pe.phiEdge(x, st); e != nil && e != ssa.Value(x) && pe.depth < 30 {
			pe.depth++
			f := pe.cond(e, st)
			pe.depth--
			return f
		}
	case *ssa.BinOp:
		switch x.Op {
		case token.EQL, token.NEQ:
			a, b := pe.resolve(x.X, st), pe.resolve(x.Y, st)
			if isNilConst(a) {
				a, b = b, a
			}
			var f *BX
			switch {
			case isNilConst(b) && isNilConst(a):
				f = bxConst(true)
			case isNilConst(b) && knownNonNil(a):
				f = bxConst(false)
			case isNilConst(b):
				f = pe.atom("nil("+pe.key(a, st)+")", a)
			case isBool(a.Type()):
				// bool == bool
				fa, fb := pe.cond(a, st), pe.cond(b, st)
				f = bxOr(bxAnd(fa, fb), bxAnd(bxNot(fa), bxNot(fb)))
			default:
				if lenArg, isLen := lenOf(a); isLen && isZeroConst(b) {
					f = pe.atom("empty("+pe.key(lenArg, st)+")", a)
				} else if cb, ok := b.(*ssa.Const); ok {
					f = pe.atom("eq("+pe.key(a, st)+","+constStr(cb)+")", a)
				} else if ca, ok := a.(*ssa.Const); ok {
					f = pe.atom("eq("+pe.key(b, st)+","+constStr(ca)+")", b)
				} else {
					f = pe.atom("eq("+pe.key(a, st)+","+pe.key(b, st)+")", a)
				}
			}
			if x.Op == token.NEQ {
				return bxNot(f)
			}
			return f
		case token.GTR, token.LSS, token.GEQ, token.LEQ:
			// len(x) > 0, 0 < len(x), len(x) >= 1 are "not empty"
			if lenArg, isLen := lenOf(x.X); isLen && x.Op == token.GTR && isZeroConst(x.Y) {
				return bxNot(pe.atom("empty("+pe.key(lenArg, st)+")", x.X))
			}
			if lenArg, isLen := lenOf(x.Y); isLen && x.Op == token.LSS && isZeroConst(x.X) {
				return bxNot(pe.atom("empty("+pe.key(lenArg, st)+")", x.Y))
			}
			return pe.atom(fmt.Sprintf("cmp(%s %s %s)", pe.key(x.X, st), x.Op, pe.key(x.Y, st)), x)
		}
	}
	return pe.atom(pe.key(v, st), v)
}

func (pe *PathEnum) atom(name string, def ssa.Value) *BX {
	var blk *ssa.BasicBlock
	switch d := def.(type) {
	case *ssa.Extract:
		if ti, ok := d.Tuple.(ssa.Instruction); ok {
			blk = ti.Block()
		}
	default:
		if in, ok := def.(ssa.Instruction); ok {
			blk = in.Block()
		}
	}
	if blk != nil {
		if pe.atomBlock[name] == nil {
			pe.atomBlock[name] = map[*ssa.BasicBlock]bool{}
		}
		pe.atomBlock[name][blk] = true
	}
	return bxAtom(name)
}

func (pe *PathEnum) phiEdge(x *ssa.Phi, st *peState) ssa.Value {
	pred := st.pred[x.Block()]
	if pred == nil {
		return nil
	}
	for i, p := range x.Block().Preds {
		if p == pred {
			return x.Edges[i]
		}
	}
	return nil
}

// knownNonNil: values that are non-nil by construction.
func knownNonNil(v ssa.Value) bool {
	switch x := v.(type) {
	case *ssa.MakeInterface:
		if _, isAlloc := x.X.(*ssa.Alloc); isAlloc {
			return true
		}
		return isNamedStruct(x.X.Type())
	case *ssa.Alloc, *ssa.MakeClosure, *ssa.Function, *ssa.MakeMap, *ssa.MakeChan, *ssa.MakeSlice:
		return true
	}
	return false
}

func isNilConst(v ssa.Value) bool {
	c, ok := v.(*ssa.Const)
	return ok && c.Value == nil && !isBasicConstType(c.Type())
}

func isBasicConstType(t types.Type) bool {
	_, ok := t.Underlying().(*types.Basic)
	return ok
}

func isZeroConst(v ssa.Value) bool {
	c, ok := v.(*ssa.Const)
	if !ok || c.Value == nil {
		return false
	}
	if c.Value.Kind() == constant.Int {
		i, ok := constant.Int64Val(c.Value)
		return ok && i == 0
	}
	return false
}

func lenOf(v ssa.Value) (ssa.Value, bool) {
	c, ok := v.(*ssa.Call)
	if !ok {
		return nil, false
	}
	if b, ok := c.Call.Value.(*ssa.Builtin); ok && b.Name() == "len" && len(c.Call.Args) == 1 {
		return c.Call.Args[0], true
	}
	return nil, false
}

func constStr(c *ssa.Const) string {
	if c.Value == nil {
		return "nil"
	}
	return c.Value.ExactString()
}

func shortCallee(c *ssa.CallCommon) string {
	if c.IsInvoke() {
		return recvName(c.Value.Type()) + "." + c.Method.Name()
	}
	switch f := c.Value.(type) {
	case *ssa.Function:
		if f.Signature.Recv() != nil {
			return recvName(f.Signature.Recv().Type()) + "." + f.Name()
		}
		if f.Pkg != nil {
			return f.Pkg.Pkg.Name() + "." + f.Name()
		}
		if o := f.Origin(); o != nil && o.Pkg != nil {
			return o.Pkg.Pkg.Name() + "." + o.Name()
		}
		return f.Name()
	case *ssa.Builtin:
		return f.Name()
	case *ssa.MakeClosure:
		return "closure:" + f.Fn.Name()
	}
	return "dyn:" + c.Value.Name()
}

// key renders a value as a stable access path / provenance string.
func (pe *PathEnum) key(v ssa.Value, st *peState) string {
	v = pe.resolve(v, st)
	if pe.Name != nil {
		// the naming hook may key sub-values itself (isexit(<error>)): it must resolve them in the same state — the
		// parameters of a virtually inlined helper stand for the caller's arguments
		saved := pe.cur
		if st != nil {
			pe.cur = st
		}
		n := pe.Name(v)
		pe.cur = saved
		if n != "" {
			return n
		}
	}
	switch x := v.(type) {
	case *ssa.Parameter:
		return "param:" + x.Name()
	case *ssa.FreeVar:
		return "free:" + x.Name()
	case *ssa.Global:
		return "global:" + x.Pkg.Pkg.Name() + "." + x.Name()
	case *ssa.Const:
		return constStr(x)
	case *ssa.Alloc:
		return "local:" + x.Comment
	case *ssa.UnOp:
		if x.Op == token.MUL {
			if fa, ok := x.X.(*ssa.FieldAddr); ok {
				// a field of a value obtained from a map lookup is keyed by that lookup (identity matters)
				if base, ok := pe.resolve(fa.X, st).(*ssa.Extract); ok {
					if _, isLookup := base.Tuple.(*ssa.Lookup); isLookup {
						fk := fieldKeySSA(fa.X.Type(), fa.Field)
						return pe.key(base, st) + fk[strings.LastIndex(fk, "."):]
					}
				}
				return fieldKeySSA(fa.X.Type(), fa.Field)
			}
			return "*" + pe.key(x.X, st)
		}
		if x.Op == token.ARROW {
			return "recv(" + pe.key(x.X, st) + ")"
		}
		return x.Op.String() + pe.key(x.X, st)
	case *ssa.FieldAddr:
		return "&" + fieldKeySSA(x.X.Type(), x.Field)
	case *ssa.Field:
		return fieldKeySSA(x.X.Type(), x.Field)
	case *ssa.Extract:
		return fmt.Sprintf("%s#%d", pe.key(x.Tuple, st), x.Index)
	case *ssa.Call:
		return "res:" + pe.callOrd[x]
	case *ssa.Phi:
		if st != nil {
			if e := pe.phiEdge(x, st); e != nil && e != ssa.Value(x) && pe.depth < 30 {
				pe.depth++
				k := pe.key(e, st)
				pe.depth--
				return k
			}
		}
		return "phi:" + x.Comment
	case *ssa.MakeInterface:
		return pe.key(x.X, st)
	case *ssa.ChangeInterface:
		return pe.key(x.X, st)
	case *ssa.ChangeType:
		return pe.key(x.X, st)
	case *ssa.Convert:
		return pe.key(x.X, st)
	case *ssa.TypeAssert:
		return "assert(" + pe.key(x.X, st) + "," + types.TypeString(x.AssertedType, shortQual) + ")"
	case *ssa.Lookup:
		return "lookup(" + pe.key(x.X, st) + ")"
	case *ssa.Function:
		return "func:" + x.Name()
	case *ssa.MakeClosure:
		return "closure:" + x.Fn.Name()
	case *ssa.Slice:
		return "slice(" + pe.key(x.X, st) + ")"
	case *ssa.IndexAddr:
		return pe.key(x.X, st) + "[]"
	case *ssa.Index:
		return pe.key(x.X, st) + "[]"
	}
	return "v:" + v.Name()
}

func shortQual(p *types.Package) string { return p.Name() }

func fieldKeySSA(t types.Type, idx int) string {
	if p, ok := t.Underlying().(*types.Pointer); ok {
		t = p.Elem()
	}
	name := types.TypeString(t, shortQual)
	if n := namedOf(t); n != nil {
		name = n.Obj().Name()
	}
	if s, ok := t.Underlying().(*types.Struct); ok && idx < s.NumFields() {
		return "field:" + name + "." + s.Field(idx).Name()
	}
	return "field:" + name + ".?"
}

// classify names what a (non-boolean) result value is on this path.
func (pe *PathEnum) classify(v ssa.Value, st *peState) string {
	v = pe.resolve(v, st)
	switch x := v.(type) {
	case *ssa.Const:
		if x.Value == nil {
			return "nil"
		}
		if x.Value.Kind() == constant.Bool {
			return fmt.Sprint(constant.BoolVal(x.Value))
		}
		return "const:" + x.Value.ExactString()
	case *ssa.Phi:
		if e := pe.phiEdge(x, st); e != nil && e != ssa.Value(x) && pe.depth < 30 {
			pe.depth++
			k := pe.classify(e, st)
			pe.depth--
			return k
		}
		return "phi"
	case *ssa.MakeInterface:
		if a, ok := x.X.(*ssa.Alloc); ok {
			return "new(" + types.TypeString(a.Type(), shortQual) + ")"
		}
		if isNamedStruct(x.X.Type()) {
			if _, ok := x.X.(*ssa.UnOp); ok {
				return "new(" + types.TypeString(x.X.Type(), shortQual) + ")"
			}
		}
		return pe.classify(x.X, st)
	case *ssa.ChangeInterface:
		return pe.classify(x.X, st)
	case *ssa.ChangeType:
		return pe.classify(x.X, st)
	case *ssa.Alloc:
		return "new(" + types.TypeString(x.Type(), shortQual) + ")"
	case *ssa.UnOp:
		if x.Op == token.MUL {
			if a, ok := x.X.(*ssa.Alloc); ok && isNamedStruct(x.Type()) {
				_ = a
				return "new(" + types.TypeString(x.Type(), shortQual) + ")"
			}
		}
	}
	if isBool(v.Type()) {
		f := pe.cond(v, st)
		if val, known, _ := f.Eval(st.asg); known {
			return fmt.Sprint(val)
		}
		return "bool:" + f.String()
	}
	return pe.key(v, st)
}

func isNamedStruct(t types.Type) bool {
	n := namedOf(t)
	if n == nil {
		return false
	}
	_, ok := n.Underlying().(*types.Struct)
	return ok
}

// Completions enumerates every total assignment of the given atoms consistent with a path's valuation.
func Completions(p *Path, atoms []string) []map[string]bool {
	var free []string
	for _, a := range atoms {
		if _, ok := p.Asg[a]; !ok {
			free = append(free, a)
		}
	}
	var out []map[string]bool
	for m := 0; m < 1<<len(free); m++ {
		asg := map[string]bool{}
		for _, a := range atoms {
			if v, ok := p.Asg[a]; ok {
				asg[a] = v
			}
		}
		for i, a := range free {
			asg[a] = m&(1<<i) != 0
		}
		out = append(out, asg)
	}
	return out
}

// lookupImplication applies `ok <=> value != nil` for lookups in the tables listed in NonNilTables. It returns true when
// the new assumption contradicts what the path already established.
func (pe *PathEnum) lookupImplication(atom string, val bool, asg map[string]bool) bool {
	for tbl := range pe.NonNilTables {
		okAtom, nilAtom := tbl+"#1", "nil("+tbl+"#0)"
		switch atom {
		case okAtom:
			// found = val  =>  nil(value) = !val
			if v, known := asg[nilAtom]; known && v == val {
				return true
			}
			asg[nilAtom] = !val
		case nilAtom:
			if v, known := asg[okAtom]; known && v == val {
				return true
			}
			asg[okAtom] = !val
		}
	}
	return false
}
