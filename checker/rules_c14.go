package main

import (
	"fmt"
	"go/ast"
	"go/token"
	"go/types"
	"strings"

	"golang.org/x/tools/go/ssa"
)

func init() { register("C14", checkC14) }

func checkC14(c *Check, a *Anchors) {
	c.NotDecided = []string{
		"that a deferred shell command itself completes",
		"reverse order and exactly-once follow from Go's defer semantics once every registration is a `defer` statement (that structural fact is what is decided)",
	}
	c14Registration(c, a)
	c14Runner(c, a)
	c14ExitCode(c, a)
	freshElements(c, a, "defer-element-fresh")
	resolvesThroughGetTask(c, a, "resolves-through-GetTask")
	extrasWin(c, a)
	deferIndexConsistent(c, a)
	c14DeferCachePerEntry(c, a)
	discardedErrorValueUsed(c, a, "discarded-error-value-used") // a panic in the deferred-command runner happens inside a Go defer: no further deferred command runs and the process dies
	sharedWait(c, a)                                            // "before the task's caller continues": a caller that joined a shared execution returns only when that execution — deferred commands included — has finished
	cmdTemplatedWhole(c, a)                                     // a deferred task call sees .EXIT_CODE and the deferring task's variables only if its name and vars are rendered too
	extraThreaded(c, a)                                         // .EXIT_CODE reaches the vars of a deferred task call only if every branch of the variable replacer hands the extras on (ref: variables too)
}

func c14Registration(c *Check, a *Anchors) {
	c.Rule("defer-registration", "in the cmds loop a defer entry is registered with a Go `defer` of the deferred-command runner on the true edge of Cmd.Defer, receives the loop variable, and is followed by `continue` (never run inline, never twice); the command runner is called only on the false edge of Cmd.Defer; the deferred-command runner is invoked nowhere else")
	body := a.LoopFn
	info := body.Info()
	c.Fn(body)
	f := NewFlow(c.P, body, a.labelRun(info))
	f.Run()
	loop, lb := cmdsLoop(a)
	name := fnDisplay(a.BodyClosure)
	if loop == nil {
		c.Errorf("defer-registration: cmds loop not found")
		return
	}
	var loopVars []*types.Var
	if r, ok := loop.(*ast.RangeStmt); ok {
		for _, e := range []ast.Expr{r.Key, r.Value} {
			if e != nil {
				if v := varOf(info, e); v != nil {
					loopVars = append(loopVars, v)
				}
			}
		}
	}
	nDefer, nCall := 0, 0
	pm := parentMap(body.Body)
	inspectBody(body.Body, func(nd ast.Node) bool {
		switch x := nd.(type) {
		case *ast.DeferStmt:
			if !a.is(callee(info, x.Call), a.DeferRunner) {
				return true
			}
			nDefer++
			st := f.At[x]
			usesVar := false
			for _, arg := range x.Call.Args {
				for _, v := range loopVars {
					if mentions(info, arg, v) {
						usesVar = true
					}
				}
			}
			inLoop := within(x, lb)
			// next statement in the same block is `continue`
			cont := false
			if blk, ok := pm[x].(*ast.BlockStmt); ok {
				for i, s := range blk.List {
					if s == ast.Stmt(x) && i+1 < len(blk.List) {
						if b, ok := blk.List[i+1].(*ast.BranchStmt); ok && b.Tok == token.CONTINUE {
							cont = true
						}
					}
				}
			}
			ok := st.Has("true:field:Cmd.Defer") && usesVar && inLoop && cont
			c.Decide(ok, "defer-registration", "register@"+name, x.Pos(), "defer of the runner on the Defer edge, with the loop variable, followed by continue",
				fmt.Sprintf("the registration of a deferred command is wrong (on the true edge of Cmd.Defer: %v, inside the cmds loop: %v, receives the loop variable: %v, followed by continue: %v): the entry could run inline, twice, or the wrong entry would run", st.Has("true:field:Cmd.Defer"), inLoop, usesVar, cont))
			return false
		case *ast.CallExpr:
			obj := callee(info, x)
			if a.is(obj, a.CmdRunner) && within(x, lb) {
				nCall++
				st := f.At[x]
				c.Decide(st.Has("false:field:Cmd.Defer"), "defer-registration", "inline-run-excluded@"+name, x.Pos(), "the command runner is reached only when Cmd.Defer is false",
					"the command runner can be called for an entry whose Defer flag was not tested false: a deferred command would run at its declaration position (and again at exit)")
			}
		}
		return true
	})
	if nDefer == 0 {
		c.Bad("defer-registration", "register@"+name, loop.Pos(), "the cmds loop no longer registers deferred commands with a Go defer of the deferred-command runner")
	}
	c.Floor("defer-registration", nDefer+nCall, 2)
	// the runner is invoked nowhere else
	n := 0
	for _, fb := range c.P.BodiesIn(PkgTask) {
		pmf := parentMap(fb.Body)
		inspectBody(fb.Body, func(nd ast.Node) bool {
			if call, ok := nd.(*ast.CallExpr); ok && a.is(callee(fb.Info(), call), a.DeferRunner) {
				n++
				_, isDefer := pmf[call].(*ast.DeferStmt)
				if !(isDefer && fb == body) {
					c.Bad("defer-registration", "other-invocation@"+fnDisplay(fb), call.Pos(), "the deferred-command runner is invoked outside a defer statement of the task body: the deferred command would not run at the end of the task / exactly once")
				}
			}
			return true
		})
	}
}

func c14Runner(c *Check, a *Anchors) {
	c.Rule("defer-runner", "the deferred-command runner has no result, derives the context it runs the command with from context.Background() (never from a caller's context, so a sibling's failure cannot suppress cleanup), runs the entry whose index it was given, does not panic and does not propagate the command's error")
	fb := a.DeferRunner
	c.Fn(fb)
	info := fb.Info()
	name := fnDisplay(fb)
	c.Decide(fb.Type.Results == nil || len(fb.Type.Results.List) == 0, "defer-runner", "no-result@"+name, fb.Decl.Pos(), "no result", "the deferred-command runner returns a value: its failure could change the task's outcome")
	hasCtxParam := false
	params := map[*types.Var]bool{}
	for _, fld := range fb.Type.Params.List {
		for _, id := range fld.Names {
			if v, ok := info.Defs[id].(*types.Var); ok {
				params[v] = true
				if types.TypeString(v.Type(), nil) == "context.Context" {
					hasCtxParam = true
				}
			}
		}
	}
	n := 0
	for _, call := range callsIn(fb, true) {
		if !a.IsCmdEvent(callee(info, call)) || len(call.Args) == 0 {
			continue
		}
		n++
		arg := call.Args[0]
		fromBackground, fromParam := false, false
		var trace func(e ast.Expr, depth int)
		trace = func(e ast.Expr, depth int) {
			ast.Inspect(e, func(nd ast.Node) bool {
				switch x := nd.(type) {
				case *ast.CallExpr:
					if isFunc(callee(info, x), "context", "", "Background") {
						fromBackground = true
					}
				case *ast.Ident:
					if v, ok := info.Uses[x].(*types.Var); ok {
						if params[v] && types.TypeString(v.Type(), nil) == "context.Context" {
							fromParam = true
						} else if depth > 0 && !v.IsField() {
							if d := singleDef(info, fb.Body, v); d != nil {
								trace(d, depth-1)
							}
						}
					}
				}
				return true
			})
		}
		trace(arg, 3)
		c.Decide(fromBackground && !fromParam && !hasCtxParam, "defer-runner", "fresh-context@"+name, call.Pos(), "the command runs under a context derived from context.Background()",
			fmt.Sprintf("the deferred command runs under a context that is not derived solely from context.Background() (from Background: %v, from a caller context: %v): when a sibling fails or the task is cancelled the deferred command is skipped", fromBackground, fromParam || hasCtxParam))
		// index passed through
		idxOK := false
		for _, p := range fb.Type.Params.List {
			for _, id := range p.Names {
				if v, ok := info.Defs[id].(*types.Var); ok && isIntType(v.Type()) {
					for _, arg := range call.Args {
						if varOf(info, arg) == v {
							idxOK = true
						}
					}
				}
			}
		}
		c.Decide(idxOK, "defer-runner", "same-entry@"+name, call.Pos(), "runs the entry whose index it received", "the deferred-command runner does not run the entry whose index it was given")
	}
	c.Floor("defer-runner", n, 1)
	bad := false
	inspectDeep(fb.Body, func(nd ast.Node) bool {
		if call, ok := nd.(*ast.CallExpr); ok && isBuiltin(info, call, "panic") {
			bad = true
		}
		return true
	})
	c.Decide(!bad, "defer-runner", "no-panic@"+name, fb.Decl.Pos(), "no panic", "the deferred-command runner panics: its failure would change the task's outcome")
}

func c14ExitCode(c *Check, a *Anchors) {
	c.Rule("exit-code-visible", "the deferred-command runner receives the address of a local of the task body; on every failing return after an exit-status command error that local has been assigned the exit code; the runner injects EXIT_CODE only when the code is > 0")
	body := a.LoopFn
	info := body.Info()
	name := fnDisplay(a.BodyClosure)
	var cell *types.Var
	inspectBody(body.Body, func(nd ast.Node) bool {
		if d, ok := nd.(*ast.DeferStmt); ok && a.is(callee(info, d.Call), a.DeferRunner) {
			for _, arg := range d.Call.Args {
				if u, ok := ast.Unparen(arg).(*ast.UnaryExpr); ok && u.Op == token.AND {
					cell = varOf(info, u.X)
				}
			}
			// `defer deferred.run(i)`: the runner is a method of a per-execution object of the task body that holds the code
			if sel, ok := ast.Unparen(d.Call.Fun).(*ast.SelectorExpr); ok && cell == nil {
				if v := varOf(info, sel.X); v != nil && !v.IsField() && body.Body.Pos() <= v.Pos() && v.Pos() <= body.Body.End() {
					cell = v
				}
			}
		}
		return true
	})
	if cell == nil {
		c.Bad("exit-code-visible", "cell@"+name, body.Body.Pos(), "the deferred-command runner does not receive the address of a task-body local for the exit code")
		return
	}
	fn := c.P.SSAFunc(body)
	if fn == nil {
		c.Errorf("exit-code-visible: no SSA for the task body")
		return
	}
	var cellAlloc ssa.Value
	for _, b := range fn.Blocks {
		for _, in := range b.Instrs {
			if d, ok := in.(*ssa.Defer); ok {
				if l, _ := a.ssaLabel(d); l == "cmd" {
					for _, arg := range d.Call.Args {
						if al, ok := arg.(*ssa.Alloc); ok {
							cellAlloc = al
						}
					}
				}
			}
		}
	}
	if cellAlloc == nil {
		c.Errorf("exit-code-visible: exit-code cell not found in SSA")
		return
	}
	pe := &PathEnum{Fn: fn, MaxRevisit: revisit(), EventR: func(in ssa.Instruction, resolve func(ssa.Value) ssa.Value) (string, string) {
		// (the store may be made by a helper of the package through a pointer parameter bound to the cell)
		if st, ok := in.(*ssa.Store); ok && (st.Addr == cellAlloc || resolve(st.Addr) == cellAlloc || intFieldOf(st.Addr, cellAlloc, resolve)) {
			if c, isConst := st.Val.(*ssa.Const); isConst && c.Value != nil && c.Value.ExactString() == "0" {
				return "", "" // zero initialisation
			}
			return "store-exit", "store"
		}
		return a.ssaLabel(in)
	}}
	pe.Name = isExitName(pe)
	pe.Run()
	c.Paths += len(pe.Paths)
	cmdKey := ""
	for v, nme := range pe.callOrd {
		if call, ok := v.(*ssa.Call); ok {
			if l, _ := a.ssaLabel(call); l == "cmd" {
				cmdKey = "res:" + nme
			}
		}
	}
	n := 0
	var bad []string
	for _, p := range pe.Paths {
		if p.Panic || len(p.Out) == 0 || p.Out[len(p.Out)-1] == "nil" {
			continue
		}
		// last command occurrence failing with an exit status, after which the body stops
		cur := map[string]bool{}
		stored := false
		failing := false
		for _, e := range p.Events {
			switch {
			case e.Kind == "assume":
				cur[e.Label] = e.Val
			case e.Label == "cmd" && e.Kind == "call":
				stored, failing = false, true
				delete(cur, "nil("+cmdKey+")")
				delete(cur, "isexit("+cmdKey+")")
			case e.Label == "store-exit":
				stored = true
			}
		}
		if failing && cur["isexit("+cmdKey+")"] {
			if v, ok := cur["nil("+cmdKey+")"]; ok && !v {
				n++
				if !stored && len(bad) < 3 {
					bad = append(bad, p.String())
				}
			}
		}
	}
	if n == 0 {
		c.Errorf("exit-code-visible: no enumerated path fails with an exit status (vacuous)")
	}
	c.Decide(len(bad) == 0, "exit-code-visible", "stored-before-failing-return@"+name, body.Body.Pos(), fmt.Sprintf("the exit code is stored on all %d failing exit-status paths", n),
		"the task body can stop after an exit-status command error without storing the exit code for the deferred commands: "+strings.Join(bad, " || "))
	// runner: EXIT_CODE only when > 0 — in the runner itself or in the helper of the package that builds its extra variables;
	// decided on the must-facts at the store: the code was tested `> 0`, or `!= 0` on an unsigned value
	fb := a.DeferRunner
	found := false
	cands := []*FuncBody{fb}
	for _, call := range callsIn(fb, false) {
		if fn, ok := callee(fb.Info(), call).(*types.Func); ok {
			if h := c.P.DeclOf(fn); h != nil && h.Decl != nil && h.Pkg == fb.Pkg && h != a.CmdRunner && h != a.RunTask {
				cands = append(cands, h)
			}
		}
	}
	for _, h := range cands {
		hinfo := h.Info()
		var target *ast.AssignStmt
		inspectBody(h.Body, func(nd ast.Node) bool {
			if as, ok := nd.(*ast.AssignStmt); ok && len(as.Lhs) == 1 {
				if ix, ok := ast.Unparen(as.Lhs[0]).(*ast.IndexExpr); ok && constText(hinfo, ix.Index) == `"EXIT_CODE"` {
					target = as
				}
			}
			return true
		})
		if target == nil {
			continue
		}
		found = true
		c.Fn(h)
		var at Facts
		f := NewFlow(c.P, h, func(call *ast.CallExpr, obj types.Object) string { return "" })
		f.NoInline = true
		f.AssignEffect = func(s *ast.AssignStmt, st Facts) {
			if s == target {
				at = st.clone()
			}
		}
		f.Run()
		guarded := false
		for k := range at {
			if strings.HasPrefix(k, "gt0:") {
				guarded = true
			}
			if strings.HasPrefix(k, "ne:") && strings.HasSuffix(k, "=0") {
				// != 0 is > 0 for an unsigned exit code
				inspectBody(h.Body, func(nd ast.Node) bool {
					if be, ok := nd.(*ast.BinaryExpr); ok && (be.Op == token.EQL || be.Op == token.NEQ) && constIs(hinfo, be.Y, "0") {
						if b, ok := typeOf(hinfo, be.X).Underlying().(*types.Basic); ok && b.Info()&types.IsUnsigned != 0 {
							guarded = true
						}
					}
					return true
				})
			}
		}
		c.Decide(guarded, "exit-code-visible", "inject-when-positive@"+fnDisplay(fb), target.Pos(), "EXIT_CODE injected only when the code is > 0", "EXIT_CODE is injected without the code having been tested `> 0`: a deferred command of a successful task would see an exit code; must-facts: "+at.String())
	}
	if !found {
		c.Bad("exit-code-visible", "inject-when-positive@"+fnDisplay(fb), fb.Decl.Pos(), "the deferred-command runner no longer injects EXIT_CODE")
	}
}

// c14DeferCachePerEntry: deferred entries are rendered independently of one another.
func c14DeferCachePerEntry(c *Check, a *Anchors) {
	c.Rule("defer-cache-per-entry", "the deferred-command runner renders its entry with a templater.Cache that it builds itself (a local of the runner assigned a fresh &templater.Cache{…}), never one it is handed: a Cache remembers the first template error and then renders nothing, so a cache shared by the deferred entries of a task lets one entry whose template fails make every entry that runs after it execute its raw, unrendered text (without .EXIT_CODE)")
	fb := a.DeferRunner
	c.Fn(fb)
	info := fb.Info()
	n := 0
	ord := map[string]int{}
	for _, call := range callsIn(fb, true) {
		fn, ok := callee(info, call).(*types.Func)
		if !ok || fn.Pkg() == nil || fn.Pkg().Path() != PkgTemplater || !strings.HasPrefix(fn.Name(), "Replace") {
			continue
		}
		for _, arg := range call.Args {
			tv, ok := info.Types[arg]
			if !ok || !isNamed(tv.Type, PkgTemplater, "Cache") {
				continue
			}
			n++
			own := false
			if v := varOf(info, arg); v != nil && !isParamOf(info, fb, v) && !v.IsField() {
				for _, d := range defsOf(info, fb.Body, v) {
					d = ast.Unparen(d)
					if u, ok := d.(*ast.UnaryExpr); ok && u.Op == token.AND {
						d = ast.Unparen(u.X)
					}
					if cl, ok := d.(*ast.CompositeLit); ok {
						if ctv, ok := info.Types[cl]; ok && isNamed(ctv.Type, PkgTemplater, "Cache") {
							own = true
						}
					}
				}
			}
			c.Decide(own, "defer-cache-per-entry", ordinal(ord, fn.Name()+"@"+fnDisplay(fb)), call.Pos(), "rendered with a cache built in the runner",
				"the deferred entry is rendered with `"+exprStr(arg)+"`, which the runner did not build itself: the cache (and its sticky first error, and the variables it was built from) is shared with the other deferred entries of the task")
		}
	}
	c.Floor("defer-cache-per-entry", n, 1)
}

// intFieldOf: addr is the address of an integer field of the object cell points to (`failure.exitCode`, `deferred.exitCode`).
func intFieldOf(addr, cell ssa.Value, resolve func(ssa.Value) ssa.Value) bool {
	fa, ok := addr.(*ssa.FieldAddr)
	if !ok || (fa.X != cell && resolve(fa.X) != cell) {
		return false
	}
	pt, ok := fa.Type().Underlying().(*types.Pointer)
	if !ok {
		return false
	}
	b, ok := pt.Elem().Underlying().(*types.Basic)
	return ok && b.Info()&types.IsInteger != 0
}
