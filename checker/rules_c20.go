package main

import (
	"fmt"
	"go/ast"
	"go/types"
	"strings"

	"golang.org/x/tools/go/ssa"
)

func init() { register("C20", checkC20) }

func checkC20(c *Check, a *Anchors) {
	c.NotDecided = []string{
		"integrity of the cache directory against third parties; TLS; real network timing",
		"that the checksum function distinguishes contents (value level)",
	}
	c20DecisionTable(c, a)
	c20HTTPRefused(c, a)
	c20FetchHonoursContext(c, a)
	nodeIdentityImmutable(c, a)
	fieldNotClobberedOnError(c, a, "field-not-clobbered-on-error") // the cache fallback re-uses the node whose fetch just failed
	c20TrustErrorPropagates(c, a)
	c20ReadErrorNotMasked(c, a)
	c20CacheKeyFromFullLocation(c, a)
}

func c20DecisionTable(c *Check, a *Anchors) {
	c.Rule("trust-gate", "over all enumerated paths of readRemoteNodeContent: a path that returns the downloaded bytes, or writes anything to the cache, computed ChecksumPrompt first and either got the empty prompt or a nil answer from the prompt function BEFORE the first cache write; the declined edge returns *TaskfileNotTrustedError (104) without any cache write")
	c.Rule("offline-no-network", "no path with Reader.offline true reaches ReadContext; offline with a cached copy returns the cached bytes, offline without one returns *TaskfileCacheNotFoundError (106); a valid cache without --download is returned without network access")
	c.Rule("cache-fallback", "on every path where the download failed and a cached copy had been found, the cached bytes are returned with a nil error")
	var fb *FuncBody
	// the function that decides what is trusted: the lowest Reader method from which both the download (an invoke of
	// ReadContext) and the cache write (WriteChecksum) are reached through static calls inside the package — the two halves
	// may live in helpers of it, which the path enumeration inlines
	reaches := func(b *FuncBody) (fetch, write bool) {
		for g := range c.P.ReachableFrom([]*FuncBody{b}, func(x *FuncBody) bool { return x.Pkg.PkgPath != PkgTaskfile }) {
			if g.Pkg.PkgPath != PkgTaskfile {
				continue
			}
			for _, call := range callsIn(g, true) {
				if fn, ok := callee(g.Info(), call).(*types.Func); ok {
					switch fn.Name() {
					case "WriteChecksum":
						write = true
					case "ReadContext":
						if sel, ok := ast.Unparen(call.Fun).(*ast.SelectorExpr); ok {
							if tv, ok := g.Info().Types[sel.X]; ok && types.IsInterface(tv.Type) {
								fetch = true
							}
						}
					}
				}
			}
		}
		return
	}
	cands := map[*FuncBody]bool{}
	for _, b := range c.P.BodiesIn(PkgTaskfile) {
		if b.Decl == nil || recvOf(b) != "Reader" {
			continue
		}
		if f, w := reaches(b); f && w {
			cands[b] = true
		}
	}
	for b := range cands {
		lowest := true
		for _, call := range callsIn(b, true) {
			if fn, ok := callee(b.Info(), call).(*types.Func); ok {
				if d := c.P.DeclOf(fn); d != nil && d != b && cands[d] {
					lowest = false
				}
			}
		}
		if lowest && (fb == nil || fnDisplay(b) < fnDisplay(fb)) {
			fb = b
		}
	}
	if fb == nil {
		c.Errorf("C20: the reader function that writes the cache (WriteChecksum) was not found")
		return
	}
	fn := c.P.SSAFunc(fb)
	c.Fn(fb)
	name := fnDisplay(fb)
	pe := &PathEnum{Fn: fn, MaxRevisit: revisit(), Event: func(in ssa.Instruction) (string, string) {
		call, ok := in.(*ssa.Call)
		if !ok {
			return "", ""
		}
		cc := call.Common()
		if cc.IsInvoke() {
			if cc.Method.Name() == "ReadContext" {
				return "fetch", "call"
			}
			return "", ""
		}
		if f := cc.StaticCallee(); f != nil {
			switch {
			case f.Name() == "ChecksumPrompt":
				return "checksum-prompt", "call"
			case f.Name() == "Write" || f.Name() == "WriteChecksum" || f.Name() == "WriteTimestamp":
				if f.Signature.Recv() != nil && recvName(f.Signature.Recv().Type()) == "CacheNode" {
					if f.Name() == "Write" {
						return "cache-write-content", "call" // the copy of the Taskfile itself
					}
					return "cache-write", "call"
				}
			case f.Name() == "Read" && f.Signature.Recv() != nil && recvName(f.Signature.Recv().Type()) == "CacheNode":
				return "cache-read", "call"
			case f.Parent() == fn: // the immediately invoked prompt closure
				return "ask", "call"
			case f.Name() == "promptf":
				return "ask", "call"
			}
		}
		return "", ""
	}}
	pe.Name = isExitName(pe)
	pe.Run()
	c.Paths += len(pe.Paths)
	if pe.Truncated || len(pe.Paths) < 10 {
		c.Errorf("C20: path enumeration of %s produced %d paths (truncated: %v)", name, len(pe.Paths), pe.Truncated)
		return
	}
	var fetchKey, cacheKey, askKey string
	for v, nme := range pe.callOrd {
		call := v.(*ssa.Call)
		l, _ := pe.Event(call)
		switch l {
		case "fetch":
			fetchKey = "res:" + nme
		case "cache-read":
			cacheKey = "res:" + nme
		case "ask":
			askKey = "res:" + nme
		}
	}
	if fetchKey == "" || cacheKey == "" || askKey == "" {
		c.Errorf("C20: fetch (%q) / cache read (%q) / prompt (%q) call not found in SSA of %s", fetchKey, cacheKey, askKey, name)
		return
	}
	var badTrust, badOffline, badFallback []string
	nDownloaded, nDeclined, nOffline, nFallback := 0, 0, 0, 0
	for _, p := range pe.Paths {
		if p.Panic || len(p.Out) != 2 {
			continue
		}
		out0, out1 := p.Out[0], p.Out[1]
		// replay for ordering
		cur := map[string]bool{}
		approved := false
		promptComputed := false
		for _, e := range p.Events {
			switch {
			case e.Kind == "assume":
				cur[e.Label] = e.Val
				if strings.HasPrefix(e.Label, "eq(res:CacheNode.ChecksumPrompt") && e.Val {
					approved = true // empty prompt: the checksum equals the approved one
				}
				if e.Label == "nil("+askKey+")" && e.Val {
					approved = true
				}
			case e.Label == "checksum-prompt":
				promptComputed = true
			case e.Label == "cache-write" || e.Label == "cache-write-content":
				if !(promptComputed && approved) && len(badTrust) < 3 {
					badTrust = append(badTrust, "the cache is written before the downloaded content was approved: "+p.String())
				}
			}
		}
		if out0 == fetchKey+"#0" {
			nDownloaded++
			if !(promptComputed && approved) && len(badTrust) < 3 {
				badTrust = append(badTrust, "downloaded bytes are returned without approval: "+p.String())
			}
			if !p.HasEvent("cache-write-content", "call") && len(badTrust) < 3 {
				// (also when the checksum equals the approved one: the checksum file can be there without the copy — an
				// interrupted run, a partly cleaned cache — and only this write restores what --offline and the fallback read)
				badTrust = append(badTrust, "approved download is returned without its content being written to the cache: "+p.String())
			}
		}
		if v, ok := p.Asg["nil("+askKey+")"]; ok && !v {
			nDeclined++
			written := p.HasEvent("cache-write", "call") || p.HasEvent("cache-write-content", "call")
			if out1 != "new(*errors.TaskfileNotTrustedError)" || written {
				badTrust = append(badTrust, fmt.Sprintf("a declined prompt ends with %q (cache written: %v): %s", out1, written, p))
			}
		}
		// offline
		if fieldAsg(p.Asg, "offline") {
			nOffline++
			if p.HasEvent("fetch", "call") {
				badOffline = append(badOffline, "network access in offline mode: "+p.String())
			}
			noCache := false
			for k, v := range p.Asg {
				if strings.HasPrefix(k, "is("+cacheKey) && strings.Contains(k, "ErrNotExist") && v {
					noCache = true
				}
			}
			if noCache && out1 != "new(*errors.TaskfileCacheNotFoundError)" {
				badOffline = append(badOffline, fmt.Sprintf("offline without a cached copy ends with %q instead of *TaskfileCacheNotFoundError: %s", out1, p))
			}
		}
		// fallback
		if v, ok := p.Asg["nil("+fetchKey+"#1)"]; ok && !v {
			found := false
			notExistKnown, notExist := false, false
			for k, val := range p.Asg {
				if strings.HasPrefix(k, "is("+cacheKey) && strings.Contains(k, "ErrNotExist") {
					notExistKnown, notExist = true, val
				}
			}
			readNil, readNilKnown := p.Asg["nil("+cacheKey+"#1)"]
			validKnown, valid := false, false
			for k, val := range p.Asg {
				if strings.HasPrefix(k, "res:Time.Before") {
					validKnown, valid = true, val
				}
			}
			if notExistKnown && !notExist && ((validKnown && !valid) || (readNilKnown && readNil)) {
				found = true
			}
			if found {
				nFallback++
				if !(out0 == cacheKey+"#0" && out1 == "nil") && len(badFallback) < 3 {
					badFallback = append(badFallback, fmt.Sprintf("the download failed and a cached copy exists, but the function returns (%s, %s): %s", out0, out1, p))
				}
			}
		}
	}
	if nDownloaded == 0 || nDeclined == 0 || nOffline == 0 || nFallback == 0 {
		c.Errorf("C20: decision table vacuous (downloaded=%d declined=%d offline=%d fallback=%d)", nDownloaded, nDeclined, nOffline, nFallback)
	}
	c.Decide(len(badTrust) == 0, "trust-gate", "table@"+name, fb.Decl.Pos(), fmt.Sprintf("holds on %d downloading and %d declining paths (%d paths enumerated)", nDownloaded, nDeclined, len(pe.Paths)), strings.Join(badTrust, " || "))
	c.Decide(len(badOffline) == 0, "offline-no-network", "table@"+name, fb.Decl.Pos(), fmt.Sprintf("holds on %d offline paths", nOffline), strings.Join(badOffline, " || "))
	c.Decide(len(badFallback) == 0, "cache-fallback", "table@"+name, fb.Decl.Pos(), fmt.Sprintf("holds on %d paths with a failed download and a cached copy", nFallback), strings.Join(badFallback, " || "))
	// valid cache without --download returns without network
	okValid := false
	for _, p := range pe.Paths {
		if len(p.Out) == 2 && p.Out[0] == cacheKey+"#0" && !p.HasEvent("fetch", "call") && !fieldAsg(p.Asg, "offline") {
			if d, ok := fieldAsgOK(p.Asg, "download"); ok && !d {
				okValid = true
			}
		}
	}
	c.Decide(okValid, "offline-no-network", "valid-cache-no-network@"+name, fb.Decl.Pos(), "a valid cache without --download is served without fetching", "there is no path that serves a valid cache without network access when --download is not given")
}

func c20HTTPRefused(c *Check, a *Anchors) {
	c.Rule("http-refused", "NewHTTPNode and NewGitNode return *TaskfileNotSecureError (105) when the scheme is http and insecure is false, before constructing the node; NewNode refuses remote nodes unless the REMOTE_TASKFILES experiment is enabled; flags.Validate rejects --download together with --offline")
	for _, nm := range []string{"NewHTTPNode", "NewGitNode"} {
		fb := c.P.Func(PkgTaskfile, "", nm)
		if fb == nil {
			c.Bad("http-refused", nm, 0, nm+" not found")
			continue
		}
		c.Fn(fb)
		info := fb.Info()
		var guard *ast.IfStmt
		for _, s := range fb.Body.List {
			if ifs, ok := s.(*ast.IfStmt); ok {
				cs := exprStr(ifs.Cond)
				if strings.Contains(cs, `Scheme == "http"`) && strings.Contains(cs, "!insecure") && strings.Contains(cs, "&&") {
					for _, r := range returnsOf(ifs.Body) {
						if res := errResult(r); res != nil && strings.Contains(exprStr(res), "TaskfileNotSecureError") {
							guard = ifs
						}
					}
				}
			}
		}
		okPos := guard != nil
		if guard != nil {
			for _, r := range returnsOf(fb.Body) {
				if len(r.Results) == 2 && isNilLit(info, r.Results[1]) && r.Pos() < guard.Pos() {
					okPos = false
				}
			}
		}
		c.Decide(okPos, "http-refused", "plain-http@"+fnDisplay(fb), fb.Decl.Pos(), "`Scheme == \"http\" && !insecure` returns TaskfileNotSecureError before any successful return", nm+" no longer refuses plain http without --insecure before constructing the node")
	}
	nn := c.P.Func(PkgTaskfile, "", "NewNode")
	if nn != nil {
		c.Fn(nn)
		f := NewFlow(c.P, nn, func(call *ast.CallExpr, obj types.Object) string {
			if fn, ok := obj.(*types.Func); ok && fn.Name() == "Enabled" && strings.Contains(exprStr(call.Fun), "RemoteTaskfiles") {
				return "experiment"
			}
			return ""
		})
		f.Run()
		gated := false
		for _, r := range f.Returns {
			if res := errResult(r); res != nil && !isNilLit(nn.Info(), res) && f.At[r].Has("false:experiment") {
				gated = true
			}
		}
		c.Decide(gated, "http-refused", "experiment-gate@"+fnDisplay(nn), nn.Decl.Pos(), "remote nodes are refused when the experiment is off", "NewNode no longer refuses remote Taskfiles when the REMOTE_TASKFILES experiment is disabled")
	}
	val := c.P.Func(PkgFlags, "", "Validate")
	if val != nil {
		c.Fn(val)
		ok := false
		inspectBody(val.Body, func(nd ast.Node) bool {
			if ifs, isIf := nd.(*ast.IfStmt); isIf {
				cs := exprStr(ifs.Cond)
				if strings.Contains(cs, "Download") && strings.Contains(cs, "Offline") && strings.Contains(cs, "&&") && len(returnsOf(ifs.Body)) > 0 {
					ok = true
				}
			}
			return true
		})
		c.Decide(ok, "http-refused", "download-offline-conflict@"+fnDisplay(val), val.Decl.Pos(), "--download with --offline is rejected", "flags.Validate no longer rejects --download together with --offline")
	}
}

func c20FetchHonoursContext(c *Check, a *Anchors) {
	c.Rule("fetch-honours-context", "in every RemoteNode.ReadContext implementation the network request is bound to the ctx parameter (the HTTP request handed to Client.Do is the result of WithContext(ctx) / NewRequestWithContext(ctx); the git clone uses the ...Context variant with ctx): otherwise --timeout cannot interrupt a stalled download and the cached copy is never used")
	n := 0
	for _, fb := range c.P.BodiesIn(PkgTaskfile) {
		if fb.Decl == nil || fb.Decl.Name.Name != "ReadContext" || fb.Decl.Recv == nil {
			continue
		}
		info := fb.Info()
		var ctxParam *types.Var
		for _, fld := range fb.Type.Params.List {
			for _, id := range fld.Names {
				if v, ok := info.Defs[id].(*types.Var); ok && types.TypeString(v.Type(), nil) == "context.Context" {
					ctxParam = v
				}
			}
		}
		if ctxParam == nil {
			continue
		}
		for _, call := range callsIn(fb, true) {
			fn, ok := callee(info, call).(*types.Func)
			if !ok || fn.Pkg() == nil {
				continue
			}
			switch {
			case fn.Pkg().Path() == "net/http" && fn.Name() == "Do":
				n++
				c.Fn(fb)
				bound := false
				if len(call.Args) == 1 {
					arg := call.Args[0]
					check := func(e ast.Expr) bool {
						ce, ok := ast.Unparen(e).(*ast.CallExpr)
						if !ok {
							return false
						}
						cf, ok := callee(info, ce).(*types.Func)
						if !ok {
							return false
						}
						if cf.Name() == "WithContext" || cf.Name() == "NewRequestWithContext" {
							for _, a2 := range ce.Args {
								if varOf(info, a2) == ctxParam {
									return true
								}
							}
						}
						return false
					}
					if check(arg) {
						bound = true
					} else if v := varOf(info, arg); v != nil {
						for _, d := range defsOf(info, fb.Body, v) {
							if check(d) {
								bound = true
							}
						}
					}
				}
				c.Decide(bound, "fetch-honours-context", "http-request@"+fnDisplay(fb), call.Pos(), "the request given to Do carries ctx", "the HTTP request handed to Client.Do is not bound to the ctx parameter: a server that stalls beyond --timeout blocks Task instead of falling back to the cached copy")
			case strings.HasPrefix(fn.Pkg().Path(), "github.com/go-git/go-git") && strings.HasPrefix(fn.Name(), "Clone"):
				n++
				c.Fn(fb)
				bound := strings.HasSuffix(fn.Name(), "Context") && len(call.Args) > 0 && varOf(info, call.Args[0]) == ctxParam
				c.Decide(bound, "fetch-honours-context", "git-clone@"+fnDisplay(fb), call.Pos(), "git clone uses the Context variant with ctx", "the git clone is not bound to the ctx parameter")
			}
		}
	}
	c.Floor("fetch-honours-context", n, 2)
}

// c20TrustErrorPropagates: a declined (or impossible) approval ends the invocation: nothing between the trust gate and
// Reader.Read may turn its error into success.
func c20TrustErrorPropagates(c *Check, a *Anchors) {
	c.Rule("trust-error-propagates", "in package taskfile every caller of a function from which the trust gate is reachable (the functions between Reader.Read and the remote read) returns that call's error on its non-nil edge — never nil (an `optional` include, a fallback, a log-and-continue): a swallowed *TaskfileNotTrustedError lets the run go on without the unapproved file and exit 0 instead of 104")
	// the gate: functions of the package that construct TaskfileNotTrustedError
	var gates []*FuncBody
	for _, fb := range c.P.BodiesIn(PkgTaskfile) {
		if fb.Decl == nil {
			continue
		}
		inspectDeep(fb.Body, func(nd ast.Node) bool {
			if cl, ok := nd.(*ast.CompositeLit); ok {
				if tv, ok := fb.Info().Types[cl]; ok && isNamed(tv.Type, PkgErrors, "TaskfileNotTrustedError") {
					gates = append(gates, fb)
				}
			}
			return true
		})
	}
	if len(gates) == 0 {
		c.Errorf("trust-error-propagates: no function of package taskfile constructs TaskfileNotTrustedError")
		return
	}
	carrying := map[*FuncBody]bool{}
	for _, fb := range c.P.BodiesIn(PkgTaskfile) {
		if fb.Decl == nil {
			continue
		}
		reach := c.P.ReachableFrom([]*FuncBody{fb}, nil)
		for _, g := range gates {
			if reach[g] {
				carrying[fb] = true
			}
		}
	}
	n := 0
	for _, fb := range c.P.BodiesIn(PkgTaskfile) {
		info := fb.Info()
		has := false
		for _, call := range callsIn(fb, false) {
			if fn, ok := callee(info, call).(*types.Func); ok {
				if d := c.P.DeclOf(fn); d != nil && carrying[d] {
					has = true
				}
			}
		}
		if !has || fb.Type.Results == nil || fb.Type.Results.NumFields() == 0 {
			continue
		}
		c.Fn(fb.Root())
		n += resultFollows(c, a, fb, "trust-carrying", "trust-error-propagates", func(call *ast.CallExpr, obj types.Object) string {
			if fn, ok := obj.(*types.Func); ok {
				if d := c.P.DeclOf(fn); d != nil && carrying[d] {
					return "trust-carrying"
				}
			}
			return ""
		})
	}
	c.Floor("trust-error-propagates", n, 3)
	// … and it keeps its type on the way: the exit status is picked by a type assertion on the error main receives (no
	// unwrapping), so a carrier that returns fmt.Errorf("…: %w", err) turns 104 (103, 105, 106) into the generic 1. Not
	// armed when main unwraps (errors.As).
	unwraps := false
	for _, fb := range c.P.Bodies() {
		if fb.Pkg.PkgPath != Mod+"/cmd/task" || fb.Decl == nil {
			continue
		}
		for _, call := range callsIn(fb, true) {
			if fn, ok := callee(fb.Info(), call).(*types.Func); ok && fn.Name() == "As" && fn.Pkg() != nil && strings.HasSuffix(fn.Pkg().Path(), "errors") {
				unwraps = true
			}
		}
	}
	if unwraps {
		c.OK("trust-error-propagates", "typed-error-not-wrapped", 0, "cmd/task unwraps errors (errors.As): wrapping keeps the exit status")
		return
	}
	ord := map[string]int{}
	nw := 0
	for _, fb := range c.P.BodiesIn(PkgTaskfile) {
		info := fb.Info()
		has := false
		for _, call := range callsIn(fb, false) {
			if fn, ok := callee(info, call).(*types.Func); ok {
				if d := c.P.DeclOf(fn); d != nil && carrying[d] {
					has = true
				}
			}
		}
		if !has || fb.Type.Results == nil || fb.Type.Results.NumFields() == 0 {
			continue
		}
		f := NewFlow(c.P, fb, func(call *ast.CallExpr, obj types.Object) string {
			if fn, ok := obj.(*types.Func); ok {
				if d := c.P.DeclOf(fn); d != nil && carrying[d] {
					return "trust-carrying"
				}
			}
			return ""
		})
		f.Run()
		for _, r := range f.Returns {
			res := errResult(r)
			if res == nil || !f.At[r].Has("nonnil:trust-carrying") {
				continue
			}
			nw++
			wrapped := false
			if call, ok := ast.Unparen(res).(*ast.CallExpr); ok {
				if fn, ok := callee(info, call).(*types.Func); ok && fn.Pkg() != nil && (fn.Pkg().Path() == "fmt" && fn.Name() == "Errorf" || fn.Pkg().Path() == "errors" && (fn.Name() == "Join" || fn.Name() == "New")) {
					wrapped = true
				}
			}
			c.Decide(!wrapped, "trust-error-propagates", ordinal(ord, "typed-error-not-wrapped@"+fnDisplay(fb)), r.Pos(), "the error is returned as it is (or as a typed error of the module)",
				"on the error edge of a call that can report *TaskfileNotTrustedError this return yields `"+exprStr(res)+"`: the typed error is buried in a generic one, and cmd/task picks the exit status by a type assertion without unwrapping — the invocation ends with 1 instead of 104 (103, 105, 106)")
		}
	}
	if nw == 0 {
		c.Errorf("trust-error-propagates: no return on the error edge of a trust-carrying call found")
	}
}

// c20ReadErrorNotMasked: what Reader.Read reports is what the invocation ends with.
func c20ReadErrorNotMasked(c *Check, a *Anchors) {
	c.Rule("read-error-not-masked", "the function of package task that calls Reader.Read returns Read's own error on its error edge; it replaces it by another error (the network-timeout class) only on the true edge of errors.Is applied to THAT error: a replacement decided by anything else (the state of the context, a flag) turns a declined approval (*TaskfileNotTrustedError, exit 104) that arrives late into a network problem")
	n := 0
	for _, fb := range c.P.BodiesIn(PkgTask) {
		info := fb.Info()
		has := false
		for _, call := range callsIn(fb, false) {
			if isFunc(callee(info, call), PkgTaskfile, "Reader", "Read") {
				has = true
			}
		}
		if !has {
			continue
		}
		c.Fn(fb.Root())
		f := NewFlow(c.P, fb, func(call *ast.CallExpr, obj types.Object) string {
			if isFunc(obj, PkgTaskfile, "Reader", "Read") {
				return "read"
			}
			return ""
		})
		f.Run()
		for i, r := range f.Returns {
			st := f.At[r]
			res := errResult(r)
			if res == nil || !st.Has("nonnil:read") {
				continue
			}
			n++
			ok := false
			if v := varOf(info, res); v != nil && st.Has(defPrefix(v)+"read") {
				ok = true
			}
			if !ok {
				for k := range st {
					if strings.HasPrefix(k, "true:Is(read,") {
						ok = true // replaced on the strength of a test of Read's error itself
					}
				}
			}
			c.Decide(ok, "read-error-not-masked", fmt.Sprintf("return#%d@%s", i+1, fnDisplay(fb.Root())), r.Pos(), "Read's error, or a replacement decided by errors.Is on it",
				"on the error edge of Reader.Read this return yields `"+exprStrOrNone(res)+"` without a test of Read's error: whatever Read reported — a declined trust prompt included — is replaced; must-facts: "+st.String())
		}
	}
	c.Floor("read-error-not-masked", n, 1)
}

// c20CacheKeyFromFullLocation: the cache key (and with it the stored approval) distinguishes every two locations.
func c20CacheKeyFromFullLocation(c *Check, a *Anchors) {
	c.Rule("cache-key-from-full-location", "in every CacheKey method of the remote node types the digest that makes the key unique is computed from the node's complete Location() — the argument of the package's checksum function is (a conversion of) the Location() call itself, not a cut, split, trimmed or otherwise shortened copy: two locations that differ only in the dropped part (a query string, a ref) would share one cached file and one approval, so the copy served from the cache is another file's")
	n := 0
	for _, fb := range c.P.BodiesIn(PkgTaskfile) {
		if fb.Decl == nil || fb.Decl.Name.Name != "CacheKey" || fb.Decl.Recv == nil {
			continue
		}
		info := fb.Info()
		for _, call := range callsIn(fb, true) {
			fn, ok := callee(info, call).(*types.Func)
			if !ok || fn.Pkg() == nil || fn.Pkg().Path() != PkgTaskfile || fn.Name() != "checksum" || len(call.Args) != 1 {
				continue
			}
			n++
			c.Fn(fb)
			// strip conversions
			e := ast.Unparen(call.Args[0])
			for {
				conv, ok := e.(*ast.CallExpr)
				if !ok || len(conv.Args) != 1 {
					break
				}
				if tv, ok := info.Types[conv.Fun]; ok && tv.IsType() {
					e = ast.Unparen(conv.Args[0])
					continue
				}
				break
			}
			isLoc := func(x ast.Expr) bool {
				lc, ok := ast.Unparen(x).(*ast.CallExpr)
				if !ok {
					return false
				}
				lf, ok := callee(info, lc).(*types.Func)
				return ok && lf.Name() == "Location" && len(lc.Args) == 0
			}
			full := isLoc(e)
			if v := varOf(info, e); v != nil && !v.IsField() {
				defs := defsOf(info, fb.Body, v)
				full = len(defs) > 0
				for _, d := range defs {
					if !isLoc(d) {
						full = false
					}
				}
			}
			c.Decide(full, "cache-key-from-full-location", "digest-input@"+fnDisplay(fb), call.Pos(), "the digest is taken over Location()",
				"the digest of "+fnDisplay(fb)+" is taken over `"+exprStr(call.Args[0])+"`, which is not the node's complete Location(): locations that differ only in what was removed get the same cache key, so one's cached (and approved) copy is served for the other")
		}
	}
	c.Floor("cache-key-from-full-location", n, 2)
}

// fieldAsgOK: the assumed value of the reader's setting `name` on a path, whichever struct of the package declares the field
// (Reader itself or a settings struct embedded in it).
func fieldAsgOK(asg map[string]bool, name string) (bool, bool) {
	if v, ok := asg["field:Reader."+name]; ok {
		return v, true
	}
	for k, v := range asg {
		if strings.HasPrefix(k, "field:") && strings.HasSuffix(k, "."+name) && !strings.Contains(k, "(") {
			return v, true
		}
	}
	return false, false
}

func fieldAsg(asg map[string]bool, name string) bool {
	v, _ := fieldAsgOK(asg, name)
	return v
}
