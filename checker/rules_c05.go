package main

import (
	"fmt"
	"go/ast"
	"go/token"
	"go/types"
	"sort"
	"strings"

	"golang.org/x/tools/go/ssa"
)

func init() { register("C05", checkC05) }

func checkC05(c *Check, a *Anchors) {
	c.NotDecided = []string{
		"that xxh3 distinguishes two file contents; glob semantics of mvdan/sh; filesystem timestamp granularity (value level)",
		"idempotence as observed by running (only the decision structure is decided)",
	}
	c05UpToDateTable(c, a)
	c05ForceTable(c, a)
	c05ChecksumInputs(c, a)
	c05GlobOrder(c, a)
	c05Generates(c, a)
	c05Mtime(c, a)
	timestampStateIsReference(c, a)
	globKeepsOtherMatches(c, a)
	setupOrder(c, a, "setup-order")
	// "any edit causes the commands to run again" also needs that queries between the edit and the run do not record the new fingerprint
	c12DryImplied(c, a)
	fpWriteDryGuarded(c, a, "queries-do-not-record")
	methodResolution(c, a, "method-resolution-agrees")
	c05ChecksumAtCheckTime(c, a)
	c08CopyExhaustive(c, a) // the sources / generates entries of an included task are copies: a copy that drops Negate turns every exclude entry into an include
	timestampFullResolution(c, a, "timestamp-full-resolution")
	globFollowsSymlinks(c, a)
	checksumStatePerLabel(c, a)
	c04Rollback(c, a)                                              // "an edit is followed by a rebuild": the fingerprint recorded before the commands must not survive ANY failing exit, whatever kind of error a command returned
	c06FileDefaultsNotImported(c, a, "file-defaults-not-imported") // `method:` of the root Taskfile is the default fingerprint method of every task without its own
}

func atomWith(asg map[string]bool, parts ...string) (string, bool) {
	for k := range asg {
		all := true
		for _, p := range parts {
			if !strings.Contains(k, p) {
				all = false
			}
		}
		if all {
			return k, true
		}
	}
	return "", false
}

func c05UpToDateTable(c *Check, a *Anchors) {
	c.Rule("uptodate-table", "decision table of fingerprint.IsTaskUpToDate over all paths: with S = status set, R = sources set, s / r = the respective checker's verdict, the result is (S or R) and (S implies s) and (R implies r); each checker is consulted exactly when its part is set; a checker error yields (false, err)")
	fb := c.P.Func(PkgFingerprint, "", "IsTaskUpToDate")
	if fb == nil {
		c.Errorf("uptodate-table: fingerprint.IsTaskUpToDate not found")
		return
	}
	fn := c.P.SSAFunc(fb)
	c.Fn(fb)
	pe := &PathEnum{Fn: fn, MaxRevisit: revisit(), Event: func(in ssa.Instruction) (string, string) {
		if call, ok := in.(*ssa.Call); ok && call.Common().IsInvoke() && call.Common().Method.Name() == "IsUpToDate" {
			return recvName(call.Common().Value.Type()) + ".IsUpToDate", "call"
		}
		return "", ""
	}}
	pe.Run()
	c.Paths += len(pe.Paths)
	var bad []string
	rows := map[string]bool{}
	for _, p := range pe.Paths {
		if p.Panic || len(p.Out) != 2 {
			continue
		}
		sEmpty, okS := atomWith(p.Asg, "empty(", "Task.Status")
		rEmpty, okR := atomWith(p.Asg, "empty(", "Task.Sources")
		if !okS || !okR {
			continue // early exit before the parts were looked at (option/constructor errors)
		}
		S, R := !p.Asg[sEmpty], !p.Asg[rEmpty]
		calledS, calledR := p.HasEvent("StatusCheckable.IsUpToDate", "call"), p.HasEvent("SourcesCheckable.IsUpToDate", "call")
		if calledS != S && !(S && !calledS && p.Out[1] != "nil") {
			bad = append(bad, fmt.Sprintf("status checker consulted=%v but status set=%v: %s", calledS, S, p))
		}
		errS, hasErrS := atomWith(p.Asg, "nil(", "StatusCheckable.IsUpToDate")
		errR, hasErrR := atomWith(p.Asg, "nil(", "SourcesCheckable.IsUpToDate")
		failed := (hasErrS && !p.Asg[errS]) || (hasErrR && !p.Asg[errR])
		if failed {
			rows["error"] = true
			if p.Out[0] != "false" || p.Out[1] == "nil" {
				bad = append(bad, "a checker error does not yield (false, err): "+p.String())
			}
			continue
		}
		if calledR != R {
			bad = append(bad, fmt.Sprintf("sources checker consulted=%v but sources set=%v: %s", calledR, R, p))
		}
		if p.Out[1] != "nil" {
			bad = append(bad, "non-nil error without a checker error: "+p.String())
		}
		// enumerate the verdict atoms
		var verdicts []string
		f := p.OutBX[0]
		at := map[string]bool{}
		f.Atoms(at)
		for k := range at {
			if _, assigned := p.Asg[k]; !assigned {
				verdicts = append(verdicts, k)
			}
		}
		for _, comp := range Completions(p, append(verdicts, keysOf(p.Asg)...)) {
			val, known, _ := f.Eval(comp)
			if !known {
				bad = append(bad, "result not determined by the atoms: "+p.String())
				break
			}
			s, r := true, true
			for k, v := range comp {
				if strings.Contains(k, "StatusCheckable.IsUpToDate") && strings.HasSuffix(k, "#0") {
					s = v
				}
				if strings.Contains(k, "SourcesCheckable.IsUpToDate") && strings.HasSuffix(k, "#0") {
					r = v
				}
			}
			want := (S || R) && (!S || s) && (!R || r)
			rows[fmt.Sprintf("S=%v R=%v s=%v r=%v", S, R, S && s, R && r)] = true
			if val != want {
				bad = append(bad, fmt.Sprintf("S=%v R=%v s=%v r=%v: returns %v, the table says %v: %s", S, R, s, r, val, want, p))
			}
		}
	}
	if len(rows) < 9 {
		c.Errorf("uptodate-table: only %d table rows were covered (expected 9 + error row)", len(rows))
	}
	if len(bad) > 3 {
		bad = bad[:3]
	}
	c.Decide(len(bad) == 0, "uptodate-table", "table@"+fnDisplay(fb), fb.Decl.Pos(), fmt.Sprintf("all %d rows of the table hold on %d paths", len(rows), len(pe.Paths)), strings.Join(bad, " || "))
}

func keysOf(m map[string]bool) []string {
	var out []string
	for k := range m {
		out = append(out, k)
	}
	return out
}

func c05ForceTable(c *Check, a *Anchors) {
	c.Rule("force-table", "decision table over all paths of the task body: the up-to-date check is skipped IFF ForceAll or (direct call and Force); when it is not skipped, a nil return without reaching the commands happens only when the check said 'up to date'")
	fn := c.P.SSAFunc(a.BodyClosure)
	if fn == nil {
		c.Errorf("force-table: no SSA for the task body")
		return
	}
	c.Fn(a.BodyClosure)
	pe := &PathEnum{Fn: fn, MaxRevisit: revisit(), Event: a.ssaLabel}
	pe.Name = isExitName(pe)
	pe.Run()
	c.Paths += len(pe.Paths)
	// the work phase starts after the top-level statement of the body that contains the up-to-date check
	var workStart token.Pos
	for _, st := range a.BodyClosure.Body.List {
		has := false
		ast.Inspect(st, func(nd ast.Node) bool {
			if call, ok := nd.(*ast.CallExpr); ok && a.isUpToDateCallee(callee(a.BodyClosure.Info(), call)) {
				has = true
			}
			return true
		})
		if has {
			workStart = st.End()
		}
	}
	upName := "res:fingerprint.IsTaskUpToDate"
	for v, nme := range pe.callOrd {
		if call, ok := v.(*ssa.Call); ok {
			if l, _ := a.ssaLabel(call); l == "uptodate" {
				upName = "res:" + nme // the query may be made through a thin forwarder of the package
			}
		}
	}
	var bad []string
	nChecked, nSkipped, nUpToDate := 0, 0, 0
	for _, p := range pe.Paths {
		if p.Panic {
			continue
		}
		reachedWork := p.HasEvent("mkdir", "call") || p.HasEvent("prompt", "call") || p.HasEvent("cmd", "call") || p.HasEvent("cmd", "defer")
		// ... or executed anything written after the statement that holds the up-to-date check (the directory creation may be
		// written in place and be skipped for a task without dir:, a task may have no commands)
		if !reachedWork && workStart.IsValid() {
			for _, bi := range p.Blocks {
				if bi < 0 || bi >= len(fn.Blocks) {
					continue
				}
				for _, in := range fn.Blocks[bi].Instrs {
					if _, isRet := in.(*ssa.Return); isRet {
						continue
					}
					if _, isJump := in.(*ssa.Jump); isJump {
						continue
					}
					if in.Pos().IsValid() && in.Pos() > workStart {
						reachedWork = true
					}
				}
			}
		}
		checked := p.HasEvent("uptodate", "call")
		fa, fak := p.Asg["field:Executor.ForceAll"]
		fo, fok := p.Asg["field:Executor.Force"]
		ind, indk := p.Asg["field:Call.Indirect"]
		skipKnownTrue := (fak && fa) || (indk && !ind && fok && fo)
		skipKnownFalse := fak && !fa && ((indk && ind) || (fok && !fo))
		switch {
		case checked:
			nChecked++
			if !skipKnownFalse {
				bad = append(bad, "the up-to-date check runs although `ForceAll || (!Indirect && Force)` is not refuted on the path: "+p.String())
			}
		case reachedWork:
			nSkipped++
			if !skipKnownTrue {
				bad = append(bad, "the task proceeds to its commands without the up-to-date check although forcing is not established: "+p.String())
			}
		}
		out := ""
		if len(p.Out) > 0 {
			out = p.Out[len(p.Out)-1]
		}
		if out == "nil" && !reachedWork {
			// successful return without reaching the commands: only 'up to date'
			up, ok := atomWith(p.Asg, upName, "#0")
			if !(checked && ok && p.Asg[up]) {
				bad = append(bad, "the body returns success without running the commands and without an 'up to date' verdict: "+p.String())
			} else {
				nUpToDate++
			}
		}
	}
	if nChecked == 0 || nSkipped == 0 || nUpToDate == 0 {
		c.Errorf("force-table: vacuous (checked=%d skipped=%d up-to-date=%d)", nChecked, nSkipped, nUpToDate)
	}
	if len(bad) > 3 {
		bad = bad[:3]
	}
	c.Decide(len(bad) == 0, "force-table", "table@"+fnDisplay(a.BodyClosure), a.BodyClosure.Body.Pos(), fmt.Sprintf("holds on %d checking, %d forcing and %d up-to-date paths", nChecked, nSkipped, nUpToDate), strings.Join(bad, " || "))
}

func c05ChecksumInputs(c *Check, a *Anchors) {
	c.Rule("checksum-inputs", "in the checksum routine, inside the loop over the sorted glob result, the hasher receives on every iteration both the file's base name and the content of the opened file, and the returned digest is derived from that hasher only")
	var fb *FuncBody
	var csReach map[*FuncBody]bool
	if up := c.P.Func(PkgFingerprint, "ChecksumChecker", "IsUpToDate"); up != nil {
		csReach = c.P.ReachableFrom([]*FuncBody{up}, nil)
	}
	for _, b := range c.P.BodiesIn(PkgFingerprint) {
		// a method of the checker, or a function of the package its IsUpToDate reaches
		if b.Decl == nil || (recvOf(b) != "ChecksumChecker" && !csReach[b]) {
			continue
		}
		for _, call := range callsIn(b, false) {
			if fn, ok := callee(b.Info(), call).(*types.Func); ok && fn.Pkg() != nil && fn.Pkg().Path() == "github.com/zeebo/xxh3" && fn.Name() == "New" {
				fb = b
			}
		}
	}
	if fb == nil {
		c.Errorf("checksum-inputs: checksum routine (ChecksumChecker method calling xxh3.New) not found")
		return
	}
	c.Fn(fb)
	info := fb.Info()
	name := fnDisplay(fb)
	var h *types.Var
	inspectBody(fb.Body, func(nd ast.Node) bool {
		if as, ok := nd.(*ast.AssignStmt); ok && len(as.Rhs) == 1 {
			if call, ok := ast.Unparen(as.Rhs[0]).(*ast.CallExpr); ok {
				if fn, ok := callee(info, call).(*types.Func); ok && fn.Pkg() != nil && fn.Pkg().Path() == "github.com/zeebo/xxh3" && fn.Name() == "New" {
					h = varOf(info, as.Lhs[0])
				}
			}
		}
		return true
	})
	var loop *ast.RangeStmt
	var sources *types.Var
	inspectBody(fb.Body, func(nd ast.Node) bool {
		if r, ok := nd.(*ast.RangeStmt); ok && loop == nil {
			if v := varOf(info, r.X); v != nil {
				if d := singleDef(info, fb.Body, v); d != nil {
					if call, ok := ast.Unparen(d).(*ast.CallExpr); ok && isFunc(callee(info, call), PkgFingerprint, "", "Globs") {
						loop, sources = r, v
					}
				}
			}
		}
		return true
	})
	if h == nil || loop == nil {
		c.Bad("checksum-inputs", "shape@"+name, fb.Decl.Pos(), "the checksum routine no longer hashes in a loop over the Globs result with an xxh3 hasher")
		return
	}
	_ = sources
	item := varOf(info, loop.Value)
	gotName, gotContent, baseOnly := false, false, false
	for _, s := range loop.Body.List {
		inspectBody(s, func(nd ast.Node) bool {
			call, ok := nd.(*ast.CallExpr)
			if !ok {
				return true
			}
			usesH := false
			for _, arg := range call.Args {
				if varOf(info, arg) == h {
					usesH = true
				}
			}
			if sel, ok := ast.Unparen(call.Fun).(*ast.SelectorExpr); ok && varOf(info, sel.X) == h {
				usesH = true
			}
			if !usesH || !unconditionalIn(loop.Body.List, call) && !condOnlyErr(loop.Body.List, call) {
				return true
			}
			src := ""
			for _, arg := range call.Args {
				if varOf(info, arg) != h {
					src += exprStr(arg) + " "
				}
			}
			// the name: an argument derived from the loop item through string expressions (not the opened file)
			if item != nil {
				for _, arg := range call.Args {
					if varOf(info, arg) == h {
						continue
					}
					isFile := false
					if v := varOf(info, arg); v != nil {
						for _, d := range defsOf(info, loop.Body, v) {
							if oc, ok := ast.Unparen(d).(*ast.CallExpr); ok && isFunc(callee(info, oc), "os", "", "Open") {
								isFile = true
							}
						}
					}
					if !isFile && mentionsViaMulti(info, loop.Body, arg, item, 3) {
						gotName = true
						// does the derivation throw the directory away
						var walk func(e ast.Node, depth int)
						walk = func(e ast.Node, depth int) {
							ast.Inspect(e, func(m ast.Node) bool {
								if bc, ok := m.(*ast.CallExpr); ok && isFunc(callee(info, bc), "path/filepath", "", "Base") {
									baseOnly = true
								}
								if id, ok := m.(*ast.Ident); ok && depth < 3 {
									if v, ok := info.Uses[id].(*types.Var); ok && v != item {
										for _, d := range defsOf(info, loop.Body, v) {
											walk(d, depth+1)
										}
									}
								}
								return true
							})
						}
						walk(arg, 0)
					}
				}
			}
			_ = src
			// content: an argument that is a variable assigned from os.Open(<item>)
			for _, arg := range call.Args {
				if v := varOf(info, arg); v != nil && v != h {
					ast.Inspect(loop.Body, func(m ast.Node) bool {
						if as, ok := m.(*ast.AssignStmt); ok && len(as.Rhs) == 1 {
							if oc, ok := ast.Unparen(as.Rhs[0]).(*ast.CallExpr); ok && isFunc(callee(info, oc), "os", "", "Open") {
								for _, l := range as.Lhs {
									if varOf(info, l) == v {
										gotContent = true
									}
								}
							}
						}
						return true
					})
				}
			}
			return true
		})
	}
	c.Decide(!baseOnly, "checksum-inputs", "file-path-hashed@"+name, loop.Pos(), "the hashed name keeps the directory part", "only filepath.Base of each source is hashed: moving a file to another directory matched by the same pattern (a rename) leaves the checksum unchanged")
	c.Decide(gotName, "checksum-inputs", "file-name-hashed@"+name, loop.Pos(), "the name of every source is fed to the hasher", "the checksum no longer includes the file name of each source on every iteration: renaming a source file would not trigger a rebuild")
	c.Decide(gotContent, "checksum-inputs", "file-content-hashed@"+name, loop.Pos(), "the content of every opened source is fed to the hasher", "the checksum no longer includes the content of each source on every iteration: editing a source file would not trigger a rebuild")
	derived := false
	for _, r := range returnsOf(fb.Body) {
		if len(r.Results) > 0 && !isNilLit(info, errResult(r)) {
			continue
		}
		if len(r.Results) > 0 && mentionsVia(info, fb.Body, r.Results[0], h, 3) {
			derived = true
		}
	}
	c.Decide(derived, "checksum-inputs", "digest-from-hasher@"+name, fb.Decl.Pos(), "the returned digest is computed from the hasher", "the value returned on success is not derived from the hasher")
}

func mentionsAny(info *types.Info, n ast.Node, v *types.Var) bool { return mentions(info, n, v) }

// condOnlyErr: the call is the init/cond of an `if ...; err != nil` statement at the top level of list with no earlier jump.
func condOnlyErr(list []ast.Stmt, target ast.Node) bool {
	for _, s := range list {
		if s.Pos() <= target.Pos() && target.End() <= s.End() {
			if ifs, ok := s.(*ast.IfStmt); ok && ifs.Init != nil && within(target, ifs.Init) {
				return true
			}
			return false
		}
		if hasJumpOtherThanErrReturn(s) {
			return false
		}
	}
	return false
}

// hasJumpOtherThanErrReturn: a statement that can leave the iteration for a reason other than `if err != nil { return }`.
func hasJumpOtherThanErrReturn(s ast.Stmt) bool {
	if ifs, ok := s.(*ast.IfStmt); ok {
		cond := exprStr(ifs.Cond)
		if strings.Contains(cond, "err != nil") && ifs.Else == nil {
			return false
		}
	}
	return hasJump(s)
}

func c05GlobOrder(c *Check, a *Anchors) {
	c.Rule("glob-order", "Globs applies the patterns in slice order with later entries overwriting earlier ones (resultMap[match] = !Negate inside the ordered loop, unconditionally for every match) and returns through a collector that sorts the surviving keys")
	fb := c.P.Func(PkgFingerprint, "", "Globs")
	if fb == nil {
		c.Errorf("glob-order: fingerprint.Globs not found")
		return
	}
	c.Fn(fb)
	info := fb.Info()
	name := fnDisplay(fb)
	var loop *ast.RangeStmt
	inspectBody(fb.Body, func(nd ast.Node) bool {
		if r, ok := nd.(*ast.RangeStmt); ok && loop == nil {
			if tv, ok := info.Types[r.X]; ok && sliceOfPtrTo(tv.Type, PkgAst, "Glob") {
				loop = r
			}
		}
		return true
	})
	if loop == nil {
		c.Bad("glob-order", "ordered-loop@"+name, fb.Decl.Pos(), "Globs no longer ranges over the []*ast.Glob slice in order")
		return
	}
	okStore := false
	var resultMap *types.Var
	// storesNegate: in body, `m[x] = <val>` is unconditional inside an inner loop; val is judged by isVal; returns the map expr
	storesIn := func(inf *types.Info, body ast.Node, isVal func(ast.Expr) bool) ast.Expr {
		var out ast.Expr
		pm := parentMap(body)
		inspectBody(body, func(nd ast.Node) bool {
			as, ok := nd.(*ast.AssignStmt)
			if !ok || len(as.Lhs) != 1 || len(as.Rhs) != 1 {
				return true
			}
			ix, ok := ast.Unparen(as.Lhs[0]).(*ast.IndexExpr)
			if !ok || !isVal(as.Rhs[0]) {
				return true
			}
			for p := pm[as]; p != nil; p = pm[p] {
				if inner, ok := p.(*ast.RangeStmt); ok {
					if unconditionalIn(inner.Body.List, as) {
						out = ix.X
					}
					break
				}
			}
			return true
		})
		return out
	}
	isNotNegate := func(e ast.Expr) bool {
		u, ok := ast.Unparen(e).(*ast.UnaryExpr)
		return ok && u.Op == token.NOT && fieldSel(info, u.X, PkgAst, "Glob", "Negate")
	}
	if m := storesIn(info, loop.Body, isNotNegate); m != nil {
		okStore, resultMap = true, varOf(info, m)
	} else {
		// the store lives in a recorder of the package: a call in the loop that receives `!g.Negate` and stores that parameter,
		// unconditionally for every element it is given, into its receiver / map parameter
		inspectBody(loop.Body, func(nd ast.Node) bool {
			call, ok := nd.(*ast.CallExpr)
			if !ok || okStore {
				return true
			}
			fn, _ := callee(info, call).(*types.Func)
			h := c.P.DeclOf(fn)
			if h == nil || h.Decl == nil || h.Pkg.PkgPath != PkgFingerprint {
				return true
			}
			hinfo := h.Info()
			pi := 0
			var valParam *types.Var
			paramArg := map[*types.Var]ast.Expr{}
			for _, fld := range h.Type.Params.List {
				for _, id := range fld.Names {
					pv, _ := hinfo.Defs[id].(*types.Var)
					if pi < len(call.Args) && pv != nil {
						paramArg[pv] = call.Args[pi]
						if isNotNegate(call.Args[pi]) {
							valParam = pv
						}
					}
					pi++
				}
			}
			topLevel := false
			for _, st := range loop.Body.List {
				if es, ok := st.(*ast.ExprStmt); ok && ast.Unparen(es.X) == ast.Expr(call) {
					topLevel = true // a statement of the loop body itself, as the inner loop over the matches was
				}
			}
			if valParam == nil || !topLevel {
				return true
			}
			m := storesIn(hinfo, h.Body, func(e ast.Expr) bool { return varOf(hinfo, e) == valParam })
			if m == nil {
				return true
			}
			mv := varOf(hinfo, m)
			if mv == nil {
				return true
			}
			c.Fn(h)
			if arg, ok := paramArg[mv]; ok {
				okStore, resultMap = true, varOf(info, arg)
			} else if h.Decl.Recv != nil && len(h.Decl.Recv.List) == 1 && len(h.Decl.Recv.List[0].Names) == 1 && hinfo.Defs[h.Decl.Recv.List[0].Names[0]] == mv {
				if sel, ok := ast.Unparen(call.Fun).(*ast.SelectorExpr); ok {
					okStore, resultMap = true, varOf(info, sel.X)
				}
			}
			return true
		})
	}
	c.Decide(okStore, "glob-order", "later-wins@"+name, loop.Pos(), "every match of every pattern overwrites the map entry with !Negate, in pattern order", "Globs no longer records `!Negate` for every match of every pattern in order: an exclude entry would not remove earlier matches (or an include after an exclude would not re-add them)")
	// returns via a sorting collector
	sorted := false
	for _, r := range returnsOf(fb.Body) {
		if len(r.Results) == 0 {
			continue
		}
		if call, ok := ast.Unparen(r.Results[0]).(*ast.CallExpr); ok {
			if fn, ok := callee(info, call).(*types.Func); ok {
				onMap := len(call.Args) == 1 && varOf(info, call.Args[0]) == resultMap
				if sel, isSel := ast.Unparen(call.Fun).(*ast.SelectorExpr); isSel && len(call.Args) == 0 && varOf(info, sel.X) == resultMap {
					onMap = true // a method of the result set
				}
				if d := c.P.DeclOf(fn); d != nil && resultMap != nil && onMap {
					c.Fn(d)
					if sortsBeforeReturn(d) {
						sorted = true
					}
				}
			}
		}
	}
	c.Decide(sorted, "glob-order", "sorted-result@"+name, fb.Decl.Pos(), "the result is produced by a collector that sorts the keys", "Globs no longer returns a sorted list: the order of sources (and therefore the checksum and for-loops over sources) would depend on map iteration order")
}

// sortsBeforeReturn: the function sorts the slice it returns.
func sortsBeforeReturn(fb *FuncBody) bool {
	info := fb.Info()
	var sortedVars []*types.Var
	inspectBody(fb.Body, func(nd ast.Node) bool {
		if call, ok := nd.(*ast.CallExpr); ok {
			if fn, ok := callee(info, call).(*types.Func); ok && fn.Pkg() != nil && (fn.Pkg().Path() == "sort" || fn.Pkg().Path() == "slices") && (strings.HasPrefix(fn.Name(), "Sort") || fn.Name() == "Strings") && len(call.Args) >= 1 {
				if v := varOf(info, call.Args[0]); v != nil {
					sortedVars = append(sortedVars, v)
				}
			}
		}
		return true
	})
	for _, r := range returnsOf(fb.Body) {
		if len(r.Results) == 0 {
			return false
		}
		ok := false
		for _, v := range sortedVars {
			if varOf(info, r.Results[0]) == v {
				ok = true
			}
		}
		if call, isCall := ast.Unparen(r.Results[0]).(*ast.CallExpr); isCall {
			if fn, isFn := callee(info, call).(*types.Func); isFn && fn.Pkg() != nil && fn.Pkg().Path() == "slices" && fn.Name() == "Sorted" {
				ok = true
			}
		}
		if !ok {
			return false
		}
	}
	return len(sortedVars) > 0 || len(returnsOf(fb.Body)) > 0
}

func c05Generates(c *Check, a *Anchors) {
	c.Rule("generates-checked", "the checksum checker examines every non-negated generates entry individually (a loop over t.Generates that returns 'not up to date' when an entry matches no file) before any return that can say 'up to date'; the timestamp checker feeds the generates glob result into the max-time set it compares the sources with")
	up := c.P.Func(PkgFingerprint, "ChecksumChecker", "IsUpToDate")
	if up == nil {
		c.Errorf("generates-checked: ChecksumChecker.IsUpToDate not found")
		return
	}
	c.Fn(up)
	info := up.Info()
	// the per-entry loop: in IsUpToDate itself or in a helper it delegates to
	var loop *ast.RangeStmt
	var loopFB *FuncBody
	for _, g := range c.P.groupOf(up, 2) {
		inspectBody(g.Body, func(nd ast.Node) bool {
			if r, ok := nd.(*ast.RangeStmt); ok && loop == nil && fieldSel(g.Info(), r.X, PkgAst, "Task", "Generates") {
				loop, loopFB = r, g
			}
			return true
		})
	}
	name := fnDisplay(up)
	if loop == nil {
		c.Bad("generates-checked", "per-entry-loop@"+name, up.Decl.Pos(), "the checksum checker no longer loops over the individual generates entries: a task with several generates entries stays 'up to date' when only some outputs are missing")
	} else {
		c.Fn(loopFB)
		linfo := loopFB.Info()
		item := varOf(linfo, loop.Value)
		perEntry, emptyFalse := false, false
		inspectBody(loop.Body, func(nd ast.Node) bool {
			switch x := nd.(type) {
			case *ast.CallExpr:
				if fn, ok := callee(linfo, x).(*types.Func); ok && fn.Pkg() != nil && fn.Pkg().Path() == PkgFingerprint && item != nil && mentions(linfo, x, item) {
					perEntry = true
				}
			case *ast.IfStmt:
				cond := exprStr(x.Cond)
				if strings.Contains(cond, "len(") && strings.Contains(cond, "== 0") {
					for _, r := range returnsOf(x.Body) {
						if len(r.Results) == 2 && constIs(linfo, r.Results[0], "false") {
							emptyFalse = true
						}
					}
				}
			}
			return true
		})
		c.Decide(perEntry && emptyFalse, "generates-checked", "per-entry-loop@"+name, loop.Pos(), "each entry is globbed on its own and an empty result returns false",
			fmt.Sprintf("the generates loop does not check each entry on its own (globs the entry: %v, returns false on an empty match: %v)", perEntry, emptyFalse))
		// every return of IsUpToDate that can say `true` lies after the check (and, when the check lives in a helper, on the edge where the helper said ok)
		okPos := true
		why := "a return that can yield 'up to date' precedes the generates check"
		if loopFB == up {
			for _, r := range returnsOf(up.Body) {
				if len(r.Results) == 2 && !constIs(info, r.Results[0], "false") && r.Pos() < loop.End() {
					okPos = false
				}
			}
		} else {
			f := NewFlow(c.P, up, func(call *ast.CallExpr, obj types.Object) string {
				if fn, ok := obj.(*types.Func); ok && c.P.DeclOf(fn) == loopFB {
					return "generates-check"
				}
				return ""
			})
			f.Run()
			n := 0
			for _, r := range f.Returns {
				if len(r.Results) == 2 && !constIs(info, r.Results[0], "false") {
					n++
					if st := f.At[r]; !st.Has("true:generates-check") {
						okPos = false
						why = "a return that can yield 'up to date' is not dominated by the true verdict of the generates check; must-facts: " + st.String()
					}
				}
			}
			if n == 0 {
				okPos = false
			}
		}
		c.Decide(okPos, "generates-checked", "true-only-after-loop@"+name, loop.Pos(), "no return that can yield true escapes the generates check", why)
	}
	ts := c.P.Func(PkgFingerprint, "TimestampChecker", "IsUpToDate")
	if ts == nil {
		c.Errorf("generates-checked: TimestampChecker.IsUpToDate not found")
		return
	}
	c.Fn(ts)
	tinfo := ts.Info()
	var gen *types.Var
	inspectBody(ts.Body, func(nd ast.Node) bool {
		if as, ok := nd.(*ast.AssignStmt); ok && len(as.Rhs) == 1 {
			if call, ok := ast.Unparen(as.Rhs[0]).(*ast.CallExpr); ok && isFunc(callee(tinfo, call), PkgFingerprint, "", "Globs") && len(call.Args) == 2 && fieldSel(tinfo, call.Args[1], PkgAst, "Task", "Generates") {
				gen = varOf(tinfo, as.Lhs[0])
			}
		}
		return true
	})
	flows := false
	if gen != nil {
		for _, call := range callsIn(ts, false) {
			if fn, ok := callee(tinfo, call).(*types.Func); ok && fn.Name() == "getMaxTime" {
				for _, arg := range call.Args {
					if varOf(tinfo, arg) == gen {
						flows = true
					}
				}
			}
		}
	}
	c.Decide(flows, "generates-checked", "generates-in-max-time@"+fnDisplay(ts), ts.Decl.Pos(), "Globs(t.Generates) flows into getMaxTime", "the timestamp checker no longer compares the sources with the generates files")
	// sibling agreement: "a missing generates file causes the commands to run again" holds for both methods, so the timestamp
	// checker's returns that can say 'up to date' are dominated by the same per-entry existence check
	if loop != nil {
		inTS := false
		if loopFB == ts {
			inTS = true
		}
		f := NewFlow(c.P, ts, func(call *ast.CallExpr, obj types.Object) string {
			if fn, ok := obj.(*types.Func); ok && c.P.DeclOf(fn) == loopFB && loopFB != up {
				return "generates-check"
			}
			return ""
		})
		f.Run()
		okTS, nTrue := true, 0
		whyTS := ""
		for _, r := range f.Returns {
			if len(r.Results) == 2 && !constIs(tinfo, r.Results[0], "false") {
				nTrue++
				if st := f.At[r]; !inTS && !st.Has("true:generates-check") {
					okTS = false
					whyTS = st.String()
				}
			}
		}
		c.Decide(okTS && nTrue > 0, "generates-checked", "true-only-after-existence-check@"+fnDisplay(ts), ts.Decl.Pos(), "every return that can yield true is dominated by the per-entry existence check",
			"the timestamp checker can answer 'up to date' without the per-entry existence check of the generates files that the checksum checker performs (Globs silently drops entries that match nothing): deleting an output does not make the task run again; must-facts: "+whyTS)
	}
}

func c05Mtime(c *Check, a *Anchors) {
	c.Rule("timestamp-uses-mtime", "the timestamp verdict depends on ModTime().After(...) of every source (the loop returns true on the first newer file and false only after all were examined); nothing reachable from the checksum checker reads a modification time")
	nf := c.P.Func(PkgFingerprint, "", "anyFileNewerThan")
	if nf == nil {
		c.Errorf("timestamp-uses-mtime: anyFileNewerThan not found")
	} else {
		c.Fn(nf)
		info := nf.Info()
		usesAfter := false
		inspectBody(nf.Body, func(nd ast.Node) bool {
			if call, ok := nd.(*ast.CallExpr); ok {
				if fn, ok := callee(info, call).(*types.Func); ok && fn.Name() == "After" && strings.Contains(exprStr(call.Fun), "ModTime()") {
					usesAfter = true
				}
			}
			return true
		})
		c.Decide(usesAfter, "timestamp-uses-mtime", "after@"+fnDisplay(nf), nf.Decl.Pos(), "info.ModTime().After(given) decides", "the timestamp comparison no longer uses ModTime().After(...)")
		ts := c.P.Func(PkgFingerprint, "TimestampChecker", "IsUpToDate")
		used := false
		if ts != nil {
			for _, call := range callsIn(ts, false) {
				if a.is(callee(ts.Info(), call), nf) {
					used = true
				}
			}
		}
		c.Decide(used, "timestamp-uses-mtime", "used@TimestampChecker.IsUpToDate", nf.Decl.Pos(), "the timestamp checker calls the mtime comparison", "the timestamp checker no longer calls the mtime comparison")
	}
	up := c.P.Func(PkgFingerprint, "ChecksumChecker", "IsUpToDate")
	if up == nil {
		return
	}
	reach := c.P.ReachableFrom([]*FuncBody{up}, nil)
	bad := ""
	for fb := range reach {
		if fb.Pkg.PkgPath != PkgFingerprint {
			continue
		}
		c.Fn(fb)
		for _, call := range callsIn(fb, true) {
			if fn, ok := callee(fb.Info(), call).(*types.Func); ok && (fn.Name() == "ModTime" || fn.Name() == "Chtimes") {
				bad = fnDisplay(fb)
			}
		}
	}
	c.Decide(bad == "", "timestamp-uses-mtime", "checksum-ignores-mtime", up.Decl.Pos(), "no ModTime read is reachable from the checksum checker", "the checksum checker reads modification times in "+bad+": a pure mtime change would trigger a rebuild")
}

// checksumRoutine: the function of internal/fingerprint that creates the xxh3 hasher (reads and hashes the files).
func checksumRoutine(c *Check) *FuncBody {
	var fb *FuncBody
	for _, b := range c.P.BodiesIn(PkgFingerprint) {
		if b.Decl == nil {
			continue
		}
		for _, call := range callsIn(b, false) {
			if fn, ok := callee(b.Info(), call).(*types.Func); ok && fn.Pkg() != nil && fn.Pkg().Path() == "github.com/zeebo/xxh3" && fn.Name() == "New" {
				fb = b
			}
		}
	}
	return fb
}

// c05ChecksumAtCheckTime: the verdict compares the recorded checksum with one computed from the files NOW.
func c05ChecksumAtCheckTime(c *Check, a *Anchors) {
	c.Rule("checksum-computed-at-check-time", "the value ChecksumChecker.IsUpToDate compares with (and records over) the stored checksum is, on every path, the result of the checksum routine that reads the files — obtained directly or through helpers every successful return of which yields that routine's result; a value taken from anywhere else (a variable of the compiled task, a cache) was computed before the task's dependencies ran and misses what they changed")
	up := c.P.Func(PkgFingerprint, "ChecksumChecker", "IsUpToDate")
	rt := checksumRoutine(c)
	if up == nil || rt == nil {
		c.Errorf("checksum-computed-at-check-time: IsUpToDate / checksum routine not found")
		return
	}
	c.Fn(up)
	info := up.Info()
	// yields(h): every return of h that does not carry a non-nil error hands back, as first result, the routine's result
	var yields func(h *FuncBody, depth int) (bool, string)
	fromRoutine := func(hinfo *types.Info, h *FuncBody, e ast.Expr, depth int) (bool, string) {
		e = ast.Unparen(e)
		var judgeCall func(call *ast.CallExpr) (bool, string)
		judgeCall = func(call *ast.CallExpr) (bool, string) {
			fn, _ := callee(hinfo, call).(*types.Func)
			d := c.P.DeclOf(fn)
			if d == nil {
				return false, "`" + exprStr(call) + "` is not the checksum routine"
			}
			if d == rt {
				return true, ""
			}
			if depth <= 0 || d.Pkg.PkgPath != PkgFingerprint {
				return false, "`" + exprStr(call) + "` is not the checksum routine"
			}
			return yields(d, depth-1)
		}
		if call, ok := e.(*ast.CallExpr); ok {
			return judgeCall(call)
		}
		if v := varOf(hinfo, e); v != nil && !v.IsField() {
			defs := defsOf(hinfo, h.Body, v)
			if len(defs) == 0 {
				return false, "`" + v.Name() + "` has no definition from the checksum routine"
			}
			for _, d := range defs {
				call, ok := ast.Unparen(d).(*ast.CallExpr)
				if !ok {
					return false, "`" + v.Name() + "` is assigned `" + exprStr(d) + "`, which does not come from the checksum routine"
				}
				if ok2, why := judgeCall(call); !ok2 {
					return false, why
				}
			}
			return true, ""
		}
		return false, "`" + exprStr(e) + "` does not come from the checksum routine"
	}
	yields = func(h *FuncBody, depth int) (bool, string) {
		c.Fn(h)
		hinfo := h.Info()
		rets := returnsOf(h.Body)
		if len(rets) == 0 {
			return false, fnDisplay(h) + " has no return"
		}
		for _, r := range rets {
			switch len(r.Results) {
			case 1:
				// return f(x) of a multi-value call
				if ok, why := fromRoutine(hinfo, h, r.Results[0], depth); !ok {
					return false, fnDisplay(h) + ": " + why
				}
			case 2:
				if !isNilLit(hinfo, r.Results[1]) {
					continue // an error return: the value is not used
				}
				if ok, why := fromRoutine(hinfo, h, r.Results[0], depth); !ok {
					return false, fnDisplay(h) + ": " + why
				}
			default:
				return false, fnDisplay(h) + " returns an unexpected number of values"
			}
		}
		return true, ""
	}
	// the compared value: `old == new` / `old != new` where one side derives from the stored file
	n := 0
	inspectBody(up.Body, func(nd ast.Node) bool {
		be, ok := nd.(*ast.BinaryExpr)
		if !ok || (be.Op != token.EQL && be.Op != token.NEQ) {
			return true
		}
		lv, rv := varOf(info, be.X), varOf(info, be.Y)
		if lv == nil || rv == nil || types.TypeString(lv.Type(), nil) != "string" || types.TypeString(rv.Type(), nil) != "string" {
			return true
		}
		fromFile := func(v *types.Var) bool {
			for _, d := range defsOf(info, up.Body, v) {
				found := false
				ast.Inspect(d, func(m ast.Node) bool {
					if id, ok := m.(*ast.Ident); ok {
						if dv, ok := info.Uses[id].(*types.Var); ok {
							for _, dd := range defsOf(info, up.Body, dv) {
								if call, ok := ast.Unparen(dd).(*ast.CallExpr); ok && isFunc(callee(info, call), "os", "", "ReadFile") {
									found = true
								}
							}
						}
					}
					return true
				})
				if found {
					return true
				}
			}
			return false
		}
		var fresh *types.Var
		switch {
		case fromFile(lv) && !fromFile(rv):
			fresh = rv
		case fromFile(rv) && !fromFile(lv):
			fresh = lv
		default:
			return true
		}
		n++
		ok2, why := true, ""
		defs := defsOf(info, up.Body, fresh)
		if len(defs) == 0 {
			ok2, why = false, "no definition"
		}
		for _, d := range defs {
			if o, w := fromRoutine(info, up, d, 2); !o {
				ok2, why = false, w
			}
		}
		c.Decide(ok2, "checksum-computed-at-check-time", ordinal(map[string]int{}, "compared-value@"+fnDisplay(up)), be.Pos(), "the compared checksum is computed from the files by the checksum routine during the check",
			"the checksum that is compared with the stored one is not, on every path, computed from the files during the check: "+why+" — a value computed earlier (when the task was compiled, before its dependencies ran) does not see what the dependencies changed, so the commands are skipped although a source changed, and the stale value is recorded")
		return true
	})
	c.Floor("checksum-computed-at-check-time", n, 1)
}

// timestampFullResolution (C04 / C05): the timestamp method compares modification times as the file system reports them.
func timestampFullResolution(c *Check, a *Anchors, rule string) {
	c.Rule(rule, "nothing reachable from the timestamp checker's IsUpToDate inside internal/fingerprint coarsens a time before it is compared (time.Time.Truncate / Round / Unix / UnixMilli …): an edit made after the recorded run but within the same (rounded) instant would compare as not newer, and — since every check moves the recorded time forward — would never be noticed")
	up := c.P.Func(PkgFingerprint, "TimestampChecker", "IsUpToDate")
	if up == nil {
		c.Errorf("%s: TimestampChecker.IsUpToDate not found", rule)
		return
	}
	coarse := map[string]bool{"Truncate": true, "Round": true, "Unix": true, "UnixMilli": true, "UnixMicro": true, "Format": true}
	n := 0
	ord := map[string]int{}
	for fb := range c.P.ReachableFrom([]*FuncBody{up}, func(x *FuncBody) bool { return x.Pkg.PkgPath != PkgFingerprint }) {
		if fb.Pkg.PkgPath != PkgFingerprint {
			continue
		}
		c.Fn(fb)
		for _, call := range callsIn(fb, true) {
			fn, ok := callee(fb.Info(), call).(*types.Func)
			if !ok || fn.Pkg() == nil || fn.Pkg().Path() != "time" {
				continue
			}
			sig := fn.Type().(*types.Signature)
			if sig.Recv() == nil || recvName(sig.Recv().Type()) != "Time" {
				continue
			}
			n++
			c.Decide(!coarse[fn.Name()], rule, ordinal(ord, "time."+fn.Name()+"@"+fnDisplay(fb.Root())), call.Pos(), "a comparison / accessor that keeps the full resolution",
				"time.Time."+fn.Name()+" coarsens a modification time in "+fnDisplay(fb.Root())+" before the comparison: a source edited within the same rounded instant as the recorded run is not newer, the task is skipped, and the check moves the recorded time past the edit")
		}
	}
	c.Floor(rule, n, 2)
}

// globFollowsSymlinks (C05): a source that is a symlink to a file is fingerprinted through the link.
func globFollowsSymlinks(c *Check, a *Anchors) {
	c.Rule("glob-follows-symlinks", "fingerprint.glob examines each expanded name with os.Stat (which follows symbolic links) and drops a name only for being a directory: os.Lstat, or a filter on the file mode (IsRegular, Mode()&…), removes every symlinked source and generated file from the fingerprint — edits behind the link go unnoticed and a symlinked `generates` entry counts as missing")
	fb := c.P.Func(PkgFingerprint, "", "glob")
	if fb == nil {
		c.Errorf("glob-follows-symlinks: fingerprint.glob not found")
		return
	}
	n := 0
	ord := map[string]int{}
	for _, g := range c.P.groupOf(fb, 1) {
		if g.Pkg.PkgPath != PkgFingerprint {
			continue
		}
		c.Fn(g)
		var pm map[ast.Node]ast.Node
		for _, call := range callsIn(g, true) {
			fn, ok := callee(g.Info(), call).(*types.Func)
			if !ok || fn.Pkg() == nil {
				continue
			}
			switch {
			case fn.Pkg().Path() == "os" && (fn.Name() == "Stat" || fn.Name() == "Lstat"):
				// the FileInfo that is examined (bound to a variable) must come from os.Stat; an os.Lstat whose FileInfo is
				// discarded only probes whether the entry itself exists (telling a dangling link from a missing name)
				infoUsed := true
				if pm == nil {
					pm = parentMap(g.Body)
				}
				if as, ok := pm[call].(*ast.AssignStmt); ok && len(as.Lhs) == 2 {
					if id, ok := as.Lhs[0].(*ast.Ident); ok && id.Name == "_" {
						infoUsed = false
					}
				}
				if !infoUsed {
					continue
				}
				n++
				c.Decide(fn.Name() == "Stat", "glob-follows-symlinks", ordinal(ord, "stat@"+fnDisplay(g)), call.Pos(), "os.Stat follows symbolic links",
					"the expanded names are examined with os.Lstat: a name that is a symbolic link is judged as the link, not as the file it points to")
			case fn.Pkg().Path() == "io/fs" && (fn.Name() == "IsRegular" || fn.Name() == "Mode" || fn.Name() == "Type"):
				n++
				c.Bad("glob-follows-symlinks", ordinal(ord, "mode-filter@"+fnDisplay(g)), call.Pos(), "the names are filtered by file mode ("+fn.Name()+"): anything that is not a regular file (a symlinked source, a named pipe) silently drops out of the fingerprint; only directories are to be skipped")
			}
		}
	}
	c.Floor("glob-follows-symlinks", n, 1)
}

// checksumStatePerLabel: the checksum of a labelled call is kept under the label.
func checksumStatePerLabel(c *Check, a *Anchors) {
	c.Rule("checksum-state-per-label", "in the checksum checker the name of the state file is derived from Task.Name() (the label when the task has one), never from the bare Task.Task: the calls of a task with a templated label (`label: 'compile-{{.MOD}}'`) have sources that depend on the call's variables, and under one shared file each call overwrites the other's checksum — unchanged sources then re-run on every invocation")
	n := 0
	ord := map[string]int{}
	// the methods of the checksum checker and the functions of the package they call (not the other checker's methods)
	seen := map[*FuncBody]bool{}
	var bodies []*FuncBody
	for _, m := range c.P.BodiesIn(PkgFingerprint) {
		if m.Decl == nil || recvOf(m) != "ChecksumChecker" {
			continue
		}
		for _, g := range c.P.groupOf(m, 2) {
			if g.Decl != nil && !seen[g] && (recvOf(g) == "ChecksumChecker" || recvOf(g) == "" || !strings.HasSuffix(recvOf(g), "Checker")) {
				seen[g] = true
				bodies = append(bodies, g)
			}
		}
	}
	sort.Slice(bodies, func(i, j int) bool { return fnDisplay(bodies[i]) < fnDisplay(bodies[j]) })
	for _, fb := range bodies {
		info := fb.Info()
		for _, call := range callsIn(fb, false) {
			// a state path is built here: filepath.Join / SmartJoin in this method, or a path helper of the package it calls
			obj := callee(info, call)
			fn, _ := obj.(*types.Func)
			isPath := isFunc(obj, "path/filepath", "", "Join") || isFunc(obj, PkgFilepathext, "", "SmartJoin") || (fn != nil && fn != fb.Obj && statePathHelper(c, fn))
			if !isPath {
				continue
			}
			usesName, usesBare := false, ""
			for _, arg := range call.Args {
				ast.Inspect(arg, func(m ast.Node) bool {
					switch x := m.(type) {
					case *ast.CallExpr:
						if isFunc(callee(info, x), PkgAst, "Task", "Name") {
							usesName = true
						}
					case *ast.SelectorExpr:
						if fieldSel(info, x, PkgAst, "Task", "Task") {
							usesBare = exprStr(x)
						}
					}
					return true
				})
			}
			if !usesName && usesBare == "" {
				continue // a path that does not involve the task (the directory)
			}
			n++
			c.Fn(fb)
			c.Decide(usesName && usesBare == "", "checksum-state-per-label", ordinal(ord, "state-name@"+fnDisplay(fb)), call.Pos(), "the state file is named after Task.Name()",
				"the checksum state path is built from `"+usesBare+"` instead of Task.Name(): every call of a labelled task shares one checksum file, so calls with different variables (different sources) overwrite each other's record and none of them is ever up to date")
		}
	}
	c.Floor("checksum-state-per-label", n, 1)
}
