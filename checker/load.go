package main

import (
	"fmt"
	"go/ast"
	"go/token"
	"go/types"
	"os"
	"path/filepath"
	"sort"
	"strings"

	"golang.org/x/tools/go/callgraph"
	"golang.org/x/tools/go/callgraph/cha"
	"golang.org/x/tools/go/callgraph/vta"
	"golang.org/x/tools/go/packages"
	"golang.org/x/tools/go/ssa"
	"golang.org/x/tools/go/ssa/ssautil"
)

// Mod is the module path of the code base under analysis.
const Mod = "github.com/go-task/task/v3"

// Package paths used all over the rules.
const (
	PkgTask        = Mod
	PkgAst         = Mod + "/taskfile/ast"
	PkgTaskfile    = Mod + "/taskfile"
	PkgErrors      = Mod + "/errors"
	PkgExecext     = Mod + "/internal/execext"
	PkgFilepathext = Mod + "/internal/filepathext"
	PkgFingerprint = Mod + "/internal/fingerprint"
	PkgOutput      = Mod + "/internal/output"
	PkgTemplater   = Mod + "/internal/templater"
	PkgFlags       = Mod + "/internal/flags"
	PkgLogger      = Mod + "/internal/logger"
	PkgHash        = Mod + "/internal/hash"
	PkgEnv         = Mod + "/internal/env"
	PkgArgs        = Mod + "/args"
	PkgMain        = Mod + "/cmd/task"
	PkgDeepcopy    = Mod + "/internal/deepcopy"
	PkgExperiments = Mod + "/internal/experiments"
)

// Prog is the loaded, type-checked program.
type Prog struct {
	Dir   string
	Fset  *token.FileSet
	Pkgs  map[string]*packages.Package // module packages only
	Roots []*packages.Package

	ssaProg *ssa.Program
	ssaPkgs map[string]*ssa.Package
	cg      *callgraph.Graph

	bodies   []*FuncBody
	bodyOf   map[ast.Node]*FuncBody // FuncDecl / FuncLit -> body
	declOf   map[*types.Func]*FuncBody
	GOOS     string
	GOARCH   string
	NumFuncs int
}

func repoDir() string {
	if d := os.Getenv("VERIF_REPO"); d != "" {
		return d
	}
	return "/repo"
}

// Load type-checks every package of the module in dir (tests excluded).
func Load(dir, goos, goarch string) (*Prog, error) {
	env := append(os.Environ(), "GOFLAGS=-mod=mod", "GOPROXY=off", "GOSUMDB=off", "GOWORK=off", "GOTOOLCHAIN=local")
	if goos != "" {
		env = append(env, "GOOS="+goos, "CGO_ENABLED=0")
	}
	if goarch != "" {
		env = append(env, "GOARCH="+goarch)
	}
	cfg := &packages.Config{Mode: packages.LoadAllSyntax, Dir: dir, Tests: false, Env: env}
	pkgs, err := packages.Load(cfg, "./...")
	if err != nil {
		return nil, err
	}
	p := &Prog{Dir: dir, Pkgs: map[string]*packages.Package{}, Roots: pkgs, GOOS: goos, GOARCH: goarch}
	var errs []string
	packages.Visit(pkgs, nil, func(pk *packages.Package) {
		if pk.PkgPath == Mod || strings.HasPrefix(pk.PkgPath, Mod+"/") {
			for _, e := range pk.Errors {
				errs = append(errs, e.Error())
			}
			p.Pkgs[pk.PkgPath] = pk
			p.Fset = pk.Fset
		}
	})
	if len(errs) > 0 {
		return nil, fmt.Errorf("load: type errors in %s: %s", dir, strings.Join(errs, "; "))
	}
	if len(p.Pkgs) < 25 {
		return nil, fmt.Errorf("load: only %d module packages found in %s (expected >= 25)", len(p.Pkgs), dir)
	}
	for _, need := range []string{PkgTask, PkgAst, PkgTaskfile, PkgErrors, PkgExecext, PkgFingerprint, PkgOutput, PkgMain} {
		if p.Pkgs[need] == nil {
			return nil, fmt.Errorf("load: package %s not found", need)
		}
	}
	p.index()
	return p, nil
}

// FuncBody is a function declaration or literal together with its package.
type FuncBody struct {
	Pkg    *packages.Package
	Name   string // (*Executor).RunTask, (*Executor).RunTask$1, ...
	Decl   *ast.FuncDecl
	Lit    *ast.FuncLit
	Body   *ast.BlockStmt
	Type   *ast.FuncType
	Parent *FuncBody
	Obj    *types.Func // nil for literals
	lits   []*FuncBody
}

func (fb *FuncBody) Info() *types.Info { return fb.Pkg.TypesInfo }
func (fb *FuncBody) Node() ast.Node {
	if fb.Decl != nil {
		return fb.Decl
	}
	return fb.Lit
}

// Lits returns the function literals directly nested in fb.
func (fb *FuncBody) Lits() []*FuncBody { return fb.lits }

// Root returns the enclosing declaration.
func (fb *FuncBody) Root() *FuncBody {
	for fb.Parent != nil {
		fb = fb.Parent
	}
	return fb
}

func (p *Prog) index() {
	p.bodyOf = map[ast.Node]*FuncBody{}
	p.declOf = map[*types.Func]*FuncBody{}
	var paths []string
	for path := range p.Pkgs {
		paths = append(paths, path)
	}
	sort.Strings(paths)
	for _, path := range paths {
		pk := p.Pkgs[path]
		for _, f := range pk.Syntax {
			for _, d := range f.Decls {
				fd, ok := d.(*ast.FuncDecl)
				if !ok || fd.Body == nil {
					continue
				}
				obj, _ := pk.TypesInfo.Defs[fd.Name].(*types.Func)
				fb := &FuncBody{Pkg: pk, Name: funcName(obj, fd), Decl: fd, Body: fd.Body, Type: fd.Type, Obj: obj}
				p.addBody(fb)
				if obj != nil {
					p.declOf[obj] = fb
				}
			}
		}
	}
	p.NumFuncs = len(p.bodies)
}

func (p *Prog) addBody(fb *FuncBody) {
	p.bodies = append(p.bodies, fb)
	p.bodyOf[fb.Node()] = fb
	n := 0
	var visit func(node ast.Node) bool
	visit = func(node ast.Node) bool {
		if fl, ok := node.(*ast.FuncLit); ok && fl != fb.Lit {
			n++
			c := &FuncBody{Pkg: fb.Pkg, Name: fmt.Sprintf("%s$%d", fb.Name, n), Lit: fl, Body: fl.Body, Type: fl.Type, Parent: fb}
			fb.lits = append(fb.lits, c)
			p.addBody(c)
			return false
		}
		return true
	}
	ast.Inspect(fb.Body, visit)
}

func funcName(obj *types.Func, fd *ast.FuncDecl) string {
	if fd.Recv != nil && len(fd.Recv.List) > 0 {
		return "(" + types.ExprString(fd.Recv.List[0].Type) + ")." + fd.Name.Name
	}
	return fd.Name.Name
}

// Bodies returns every function body (declarations and literals) of the module.
func (p *Prog) Bodies() []*FuncBody { return p.bodies }

// BodiesIn returns the function bodies of one package.
func (p *Prog) BodiesIn(pkgPath string) []*FuncBody {
	var out []*FuncBody
	for _, b := range p.bodies {
		if b.Pkg.PkgPath == pkgPath {
			out = append(out, b)
		}
	}
	return out
}

// DeclOf returns the body of a declared function object (nil for external functions).
func (p *Prog) DeclOf(f *types.Func) *FuncBody {
	if f == nil {
		return nil
	}
	if fb := p.declOf[f]; fb != nil {
		return fb
	}
	if o := f.Origin(); o != nil {
		return p.declOf[o]
	}
	return nil
}

// LitBody returns the FuncBody of a literal.
func (p *Prog) LitBody(l *ast.FuncLit) *FuncBody { return p.bodyOf[l] }

// Func finds a declared function or method: recv "" for plain functions, "T" for methods on T or *T.
func (p *Prog) Func(pkgPath, recv, name string) *FuncBody {
	for _, fb := range p.bodies {
		if fb.Decl == nil || fb.Pkg.PkgPath != pkgPath || fb.Decl.Name.Name != name {
			continue
		}
		r := ""
		if fb.Decl.Recv != nil && len(fb.Decl.Recv.List) > 0 {
			r = strings.TrimPrefix(types.ExprString(fb.Decl.Recv.List[0].Type), "*")
			if i := strings.Index(r, "["); i >= 0 {
				r = r[:i]
			}
		}
		if r == recv {
			return fb
		}
	}
	return nil
}

// Lookup returns a package-level object.
func (p *Prog) Lookup(pkgPath, name string) types.Object {
	pk := p.Pkgs[pkgPath]
	if pk == nil || pk.Types == nil {
		return nil
	}
	return pk.Types.Scope().Lookup(name)
}

// NamedType returns the named type pkg.name or nil.
func (p *Prog) NamedType(pkgPath, name string) *types.Named {
	o := p.Lookup(pkgPath, name)
	if o == nil {
		return nil
	}
	n, _ := o.Type().(*types.Named)
	return n
}

// Pos renders a position relative to the repository root.
func (p *Prog) Pos(pos token.Pos) string {
	if !pos.IsValid() {
		return "-"
	}
	q := p.Fset.Position(pos)
	rel, err := filepath.Rel(p.Dir, q.Filename)
	if err != nil || strings.HasPrefix(rel, "..") {
		rel = q.Filename
	}
	return fmt.Sprintf("%s:%d", rel, q.Line)
}

// ---- SSA / call graph (built lazily; only some rules need them) ----

func (p *Prog) SSA() (*ssa.Program, map[string]*ssa.Package) {
	if p.ssaProg != nil {
		return p.ssaProg, p.ssaPkgs
	}
	prog, _ := ssautil.AllPackages(p.Roots, ssa.InstantiateGenerics)
	prog.Build()
	p.ssaProg = prog
	p.ssaPkgs = map[string]*ssa.Package{}
	for path, pk := range p.Pkgs {
		if sp := prog.Package(pk.Types); sp != nil {
			p.ssaPkgs[path] = sp
		}
	}
	return p.ssaProg, p.ssaPkgs
}

// SSAFunc returns the ssa function of a declared function body.
func (p *Prog) SSAFunc(fb *FuncBody) *ssa.Function {
	prog, _ := p.SSA()
	root := fb.Root()
	if root.Obj == nil {
		return nil
	}
	fn := prog.FuncValue(root.Obj)
	if fn == nil || fb == root {
		return fn
	}
	// find the anonymous function by syntax
	var find func(f *ssa.Function) *ssa.Function
	find = func(f *ssa.Function) *ssa.Function {
		for _, a := range f.AnonFuncs {
			if a.Syntax() == fb.Lit {
				return a
			}
			if r := find(a); r != nil {
				return r
			}
		}
		return nil
	}
	return find(fn)
}

// CallGraph returns the VTA call graph (over CHA) of the whole program.
func (p *Prog) CallGraph() *callgraph.Graph {
	if p.cg != nil {
		return p.cg
	}
	prog, _ := p.SSA()
	p.cg = vta.CallGraph(ssautil.AllFunctions(prog), cha.CallGraph(prog))
	return p.cg
}

// InModule reports whether the ssa function belongs to the module under analysis.
func InModule(f *ssa.Function) bool {
	if f == nil {
		return false
	}
	pk := f.Pkg
	if pk == nil && f.Origin() != nil {
		pk = f.Origin().Pkg
	}
	for pk == nil && f.Parent() != nil {
		f = f.Parent()
		pk = f.Pkg
	}
	if pk == nil || pk.Pkg == nil {
		return false
	}
	path := pk.Pkg.Path()
	return path == Mod || strings.HasPrefix(path, Mod+"/")
}
