package main

import (
	"fmt"
	"go/ast"
	"go/token"
	"go/types"
	"strings"
)

func init() { register("C10", checkC10) }

func checkC10(c *Check, a *Anchors) {
	c.NotDecided = []string{
		"rendered values, sh:/ref: evaluation results, the ordered-map semantics of the third-party container (value level)",
		"that `Set` on the ordered map overrides (assumed from its contract)",
	}
	c10WriteOrder(c, a)
	c10CliGlobals(c, a)
	c10EnvMergeOrder(c, a)
	c10OSEnvWins(c, a)
	c10PhaseSources(c, a)
	environIsLowest(c, a)
	c10EveryDeclaredVarStored(c, a)
	c08CopyExhaustive(c, a) // the include-statement variables are merged into the copied task's IncludeVars: a copy that shares it gives the tasks of one include statement the values of another
}

// phaseOf classifies the expression a getVariables loop ranges over.
func phaseOf(info *types.Info, e ast.Expr) string {
	call, ok := ast.Unparen(e).(*ast.CallExpr)
	if !ok {
		return ""
	}
	sel, ok := ast.Unparen(call.Fun).(*ast.SelectorExpr)
	if !ok || sel.Sel.Name != "All" {
		return ""
	}
	return phaseOfVars(info, sel.X)
}

// phaseOfVars names the phase by the variable set itself (the field it is read from).
func phaseOfVars(info *types.Info, x ast.Expr) string {
	sel := struct{ X ast.Expr }{x}
	switch {
	case fieldSel(info, sel.X, PkgTask, "Compiler", "TaskfileEnv"):
		return "3-taskfile-env"
	case fieldSel(info, sel.X, PkgTask, "Compiler", "TaskfileVars"):
		return "4-taskfile-vars"
	case fieldSel(info, sel.X, PkgAst, "Task", "IncludeVars"):
		return "5-include-statement-vars"
	case fieldSel(info, sel.X, PkgAst, "Task", "IncludedTaskfileVars"):
		return "6-included-taskfile-vars"
	case fieldSel(info, sel.X, PkgTask, "Call", "Vars"):
		return "7-call-vars"
	case fieldSel(info, sel.X, PkgAst, "Task", "Vars"):
		return "8-task-vars"
	}
	return ""
}

// tablePhases: `for _, row := range table { for k, v := range row.<vars>.All() { row.<set>(k, v) } }` over a local slice of
// struct rows built by one composite literal and later appends; the rows in construction order, each with the expression of
// its *ast.Vars field.
type tableRow struct {
	row   ast.Node
	vars  ast.Expr
	feeds bool
}

func tablePhases(info *types.Info, fb *FuncBody, r *ast.RangeStmt) []tableRow {
	tbl := varOf(info, r.X)
	if tbl == nil || r.Value == nil {
		return nil
	}
	rowVar := varOf(info, r.Value)
	sl, ok := tbl.Type().Underlying().(*types.Slice)
	if !ok || rowVar == nil {
		return nil
	}
	st, ok := sl.Elem().Underlying().(*types.Struct)
	if !ok {
		return nil
	}
	varsField := ""
	for i := 0; i < st.NumFields(); i++ {
		if pt, ok := st.Field(i).Type().(*types.Pointer); ok && isNamed(pt.Elem(), PkgAst, "Vars") {
			varsField = st.Field(i).Name()
		}
	}
	if varsField == "" {
		return nil
	}
	// the inner loop ranges over row.<varsField>.All() and feeds a function-typed field of the row (or a range function)
	feeds := false
	var inner *ast.RangeStmt
	for _, s := range r.Body.List {
		if ir, ok := s.(*ast.RangeStmt); ok {
			if call, ok := ast.Unparen(ir.X).(*ast.CallExpr); ok {
				if sel, ok := ast.Unparen(call.Fun).(*ast.SelectorExpr); ok && sel.Sel.Name == "All" {
					if fs, ok := ast.Unparen(sel.X).(*ast.SelectorExpr); ok && fs.Sel.Name == varsField && varOf(info, fs.X) == rowVar {
						inner = ir
					}
				}
			}
		}
	}
	if inner == nil {
		return nil
	}
	inspectBody(inner.Body, func(nd ast.Node) bool {
		if call, ok := nd.(*ast.CallExpr); ok && len(call.Args) == 2 {
			if tv, ok := info.Types[call.Fun]; ok {
				if _, isSig := tv.Type.Underlying().(*types.Signature); isSig && (unconditionalIn(inner.Body.List, call) || condOnlyErr(inner.Body.List, call)) {
					feeds = true
				}
			}
		}
		return true
	})
	var rows []tableRow
	addLit := func(lit *ast.CompositeLit) {
		for i, el := range lit.Elts {
			if kv, ok := el.(*ast.KeyValueExpr); ok {
				if id, ok := kv.Key.(*ast.Ident); ok && id.Name == varsField {
					rows = append(rows, tableRow{lit, kv.Value, feeds})
				}
			} else if i < st.NumFields() && st.Field(i).Name() == varsField {
				rows = append(rows, tableRow{lit, el, feeds})
			}
		}
	}
	inspectBody(fb.Body, func(nd ast.Node) bool {
		as, ok := nd.(*ast.AssignStmt)
		if !ok || len(as.Lhs) != 1 || len(as.Rhs) != 1 || varOf(info, as.Lhs[0]) != tbl || as.Pos() > r.Pos() {
			return true
		}
		switch x := ast.Unparen(as.Rhs[0]).(type) {
		case *ast.CompositeLit:
			for _, el := range x.Elts {
				if l, ok := ast.Unparen(el).(*ast.CompositeLit); ok {
					addLit(l)
				}
			}
		case *ast.CallExpr:
			if isBuiltin(info, x, "append") && len(x.Args) > 0 && varOf(info, x.Args[0]) == tbl {
				for _, arg := range x.Args[1:] {
					if l, ok := ast.Unparen(arg).(*ast.CompositeLit); ok {
						addLit(l)
					}
				}
			}
		}
		return true
	})
	return rows
}

func c10WriteOrder(c *Check, a *Anchors) {
	c.Rule("vars-write-order", "in the variable resolver the phases occur, by position on every path, in the order: process environment -> special variables -> Taskfile env -> Taskfile vars -> include-statement vars -> included-Taskfile vars -> call vars -> task vars (phases identified by the field they range over); every phase feeds each variable to a range function that ends, on every non-error path, in an unconditional Set on the result (override, never set-if-absent); the early return for `t == nil || call == nil` lies between the included-Taskfile phase and the call-vars phase; templating uses a cache built for the current state of the result")
	fb := a.GetVariables
	c.Fn(fb)
	info := fb.Info()
	name := fnDisplay(fb)
	type ph struct {
		name string
		pos  ast.Node
	}
	var phases []ph
	helperPhases := map[ast.Node]bool{}
	// phase 1: result := env.GetEnviron()
	var result *types.Var
	inspectBody(fb.Body, func(nd ast.Node) bool {
		switch x := nd.(type) {
		case *ast.AssignStmt:
			if len(x.Rhs) == 1 {
				if call, ok := ast.Unparen(x.Rhs[0]).(*ast.CallExpr); ok && isFunc(callee(info, call), PkgEnv, "", "GetEnviron") {
					phases = append(phases, ph{"1-process-environment", x})
					result = varOf(info, x.Lhs[0])
				}
			}
		case *ast.CallExpr:
			// a phase applied through a ranging helper of the package: rangeVars(<phase's variables>, <range function>)
			if fn, ok := callee(info, x).(*types.Func); ok && len(x.Args) >= 2 {
				if h := c.P.DeclOf(fn); h != nil && h.Pkg == fb.Pkg && h != fb {
					if p := phaseOfVars(info, x.Args[0]); p != "" && rangingHelper(c, h) {
						phases = append(phases, ph{p, x})
						helperPhases[x] = true
					}
				}
			}
		case *ast.RangeStmt:
			if p := phaseOf(info, x.X); p != "" {
				phases = append(phases, ph{p, x})
			} else if tp := tablePhases(info, fb, x); len(tp) > 0 {
				// the phases are rows of an ordered table that one loop applies: the order of the rows is the order of the phases
				for _, e := range tp {
					if p := phaseOfVars(info, e.vars); p != "" {
						phases = append(phases, ph{p, e.row})
						helperPhases[e.row] = e.feeds
						if !e.feeds {
							c.Bad("vars-write-order", "phase-feeds-range-func "+p+"@"+name, x.Pos(), "the loop over the table of variable sources does not hand every variable of a source unconditionally to the source's range function")
						}
					}
				}
			} else if tv, ok := info.Types[x.X]; ok {
				if m, isMap := tv.Type.Underlying().(*types.Map); isMap && types.TypeString(m.Elem(), nil) == "string" {
					phases = append(phases, ph{"2-special-vars", x})
				}
			}
		}
		return true
	})
	want := []string{"1-process-environment", "2-special-vars", "3-taskfile-env", "4-taskfile-vars", "5-include-statement-vars", "6-included-taskfile-vars", "7-call-vars", "8-task-vars"}
	var got []string
	for _, p := range phases {
		got = append(got, p.name)
	}
	okOrder := strings.Join(got, ",") == strings.Join(want, ",")
	c.Decide(okOrder, "vars-write-order", "phase-order@"+name, fb.Decl.Pos(), "phases in source order: "+strings.Join(got, " -> "),
		"the variable phases are applied in the order "+strings.Join(got, " -> ")+"; documented (lowest to highest priority): "+strings.Join(want, " -> ")+". A later phase overrides an earlier one, so this order IS the precedence")
	if result == nil {
		c.Errorf("vars-write-order: result := env.GetEnviron() not found")
		return
	}
	// every phase loop hands each (k, v) to a range function unconditionally and returns its error
	for _, p := range phases {
		if helperPhases[p.pos] {
			c.OK("vars-write-order", "phase-feeds-range-func "+p.name+"@"+name, p.pos.Pos(), "applied through a helper that hands every variable to the range function and returns its error")
			continue
		}
		r, ok := p.pos.(*ast.RangeStmt)
		if !ok || p.name == "2-special-vars" {
			continue
		}
		feeds := false
		for _, s := range r.Body.List {
			inspectBody(s, func(nd ast.Node) bool {
				if call, ok := nd.(*ast.CallExpr); ok && len(call.Args) == 2 {
					// a range function: a func-typed variable, or a method of the resolver object, taking (name, variable)
					isRange := false
					if v := varOf(info, call.Fun); v != nil {
						_, isRange = v.Type().Underlying().(*types.Signature)
					} else if fn, ok := callee(info, call).(*types.Func); ok && fn.Pkg() != nil && fn.Pkg().Path() == PkgTask {
						sig := fn.Type().(*types.Signature)
						isRange = sig.Params().Len() == 2 && isNamed(sig.Params().At(1).Type(), PkgAst, "Var") && sig.Results().Len() == 1
					}
					if isRange && (unconditionalIn(r.Body.List, call) || condOnlyErr(r.Body.List, call)) {
						feeds = true
					}
				}
				return true
			})
		}
		c.Decide(feeds, "vars-write-order", "phase-feeds-range-func "+p.name+"@"+name, r.Pos(), "every variable of the phase goes through the range function", "phase "+p.name+" does not hand every variable unconditionally to the range function (some variables of this level would be skipped)")
	}
	// early return position
	var early *ast.IfStmt
	for _, s := range fb.Body.List {
		if ifs, ok := s.(*ast.IfStmt); ok {
			cs := exprStr(ifs.Cond)
			if strings.Contains(cs, "== nil") && strings.Contains(cs, "||") && len(returnsOf(ifs.Body)) == 1 {
				early = ifs
			}
		}
	}
	if early != nil && len(phases) == 8 {
		okPos := phases[5].pos.End() < early.Pos() && early.End() < phases[6].pos.Pos()
		c.Decide(okPos, "vars-write-order", "early-return-position@"+name, early.Pos(), "between the included-Taskfile phase and the call-vars phase", "the `t == nil || call == nil` early return is not between the global/include phases and the call/task phases")
	}
	// the range function closure(s): every `return nil` after a Set on result; no Get-gating
	nClos := 0
	// the range functions: closures func(k string, v ast.Var) error — literals of the resolver itself, or of a method of the
	// package the resolver obtains them from (c.rangeFunc(result, ...)), in which case `result` is the parameter bound to it
	type rangeLit struct {
		lit    *FuncBody
		scope  *FuncBody
		result *types.Var
		isRes  func(*types.Info, ast.Expr) bool // the expression denotes the result set (a variable, or a field of the method's receiver)
	}
	byVar := func(v *types.Var) func(*types.Info, ast.Expr) bool {
		return func(inf *types.Info, e ast.Expr) bool { return v != nil && varOf(inf, e) == v }
	}
	var rls []rangeLit
	for _, lit := range allLits(fb) {
		rls = append(rls, rangeLit{lit, fb, result, byVar(result)})
	}
	// the range function as a method of a small struct of the package that carries the result set in a field
	// (&varResolver{result: result, ...}).resolve
	inspectBody(fb.Body, func(nd ast.Node) bool {
		cl, ok := nd.(*ast.CompositeLit)
		if !ok {
			return true
		}
		tv, ok := info.Types[cl]
		if !ok {
			return true
		}
		named := namedOf(tv.Type)
		if named == nil || named.Obj().Pkg() == nil || named.Obj().Pkg().Path() != PkgTask {
			return true
		}
		field := ""
		for _, el := range cl.Elts {
			if kv, ok := el.(*ast.KeyValueExpr); ok && varOf(info, kv.Value) == result && result != nil {
				if id, ok := kv.Key.(*ast.Ident); ok {
					field = id.Name
				}
			}
		}
		if field == "" {
			return true
		}
		for _, m := range c.P.BodiesIn(PkgTask) {
			if m.Decl == nil || m.Decl.Recv == nil || recvOf(m) != named.Obj().Name() {
				continue
			}
			seen := false
			for _, r := range rls {
				if r.lit == m {
					seen = true
				}
			}
			if !seen {
				rls = append(rls, rangeLit{m, m, nil, recvFieldIs(m, field)})
			}
		}
		return true
	})
	for _, call := range callsIn(fb, true) {
		fn, ok := callee(info, call).(*types.Func)
		if !ok {
			continue
		}
		h := c.P.DeclOf(fn)
		if h == nil || h.Pkg != fb.Pkg || h == fb || h.Type.Params == nil {
			continue
		}
		idx := 0
		for _, fld := range h.Type.Params.List {
			for _, id := range fld.Names {
				if idx < len(call.Args) && varOf(info, call.Args[idx]) == result {
					if pv, ok := h.Info().Defs[id].(*types.Var); ok {
						seen := false
						for _, r := range rls {
							if r.scope == h {
								seen = true
							}
						}
						if !seen {
							c.Fn(h)
							for _, lit := range allLits(h) {
								rls = append(rls, rangeLit{lit, h, pv, byVar(pv)})
							}
						}
					}
				}
				idx++
			}
		}
	}
	for _, rl := range rls {
		lit, result, fb := rl.lit, rl.result, rl.scope
		_ = result
		info := lit.Info()
		if lit.Type.Params == nil || lit.Type.Params.NumFields() != 2 || lit.Type.Results == nil || lit.Type.Results.NumFields() != 1 {
			continue
		}
		if tv, ok := info.Types[lit.Type.Results.List[0].Type]; !ok || types.TypeString(tv.Type, nil) != "error" {
			continue
		}
		nClos++
		c.Fn(lit)
		f := NewFlow(c.P, lit, func(call *ast.CallExpr, obj types.Object) string {
			sel, _ := ast.Unparen(call.Fun).(*ast.SelectorExpr)
			// a local helper closure that Sets into the result counts as the Set
			if hv := varOf(info, call.Fun); hv != nil {
				if d := singleDef(info, fb.Body, hv); d != nil {
					if hl, ok := ast.Unparen(d).(*ast.FuncLit); ok {
						for _, hc := range callsIn(c.P.LitBody(hl), false) {
							if hs, ok := ast.Unparen(hc.Fun).(*ast.SelectorExpr); ok && isFunc(callee(info, hc), PkgAst, "Vars", "Set") && rl.isRes(info, hs.X) {
								return "set"
							}
						}
					}
				}
			}
			switch {
			case isFunc(obj, PkgAst, "Vars", "Set") && sel != nil && rl.isRes(info, sel.X):
				return "set"
			case isFunc(obj, PkgAst, "Vars", "Get") && sel != nil && rl.isRes(info, sel.X):
				return "get"
			case isFunc(obj, PkgTemplater, "Cache", "ResetCache"):
				return "reset"
			}
			if fn, ok := obj.(*types.Func); ok && fn.Pkg() != nil && fn.Pkg().Path() == PkgTemplater && strings.HasPrefix(fn.Name(), "Replace") {
				return "replace"
			}
			return ""
		})
		f.Run()
		okSet, gated := true, false
		for _, r := range f.Returns {
			st := f.At[r]
			if res := errResult(r); res != nil && isNilLit(info, res) && !st.Has("called:set") {
				okSet = false
			}
		}
		for _, l := range f.Labels {
			if l == "get" {
				gated = true
			}
		}
		c.Decide(okSet && !gated, "vars-write-order", "override-semantics@"+fnDisplay(lit), lit.Body.Pos(), "every successful return follows an unconditional result.Set; the result is never consulted first",
			fmt.Sprintf("the range function does not always override (Set before every nil return: %v, consults result.Get: %v): a higher-priority definition would not replace a lower-priority one", okSet, gated))
		// every variable value that is stored came out of the templater (which also deep-copies maps and lists handed over by
		// reference): a value stored as it was received is the caller's own object
		for call, l := range f.Labels {
			if l != "set" {
				continue
			}
			st := f.At[call]
			for _, arg := range call.Args {
				ast.Inspect(arg, func(m ast.Node) bool {
					sel, ok := m.(*ast.SelectorExpr)
					if !ok || sel.Sel.Name != "Value" {
						return true
					}
					v := varOf(info, sel.X)
					if v == nil || !isNamed(v.Type(), PkgAst, "Var") {
						return true
					}
					// … and it is stored as it came out: not passed through another function on the way into the literal
					// (TrimSpace, a "tidy" helper …) — a value given on the command line must reach the templates byte for byte
					wrapped := ""
					ast.Inspect(arg, func(k ast.Node) bool {
						if wc, ok := k.(*ast.CallExpr); ok && within(sel, wc) && wc.Fun != ast.Expr(sel) {
							if tv, ok := info.Types[wc.Fun]; !ok || !tv.IsType() {
								for _, wa := range wc.Args {
									if within(sel, wa) {
										wrapped = exprStr(wc.Fun)
									}
								}
							}
						}
						return true
					})
					c.Decide(wrapped == "", "vars-write-order", "value-verbatim "+v.Name()+"@"+fnDisplay(lit), call.Pos(), "the templater's result is stored unchanged",
						"the range function passes `"+exprStr(sel)+"` through `"+wrapped+"` before storing it: the value of a variable (a NAME=value argument included) no longer reaches {{.NAME}} / {{shellQuote .NAME}} byte for byte")
					c.Decide(st.Has(defPrefix(v)+"replace"), "vars-write-order", "value-copied "+v.Name()+"@"+fnDisplay(lit), call.Pos(), "the stored value is the templater's copy",
						"the range function stores `"+exprStr(sel)+"` although `"+v.Name()+"` is not, on every path, the result of templater.ReplaceVar: a map or list passed by `ref:` is stored as the caller's own object, so what one callee's template does to it (set / unset / mergeOverwrite) is seen by the next call and by the caller; must-facts: "+st.String())
					return true
				})
			}
		}
		// cache freshness: the cache used for templating is built in this closure, or reset before use
		for call, l := range f.Labels {
			if l != "replace" {
				continue
			}
			fresh := false
			for _, arg := range call.Args {
				if v := varOf(info, arg); v != nil && isNamed(v.Type(), PkgTemplater, "Cache") {
					if d := singleDef(info, lit.Body, v); d != nil {
						fresh = true // constructed inside this closure (per variable)
					} else if f.At[call].Has("called:reset") {
						fresh = true
					}
				}
			}
			c.Decide(fresh, "vars-write-order", "fresh-cache@"+fnDisplay(lit), call.Pos(), "the templating cache is built per variable over the current result",
				"the templating cache used for a variable is created outside the per-variable closure and not reset before use: templates see a stale snapshot of the result, so a higher-priority definition set by another phase is not visible to later variables")
		}
	}
	if nClos == 0 {
		c.Bad("vars-write-order", "override-semantics@"+name, a.GetVariables.Decl.Pos(), "no range function that Sets into the result was found in the variable resolver")
	}
}

func c10CliGlobals(c *Check, a *Anchors) {
	c.Rule("cli-into-globals", "the Compiler's TaskfileVars is the very object Taskfile.Vars (no copy), and cmd/task merges the NAME=value assignments and CLI_* variables into Taskfile.Vars before Run / Status is called")
	found := false
	for _, fb := range c.P.BodiesIn(PkgTask) {
		info := fb.Info()
		inspectBody(fb.Body, func(nd ast.Node) bool {
			cl, ok := nd.(*ast.CompositeLit)
			if !ok {
				return true
			}
			if tv, ok := info.Types[cl]; !ok || !isNamed(tv.Type, PkgTask, "Compiler") {
				return true
			}
			for _, e := range cl.Elts {
				if kv, ok := e.(*ast.KeyValueExpr); ok {
					if id, ok := kv.Key.(*ast.Ident); ok && id.Name == "TaskfileVars" {
						found = true
						c.Fn(fb)
						c.Decide(fieldSel(info, kv.Value, PkgAst, "Taskfile", "Vars"), "cli-into-globals", "alias@"+fnDisplay(fb), kv.Pos(), "TaskfileVars: e.Taskfile.Vars", "the Compiler's TaskfileVars is `"+exprStr(kv.Value)+"`, not the Taskfile's own Vars object: variables merged into the Taskfile after setup (command-line assignments) are invisible to the compiler")
					}
				}
			}
			return true
		})
	}
	if !found {
		c.Bad("cli-into-globals", "alias", 0, "no Compiler literal sets TaskfileVars")
	}
	run := c.P.Func(PkgMain, "", "run")
	if run == nil {
		c.Errorf("cli-into-globals: cmd/task run() not found")
		return
	}
	c.Fn(run)
	info := run.Info()
	f := NewFlow(c.P, run, func(call *ast.CallExpr, obj types.Object) string {
		switch {
		case isFunc(obj, PkgAst, "Vars", "Merge"):
			if sel, ok := ast.Unparen(call.Fun).(*ast.SelectorExpr); ok && fieldSel(info, sel.X, PkgAst, "Taskfile", "Vars") {
				return "merge-globals"
			}
		case isFunc(obj, PkgTask, "Executor", "Run"):
			return "run"
		case isFunc(obj, PkgTask, "Executor", "Status"):
			return "status"
		case isFunc(obj, PkgArgs, "", "Parse"):
			return "parse"
		}
		return ""
	})
	f.Run()
	n := 0
	for call, l := range f.Labels {
		if l == "run" || l == "status" {
			n++
			st := f.At[call]
			c.Decide(st.Has("called:merge-globals") && st.Has("called:parse"), "cli-into-globals", "merged-before-"+l, call.Pos(), "globals parsed and merged into Taskfile.Vars first", "the command-line variable assignments are not merged into Taskfile.Vars on every path before "+l+" is called")
		}
	}
	c.Floor("cli-into-globals", n, 2)
	// the merged object is the one args.Parse returned
	okObj := false
	for call, l := range f.Labels {
		if l == "merge-globals" && len(call.Args) >= 1 {
			if v := varOf(info, call.Args[0]); v != nil && f.At[call].Has(defPrefix(v)+"parse") {
				okObj = true
			}
		}
	}
	c.Decide(okObj, "cli-into-globals", "merges-parsed-globals", run.Decl.Pos(), "Taskfile.Vars.Merge(<result of args.Parse>)", "what is merged into Taskfile.Vars is not the variable set returned by args.Parse")
}

func c10EnvMergeOrder(c *Check, a *Anchors) {
	c.Rule("env-merge-order", "the compiled task's Env is merged from Taskfile env, then task dotenv, then task env (later wins); dotenv files are first-wins (Set only on the not-found edge of Get) both for the task and for the global dotenv; the global dotenv never overrides Taskfile env")
	fb := a.CompiledTask
	c.Fn(fb)
	info := fb.Info()
	var seq []string
	inspectBody(fb.Body, func(nd ast.Node) bool {
		call, ok := nd.(*ast.CallExpr)
		if !ok || !isFunc(callee(info, call), PkgAst, "Vars", "Merge") || len(call.Args) < 1 {
			return true
		}
		sel, ok := ast.Unparen(call.Fun).(*ast.SelectorExpr)
		if !ok || !fieldSel(info, sel.X, PkgAst, "Task", "Env") {
			return true
		}
		src := "other:" + exprStr(call.Args[0])
		ast.Inspect(call.Args[0], func(m ast.Node) bool {
			if s, ok := m.(*ast.SelectorExpr); ok {
				switch {
				case fieldSel(info, s, PkgAst, "Taskfile", "Env"):
					src = "taskfile-env"
				case fieldSel(info, s, PkgAst, "Task", "Env"):
					src = "task-env"
				}
			}
			if id, ok := m.(*ast.Ident); ok {
				if v, ok := info.Uses[id].(*types.Var); ok && !v.IsField() && strings.Contains(strings.ToLower(v.Name()), "dotenv") {
					src = "task-dotenv"
				}
			}
			return true
		})
		seq = append(seq, src)
		return true
	})
	want := "taskfile-env,task-dotenv,task-env"
	c.Decide(strings.Join(seq, ",") == want, "env-merge-order", "merge-order@"+fnDisplay(fb), fb.Decl.Pos(), "Env.Merge order: "+strings.Join(seq, " -> "), "the task environment is merged in the order "+strings.Join(seq, " -> ")+"; documented: taskfile env -> task dotenv -> task env (later wins)")
	// first-wins dotenv loops
	n := 0
	check := func(fb *FuncBody) {
		if fb == nil {
			return
		}
		finfo := fb.Info()
		f := NewFlow(c.P, fb, func(call *ast.CallExpr, obj types.Object) string {
			sel, _ := ast.Unparen(call.Fun).(*ast.SelectorExpr)
			if sel == nil {
				return ""
			}
			tgt := exprStr(sel.X)
			switch {
			case isFunc(obj, PkgAst, "Vars", "Get"):
				return "get:" + tgt
			case isFunc(obj, PkgAst, "Vars", "Set"):
				return "set:" + tgt
			}
			return ""
		})
		f.Run()
		for call, l := range f.Labels {
			if !strings.HasPrefix(l, "set:") {
				continue
			}
			tgt := strings.TrimPrefix(l, "set:")
			low := strings.ToLower(tgt)
			isDotenvTarget := strings.Contains(low, "dotenv") || (fb.Decl != nil && fb.Decl.Name.Name == "Dotenv" && tgt == "env") || (strings.Contains(fnDisplay(fb), "readDotEnvFiles") && fieldSelExprIs(finfo, call, "Env"))
			if !isDotenvTarget {
				continue
			}
			// only loops over dotenv content
			n++
			c.Fn(fb)
			st := f.At[call]
			c.Decide(st.Has("false:get:"+tgt), "env-merge-order", "first-wins "+tgt+"@"+fnDisplay(fb), call.Pos(), "Set only when Get(same target) found nothing", "a dotenv value is stored without the name having been established absent: a later dotenv file (or the global dotenv) overrides an earlier definition")
		}
	}
	check(a.CompiledTask)
	check(c.P.Func(PkgTaskfile, "", "Dotenv"))
	check(c.P.Func(PkgTask, "Executor", "readDotEnvFiles"))
	c.Floor("env-merge-order", n, 3)
}

func fieldSelExprIs(info *types.Info, call *ast.CallExpr, field string) bool {
	sel, ok := ast.Unparen(call.Fun).(*ast.SelectorExpr)
	if !ok {
		return false
	}
	return fieldSel(info, sel.X, PkgAst, "Taskfile", field)
}

func c10OSEnvWins(c *Check, a *Anchors) {
	c.Rule("os-env-wins", "in env.GetFromVars a Taskfile variable is appended to the process environment exactly when the ENV_PRECEDENCE experiment is enabled or os.LookupEnv reports the name as not set (presence, not non-emptiness, decides) — decided by evaluating the loop body for the four combinations of (experiment enabled, name present in the process environment)")
	fb := c.P.Func(PkgEnv, "", "GetFromVars")
	if fb == nil {
		c.Errorf("os-env-wins: env.GetFromVars not found")
		return
	}
	c.Fn(fb)
	info := fb.Info()
	var loop *ast.RangeStmt
	inspectBody(fb.Body, func(nd ast.Node) bool {
		if r, ok := nd.(*ast.RangeStmt); ok && loop == nil {
			loop = r
		}
		return true
	})
	if loop == nil {
		c.Errorf("os-env-wins: loop over the variables not found in env.GetFromVars")
		return
	}
	// three-valued evaluation: 1 true, 0 false, -1 unknown
	type world struct{ precedence, set bool }
	not := func(v int) int {
		if v < 0 {
			return v
		}
		return 1 - v
	}
	b2i := func(b bool) int {
		if b {
			return 1
		}
		return 0
	}
	// isPresence: the call reports presence of a name in the process environment: a predicate of the module whose body is
	// `_, ok := os.LookupEnv(p); return ok`
	isPresence := func(inf *types.Info, call *ast.CallExpr) bool {
		fn, _ := callee(inf, call).(*types.Func)
		h := c.P.DeclOf(fn)
		if h == nil || h.Decl == nil || !strings.HasPrefix(h.Pkg.PkgPath, Mod) || len(h.Body.List) != 2 {
			return false
		}
		as, ok := h.Body.List[0].(*ast.AssignStmt)
		r, ok2 := h.Body.List[1].(*ast.ReturnStmt)
		if !ok || !ok2 || len(as.Lhs) != 2 || len(as.Rhs) != 1 || len(r.Results) != 1 {
			return false
		}
		lc, ok := ast.Unparen(as.Rhs[0]).(*ast.CallExpr)
		if !ok || !isFunc(callee(h.Info(), lc), "os", "", "LookupEnv") {
			return false
		}
		c.Fn(h)
		return varOf(h.Info(), r.Results[0]) != nil && varOf(h.Info(), r.Results[0]) == varOf(h.Info(), as.Lhs[1])
	}
	usesGetenv := false
	// scope of the evaluation: GetFromVars itself, or a predicate of the package it calls (isExported(k, v, osEnvWins)),
	// whose parameters are bound to the values of the arguments
	type scope struct {
		info *types.Info
		body *ast.BlockStmt
		vals map[*types.Var]int
	}
	cur := &scope{info: info, body: fb.Body, vals: map[*types.Var]int{}}
	var evalFn func(h *FuncBody, args []int, w world, depth int) int
	var evalE func(e ast.Expr, w world, okVars map[*types.Var]bool, depth int) int
	evalE = func(e ast.Expr, w world, okVars map[*types.Var]bool, depth int) int {
		info, fbBody := cur.info, cur.body
		e = ast.Unparen(e)
		switch x := e.(type) {
		case *ast.UnaryExpr:
			if x.Op == token.NOT {
				return not(evalE(x.X, w, okVars, depth))
			}
		case *ast.BinaryExpr:
			l, r := evalE(x.X, w, okVars, depth), evalE(x.Y, w, okVars, depth)
			switch x.Op {
			case token.LAND:
				if l == 0 || r == 0 {
					return 0
				}
				if l == 1 && r == 1 {
					return 1
				}
			case token.LOR:
				if l == 1 || r == 1 {
					return 1
				}
				if l == 0 && r == 0 {
					return 0
				}
			}
			return -1
		case *ast.Ident:
			v := varOf(info, x)
			if v == nil {
				return -1
			}
			if okVars[v] {
				return b2i(w.set)
			}
			if val, ok := cur.vals[v]; ok {
				return val
			}
			if d := singleDef(info, fbBody, v); d != nil && depth > 0 {
				return evalE(d, w, okVars, depth-1)
			}
		case *ast.CallExpr:
			if fn, ok := callee(info, x).(*types.Func); ok && fn.Name() == "Enabled" && strings.Contains(exprStr(x.Fun), "EnvPrecedence") {
				return b2i(w.precedence)
			}
			if isPresence(info, x) {
				return b2i(w.set)
			}
			// a predicate of the package whose body involves the experiment or the process environment: evaluated in place
			if fn, ok := callee(info, x).(*types.Func); ok && depth > 0 {
				if h := c.P.DeclOf(fn); h != nil && h.Decl != nil && h.Pkg == fb.Pkg && h != fb && involvesEnvDecision(h) {
					var args []int
					for _, a := range x.Args {
						args = append(args, evalE(a, w, okVars, depth-1))
					}
					c.Fn(h)
					return evalFn(h, args, w, depth-1)
				}
			}
		}
		return -1
	}
	evalFn = func(h *FuncBody, args []int, w world, depth int) int {
		saved := cur
		defer func() { cur = saved }()
		cur = &scope{info: h.Info(), body: h.Body, vals: map[*types.Var]int{}}
		for i, a := range args {
			if pv := paramAt(h.Info(), h, i); pv != nil && a >= 0 {
				cur.vals[pv] = a
			}
		}
		okVars := map[*types.Var]bool{}
		var run func(list []ast.Stmt) (int, bool)
		run = func(list []ast.Stmt) (int, bool) {
			for _, st := range list {
				switch x := st.(type) {
				case *ast.ReturnStmt:
					if len(x.Results) != 1 {
						return -1, true
					}
					return evalE(x.Results[0], w, okVars, depth), true
				case *ast.AssignStmt:
					if len(x.Lhs) == 2 && len(x.Rhs) == 1 {
						if call, ok := ast.Unparen(x.Rhs[0]).(*ast.CallExpr); ok && isFunc(callee(cur.info, call), "os", "", "LookupEnv") {
							if v := varOf(cur.info, x.Lhs[1]); v != nil {
								okVars[v] = true
							}
							continue
						}
					}
					return -1, true
				case *ast.IfStmt:
					if x.Init != nil {
						if v, done := run([]ast.Stmt{x.Init}); done {
							return v, true
						}
					}
					switch evalE(x.Cond, w, okVars, depth) {
					case 1:
						if v, done := run(x.Body.List); done {
							return v, true
						}
					case 0:
						switch e := x.Else.(type) {
						case *ast.BlockStmt:
							if v, done := run(e.List); done {
								return v, true
							}
						case *ast.IfStmt:
							if v, done := run([]ast.Stmt{e}); done {
								return v, true
							}
						}
					default:
						// a test about something else (the value's type): the variable is otherwise eligible when the branch only
						// rejects it
						rejects := len(x.Body.List) == 1 && x.Else == nil
						if rejects {
							r, ok := x.Body.List[0].(*ast.ReturnStmt)
							rejects = ok && len(r.Results) == 1 && constText(cur.info, r.Results[0]) == "false"
						}
						if !rejects {
							return -1, true
						}
					}
				default:
					return -1, true
				}
			}
			return -1, false
		}
		v, _ := run(h.Body.List)
		return v
	}
	bindOK := func(st ast.Stmt, okVars map[*types.Var]bool) {
		if as, ok := st.(*ast.AssignStmt); ok && len(as.Lhs) == 2 && len(as.Rhs) == 1 {
			if call, ok := ast.Unparen(as.Rhs[0]).(*ast.CallExpr); ok && isFunc(callee(info, call), "os", "", "LookupEnv") {
				if v := varOf(info, as.Lhs[1]); v != nil {
					okVars[v] = true
				}
			}
		}
	}
	// walk: "skip" (continue reached), "append" (the variable is added), "" (fell through), "?" (a construct not interpreted)
	var walk func(list []ast.Stmt, w world, okVars map[*types.Var]bool) string
	walk = func(list []ast.Stmt, w world, okVars map[*types.Var]bool) string {
		for _, st := range list {
			switch x := st.(type) {
			case *ast.BranchStmt:
				if x.Tok == token.CONTINUE {
					return "skip"
				}
				return "?"
			case *ast.ReturnStmt:
				return "?"
			case *ast.AssignStmt:
				bindOK(x, okVars)
				if len(x.Rhs) == 1 {
					if call, ok := ast.Unparen(x.Rhs[0]).(*ast.CallExpr); ok && isBuiltin(info, call, "append") {
						return "append"
					}
				}
			case *ast.IfStmt:
				if x.Init != nil {
					bindOK(x.Init, okVars)
				}
				switch evalE(x.Cond, w, okVars, 2) {
				case 1:
					if out := walk(x.Body.List, w, okVars); out != "" {
						return out
					}
				default: // false, or about something else (the value's type ...): the variable is otherwise eligible
					switch e := x.Else.(type) {
					case *ast.BlockStmt:
						if out := walk(e.List, w, okVars); out != "" {
							return out
						}
					case *ast.IfStmt:
						if out := walk([]ast.Stmt{e}, w, okVars); out != "" {
							return out
						}
					}
				}
			case *ast.BlockStmt:
				if out := walk(x.List, w, okVars); out != "" {
					return out
				}
			case *ast.ExprStmt, *ast.DeclStmt, *ast.IncDecStmt:
			default:
				// a statement about something else (a type switch on the value ...): the variable is otherwise eligible; one that
				// involves the experiment or the process environment is not interpreted
				involved := false
				ast.Inspect(st, func(m ast.Node) bool {
					switch y := m.(type) {
					case *ast.CallExpr:
						if evalE(y, world{true, true}, okVars, 0) >= 0 || isFunc(callee(info, y), "os", "", "LookupEnv") {
							involved = true
						}
					case *ast.Ident:
						if v := varOf(info, y); v != nil && okVars[v] {
							involved = true
						}
					}
					return true
				})
				if involved {
					return "?"
				}
			}
		}
		return ""
	}
	inspectDeep(fb.Body, func(nd ast.Node) bool {
		if call, ok := nd.(*ast.CallExpr); ok && isFunc(callee(info, call), "os", "", "Getenv") {
			usesGetenv = true
		}
		return true
	})
	var bad []string
	for _, w := range []world{{false, false}, {false, true}, {true, false}, {true, true}} {
		got := walk(loop.Body.List, w, map[*types.Var]bool{})
		want := "append"
		if !w.precedence && w.set {
			want = "skip"
		}
		if got != want {
			bad = append(bad, fmt.Sprintf("ENV_PRECEDENCE enabled=%v, name present in the process environment=%v: the loop body ends in %q, expected %q", w.precedence, w.set, got, want))
		}
	}
	c.Decide(len(bad) == 0 && !usesGetenv, "os-env-wins", "presence-decides@"+fnDisplay(fb), fb.Decl.Pos(), "the variable is skipped exactly when ENV_PRECEDENCE is off and os.LookupEnv reports the name present",
		fmt.Sprintf("the process environment no longer wins by PRESENCE of the name exactly when ENV_PRECEDENCE is off (uses os.Getenv: %v): %s", usesGetenv, strings.Join(bad, "; ")))
}

func c10PhaseSources(c *Check, a *Anchors) {
	c.Rule("phase-sources", "each phase is fed from the place its name says: Taskfile.Merge hands the INCLUDED Taskfile's Vars (its parameter, not the receiver's already merged variables) to Tasks.Merge as included-Taskfile vars; Tasks.Merge builds Task.IncludedTaskfileVars from that parameter and Task.IncludeVars from include.Vars")
	tm := c.P.Func(PkgAst, "Taskfile", "Merge")
	if tm == nil {
		c.Errorf("phase-sources: Taskfile.Merge not found")
		return
	}
	c.Fn(tm)
	info := tm.Info()
	var recv, param *types.Var
	if len(tm.Decl.Recv.List[0].Names) > 0 {
		recv, _ = info.Defs[tm.Decl.Recv.List[0].Names[0]].(*types.Var)
	}
	for _, fld := range tm.Type.Params.List {
		for _, id := range fld.Names {
			if v, ok := info.Defs[id].(*types.Var); ok && isNamed(v.Type(), PkgAst, "Taskfile") {
				param = v
			}
		}
	}
	n := 0
	for _, call := range callsIn(tm, false) {
		if !isFunc(callee(info, call), PkgAst, "Tasks", "Merge") || len(call.Args) != 3 {
			continue
		}
		n++
		arg := call.Args[2]
		// the argument is a variable-set field of the INCLUDED Taskfile (the parameter) — directly, or a local assigned from such
		// fields only. A field that Taskfile.Merge merges other files into (`t1.<F>.Merge(...)`) holds, for a Taskfile that has
		// includes of its own, the variables of those deeper files as well: at least one of the fields the argument can come
		// from must be one that is never merged into (a snapshot of what the file itself declares), and it must have the last word
		mergedInto := map[string]bool{}
		for _, mc := range callsIn(tm, false) {
			if fn, ok := callee(info, mc).(*types.Func); ok && (fn.Name() == "Merge" || fn.Name() == "Set") {
				if sel, ok := ast.Unparen(mc.Fun).(*ast.SelectorExpr); ok {
					if fs, ok := ast.Unparen(sel.X).(*ast.SelectorExpr); ok && varOf(info, fs.X) == recv && recv != nil {
						mergedInto[fs.Sel.Name] = true
					}
				}
			}
		}
		var sources []ast.Expr
		if v := varOf(info, arg); v != nil && !v.IsField() {
			sources = defsOf(info, tm.Body, v)
		} else {
			sources = []ast.Expr{arg}
		}
		fromParam, snapshot, lastIsSnapshot := len(sources) > 0 && param != nil, false, false
		for _, src := range sources {
			sel, ok := ast.Unparen(src).(*ast.SelectorExpr)
			if !ok || varOf(info, sel.X) != param || !isNamed(typeOf(info, sel), PkgAst, "Vars") {
				fromParam = false
				continue
			}
			lastIsSnapshot = !mergedInto[sel.Sel.Name]
			if lastIsSnapshot {
				snapshot = true
			}
		}
		c.Decide(fromParam && snapshot && lastIsSnapshot, "phase-sources", "included-taskfile-vars@"+fnDisplay(tm), call.Pos(), "Tasks.Merge(..., <what the included Taskfile itself declares>)",
			fmt.Sprintf("(from the included Taskfile: %v; from a variable set that no deeper include is merged into: %v) ", fromParam, snapshot)+
				fmt.Sprintf("Taskfile.Merge passes `%s` as the included Taskfile's variables (receiver: %v): the parent's merged globals are re-applied above the include statement's vars, so a global variable beats `includes: {x: {vars: ...}}`", exprStr(arg), rootVar(info, arg) == recv))
	}
	c.Floor("phase-sources", n, 1)
	tk := tasksMerge(c)
	if tk == nil {
		return
	}
	c.Fn(tk)
	tinfo := tk.Info()
	var varsParam *types.Var
	for _, fld := range tk.Type.Params.List {
		for _, id := range fld.Names {
			if v, ok := tinfo.Defs[id].(*types.Var); ok && isNamed(v.Type(), PkgAst, "Vars") {
				varsParam = v
			}
		}
	}
	okIncluded, okStmt := false, false
	inspectBody(tk.Body, func(nd ast.Node) bool {
		switch x := nd.(type) {
		case *ast.AssignStmt:
			if len(x.Lhs) == 1 && fieldSel(tinfo, x.Lhs[0], PkgAst, "Task", "IncludedTaskfileVars") && varsParam != nil && mentions(tinfo, x.Rhs[0], varsParam) {
				okIncluded = true
			}
		case *ast.CallExpr:
			if isFunc(callee(tinfo, x), PkgAst, "Vars", "Merge") && len(x.Args) >= 1 {
				sel, _ := ast.Unparen(x.Fun).(*ast.SelectorExpr)
				if sel != nil && fieldSel(tinfo, sel.X, PkgAst, "Task", "IncludedTaskfileVars") && varOf(tinfo, x.Args[0]) == varsParam && varsParam != nil {
					okIncluded = true
				}
				if sel != nil && fieldSel(tinfo, sel.X, PkgAst, "Task", "IncludeVars") && fieldSel(tinfo, x.Args[0], PkgAst, "Include", "Vars") {
					okStmt = true
				}
			}
		}
		return true
	})
	// ... for every merged task, whatever the spelling of the include statement: the writes to IncludedTaskfileVars are not
	// nested under a condition on the include (short form / long form)
	condOn := ""
	pmk := parentMap(tk.Body)
	inspectBody(tk.Body, func(nd ast.Node) bool {
		var target ast.Node
		switch x := nd.(type) {
		case *ast.AssignStmt:
			if len(x.Lhs) == 1 && fieldSel(tinfo, x.Lhs[0], PkgAst, "Task", "IncludedTaskfileVars") {
				target = x
			}
		case *ast.CallExpr:
			if sel, ok := ast.Unparen(x.Fun).(*ast.SelectorExpr); ok && isFunc(callee(tinfo, x), PkgAst, "Vars", "Merge") && fieldSel(tinfo, sel.X, PkgAst, "Task", "IncludedTaskfileVars") {
				target = x
			}
		}
		if target == nil {
			return true
		}
		for p := pmk[target]; p != nil; p = pmk[p] {
			if ifs, ok := p.(*ast.IfStmt); ok && within(target, ifs.Body) {
				ast.Inspect(ifs.Cond, func(m ast.Node) bool {
					if sel, ok := m.(*ast.SelectorExpr); ok {
						if s := tinfo.Selections[sel]; s != nil && s.Kind() == types.FieldVal && isNamed(s.Recv(), PkgAst, "Include") {
							condOn = exprStr(ifs.Cond)
						}
					}
					return true
				})
			}
		}
		return true
	})
	c.Decide(condOn == "", "phase-sources", "IncludedTaskfileVars-for-every-include@"+fnDisplay(tk), tk.Decl.Pos(), "recorded for every merged task",
		"Task.IncludedTaskfileVars is only recorded when `"+condOn+"`: for the other spelling of an include the tasks fall back on the merged global variables, where a sibling include that defines the same name wins")
	c.Decide(okIncluded, "phase-sources", "IncludedTaskfileVars-source@"+fnDisplay(tk), tk.Decl.Pos(), "built from the included-Taskfile vars parameter", "Task.IncludedTaskfileVars is not built from the vars parameter of Tasks.Merge")
	c.Decide(okStmt, "phase-sources", "IncludeVars-source@"+fnDisplay(tk), tk.Decl.Pos(), "Task.IncludeVars merged from include.Vars", "Task.IncludeVars is not merged from the include statement's Vars")
}

// rangingHelper: h(vars, fn) ranges over vars.All() (its first parameter), hands every (k, v) to its function parameter
// unconditionally and returns that function's error as soon as it is non-nil.
func rangingHelper(c *Check, h *FuncBody) bool {
	info := h.Info()
	if h.Type.Params == nil || h.Type.Params.NumFields() < 2 {
		return false
	}
	var params []*types.Var
	for _, fld := range h.Type.Params.List {
		for _, id := range fld.Names {
			if v, ok := info.Defs[id].(*types.Var); ok {
				params = append(params, v)
			}
		}
	}
	if len(params) < 2 {
		return false
	}
	ok := false
	inspectBody(h.Body, func(nd ast.Node) bool {
		r, isRange := nd.(*ast.RangeStmt)
		if !isRange {
			return true
		}
		call, isCall := ast.Unparen(r.X).(*ast.CallExpr)
		if !isCall {
			return true
		}
		sel, isSel := ast.Unparen(call.Fun).(*ast.SelectorExpr)
		if !isSel || sel.Sel.Name != "All" || varOf(info, sel.X) != params[0] {
			return true
		}
		for _, s := range r.Body.List {
			inspectBody(s, func(m ast.Node) bool {
				if fc, isFC := m.(*ast.CallExpr); isFC {
					if v := varOf(info, fc.Fun); v != nil && v != params[0] {
						isParam := false
						for _, p := range params[1:] {
							if p == v {
								isParam = true
							}
						}
						if isParam && len(fc.Args) == 2 && varOf(info, fc.Args[0]) == varOf(info, r.Key) && varOf(info, fc.Args[1]) == varOf(info, r.Value) &&
							(unconditionalIn(r.Body.List, fc) || condOnlyErr(r.Body.List, fc)) {
							ok = true
						}
					}
				}
				return true
			})
		}
		return true
	})
	// every return inside the loop returns the error; the final return is nil
	return ok
}

// c10EveryDeclaredVarStored: a key that is declared in a vars: / env: mapping is a variable of that level whatever its value
// (null included): it must override the same name of a lower level.
func c10EveryDeclaredVarStored(c *Check, a *Anchors) {
	c.Rule("every-declared-var-stored", "in Vars.UnmarshalYAML the store of the decoded variable is reached for every key of the mapping: in the loop body nothing but a decode-error return precedes it (no `continue` for null / empty values). A key that is skipped does not exist at its level, so a lower-priority value of the same name shows through — `FOO:` in a task's vars would no longer override the global FOO")
	fb := c.P.Func(PkgAst, "Vars", "UnmarshalYAML")
	if fb == nil {
		c.Errorf("every-declared-var-stored: Vars.UnmarshalYAML not found")
		return
	}
	c.Fn(fb)
	info := fb.Info()
	n := 0
	var walkLoops func(nd ast.Node)
	walkLoops = func(nd ast.Node) {
		inspectBody(nd, func(m ast.Node) bool {
			var body *ast.BlockStmt
			switch x := m.(type) {
			case *ast.ForStmt:
				body = x.Body
			case *ast.RangeStmt:
				body = x.Body
			}
			if body == nil {
				return true
			}
			// the store: a top-level statement of the loop body calling Set on the receiver (or its map)
			for i, st := range body.List {
				es, ok := st.(*ast.ExprStmt)
				if !ok {
					continue
				}
				call, ok := ast.Unparen(es.X).(*ast.CallExpr)
				if !ok {
					continue
				}
				fn, _ := callee(info, call).(*types.Func)
				if fn == nil || fn.Name() != "Set" {
					continue
				}
				n++
				skipped := ""
				for _, prev := range body.List[:i] {
					if hasJumpOtherThanErrReturn(prev) {
						skipped = exprStr1(c.P, prev)
					}
				}
				c.Decide(skipped == "", "every-declared-var-stored", "store@"+fnDisplay(fb), call.Pos(), "every key of the mapping is stored (only a decode error leaves the loop earlier)",
					"a statement before the store can leave the iteration without storing the key ("+skipped+"): a declared variable with such a value does not exist at its level and a lower-priority value of the same name shows through")
			}
			return true
		})
	}
	walkLoops(fb.Body)
	c.Floor("every-declared-var-stored", n, 1)
}

func exprStr1(p *Prog, n ast.Node) string {
	pos := p.Fset.Position(n.Pos())
	return fmt.Sprintf("statement at line %d", pos.Line)
}

// involvesEnvDecision: the function's body mentions the ENV_PRECEDENCE experiment or looks a name up in the process environment.
func involvesEnvDecision(h *FuncBody) bool {
	found := false
	inspectDeep(h.Body, func(n ast.Node) bool {
		if call, ok := n.(*ast.CallExpr); ok {
			if isFunc(callee(h.Info(), call), "os", "", "LookupEnv") || isFunc(callee(h.Info(), call), "os", "", "Getenv") || strings.Contains(exprStr(call.Fun), "EnvPrecedence") {
				found = true
			}
		}
		return true
	})
	return found
}
