package main

// Engine BCE: the Go compiler's prove pass is asked which bounds checks it could NOT eliminate
// (go build -gcflags=<module>/...=-d=ssa/check_bce/debug=1). Each reported position is mapped back to
// the AST: checks that sit inside standard-library / third-party code inlined at a call position are the
// library's own (they panic only if the library's contract is broken) and are discharged as such; index and
// slice expressions written in the repository are the obligations.

import (
	"bufio"
	"bytes"
	"fmt"
	"go/ast"
	"go/token"
	"os"
	"os/exec"
	"path/filepath"
	"regexp"
	"sort"
	"strconv"
	"strings"
)

type BCESite struct {
	File      string
	Line, Col int
	Kind      string // IsInBounds / IsSliceInBounds
	FB        *FuncBody
	Node      ast.Node // innermost IndexExpr / SliceExpr / CallExpr / RangeStmt at the position
	Expr      string
	Inlined   bool // the check belongs to library code inlined at a call
}

var bceLine = regexp.MustCompile(`^(.+\.go):(\d+):(\d+): Found (IsInBounds|IsSliceInBounds)`)

func runBCE(p *Prog) ([]*BCESite, error) {
	cmd := exec.Command("go", "build", "-gcflags="+Mod+"/...=-d=ssa/check_bce/debug=1", "./...")
	cmd.Dir = p.Dir
	cmd.Env = append(os.Environ(), "GOFLAGS=-mod=mod", "GOPROXY=off", "GOSUMDB=off", "GOWORK=off", "GOTOOLCHAIN=local")
	if p.GOOS != "" {
		cmd.Env = append(cmd.Env, "GOOS="+p.GOOS, "CGO_ENABLED=0")
	}
	if p.GOARCH != "" {
		cmd.Env = append(cmd.Env, "GOARCH="+p.GOARCH)
	}
	var out bytes.Buffer
	cmd.Stdout, cmd.Stderr = &out, &out
	err := cmd.Run()
	seen := map[string]bool{}
	var sites []*BCESite
	sc := bufio.NewScanner(&out)
	sc.Buffer(make([]byte, 1<<20), 1<<24)
	nLines := 0
	for sc.Scan() {
		m := bceLine.FindStringSubmatch(sc.Text())
		if m == nil {
			continue
		}
		nLines++
		file := m[1]
		if !filepath.IsAbs(file) {
			file = filepath.Join(p.Dir, file)
		}
		if !strings.HasPrefix(file, p.Dir+string(filepath.Separator)) {
			continue // positions inside the standard library / module cache (generic instantiations)
		}
		line, _ := strconv.Atoi(m[2])
		col, _ := strconv.Atoi(m[3])
		k := fmt.Sprintf("%s:%d:%d:%s", file, line, col, m[4])
		if seen[k] {
			continue
		}
		seen[k] = true
		sites = append(sites, &BCESite{File: file, Line: line, Col: col, Kind: m[4]})
	}
	if nLines == 0 {
		if err != nil {
			return nil, fmt.Errorf("bce build failed: %v: %s", err, firstLines(out.String(), 5))
		}
		return nil, fmt.Errorf("bce build printed no bounds-check diagnostics (compiler flag unsupported?)")
	}
	// map to AST
	for _, s := range sites {
		p.locate(s)
	}
	sort.Slice(sites, func(i, j int) bool {
		if sites[i].File != sites[j].File {
			return sites[i].File < sites[j].File
		}
		if sites[i].Line != sites[j].Line {
			return sites[i].Line < sites[j].Line
		}
		return sites[i].Col < sites[j].Col
	})
	return sites, nil
}

func firstLines(s string, n int) string {
	l := strings.Split(s, "\n")
	if len(l) > n {
		l = l[:n]
	}
	return strings.Join(l, " | ")
}

func (p *Prog) locate(s *BCESite) {
	for _, pk := range p.Pkgs {
		for i, f := range pk.Syntax {
			if pk.CompiledGoFiles[i] != s.File {
				continue
			}
			tf := p.Fset.File(f.Pos())
			if tf == nil || s.Line > tf.LineCount() {
				return
			}
			pos := tf.LineStart(s.Line) + token.Pos(s.Col-1)
			var best ast.Node
			var fn ast.Node
			ast.Inspect(f, func(n ast.Node) bool {
				if n == nil || !(n.Pos() <= pos && pos < n.End()) {
					return n == nil || (n.Pos() <= pos && pos <= n.End())
				}
				switch n.(type) {
				case *ast.FuncDecl, *ast.FuncLit:
					fn = n
				case *ast.IndexExpr, *ast.SliceExpr, *ast.CallExpr, *ast.RangeStmt:
					best = n
				}
				return true
			})
			if fn != nil {
				s.FB = p.bodyOf[fn]
			}
			s.Node = best
			switch x := best.(type) {
			case *ast.IndexExpr:
				// the compiler reports the position of the '[' or of the index operand
				s.Expr = exprStr(x)
			case *ast.SliceExpr:
				s.Expr = exprStr(x)
			case *ast.CallExpr:
				s.Expr = exprStr(x.Fun) + "(...)"
				s.Inlined = true
			case *ast.RangeStmt:
				s.Expr = "range " + exprStr(x.X)
				s.Inlined = true // range over string / array decode helper
			default:
				s.Expr = "?"
			}
			return
		}
	}
}
