package main

// Engine A: resolves the mechanism sites by type and structure. Exported API is
// looked up by object; unexported helpers are recognised by what they do, so a
// rename or an extracted helper does not blind the rules. An anchor that does
// not resolve is an analysis error (never a silent pass).

import (
	"go/ast"
	"go/token"
	"go/types"
	"strings"

	"golang.org/x/tools/go/types/typeutil"
)

// isFunc reports whether obj is the function/method pkg.[recv.]name.
func isFunc(obj types.Object, pkg, recv, name string) bool {
	fn, ok := obj.(*types.Func)
	if !ok || fn.Name() != name || fn.Pkg() == nil || fn.Pkg().Path() != pkg {
		return false
	}
	if o := fn.Origin(); o != nil {
		fn = o
	}
	sig := fn.Type().(*types.Signature)
	if sig.Recv() == nil {
		return recv == ""
	}
	return recvName(sig.Recv().Type()) == recv
}

func recvName(t types.Type) string {
	if p, ok := t.(*types.Pointer); ok {
		t = p.Elem()
	}
	if n, ok := t.(*types.Named); ok {
		return n.Obj().Name()
	}
	return t.String()
}

// namedOf returns the named type behind pointers, or nil.
func namedOf(t types.Type) *types.Named {
	for {
		switch x := t.(type) {
		case *types.Pointer:
			t = x.Elem()
		case *types.Named:
			return x
		case *types.Alias:
			t = types.Unalias(x)
		default:
			return nil
		}
	}
}

func isNamed(t types.Type, pkg, name string) bool {
	n := namedOf(t)
	return n != nil && n.Obj().Name() == name && n.Obj().Pkg() != nil && n.Obj().Pkg().Path() == pkg
}

// sliceOfPtrTo reports whether t is []*pkg.name.
func sliceOfPtrTo(t types.Type, pkg, name string) bool {
	s, ok := t.Underlying().(*types.Slice)
	if !ok {
		return false
	}
	p, ok := s.Elem().(*types.Pointer)
	return ok && isNamed(p.Elem(), pkg, name)
}

func callee(info *types.Info, call *ast.CallExpr) types.Object { return typeutil.Callee(info, call) }

// inspectBody walks a function body without descending into function literals.
func inspectBody(body ast.Node, f func(ast.Node) bool) {
	ast.Inspect(body, func(n ast.Node) bool {
		if n == nil {
			return false
		}
		if _, ok := n.(*ast.FuncLit); ok && n != body {
			return false
		}
		return f(n)
	})
}

// inspectDeep walks a function body including nested literals.
func inspectDeep(body ast.Node, f func(ast.Node) bool) {
	ast.Inspect(body, func(n ast.Node) bool { return n != nil && f(n) })
}

// callsIn lists the calls of fb (own body only, or including literals when deep).
func callsIn(fb *FuncBody, deep bool) []*ast.CallExpr {
	var out []*ast.CallExpr
	w := inspectBody
	if deep {
		w = inspectDeep
	}
	w(fb.Body, func(n ast.Node) bool {
		if c, ok := n.(*ast.CallExpr); ok {
			out = append(out, c)
		}
		return true
	})
	return out
}

// fieldSel reports whether e selects field `field` of a value of type pkg.typ.
func fieldSel(info *types.Info, e ast.Expr, pkg, typ, field string) bool {
	s, ok := ast.Unparen(e).(*ast.SelectorExpr)
	if !ok || s.Sel.Name != field {
		return false
	}
	sel := info.Selections[s]
	if sel == nil || sel.Kind() != types.FieldVal {
		return false
	}
	return isNamed(sel.Recv(), pkg, typ)
}

type Anchors struct {
	P          *Prog
	upWrappers map[*types.Func]*FuncBody

	Run, RunTask, Status, Setup        *FuncBody
	ListTasks, ListTaskNames, ToEditor *FuncBody
	GetTaskList, GetTask, FindMatching *FuncBody
	CompiledTask                       *FuncBody // the function that builds the compiled ast.Task
	GetVariables                       *FuncBody
	CmdRunner, DepRunner, Dedup        *FuncBody
	BodyClosure                        *FuncBody // literal handed to the dedup function by RunTask
	DedupCall                          *ast.CallExpr
	DeferRunner                        *FuncBody
	ShellExec                          *FuncBody   // the function of the command runner's group that calls execext.RunCommand for a cmds entry (the command runner itself, or the helper it hands the shell execution to)
	BodyTail                           []*FuncBody // functions of the package the body closure hands its command loop to
	LoopFn                             *FuncBody   // the function that contains the cmds loop: the body closure, or its tail
	semParams                          map[*types.Var]bool
	SlotDirect                         bool // the slot API is a pair of plain functions (acquire(); defer release()) instead of functions that return the undo closure
	StatusOnError, Mkdir               *FuncBody
	Acquire, Release                   *FuncBody
	HandleDynamicVar                   *FuncBody
	Preconditions                      *FuncBody
	RequiredVars, AllowedValues        *FuncBody
	PlatformTest                       *FuncBody
	GetHash                            *FuncBody
	RunCommandObj                      types.Object // execext.RunCommand
	Missing                            []string
	reachCmd                           map[*types.Func]bool
}

func (a *Anchors) need(name string, fb *FuncBody) *FuncBody {
	if fb == nil {
		a.Missing = append(a.Missing, name)
	}
	return fb
}

func ResolveAnchors(p *Prog) *Anchors {
	a := &Anchors{P: p}
	a.Run = a.need("(*Executor).Run", p.Func(PkgTask, "Executor", "Run"))
	a.RunTask = a.need("(*Executor).RunTask", p.Func(PkgTask, "Executor", "RunTask"))
	a.Status = a.need("(*Executor).Status", p.Func(PkgTask, "Executor", "Status"))
	a.Setup = a.need("(*Executor).Setup", p.Func(PkgTask, "Executor", "Setup"))
	a.ListTasks = a.need("(*Executor).ListTasks", p.Func(PkgTask, "Executor", "ListTasks"))
	a.ListTaskNames = a.need("(*Executor).ListTaskNames", p.Func(PkgTask, "Executor", "ListTaskNames"))
	a.ToEditor = a.need("(*Executor).ToEditorOutput", p.Func(PkgTask, "Executor", "ToEditorOutput"))
	a.GetTaskList = a.need("(*Executor).GetTaskList", p.Func(PkgTask, "Executor", "GetTaskList"))
	a.GetTask = a.need("(*Executor).GetTask", p.Func(PkgTask, "Executor", "GetTask"))
	a.FindMatching = a.need("(*Executor).FindMatchingTasks", p.Func(PkgTask, "Executor", "FindMatchingTasks"))
	a.GetHash = a.need("(*Executor).GetHash", p.Func(PkgTask, "Executor", "GetHash"))
	a.HandleDynamicVar = a.need("(*Compiler).HandleDynamicVar", p.Func(PkgTask, "Compiler", "HandleDynamicVar"))
	a.RunCommandObj = p.Lookup(PkgExecext, "RunCommand")
	if a.RunCommandObj == nil {
		a.Missing = append(a.Missing, "execext.RunCommand")
	}

	var depRangers []*FuncBody
	for _, fb := range p.BodiesIn(PkgTask) {
		if fb.Decl == nil {
			continue
		}
		info := fb.Info()
		var callsRunCommand, selCmdCmd, rangesDeps, callsRunTask, idxRead, idxWrite bool
		var buildsTask, callsGetEnviron, callsOnError, callsMkdirAll bool
		var semSendFirst, semRecvFirst, semSeen bool
		var rangesPlatforms, rangesPreconds, rangesReqVars, usesEnum, appendsMissing bool
		inspectDeep(fb.Body, func(n ast.Node) bool {
			switch x := n.(type) {
			case *ast.CallExpr:
				c := callee(info, x)
				if c != nil && c == a.RunCommandObj {
					callsRunCommand = true
				}
				if isFunc(c, PkgTask, "Executor", "RunTask") {
					callsRunTask = true
				}
				if isFunc(c, PkgEnv, "", "GetEnviron") {
					callsGetEnviron = true
				}
				// slices.ContainsFunc / IndexFunc ... over the list is the loop over it
				if fn, ok := c.(*types.Func); ok && fn.Pkg() != nil && fn.Pkg().Path() == "slices" && strings.HasSuffix(fn.Name(), "Func") && len(x.Args) >= 1 {
					if tv, ok := info.Types[x.Args[0]]; ok && sliceOfPtrTo(tv.Type, PkgAst, "Platform") {
						rangesPlatforms = true
					}
				}
				if fn, ok := c.(*types.Func); ok && fn.Name() == "OnError" && fn.Pkg() != nil && fn.Pkg().Path() == PkgFingerprint {
					callsOnError = true
				}
				// ... or a function of the fingerprint package that builds the checker and calls its OnError
				if fn, ok := c.(*types.Func); ok && fn.Pkg() != nil && fn.Pkg().Path() == PkgFingerprint {
					if h := p.DeclOf(fn); h != nil && h.Decl != nil && h.Decl.Recv == nil {
						for _, hc := range callsIn(h, false) {
							if hf, ok := callee(h.Info(), hc).(*types.Func); ok && hf.Name() == "OnError" && hf.Pkg() != nil && hf.Pkg().Path() == PkgFingerprint {
								callsOnError = true
							}
						}
					}
				}
				if fn, ok := c.(*types.Func); ok && fn.Name() == "MkdirAll" && fn.Pkg() != nil && fn.Pkg().Path() == "os" {
					callsMkdirAll = true
				}
			case *ast.SelectorExpr:
				if fieldSel(info, x, PkgAst, "Cmd", "Cmd") {
					selCmdCmd = true
				}
				if fieldSel(info, x, PkgAst, "VarsWithValidation", "Enum") {
					usesEnum = true
				}
			case *ast.RangeStmt:
				switch {
				case rangesOverPtr(info, x, PkgAst, "Dep"):
					rangesDeps = true
				case rangesOverPtr(info, x, PkgAst, "Platform"):
					rangesPlatforms = true
				case rangesOverPtr(info, x, PkgAst, "Precondition"):
					rangesPreconds = true
				case rangesOverPtr(info, x, PkgAst, "VarsWithValidation"):
					rangesReqVars = true
				}
			case *ast.IndexExpr:
				if fieldSel(info, x.X, PkgTask, "Executor", "executionHashes") {
					idxRead = true
				}
			case *ast.AssignStmt:
				for _, l := range x.Lhs {
					if ix, ok := ast.Unparen(l).(*ast.IndexExpr); ok && fieldSel(info, ix.X, PkgTask, "Executor", "executionHashes") {
						idxWrite = true
					}
				}
			case *ast.CompositeLit:
				if tv, ok := info.Types[x]; ok {
					if isNamed(tv.Type, PkgAst, "Task") && len(x.Elts) > 10 {
						buildsTask = true
					}
					if isNamed(tv.Type, PkgErrors, "MissingVar") {
						appendsMissing = true
					}
				}
			case *ast.SendStmt:
				if fieldSel(info, x.Chan, PkgTask, "Executor", "concurrencySemaphore") && !semSeen {
					semSeen, semSendFirst = true, true
				}
			case *ast.UnaryExpr:
				if x.Op == token.ARROW && fieldSel(info, x.X, PkgTask, "Executor", "concurrencySemaphore") && !semSeen {
					semSeen, semRecvFirst = true, true
				}
			}
			return true
		})
		switch {
		case callsRunCommand && selCmdCmd && a.CmdRunner == nil:
			a.CmdRunner = fb
		}
		if rangesDeps && callsRunTask && a.DepRunner == nil {
			a.DepRunner = fb
		}
		if rangesDeps && !callsRunTask {
			depRangers = append(depRangers, fb)
		}
		if idxRead && idxWrite && a.Dedup == nil {
			a.Dedup = fb
		}
		if buildsTask && a.CompiledTask == nil {
			a.CompiledTask = fb
		}
		if callsGetEnviron && a.GetVariables == nil && recvOf(fb) == "Compiler" {
			a.GetVariables = fb
		}
		if callsOnError && a.StatusOnError == nil {
			a.StatusOnError = fb
		}
		if callsMkdirAll && a.Mkdir == nil && !(fb.Decl.Name.Name == "RunTask" && recvOf(fb) == "Executor") {
			a.Mkdir = fb
		}
		_, _ = semSendFirst, semRecvFirst
		if rangesPlatforms && a.PlatformTest == nil && fb.Type.Results != nil && len(fb.Type.Results.List) == 1 {
			a.PlatformTest = fb
		}
		if rangesPreconds && callsRunCommand && a.Preconditions == nil {
			a.Preconditions = fb
		}
		if rangesReqVars && appendsMissing && a.RequiredVars == nil {
			a.RequiredVars = fb
		}
		if rangesReqVars && usesEnum && !appendsMissing && a.AllowedValues == nil {
			a.AllowedValues = fb
		}
	}
	// slot API: methods of package task returning func() whose first semaphore operation (following package helpers) is a send / a receive
	for _, fb := range p.BodiesIn(PkgTask) {
		if fb.Decl == nil || fb.Type.Results == nil || len(fb.Type.Results.List) != 1 {
			continue
		}
		if tv, ok := fb.Info().Types[fb.Type.Results.List[0].Type]; !ok || types.TypeString(tv.Type, nil) != "func()" {
			continue
		}
		ops := a.semOps(fb.Body, fb.Info(), 2)
		if len(ops) == 0 {
			continue
		}
		switch {
		case ops[0] == "send" && a.Acquire == nil:
			a.Acquire = fb
		case ops[0] == "recv" && a.Release == nil:
			a.Release = fb
		}
	}
	if a.Acquire == nil && a.Release == nil {
		// the direct form: two functions without result, one whose only semaphore operation is a send (take a slot), one
		// whose only operation is a receive (give it back); every taker defers the giver and the other way round
		for _, fb := range p.BodiesIn(PkgTask) {
			if fb.Decl == nil || (fb.Type.Results != nil && len(fb.Type.Results.List) > 0) {
				continue
			}
			// (only the function that operates on the channel itself: its own body, no helpers)
			ops := a.semOps(fb.Body, fb.Info(), 0)
			if len(ops) != 1 {
				continue
			}
			switch {
			case ops[0] == "send" && a.Acquire == nil:
				a.Acquire = fb
			case ops[0] == "recv" && a.Release == nil:
				a.Release = fb
			}
		}
		if a.Acquire != nil && a.Release != nil {
			a.SlotDirect = true
		} else {
			a.Acquire, a.Release = nil, nil
		}
	}
	if a.DepRunner == nil && a.RunTask != nil {
		// the RunTask call of the dependency runner may live in helpers (a method that returns the goroutine's function, a
		// method that runs one dependency): a function that ranges over the deps and reaches RunTask through package helpers
		for _, fb := range depRangers {
			reach := p.ReachableFrom([]*FuncBody{fb}, func(x *FuncBody) bool { return x == a.RunTask })
			if reach[a.RunTask] && fb != a.RunTask {
				a.DepRunner = fb
				break
			}
		}
	}
	a.need("command runner (function passing an ast.Cmd's Cmd to execext.RunCommand)", a.CmdRunner)
	a.need("dependency runner (function ranging over []*ast.Dep that calls RunTask)", a.DepRunner)
	a.need("task compiler (function building the ast.Task literal)", a.CompiledTask)
	a.need("variable resolver (Compiler method calling env.GetEnviron)", a.GetVariables)
	a.need("status rollback (function calling SourcesCheckable.OnError)", a.StatusOnError)
	a.need("slot acquire (sends to Executor.concurrencySemaphore)", a.Acquire)
	a.need("slot release (receives from Executor.concurrencySemaphore)", a.Release)
	a.need("platform test (ranges over []*ast.Platform)", a.PlatformTest)
	a.need("precondition runner", a.Preconditions)
	a.need("required-vars test", a.RequiredVars)
	a.need("allowed-values test", a.AllowedValues)

	// dedup function and task body: RunTask hands a literal `func(context.Context) error` to a function of the package;
	// that function is the dedup function (it may keep the table access in a helper), the literal is the task body
	if a.RunTask != nil {
		info := a.RunTask.Info()
		for _, call := range callsIn(a.RunTask, false) {
			fn, ok := callee(info, call).(*types.Func)
			if !ok || p.DeclOf(fn) == nil || p.DeclOf(fn).Pkg.PkgPath != PkgTask {
				continue
			}
			for _, arg := range call.Args {
				var fl *ast.FuncLit
				if l, ok := ast.Unparen(arg).(*ast.FuncLit); ok {
					fl = l
				} else if v := varOf(info, arg); v != nil {
					if d := singleDef(info, a.RunTask.Body, v); d != nil {
						fl, _ = ast.Unparen(d).(*ast.FuncLit)
					}
				}
				if fl == nil {
					continue
				}
				if sig, ok := info.TypeOf(fl).(*types.Signature); ok && sig.Params().Len() == 1 && sig.Results().Len() == 1 && types.TypeString(sig.Params().At(0).Type(), nil) == "context.Context" {
					a.BodyClosure = p.LitBody(fl)
					a.DedupCall = call
					a.Dedup = p.DeclOf(fn)
				}
			}
		}
		a.need("task body closure (literal func(context.Context) error handed by RunTask to the dedup function)", a.BodyClosure)
	}
	// the command runner is the function the cmds loop hands each entry to: the first guess (the function that passes Cmd.Cmd
	// to execext.RunCommand) is a helper of it when the shell execution was split off. Re-derive it from the call site: in the
	// task body (or the package function it hands its loop to) the callee, inside a loop over Task.Cmds, that reaches
	// execext.RunCommand through package functions
	if a.BodyClosure != nil && a.RunCommandObj != nil {
		reachesRC := func(fb *FuncBody) bool {
			for g := range p.ReachableFrom([]*FuncBody{fb}, func(x *FuncBody) bool { return x.Pkg.PkgPath != PkgTask || x == a.RunTask }) {
				for _, call := range callsIn(g, true) {
					if callee(g.Info(), call) == a.RunCommandObj {
						return true
					}
				}
			}
			return false
		}
		cands := []*FuncBody{a.BodyClosure}
		for _, call := range callsIn(a.BodyClosure, false) {
			if fn, ok := callee(a.BodyClosure.Info(), call).(*types.Func); ok {
				if h := p.DeclOf(fn); h != nil && h.Decl != nil && h.Pkg.PkgPath == PkgTask && h != a.RunTask && h != a.DepRunner {
					cands = append(cands, h)
				}
			}
		}
		var found *FuncBody
		for _, cb := range cands {
			cinfo := cb.Info()
			inspectBody(cb.Body, func(n ast.Node) bool {
				var body *ast.BlockStmt
				overCmds := false
				switch x := n.(type) {
				case *ast.RangeStmt:
					body = x.Body
					overCmds = fieldSel(cinfo, x.X, PkgAst, "Task", "Cmds")
				case *ast.ForStmt:
					body = x.Body
					if x.Cond != nil {
						ast.Inspect(x.Cond, func(m ast.Node) bool {
							if sel, ok := m.(*ast.SelectorExpr); ok && fieldSel(cinfo, sel, PkgAst, "Task", "Cmds") {
								overCmds = true
							}
							return true
						})
					}
				}
				if body == nil || !overCmds || found != nil {
					return true
				}
				pm := parentMap(body)
				inspectBody(body, func(m ast.Node) bool {
					call, ok := m.(*ast.CallExpr)
					if !ok || found != nil {
						return true
					}
					if _, isDefer := pm[call].(*ast.DeferStmt); isDefer {
						return true
					}
					if fn, ok := callee(cinfo, call).(*types.Func); ok {
						if h := p.DeclOf(fn); h != nil && h.Decl != nil && h.Pkg.PkgPath == PkgTask && h != a.RunTask && reachesRC(h) {
							found = h
						}
					}
					return true
				})
				return true
			})
		}
		if found != nil {
			a.CmdRunner = found
		}
	}
	// the shell executor: the command runner, or the helper of the package (depth <= 2) it calls that holds the RunCommand call
	if a.CmdRunner != nil && a.RunCommandObj != nil {
		for _, g := range p.groupOf(a.CmdRunner, 2) {
			if g.Pkg.PkgPath != PkgTask || g == a.RunTask || g.Decl == nil {
				continue
			}
			for _, call := range callsIn(g, true) {
				if callee(g.Info(), call) == a.RunCommandObj && a.ShellExec == nil {
					a.ShellExec = g
				}
			}
		}
		if a.ShellExec == nil {
			a.ShellExec = a.CmdRunner
		}
	}
	a.computeReachCmd()
	// deferred-command runner: callee of a defer in the task body that reaches the command runner. The task body is the
	// closure and — when its command loop was split off — the function of the package it calls that registers the defers
	// ("body tail": analysed as part of the body, never as a command event of its own)
	if a.BodyClosure != nil {
		findDefer := func(fb *FuncBody) *FuncBody {
			var out *FuncBody
			inspectBody(fb.Body, func(n ast.Node) bool {
				if d, ok := n.(*ast.DeferStmt); ok {
					if fn, ok := callee(fb.Info(), d.Call).(*types.Func); ok && a.reachCmd[fn] && a.CmdRunner != nil && fn != a.CmdRunner.Obj {
						out = p.DeclOf(fn)
					}
				}
				return true
			})
			return out
		}
		a.DeferRunner = findDefer(a.BodyClosure)
		a.LoopFn = a.BodyClosure
		if a.DeferRunner == nil {
			for _, call := range callsIn(a.BodyClosure, false) {
				fn, ok := callee(a.BodyClosure.Info(), call).(*types.Func)
				if !ok {
					continue
				}
				h := p.DeclOf(fn)
				if h == nil || h.Pkg.PkgPath != PkgTask || h == a.RunTask || h == a.CmdRunner || h == a.DepRunner {
					continue
				}
				if d := findDefer(h); d != nil {
					a.DeferRunner = d
					a.BodyTail = append(a.BodyTail, h)
					a.LoopFn = h
					delete(a.reachCmd, fn)
				}
			}
		}
		if a.DeferRunner == nil {
			// the runner is not the operand of a defer statement: it may be called from inside a deferred literal, in the
			// body or in RunTask itself (the registration rules then report where and why that is wrong)
			inspectDeep(a.RunTask.Body, func(n ast.Node) bool {
				d, ok := n.(*ast.DeferStmt)
				if !ok {
					return true
				}
				fl, ok := ast.Unparen(d.Call.Fun).(*ast.FuncLit)
				if !ok {
					return true
				}
				inspectDeep(fl.Body, func(m ast.Node) bool {
					if call, ok := m.(*ast.CallExpr); ok {
						if fn, ok := callee(a.RunTask.Info(), call).(*types.Func); ok && a.reachCmd[fn] && a.CmdRunner != nil && fn != a.CmdRunner.Obj && a.DeferRunner == nil {
							if h := p.DeclOf(fn); h != nil && h != a.DepRunner && h != a.RunTask {
								a.DeferRunner = h
							}
						}
					}
					return true
				})
				return true
			})
		}
		a.need("deferred-command runner (callee of a defer in the body closure that reaches the command runner)", a.DeferRunner)
	}
	return a
}

// rangesOverPtr: the range statement iterates over elements of type *pkg.name — a slice of them, or an iterator
// (iter.Seq / iter.Seq2, or any range-over-func) that yields them.
func rangesOverPtr(info *types.Info, r *ast.RangeStmt, pkg, name string) bool {
	if tv, ok := info.Types[r.X]; ok && sliceOfPtrTo(tv.Type, pkg, name) {
		return true
	}
	tv, ok := info.Types[r.X]
	if !ok {
		return false
	}
	if _, isFunc := tv.Type.Underlying().(*types.Signature); !isFunc {
		return false
	}
	for _, e := range []ast.Expr{r.Key, r.Value} {
		if e == nil {
			continue
		}
		if v := varOf(info, e); v != nil {
			if pt, ok := v.Type().(*types.Pointer); ok && isNamed(pt.Elem(), pkg, name) {
				return true
			}
		}
	}
	return false
}

func recvOf(fb *FuncBody) string {
	if fb.Decl == nil || fb.Decl.Recv == nil || len(fb.Decl.Recv.List) == 0 {
		return ""
	}
	return strings.TrimPrefix(types.ExprString(fb.Decl.Recv.List[0].Type), "*")
}

// computeReachCmd: functions of package task that reach the command runner through
// static calls inside the package without crossing RunTask (event class closure).
func (a *Anchors) computeReachCmd() {
	a.reachCmd = map[*types.Func]bool{}
	if a.CmdRunner == nil {
		return
	}
	a.reachCmd[a.CmdRunner.Obj] = true
	if a.ShellExec != nil && a.ShellExec.Obj != nil {
		// a function that calls the shell executor directly (bypassing the dispatching runner) runs a command just the same
		a.reachCmd[a.ShellExec.Obj] = true
	}
	for changed := true; changed; {
		changed = false
		for _, fb := range a.P.BodiesIn(PkgTask) {
			if fb.Decl == nil || fb.Obj == nil || a.reachCmd[fb.Obj] || fb == a.RunTask || fb == a.Run {
				continue
			}
			for _, call := range callsIn(fb, true) {
				if fn, ok := callee(fb.Info(), call).(*types.Func); ok && a.reachCmd[fn] {
					a.reachCmd[fb.Obj] = true
					changed = true
					break
				}
			}
		}
	}
}

// IsCmdEvent reports whether the callee is the command runner or a package helper that reaches it.
func (a *Anchors) IsCmdEvent(obj types.Object) bool {
	fn, ok := obj.(*types.Func)
	return ok && a.reachCmd[fn]
}

func (a *Anchors) is(obj types.Object, fb *FuncBody) bool {
	fn, ok := obj.(*types.Func)
	return ok && fb != nil && fb.Obj != nil && (fn == fb.Obj || fn.Origin() == fb.Obj)
}

// semOps lists, in source order, the operations on Executor.concurrencySemaphore performed by a body (function literals
// excluded), following calls to functions of package task up to the given depth.
func (a *Anchors) semOps(body ast.Node, info *types.Info, depth int) []string {
	var ops []string
	inspectBody(body, func(n ast.Node) bool {
		switch x := n.(type) {
		case *ast.SendStmt:
			if a.isSem(info, x.Chan) {
				ops = append(ops, "send")
			}
		case *ast.UnaryExpr:
			if x.Op == token.ARROW && a.isSem(info, x.X) {
				ops = append(ops, "recv")
			}
		case *ast.CallExpr:
			if depth > 0 {
				if fn, ok := callee(info, x).(*types.Func); ok {
					if d := a.P.DeclOf(fn); d != nil && d.Pkg.PkgPath == PkgTask {
						ops = append(ops, a.semOps(d.Body, d.Info(), depth-1)...)
					}
				}
			}
		}
		return true
	})
	return ops
}

// returnedFuncOps: the semaphore operations of the function values a slot function returns (literal, method value or function name).
func (a *Anchors) returnedFuncOps(fb *FuncBody) [][]string {
	var out [][]string
	info := fb.Info()
	for _, r := range returnsOf(fb.Body) {
		if len(r.Results) != 1 {
			continue
		}
		out = append(out, a.funcValueOps(info, r.Results[0]))
	}
	return out
}

// funcValueOps: the semaphore operations performed by the function value e denotes (a literal, a method value, a declared
// function); ["?"] when e is something else.
func (a *Anchors) funcValueOps(info *types.Info, e ast.Expr) []string {
	switch x := ast.Unparen(e).(type) {
	case *ast.FuncLit:
		return a.semOps(x.Body, info, 2)
	case *ast.SelectorExpr:
		if fn, ok := info.Uses[x.Sel].(*types.Func); ok {
			if d := a.P.DeclOf(fn); d != nil {
				return a.semOps(d.Body, d.Info(), 2)
			}
		}
		return nil
	case *ast.Ident:
		if fn, ok := info.Uses[x].(*types.Func); ok {
			if d := a.P.DeclOf(fn); d != nil {
				return a.semOps(d.Body, d.Info(), 2)
			}
		}
		return nil
	}
	return []string{"?"}
}

// runTaskWrapper: a declared function of package task every return of which yields, as its error, the result of RunTask
// or of another such wrapper (a helper that "runs one dependency / one call").
func (a *Anchors) runTaskWrapper(p *Prog, fb *FuncBody, depth int) bool {
	if fb == nil || fb.Decl == nil || fb == a.RunTask || depth < 0 || fb.Pkg.PkgPath != PkgTask {
		return false
	}
	info := fb.Info()
	rets := returnsOf(fb.Body)
	if len(rets) == 0 {
		return false
	}
	for _, r := range rets {
		res := errResult(r)
		call, ok := ast.Unparen(res).(*ast.CallExpr)
		if res == nil || !ok {
			return false
		}
		fn, _ := callee(info, call).(*types.Func)
		if fn == nil {
			return false
		}
		if a.is(fn, a.RunTask) {
			continue
		}
		if d := p.DeclOf(fn); d != nil && a.runTaskWrapper(p, d, depth-1) {
			continue
		}
		return false
	}
	return true
}

// ctxReachesRunTask: the context variable v of fb is what RunTask receives, directly or through package helpers that pass
// their own context parameter on.
func (a *Anchors) ctxReachesRunTask(p *Prog, fb *FuncBody, v *types.Var, depth int) bool {
	if v == nil {
		return false
	}
	return a.ctxReachesRunTaskP(p, fb, func(info *types.Info, e ast.Expr) bool { return varOf(info, e) == v }, depth)
}

// ctxReachesRunTaskP: as ctxReachesRunTask, with the context denoted by a predicate on expressions of fb (a variable, or a
// field of the receiver when the spawned function is a method value of a struct that carries the context).
func (a *Anchors) ctxReachesRunTaskP(p *Prog, fb *FuncBody, isCtx func(*types.Info, ast.Expr) bool, depth int) bool {
	if fb == nil || depth < 0 {
		return false
	}
	info := fb.Info()
	found := false
	inspectDeep(fb.Body, func(n ast.Node) bool {
		call, ok := n.(*ast.CallExpr)
		if !ok || found {
			return true
		}
		fn, _ := callee(info, call).(*types.Func)
		if fn == nil {
			return true
		}
		if a.is(fn, a.RunTask) {
			if len(call.Args) >= 1 && isCtx(info, call.Args[0]) {
				found = true
			}
			return true
		}
		h := p.DeclOf(fn)
		if h == nil || h.Pkg.PkgPath != PkgTask || h.Type.Params == nil {
			return true
		}
		for i, arg := range call.Args {
			if !isCtx(info, arg) {
				continue
			}
			// parameter i of h
			k := 0
			for _, fld := range h.Type.Params.List {
				for _, id := range fld.Names {
					if k == i {
						if pv, ok := h.Info().Defs[id].(*types.Var); ok && a.ctxReachesRunTask(p, h, pv, depth-1) {
							found = true
						}
					}
					k++
				}
			}
		}
		return true
	})
	return found
}

// methodValueSpawn: the expression is a method value `recv.m` of a declared method of package task; it returns the method,
// and for each field of the receiver's struct literal (given in place, by address, or through a once-assigned local) the
// expression bound to it.
func (a *Anchors) methodValueSpawn(p *Prog, fb *FuncBody, e ast.Expr) (*FuncBody, map[string]ast.Expr) {
	info := fb.Info()
	sel, ok := ast.Unparen(e).(*ast.SelectorExpr)
	if !ok {
		return nil, nil
	}
	s := info.Selections[sel]
	if s == nil || s.Kind() != types.MethodVal {
		return nil, nil
	}
	fn, _ := s.Obj().(*types.Func)
	h := p.DeclOf(fn)
	if h == nil || h.Decl == nil || h.Pkg.PkgPath != PkgTask {
		return nil, nil
	}
	recv := ast.Unparen(sel.X)
	if v := varOf(info, recv); v != nil {
		if d := singleDef(info, fb.Body, v); d != nil {
			recv = ast.Unparen(d)
		}
	}
	if u, ok := recv.(*ast.UnaryExpr); ok && u.Op == token.AND {
		recv = ast.Unparen(u.X)
	}
	fields := map[string]ast.Expr{}
	if lit, ok := recv.(*ast.CompositeLit); ok {
		var st *types.Struct
		if tv, ok := info.Types[lit]; ok {
			st, _ = tv.Type.Underlying().(*types.Struct)
		}
		for i, el := range lit.Elts {
			if kv, ok := el.(*ast.KeyValueExpr); ok {
				if id, ok := kv.Key.(*ast.Ident); ok {
					fields[id.Name] = kv.Value
				}
			} else if st != nil && i < st.NumFields() {
				fields[st.Field(i).Name()] = el
			}
		}
	}
	return h, fields
}

// recvFieldIs: predicate "the expression is field `name` of h's receiver".
func recvFieldIs(h *FuncBody, name string) func(*types.Info, ast.Expr) bool {
	var rv *types.Var
	if h.Decl != nil && h.Decl.Recv != nil && len(h.Decl.Recv.List) == 1 && len(h.Decl.Recv.List[0].Names) == 1 {
		rv, _ = h.Info().Defs[h.Decl.Recv.List[0].Names[0]].(*types.Var)
	}
	return func(info *types.Info, e ast.Expr) bool {
		sel, ok := ast.Unparen(e).(*ast.SelectorExpr)
		return ok && rv != nil && sel.Sel.Name == name && varOf(info, sel.X) == rv
	}
}

// bodyParts: the task body as a list of function bodies — the closure and the tail it hands its command loop to.
func (a *Anchors) bodyParts() []*FuncBody {
	return append([]*FuncBody{a.BodyClosure}, a.BodyTail...)
}

// isTailCall: the call hands control to the body tail (the position in the closure at which the command loop starts).
func (a *Anchors) isTailCall(info *types.Info, call *ast.CallExpr) bool {
	for _, t := range a.BodyTail {
		if a.is(callee(info, call), t) {
			return true
		}
	}
	return false
}

// isSem: the expression denotes the concurrency semaphore — the Executor field, or a channel parameter of a function of
// package task that every one of its call sites binds to that field (slot helpers that take the semaphore as an argument).
func (a *Anchors) isSem(info *types.Info, e ast.Expr) bool {
	if fieldSel(info, e, PkgTask, "Executor", "concurrencySemaphore") {
		return true
	}
	v := varOf(info, e)
	if v == nil {
		return false
	}
	if a.semParams == nil {
		a.semParams = map[*types.Var]bool{}
		for _, fb := range a.P.BodiesIn(PkgTask) {
			if fb.Decl == nil || fb.Obj == nil || fb.Type.Params == nil {
				continue
			}
			finfo := fb.Info()
			// a method on a named channel type (take / give of a slot pool): its receiver is the semaphore when every call
			// site's receiver is the Executor field
			if fb.Decl.Recv != nil && len(fb.Decl.Recv.List) == 1 && len(fb.Decl.Recv.List[0].Names) == 1 {
				if rv, _ := finfo.Defs[fb.Decl.Recv.List[0].Names[0]].(*types.Var); rv != nil {
					if _, isChan := rv.Type().Underlying().(*types.Chan); isChan {
						all, n := true, 0
						for _, cb := range a.P.BodiesIn(PkgTask) {
							for _, call := range callsIn(cb, false) {
								if fn, ok := callee(cb.Info(), call).(*types.Func); ok && fn == fb.Obj {
									n++
									sel, isSel := ast.Unparen(call.Fun).(*ast.SelectorExpr)
									if !isSel || !fieldSel(cb.Info(), sel.X, PkgTask, "Executor", "concurrencySemaphore") {
										all = false
									}
								}
							}
						}
						if all && n > 0 {
							a.semParams[rv] = true
						}
					}
				}
			}
			idx := 0
			for _, fld := range fb.Type.Params.List {
				for _, id := range fld.Names {
					pv, _ := finfo.Defs[id].(*types.Var)
					if pv != nil {
						if _, isChan := pv.Type().Underlying().(*types.Chan); isChan {
							all, n := true, 0
							for _, cb := range a.P.BodiesIn(PkgTask) {
								for _, call := range callsIn(cb, false) {
									if fn, ok := callee(cb.Info(), call).(*types.Func); ok && fn == fb.Obj {
										n++
										if idx >= len(call.Args) || !fieldSel(cb.Info(), call.Args[idx], PkgTask, "Executor", "concurrencySemaphore") {
											all = false
										}
									}
								}
							}
							if all && n > 0 {
								a.semParams[pv] = true
							}
						}
					}
					idx++
				}
			}
		}
	}
	return a.semParams[v]
}

// slotUndoDeferred: the must-fact that says "the undo of slot operation l (acquire / release) is deferred": the closure the
// operation returned, or — in the direct form — a deferred call of the opposite operation.
func (a *Anchors) slotUndoDeferred(l string) string {
	if !a.SlotDirect {
		return "deferred:ret(" + l + ")"
	}
	if l == "acquire" {
		return "deferred:release"
	}
	return "deferred:acquire"
}

// upToDateWrappers: the thin forwarders of package task to fingerprint.IsTaskUpToDate — declared functions whose only call
// of it is the operand of a return statement (`func (e *Executor) isTaskUpToDate(ctx, t, dry) (bool, error) { return
// fingerprint.IsTaskUpToDate(…) }`). A call of one is an up-to-date query in the caller.
func (a *Anchors) upToDateWrappers() map[*types.Func]*FuncBody {
	if a.upWrappers != nil {
		return a.upWrappers
	}
	a.upWrappers = map[*types.Func]*FuncBody{}
	for _, fb := range a.P.BodiesIn(PkgTask) {
		if fb.Decl == nil || fb.Obj == nil {
			continue
		}
		info := fb.Info()
		nCalls, nRet := 0, 0
		inspectDeep(fb.Body, func(n ast.Node) bool {
			switch x := n.(type) {
			case *ast.CallExpr:
				if isFunc(callee(info, x), PkgFingerprint, "", "IsTaskUpToDate") {
					nCalls++
				}
			case *ast.ReturnStmt:
				if len(x.Results) == 1 {
					if call, ok := ast.Unparen(x.Results[0]).(*ast.CallExpr); ok && isFunc(callee(info, call), PkgFingerprint, "", "IsTaskUpToDate") {
						nRet++
					}
				}
			}
			return true
		})
		if nCalls == 1 && nRet == 1 && len(fb.Body.List) == 1 {
			a.upWrappers[fb.Obj] = fb
		}
	}
	return a.upWrappers
}

// isUpToDateCallee: fingerprint.IsTaskUpToDate or a thin forwarder to it.
func (a *Anchors) isUpToDateCallee(obj types.Object) bool {
	if isFunc(obj, PkgFingerprint, "", "IsTaskUpToDate") {
		return true
	}
	if fn, ok := obj.(*types.Func); ok {
		return a.upToDateWrappers()[fn] != nil || a.upToDateWrappers()[fn.Origin()] != nil
	}
	return false
}
