package main

import (
	"go/ast"
	"go/types"
)

// MemoModel describes where the dynamic-variable memo of the compiler lives: the map field, the mutex that guards it (both
// fields of Compiler itself, or of a struct-typed field of Compiler — `dynamic dynamicVarCache{mu, results}`), and the
// accessor methods of package task that read or write the map through a key parameter without taking the lock themselves
// (`lookup(sh) (string, bool)`, `store(sh, result)`).
type MemoModel struct {
	Map, Mu *types.Var
	Holder  *types.Var           // the Compiler field that holds both, nil when they are fields of Compiler
	Lookup  map[*types.Func]bool // accessor methods that read the map
	Store   map[*types.Func]bool // accessor methods that write an element of the map
}

var memoModels = map[*Prog]*MemoModel{}

func memoOf(p *Prog) *MemoModel {
	if m, ok := memoModels[p]; ok {
		return m
	}
	m := &MemoModel{Lookup: map[*types.Func]bool{}, Store: map[*types.Func]bool{}}
	memoModels[p] = m
	t := p.NamedType(PkgTask, "Compiler")
	if t == nil {
		return m
	}
	isMemoMap := func(ty types.Type) bool {
		mp, ok := ty.Underlying().(*types.Map)
		if !ok {
			return false
		}
		k, ok1 := mp.Key().Underlying().(*types.Basic)
		return ok1 && k.Kind() == types.String
	}
	isMutex := func(ty types.Type) bool {
		return isNamed(ty, "sync", "Mutex") || isNamed(ty, "sync", "RWMutex")
	}
	pick := func(st *types.Struct) (*types.Var, *types.Var) {
		var mp, mu *types.Var
		for i := 0; i < st.NumFields(); i++ {
			f := st.Field(i)
			if isMemoMap(f.Type()) && !f.Exported() && mp == nil {
				mp = f
			}
			if isMutex(f.Type()) && mu == nil {
				mu = f
			}
		}
		return mp, mu
	}
	st, _ := t.Underlying().(*types.Struct)
	if st == nil {
		return m
	}
	if mp, mu := pick(st); mp != nil && mu != nil {
		m.Map, m.Mu = mp, mu
	} else {
		for i := 0; i < st.NumFields(); i++ {
			f := st.Field(i)
			ft := f.Type()
			if pt, ok := ft.Underlying().(*types.Pointer); ok {
				ft = pt.Elem()
			}
			nt, _ := ft.(*types.Named)
			if nt == nil || nt.Obj().Pkg() == nil || nt.Obj().Pkg().Path() != PkgTask {
				continue
			}
			if inner, ok := nt.Underlying().(*types.Struct); ok {
				if mp, mu := pick(inner); mp != nil && mu != nil {
					m.Map, m.Mu, m.Holder = mp, mu, f
				}
			}
		}
	}
	if m.Map == nil {
		return m
	}
	// accessors: declared methods of package task that index the map with one of their parameters and never touch the mutex
	for _, fb := range p.BodiesIn(PkgTask) {
		if fb.Decl == nil || fb.Decl.Recv == nil || fb.Obj == nil {
			continue
		}
		info := fb.Info()
		touchesMu, reads, writes := false, false, false
		lhsIdx := map[*ast.IndexExpr]bool{}
		inspectDeep(fb.Body, func(n ast.Node) bool {
			switch x := n.(type) {
			case *ast.SelectorExpr:
				if info.Uses[x.Sel] == types.Object(m.Mu) {
					touchesMu = true
				}
			case *ast.AssignStmt:
				for _, l := range x.Lhs {
					if ix, ok := ast.Unparen(l).(*ast.IndexExpr); ok && m.IsMap(info, ix.X) {
						lhsIdx[ix] = true
						if v := varOf(info, ix.Index); v != nil && isParamOf(info, fb, v) {
							writes = true
						}
					}
				}
			case *ast.IndexExpr:
				if m.IsMap(info, x.X) && !lhsIdx[x] {
					if v := varOf(info, x.Index); v != nil && isParamOf(info, fb, v) {
						reads = true
					}
				}
			}
			return true
		})
		if touchesMu {
			continue
		}
		if reads {
			m.Lookup[fb.Obj] = true
		}
		if writes {
			m.Store[fb.Obj] = true
		}
	}
	return m
}

// IsMap: e denotes the memo map (c.dynamicCache, c.dynamic.results, d.results).
func (m *MemoModel) IsMap(info *types.Info, e ast.Expr) bool {
	sel, ok := ast.Unparen(e).(*ast.SelectorExpr)
	return ok && m.Map != nil && info.Uses[sel.Sel] == types.Object(m.Map)
}

// IsMu: e denotes the mutex of the memo.
func (m *MemoModel) IsMu(info *types.Info, e ast.Expr) bool {
	sel, ok := ast.Unparen(e).(*ast.SelectorExpr)
	return ok && m.Mu != nil && info.Uses[sel.Sel] == types.Object(m.Mu)
}

// accessor: "lookup" / "store" when call invokes an accessor method of the memo.
func (m *MemoModel) accessor(info *types.Info, call *ast.CallExpr) string {
	fn, ok := callee(info, call).(*types.Func)
	if !ok {
		return ""
	}
	switch {
	case m.Store[fn]:
		return "store"
	case m.Lookup[fn]:
		return "lookup"
	}
	return ""
}
