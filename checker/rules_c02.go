package main

import (
	"fmt"
	"go/ast"
	"go/token"
	"go/types"
	"sort"
	"strings"
)

func init() { register("C02", checkC02) }

func checkC02(c *Check, a *Anchors) {
	c.NotDecided = []string{
		"what the callee's templates render from the passed variables (C10)",
		"process-level ordering inside one shell command",
	}
	c02CmdsInOrder(c, a)
	c02CallSynchronous(c, a)
	c02ExpansionOrder(c, a)
	callVarsPassed(c, a, "call-vars-passed")
	extraThreaded(c, a)
	freshElements(c, a, "cmd-elements-fresh")
	sharedWait(c, a)    // a task call that joins a shared execution returns only when that execution has finished
	c10WriteOrder(c, a) // call variables are applied above every Taskfile / include level, below the callee's own vars
	cmdTemplatedWhole(c, a)
	extrasWin(c, a)
	c01DepsJoined(c, a) // a task call returns only after the callee's dependencies have all finished: the dependency runner joins every goroutine it started
	orderedRebuildSinglePass(c, a, "ordered-rebuild-single-pass")
	c02DeferredInsideExecution(c, a)
	c02CommandRunSynchronous(c, a)
	elementLiteralCarriesFields(c, a, "element-literal-carries-fields")
	c02NoCommandForCallVars(c, a)
}

// c02CommandRunSynchronous: a cmds entry has "completely finished" when execext.RunCommand returns — which therefore must not
// return before the interpreter run of the user command has returned.
func c02CommandRunSynchronous(c *Check, a *Anchors) {
	c.Rule("command-run-synchronous", "execext.RunCommand calls the shell interpreter's Run in its own body (never from a goroutine or a function literal) and every return that follows the call yields that call's result: RunCommand cannot return (on cancellation, say) while the command is still running, so the next entry, the deferred commands and the caller start only after the process has ended")
	var rc *FuncBody
	if fn, ok := a.RunCommandObj.(*types.Func); ok {
		rc = c.P.DeclOf(fn)
	}
	if rc == nil {
		c.Errorf("command-run-synchronous: execext.RunCommand not found")
		return
	}
	c.Fn(rc)
	isRun := func(obj types.Object) bool {
		return isFunc(obj, "mvdan.cc/sh/v3/interp", "Runner", "Run")
	}
	own, inLit := 0, 0
	helpers := map[types.Object]*FuncBody{} // declared functions of the package, other than RunCommand, that run the interpreter in their own body (parseAndRun)
	for _, fb := range c.P.BodiesIn(rc.Pkg.PkgPath) {
		for _, call := range callsIn(fb, false) {
			if !isRun(callee(fb.Info(), call)) {
				continue
			}
			if fb.Lit != nil {
				inLit++
				c.Bad("command-run-synchronous", "interpreter-run@"+fnDisplay(fb), call.Pos(), "the shell interpreter is run from a function literal (goroutine / callback): the function that started the command can return while the command is still running")
			} else if fb == rc {
				own++
			} else if fb.Obj != nil {
				helpers[fb.Obj] = fb
			}
		}
	}
	label := func(call *ast.CallExpr, obj types.Object) string {
		if isRun(obj) || (obj != nil && helpers[obj] != nil) {
			return "interp-run"
		}
		return ""
	}
	n := 0
	for _, h := range sortedBodies(helpers) {
		// the helper is held to the same rule, and a call to it in RunCommand counts as the run
		c.Fn(h)
		n += resultFollows(c, a, h, "interp-run", "command-run-synchronous", label)
	}
	for _, call := range callsIn(rc, false) {
		if obj := callee(rc.Info(), call); obj != nil && helpers[obj] != nil {
			own++
		}
	}
	n += resultFollows(c, a, rc, "interp-run", "command-run-synchronous", label)
	c.Floor("command-run-synchronous", own+inLit, 1)
	c.Floor("command-run-synchronous", n, 1)
}

// c02DeferredInsideExecution: the deferred commands of a task are part of the execution that the dedup function publishes:
// every invocation of the deferred-command runner lies in the task body (the closure handed to the dedup function, or its
// tail), so a caller that joined the execution is released only after they ran.
func c02DeferredInsideExecution(c *Check, a *Anchors) {
	c.Rule("deferred-inside-execution", "every invocation of the deferred-command runner lies inside the task body handed to the dedup function (never in RunTask around it, nor elsewhere): the execution is published as finished only after its deferred commands ran, so a task call that joined it does not return earlier")
	n := 0
	for _, fb := range c.P.BodiesIn(PkgTask) {
		if fb.Decl == nil {
			continue
		}
		inspectDeep(fb.Body, func(nd ast.Node) bool {
			call, ok := nd.(*ast.CallExpr)
			if !ok || !a.is(callee(fb.Info(), call), a.DeferRunner) {
				return true
			}
			n++
			inside := false
			for _, part := range a.bodyParts() {
				if within(call, part.Body) {
					inside = true
				}
			}
			c.Decide(inside, "deferred-inside-execution", "runs-deferred@"+fnDisplay(fb), call.Pos(), "inside the task body",
				"the deferred-command runner is invoked outside the closure whose return publishes the execution as finished: a caller that joined the execution (run: once / when_changed) continues while the callee's deferred commands are still running")
			return true
		})
	}
	c.Floor("deferred-inside-execution", n, 1)
}

// cmdsLoop finds the loop over t.Cmds in the body closure whose body reaches the command runner.
func cmdsLoop(a *Anchors) (ast.Stmt, *ast.BlockStmt) {
	body := a.LoopFn
	info := body.Info()
	var loop ast.Stmt
	var lb *ast.BlockStmt
	inspectBody(body.Body, func(n ast.Node) bool {
		var b *ast.BlockStmt
		switch x := n.(type) {
		case *ast.RangeStmt:
			b = x.Body
		case *ast.ForStmt:
			b = x.Body
		default:
			return true
		}
		reaches := false
		inspectBody(b, func(m ast.Node) bool {
			if call, ok := m.(*ast.CallExpr); ok && a.IsCmdEvent(callee(info, call)) {
				reaches = true
			}
			return true
		})
		if reaches && loop == nil {
			loop, lb = n.(ast.Stmt), b
		}
		return true
	})
	return loop, lb
}

func c02CmdsInOrder(c *Check, a *Anchors) {
	c.Rule("cmds-in-order", "the cmds loop iterates the []*ast.Cmd slice in ascending order and calls the command runner synchronously in its own goroutine; in the run phase goroutines are spawned only by Run (--parallel), the dependency runner and the watch family")
	body := a.LoopFn
	info := body.Info()
	c.Fn(body)
	loop, lb := cmdsLoop(a)
	name := fnDisplay(a.BodyClosure)
	if loop == nil {
		c.Bad("cmds-in-order", "cmds-loop@"+name, body.Body.Pos(), "no loop in the task body calls the command runner synchronously (the call is missing or was moved into a goroutine/closure)")
		return
	}
	asc, how := false, ""
	switch l := loop.(type) {
	case *ast.RangeStmt:
		tv := info.Types[l.X]
		switch {
		case sliceOfPtrTo(tv.Type, PkgAst, "Cmd"):
			asc, how = true, "range over the []*ast.Cmd slice (ascending by language semantics)"
		case tv.Type != nil && isIntType(tv.Type):
			asc, how = true, "range over an integer (ascending)"
		default:
			how = "the cmds loop ranges over " + types.TypeString(tv.Type, shortQual) + ", which does not guarantee declaration order"
		}
	case *ast.ForStmt:
		if inc, ok := l.Post.(*ast.IncDecStmt); ok && inc.Tok == token.INC {
			asc, how = true, "index loop with i++"
		} else {
			how = "index loop that does not count upwards"
		}
	}
	c.Decide(asc, "cmds-in-order", "cmds-loop@"+name, loop.Pos(), how, how)
	// no spawn inside the loop body (own body or literals)
	spawned := false
	inspectDeep(lb, func(n ast.Node) bool {
		switch x := n.(type) {
		case *ast.GoStmt:
			spawned = true
		case *ast.CallExpr:
			if isFunc(callee(info, x), "golang.org/x/sync/errgroup", "Group", "Go") {
				spawned = true
			}
		}
		return true
	})
	c.Decide(!spawned, "cmds-in-order", "no-spawn-in-cmds-loop@"+name, lb.Pos(), "no go statement / errgroup.Go inside the cmds loop", "a goroutine is spawned inside the cmds loop: commands of one task can overlap")
	// the loop index handed to the command runner is the loop variable
	if r, ok := loop.(*ast.RangeStmt); ok && r.Key != nil {
		kv := varOf(info, r.Key)
		okIdx := true
		inspectBody(lb, func(n ast.Node) bool {
			if call, ok := n.(*ast.CallExpr); ok && a.IsCmdEvent(callee(info, call)) {
				uses := false
				for _, arg := range call.Args {
					if kv != nil && mentions(info, arg, kv) {
						uses = true
					}
				}
				if r.Value != nil {
					if vv := varOf(info, r.Value); vv != nil {
						for _, arg := range call.Args {
							if mentions(info, arg, vv) {
								uses = true
							}
						}
					}
				}
				okIdx = okIdx && uses
			}
			return true
		})
		c.Decide(okIdx, "cmds-in-order", "loop-var-to-runner@"+name, loop.Pos(), "every command-runner call in the loop receives the loop variable", "a command-runner call in the cmds loop does not use the loop variable: the executed entry is not the one the loop is at")
	}
	// who-may-spawn in the run phase
	reach := c.P.ReachableFrom([]*FuncBody{a.RunTask}, nil)
	n := 0
	for fb := range reach {
		if !strings.HasPrefix(fb.Pkg.PkgPath, Mod) || fb.Decl == nil {
			continue
		}
		for _, s := range spawnSites(fb) {
			n++
			allowed := fb == a.DepRunner
			reason := "spawn site of the dependency runner (deps are documented to run in parallel)"
			if fb.Pkg.PkgPath == PkgExecext || fb.Pkg.PkgPath == Mod+"/internal/fsnotifyext" {
				allowed, reason = true, "process plumbing outside package task"
			}
			c.Decide(allowed, "cmds-in-order", "spawn@"+fnDisplay(fb), s.Pos(), reason,
				"goroutine spawn site reachable from RunTask outside the dependency runner: a task's own work may run concurrently with its commands")
		}
	}
	c.Sites += n
}

func isIntType(t types.Type) bool {
	b, ok := t.Underlying().(*types.Basic)
	return ok && b.Info()&types.IsInteger != 0
}

// resultFollows checks that every return of fb that follows a call labelled L yields L's outcome.
func resultFollows(c *Check, a *Anchors, fb *FuncBody, label, rule string, extraLabel Labeler) int {
	info := fb.Info()
	base := a.labelRun(info)
	f := NewFlow(c.P, fb, func(call *ast.CallExpr, obj types.Object) string {
		if extraLabel != nil {
			if l := extraLabel(call, obj); l != "" {
				return l
			}
		}
		return base(call, obj)
	})
	f.Run()
	n := 0
	for i, r := range f.Returns {
		st := f.At[r]
		res := errResult(r)
		if res != nil {
			res = unwrapPassThrough(c.P, info, res) // `return x.finish(execute(ctx))` yields execute's outcome when finish hands its argument back
		}
		direct := false
		if call, ok := ast.Unparen(res).(*ast.CallExpr); res != nil && ok && f.Labels[call] == label {
			direct = true
		}
		if !direct && !st.Has("called:"+label) {
			continue
		}
		if !direct && st.Has("nil:"+label) && res != nil && !isNilLit(info, res) {
			continue // the call succeeded; this return reports something that happened later
		}
		n++
		key := fmt.Sprintf("%s-result-return#%d@%s", label, i+1, fnDisplay(fb))
		ok, how := false, ""
		switch {
		case direct:
			ok, how = true, "returns the call's result directly"
		case res == nil:
		case isNilLit(info, res):
			ok, how = st.Has("nil:"+label), "returns nil only on the nil edge of the call's error"
		default:
			if v := varOf(info, res); v != nil && st.Has(defPrefix(v)+label) {
				ok, how = true, "returns the variable holding the call's result"
			} else if st.Has("nonnil:" + label) {
				ok, how = true, "returns a non-nil error on the call's error edge"
			} else {
				// `x.finish(execute(ctx)); return x.err`: a setter method stored the call's result in the field returned here
				inspectBody(fb.Body, func(n ast.Node) bool {
					if es, isEs := n.(*ast.ExprStmt); isEs {
						if call, isCall := ast.Unparen(es.X).(*ast.CallExpr); isCall {
							if arg, recv, fld := setterStoresArg(c.P, info, call); arg != nil {
								if inner, isInner := ast.Unparen(arg).(*ast.CallExpr); isInner && f.Labels[inner] == label {
									if sel, isSel := ast.Unparen(res).(*ast.SelectorExpr); isSel && info.Uses[sel.Sel] == types.Object(fld) && exprStr(sel.X) == exprStr(recv) {
										ok, how = true, "returns the field a setter method stored the call's result in"
									}
								}
							}
						}
					}
					return true
				})
				// an expression built from a variable assigned from the call
				inspectBody(fb.Body, func(n ast.Node) bool {
					if as, isAs := n.(*ast.AssignStmt); isAs && len(as.Rhs) == 1 {
						if call, isCall := ast.Unparen(as.Rhs[0]).(*ast.CallExpr); isCall && f.Labels[call] == label {
							for _, l := range as.Lhs {
								if rv := rootVar(info, l); rv != nil && mentionsVia(info, fb.Body, res, rv, 2) {
									ok, how = true, "returns a value stored from the call's result"
								}
							}
						}
					}
					return true
				})
			}
		}
		c.Decide(ok, rule, key, r.Pos(), how, fmt.Sprintf("after the %s call this return yields %s, which is not that call's outcome: the caller continues (or reports success) although the callee failed or before its result is known; must-facts: %s", label, exprStrOrNone(res), st))
	}
	return n
}

func exprStrOrNone(e ast.Expr) string {
	if e == nil {
		return "<nothing>"
	}
	return exprStr(e)
}

func c02CallSynchronous(c *Check, a *Anchors) {
	c.Rule("call-synchronous", "a task-call command returns the nested RunTask result; RunTask returns the dedup function's result; the dedup function returns the execute callback's result on the executing paths (so a task: entry returns only after the callee, its deps and its deferred commands are done and its failure is seen)")
	c.Fn(a.CmdRunner)
	n := resultFollows(c, a, a.CmdRunner, "runtask", "call-synchronous", nil)
	c.Floor("call-synchronous", n, 1)
	c.Fn(a.RunTask)
	n = resultFollows(c, a, a.RunTask, "dedup", "call-synchronous", nil)
	c.Floor("call-synchronous", n, 1)
	// dedup -> execute
	fb := a.Dedup
	c.Fn(fb)
	info := fb.Info()
	var execParam *types.Var
	for _, fld := range fb.Type.Params.List {
		for _, id := range fld.Names {
			if v, ok := info.Defs[id].(*types.Var); ok {
				if _, isSig := v.Type().Underlying().(*types.Signature); isSig {
					execParam = v
				}
			}
		}
	}
	n = resultFollows(c, a, fb, "execute", "call-synchronous", func(call *ast.CallExpr, obj types.Object) string {
		if v := varOf(info, call.Fun); v != nil && v == execParam {
			return "execute"
		}
		return ""
	})
	c.Floor("call-synchronous", n, 2)
	// nested RunTask in the command runner is not spawned
	for _, s := range spawnSites(a.CmdRunner) {
		c.Bad("call-synchronous", "spawn@"+fnDisplay(a.CmdRunner), s.Pos(), "the command runner starts a goroutine: a task call or command would no longer be synchronous")
	}
}

func c02ExpansionOrder(c *Check, a *Anchors) {
	c.Rule("expansion-order", "the compiled Cmds/Deps grow only by append inside loops that range over the original slice and over the for-item list; nothing sorts or reverses them; the matrix product iterates the ordered matrix in its outer loop, the accumulated combinations outside the row values (row-major), with append only")
	fb := a.CompiledTask
	c.Fn(fb)
	info := fb.Info()
	name := fnDisplay(fb)
	pm := parentMap(fb.Body)
	n := 0
	inspectBody(fb.Body, func(nd ast.Node) bool {
		as, ok := nd.(*ast.AssignStmt)
		if !ok || len(as.Lhs) != 1 || len(as.Rhs) != 1 {
			return true
		}
		for _, field := range []string{"Cmds", "Deps"} {
			if !fieldSel(info, as.Lhs[0], PkgAst, "Task", field) {
				continue
			}
			n++
			key := ordinalKey(c, "assign "+field+"@"+name)
			call, isCall := ast.Unparen(as.Rhs[0]).(*ast.CallExpr)
			switch {
			case isCall && isBuiltin(info, call, "make"):
				c.OK("expansion-order", key, as.Pos(), "initialised with make")
			case isCall && isBuiltin(info, call, "append") && len(call.Args) == 2 && call.Ellipsis == token.NoPos && fieldSel(info, call.Args[0], PkgAst, "Task", field):
				// enclosing loops must be range loops over ordered slices
				okLoops, why := true, ""
				hasOrigLoop := false
				for p := pm[as]; p != nil; p = pm[p] {
					switch l := p.(type) {
					case *ast.RangeStmt:
						tv := info.Types[l.X]
						if tv.Type == nil {
							continue
						}
						if _, isMap := tv.Type.Underlying().(*types.Map); isMap {
							okLoops, why = false, "append happens inside a range over a Go map (unspecified order)"
						}
						if sliceOfPtrTo(tv.Type, PkgAst, "Cmd") || sliceOfPtrTo(tv.Type, PkgAst, "Dep") {
							hasOrigLoop = true
						}
					case *ast.ForStmt:
						if inc, ok := l.Post.(*ast.IncDecStmt); !ok || inc.Tok != token.INC {
							okLoops, why = false, "append happens inside an index loop that does not count upwards"
						}
					}
				}
				if okLoops && !hasOrigLoop {
					okLoops, why = false, "append is not inside a range over the task's original slice"
				}
				c.Decide(okLoops, "expansion-order", key, as.Pos(), "append of one element inside ascending range loops over the original slice / item list", why)
			default:
				c.Bad("expansion-order", key, as.Pos(), "the compiled "+field+" slice is assigned by something other than make/append(self, one element): order or membership of the entries is no longer the declaration order")
			}
		}
		return true
	})
	c.Floor("expansion-order", n, 6)
	// no sort / reverse on these slices anywhere in the run phase packages
	for _, b := range c.P.Bodies() {
		if b.Pkg.PkgPath != PkgTask && b.Pkg.PkgPath != PkgAst {
			continue
		}
		binfo := b.Info()
		inspectBody(b.Body, func(nd ast.Node) bool {
			call, ok := nd.(*ast.CallExpr)
			if !ok {
				return true
			}
			fn, ok := callee(binfo, call).(*types.Func)
			if !ok || fn.Pkg() == nil || (fn.Pkg().Path() != "slices" && fn.Pkg().Path() != "sort") {
				return true
			}
			if !(strings.HasPrefix(fn.Name(), "Sort") || fn.Name() == "Reverse" || fn.Name() == "Slice" || fn.Name() == "SliceStable" || fn.Name() == "Stable") {
				return true
			}
			for _, arg := range call.Args {
				if tv, ok := binfo.Types[arg]; ok && (sliceOfPtrTo(tv.Type, PkgAst, "Cmd") || sliceOfPtrTo(tv.Type, PkgAst, "Dep")) {
					c.Bad("expansion-order", "reorder@"+fnDisplay(b), call.Pos(), fn.Pkg().Name()+"."+fn.Name()+" reorders a []*ast.Cmd / []*ast.Dep: commands no longer run in declaration order")
				}
			}
			return true
		})
	}
	// the matrix product
	var prod *FuncBody
	for _, b := range append(c.P.BodiesIn(PkgTask), c.P.BodiesIn(PkgAst)...) { // a function of package task, or a method of the matrix itself
		if b.Decl == nil || b.Type.Results == nil || len(b.Type.Results.List) != 1 {
			continue
		}
		if tv, ok := b.Info().Types[b.Type.Results.List[0].Type]; ok {
			if s, ok := tv.Type.Underlying().(*types.Slice); ok {
				if _, isMap := s.Elem().Underlying().(*types.Map); isMap {
					for _, call := range callsIn(b, false) {
						if isFunc(callee(b.Info(), call), PkgAst, "Matrix", "All") {
							prod = b
						}
					}
				}
			}
		}
	}
	if prod == nil {
		c.Errorf("expansion-order: matrix product function (returns []map and ranges over Matrix.All) not found")
		return
	}
	c.Fn(prod)
	pinfo := prod.Info()
	// outer loop over Matrix.All(), inside: loop over accumulated result ⊃ loop over row values
	var outer *ast.RangeStmt
	inspectBody(prod.Body, func(nd ast.Node) bool {
		if r, ok := nd.(*ast.RangeStmt); ok && outer == nil {
			if call, ok := ast.Unparen(r.X).(*ast.CallExpr); ok && isFunc(callee(pinfo, call), PkgAst, "Matrix", "All") {
				outer = r
			}
		}
		return true
	})
	if outer == nil {
		c.Bad("expansion-order", "product-outer@"+fnDisplay(prod), prod.Body.Pos(), "the matrix product does not iterate Matrix.All() (the ordered map) in its outer loop")
		return
	}
	var mid, inner *ast.RangeStmt
	inspectBody(outer.Body, func(nd ast.Node) bool {
		if r, ok := nd.(*ast.RangeStmt); ok {
			if mid == nil {
				mid = r
			} else if inner == nil && within(r, mid.Body) {
				inner = r
			}
		}
		return true
	})
	rowMajor := false
	why := "the product does not have the shape `for key,row in matrix { for comb in result { for item in row.Value { append } } }`"
	if mid != nil && inner != nil {
		midT, innerT := pinfo.Types[mid.X].Type, pinfo.Types[inner.X].Type
		_, midIsCombos := sliceElemMap(midT)
		innerIsRow := fieldSel(pinfo, inner.X, PkgAst, "MatrixRow", "Value")
		rowMajor = midIsCombos && innerIsRow
		if !rowMajor {
			why = fmt.Sprintf("loop nesting is %s outside %s: combinations are not generated in row-major order (earlier keys must vary slowest)", types.TypeString(midT, shortQual), types.TypeString(innerT, shortQual))
		}
	}
	c.Decide(rowMajor, "expansion-order", "product-row-major@"+fnDisplay(prod), outer.Pos(), "outer: ordered matrix; middle: accumulated combinations; inner: the key's values; append only", why)
}

func sliceElemMap(t types.Type) (types.Type, bool) {
	if t == nil {
		return nil, false
	}
	s, ok := t.Underlying().(*types.Slice)
	if !ok {
		return nil, false
	}
	_, isMap := s.Elem().Underlying().(*types.Map)
	return s.Elem(), isMap
}

func ordinalKey(c *Check, base string) string {
	k := base
	for i := 2; c.seen["expansion-order/"+k] || c.seen["fx/"+k]; i++ {
		k = fmt.Sprintf("%s#%d", base, i)
	}
	return k
}

// callVarsPassed: every task.Call built from an ast.Cmd / ast.Dep forwards Task, Vars, Silent and is marked Indirect.
func callVarsPassed(c *Check, a *Anchors, rule string) {
	c.Rule(rule, "every task.Call literal built from an ast.Cmd / ast.Dep value x sets Task: x.Task, Vars: x.Vars, Silent: x.Silent and (in the run phase) Indirect: true — sibling agreement between the dependency runner, the command runner and the watch registration")
	n := 0
	ord := map[string]int{}
	for _, fb := range c.P.BodiesIn(PkgTask) {
		info := fb.Info()
		inspectBody(fb.Body, func(nd ast.Node) bool {
			cl, ok := nd.(*ast.CompositeLit)
			if !ok {
				return true
			}
			tv, ok := info.Types[cl]
			if !ok || !isNamed(tv.Type, PkgTask, "Call") {
				return true
			}
			fields := map[string]ast.Expr{}
			for _, e := range cl.Elts {
				if kv, ok := e.(*ast.KeyValueExpr); ok {
					if id, ok := kv.Key.(*ast.Ident); ok {
						fields[id.Name] = kv.Value
					}
				}
			}
			src, srcT := ast.Expr(nil), ""
			if sel, ok := ast.Unparen(fields["Task"]).(*ast.SelectorExpr); fields["Task"] != nil && ok {
				for _, t := range []string{"Cmd", "Dep"} {
					if fieldSel(info, sel, PkgAst, t, "Task") {
						src, srcT = sel.X, t
					}
				}
			}
			if src == nil {
				return true
			}
			n++
			c.Fn(fb.Root())
			root := rootVar(info, src)
			var missing []string
			runPhase := fb.Root() == a.DepRunner || fb.Root() == a.CmdRunner
			need := []string{"Vars"}
			if runPhase {
				need = append(need, "Silent") // outside the run phase (watch registration) nothing is printed for the call
			}
			for _, f := range need {
				v := fields[f]
				if v == nil || !fieldSel(info, v, PkgAst, srcT, f) || rootVar(info, v) != root {
					missing = append(missing, f+": "+exprStr(src)+"."+f)
				}
			}
			if runPhase {
				if v := fields["Indirect"]; v == nil || exprStr(v) != "true" {
					missing = append(missing, "Indirect: true")
				}
			}
			key := ordinal(ord, "Call{from ast."+srcT+"}@"+fnDisplay(fb.Root()))
			c.Decide(len(missing) == 0, rule, key, cl.Pos(), "Task, Vars, Silent forwarded from the same "+srcT+" value", "the Call built from an ast."+srcT+" does not set "+strings.Join(missing, ", ")+": the callee does not see the variables/flags of the call")
			return true
		})
	}
	c.Floor(rule, n, 2)
}

// extraThreaded: templating helpers that receive loop extras must thread them into every nested templating call.
func extraThreaded(c *Check, a *Anchors) {
	c.Rule("extra-threaded", "in package templater, a function that receives the loop `extra` map passes it to every templating helper it calls that has a ...WithExtra form (otherwise ITEM/KEY are invisible in part of a for-expanded entry); in the task compiler, inside a for-expansion loop every templating call on the entry uses the ...WithExtra form with the loop's extra map")
	pk := c.P.Pkgs[PkgTemplater]
	hasExtraForm := map[string]bool{}
	for _, fb := range c.P.BodiesIn(PkgTemplater) {
		if fb.Decl != nil && strings.HasSuffix(fb.Decl.Name.Name, "WithExtra") {
			hasExtraForm[strings.TrimSuffix(fb.Decl.Name.Name, "WithExtra")] = true
		}
	}
	_ = pk
	n := 0
	for _, fb := range c.P.BodiesIn(PkgTemplater) {
		if fb.Decl == nil {
			continue
		}
		info := fb.Info()
		var extra *types.Var
		for _, fld := range fb.Type.Params.List {
			for _, id := range fld.Names {
				if v, ok := info.Defs[id].(*types.Var); ok && id.Name == "extra" {
					if _, isMap := v.Type().Underlying().(*types.Map); isMap {
						extra = v
					}
				}
			}
		}
		if extra == nil {
			continue
		}
		c.Fn(fb)
		ord := map[string]int{}
		inspectDeep(fb.Body, func(nd ast.Node) bool {
			call, ok := nd.(*ast.CallExpr)
			if !ok {
				return true
			}
			fn, ok := callee(info, call).(*types.Func)
			if !ok || fn.Pkg() == nil || fn.Pkg().Path() != PkgTemplater {
				return true
			}
			base := strings.TrimSuffix(fn.Name(), "WithExtra")
			// every helper that renders against the cache (takes a *Cache) must receive the extras, whether or not a
			// ...WithExtra form of it exists: a helper without such a form drops them by construction
			takesCache := false
			if sig, ok := fn.Type().(*types.Signature); ok {
				for i := 0; i < sig.Params().Len(); i++ {
					if nt := namedOf(sig.Params().At(i).Type()); nt != nil && nt.Obj().Name() == "Cache" && nt.Obj().Pkg() != nil && nt.Obj().Pkg().Path() == PkgTemplater {
						takesCache = true
					}
				}
			}
			if !hasExtraForm[base] && !takesCache {
				return true
			}
			n++
			passes := false
			for _, arg := range call.Args {
				if varOf(info, arg) == extra {
					passes = true
				}
			}
			key := ordinal(ord, fn.Name()+"@"+fnDisplay(fb))
			c.Decide(passes && strings.HasSuffix(fn.Name(), "WithExtra"), "extra-threaded", key, call.Pos(), "passes extra through",
				"call to templater."+fn.Name()+" inside a function that received the loop extras does not pass them on: loop variables (ITEM, KEY, the `as` name) are not visible in this part of the entry")
			return true
		})
	}
	// compiler side: in for-expansion loops (loops that build an `extra` map) templating calls use WithExtra(extra)
	fb := a.CompiledTask
	info := fb.Info()
	ord := map[string]int{}
	inspectBody(fb.Body, func(nd ast.Node) bool {
		r, ok := nd.(*ast.RangeStmt)
		if !ok {
			return true
		}
		var extra *types.Var
		for _, s := range r.Body.List {
			if as, ok := s.(*ast.AssignStmt); ok && len(as.Lhs) == 1 && len(as.Rhs) == 1 && as.Tok == token.DEFINE {
				// the per-iteration extras: a map[string]… defined in the loop body by a literal or by a helper that builds it
				rhs := ast.Unparen(as.Rhs[0])
				_, isLit := rhs.(*ast.CompositeLit)
				_, isCall := rhs.(*ast.CallExpr)
				if tv, ok := info.Types[rhs]; ok && (isLit || isCall) {
					if m, isMap := tv.Type.Underlying().(*types.Map); isMap && types.TypeString(m.Key(), nil) == "string" {
						extra = varOf(info, as.Lhs[0])
					}
				}
			}
		}
		if extra == nil {
			// ... or yielded by an iterator: `for extra := range forLoopExtras(...)`
			for _, e := range []ast.Expr{r.Key, r.Value} {
				if e == nil {
					continue
				}
				if v := varOf(info, e); v != nil {
					if m, isMap := v.Type().Underlying().(*types.Map); isMap && types.TypeString(m.Key(), nil) == "string" {
						if _, isCall := ast.Unparen(r.X).(*ast.CallExpr); isCall {
							extra = v
						}
					}
				}
			}
		}
		if extra == nil {
			return true
		}
		inspectBody(r.Body, func(m ast.Node) bool {
			call, ok := m.(*ast.CallExpr)
			if !ok {
				return true
			}
			fn, ok := callee(info, call).(*types.Func)
			if !ok || fn.Pkg() == nil || fn.Pkg().Path() != PkgTemplater {
				return true
			}
			base := strings.TrimSuffix(fn.Name(), "WithExtra")
			// every helper that renders against the cache (takes a *Cache) must receive the extras, whether or not a
			// ...WithExtra form of it exists: a helper without such a form drops them by construction
			takesCache := false
			if sig, ok := fn.Type().(*types.Signature); ok {
				for i := 0; i < sig.Params().Len(); i++ {
					if nt := namedOf(sig.Params().At(i).Type()); nt != nil && nt.Obj().Name() == "Cache" && nt.Obj().Pkg() != nil && nt.Obj().Pkg().Path() == PkgTemplater {
						takesCache = true
					}
				}
			}
			if !hasExtraForm[base] && !takesCache {
				return true
			}
			n++
			passes := false
			for _, arg := range call.Args {
				if varOf(info, arg) == extra {
					passes = true
				}
			}
			key := ordinal(ord, fn.Name()+"@for-expansion@"+fnDisplay(fb))
			c.Decide(passes, "extra-threaded", key, call.Pos(), "for-expansion templating call receives the loop's extra map",
				"templating call inside a for-expansion loop does not receive the loop's extra map: the loop item is not substituted in this field")
			return true
		})
		return true
	})
	c.Floor("extra-threaded", n, 7)
}

// c02NoCommandForCallVars: the dynamic variables of a task-call entry belong to the called task's compilation, which happens
// when the entry is reached — not to the caller's, which happens before its first command.
func c02NoCommandForCallVars(c *Check, a *Anchors) {
	c.Rule("call-vars-evaluated-by-callee", "the function that runs the shell command of a dynamic variable (Compiler.HandleDynamicVar) is called only by the variable resolver's range function and, in the task compiler, for the task's own env (a variable ranged from Task.Env): a caller that evaluates the `sh:` variables of its task-call entries or dependencies while it is being compiled runs those commands before its dependencies and before the entries that precede the call")
	hd := c.P.Func(PkgTask, "Compiler", "HandleDynamicVar")
	if hd == nil {
		c.Errorf("call-vars-evaluated-by-callee: Compiler.HandleDynamicVar not found")
		return
	}
	resolverGroup := map[*FuncBody]bool{}
	if a.GetVariables != nil {
		for _, g := range c.P.groupOf(a.GetVariables, 2) {
			resolverGroup[g] = true
		}
		// methods of a resolver object constructed in the resolver (see vars-write-order)
		inspectBody(a.GetVariables.Body, func(nd ast.Node) bool {
			if cl, ok := nd.(*ast.CompositeLit); ok {
				if tv, ok := a.GetVariables.Info().Types[cl]; ok {
					if named := namedOf(tv.Type); named != nil && named.Obj().Pkg() != nil && named.Obj().Pkg().Path() == PkgTask {
						for _, m := range c.P.BodiesIn(PkgTask) {
							if m.Decl != nil && m.Decl.Recv != nil && recvOf(m) == named.Obj().Name() {
								resolverGroup[m] = true
							}
						}
					}
				}
			}
			return true
		})
	}
	n := 0
	ord := map[string]int{}
	for _, fb := range c.P.Bodies() {
		if !strings.HasPrefix(fb.Pkg.PkgPath, Mod) || bceSkipPkgs[fb.Pkg.PkgPath] {
			continue
		}
		info := fb.Info()
		pm := map[ast.Node]ast.Node(nil)
		for _, call := range callsIn(fb, false) {
			if !a.is(callee(info, call), hd) {
				continue
			}
			n++
			c.Fn(fb.Root())
			okSite, why := false, ""
			switch {
			case resolverGroup[fb.Root()]:
				okSite, why = true, "the variable resolver"
			default:
				// inside a loop over Task.Env of the task being compiled
				if pm == nil {
					pm = parentMap(fb.Body)
				}
				for p := pm[call]; p != nil; p = pm[p] {
					if r, ok := p.(*ast.RangeStmt); ok {
						ast.Inspect(r.X, func(m ast.Node) bool {
							if sel, ok := m.(*ast.SelectorExpr); ok && fieldSel(info, sel, PkgAst, "Task", "Env") {
								okSite, why = true, "the task's own env"
							}
							return true
						})
					}
				}
			}
			c.Decide(okSite, "call-vars-evaluated-by-callee", ordinal(ord, "HandleDynamicVar@"+fnDisplay(fb.Root())), call.Pos(), "called for "+why,
				"a shell command of a dynamic variable is run from "+fnDisplay(fb.Root())+", outside the variable resolver and the task's own env: if these are the `sh:` variables of task-call entries or dependencies, they run while the CALLER is compiled — before its dependencies and before the commands that precede the call — and the callee sees a value from before those ran")
		}
	}
	c.Floor("call-vars-evaluated-by-callee", n, 2)
}

func sortedBodies(m map[types.Object]*FuncBody) []*FuncBody {
	var out []*FuncBody
	for _, fb := range m {
		out = append(out, fb)
	}
	sort.Slice(out, func(i, j int) bool { return out[i].Body.Pos() < out[j].Body.Pos() })
	return out
}
