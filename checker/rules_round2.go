package main

// Rules added after the second round of independently seeded changes.

import (
	"fmt"
	"go/ast"
	"go/token"
	"go/types"
	"sort"
	"strings"
)

// copierNeverAliases (C11): the reflect-based copier behind every templater.Replace* call never puts the ORIGINAL value
// of a reference kind (pointer, interface, slice, map) into the copy.
func copierNeverAliases(c *Check, a *Anchors) {
	c.Rule("copier-never-aliases", "in deepcopy.TraverseStringsFunc the cases for reference kinds (Ptr, Interface, Slice, Map) set the copy only to freshly made values (reflect.New / MakeSlice / MakeMap / a recursively built copy), never to the original value: templating must give every call its own variables, including empty maps and slices")
	fb := c.P.Func(PkgDeepcopy, "", "TraverseStringsFunc")
	if fb == nil {
		c.Errorf("copier-never-aliases: deepcopy.TraverseStringsFunc not found")
		return
	}
	c.Fn(fb)
	info := fb.Info()
	n := 0
	for _, lit := range allLits(fb) {
		if lit.Type.Params == nil || lit.Type.Params.NumFields() != 2 {
			continue
		}
		var orig *types.Var // second parameter: the original value
		ids := []*ast.Ident{}
		for _, fld := range lit.Type.Params.List {
			ids = append(ids, fld.Names...)
		}
		if len(ids) == 2 {
			orig, _ = info.Defs[ids[1]].(*types.Var)
		}
		if orig == nil {
			continue
		}
		inspectBody(lit.Body, func(nd ast.Node) bool {
			sw, ok := nd.(*ast.SwitchStmt)
			if !ok {
				return true
			}
			for _, cl := range sw.Body.List {
				cc := cl.(*ast.CaseClause)
				refKind := ""
				for _, e := range cc.List {
					s := exprStr(e)
					for _, k := range []string{"reflect.Ptr", "reflect.Pointer", "reflect.Interface", "reflect.Slice", "reflect.Map"} {
						if s == k {
							refKind = k
						}
					}
				}
				if refKind == "" {
					continue
				}
				n++
				alias := ""
				for _, st := range cc.Body {
					ast.Inspect(st, func(m ast.Node) bool {
						call, ok := m.(*ast.CallExpr)
						if !ok {
							return true
						}
						if sel, ok := ast.Unparen(call.Fun).(*ast.SelectorExpr); ok && (sel.Sel.Name == "Set" || sel.Sel.Name == "SetMapIndex") && len(call.Args) >= 1 {
							last := call.Args[len(call.Args)-1]
							if varOf(info, last) == orig {
								alias = exprStr(call)
							}
						}
						return true
					})
				}
				c.Decide(alias == "", "copier-never-aliases", "case "+refKind+"@"+fnDisplay(fb), cc.Pos(), "the copy is built from freshly made values",
					"in the "+refKind+" case the copier stores the ORIGINAL value (`"+alias+"`): the templated copy aliases the shared definition, so a template function that mutates it (or a later writer) changes what other tasks see")
			}
			return false
		})
	}
	c.Floor("copier-never-aliases", n, 4)
}

// resolvesThroughGetTask (C14 / C15): inside package task a task is looked up by name only through the resolver
// (FindMatchingTasks / GetTask: exact, wildcard, alias) — never by indexing the task table directly.
func resolvesThroughGetTask(c *Check, a *Anchors, rule string) {
	c.Rule(rule, "in package task the only direct lookup in the Taskfile's task table (Tasks.Get on Executor.Taskfile.Tasks) is the exact-match step of FindMatchingTasks; every other site resolves a call through GetTask, so aliases and wildcard names work everywhere a task can be referenced (deferred commands, watch, summary)")
	n := 0
	for _, fb := range c.P.BodiesIn(PkgTask) {
		info := fb.Info()
		for _, call := range callsIn(fb, false) {
			if !isFunc(callee(info, call), PkgAst, "Tasks", "Get") {
				continue
			}
			sel, ok := ast.Unparen(call.Fun).(*ast.SelectorExpr)
			if !ok || !fieldSel(info, sel.X, PkgAst, "Taskfile", "Tasks") {
				continue
			}
			n++
			c.Fn(fb.Root())
			c.Decide(fb.Root() == a.FindMatching, rule, "Tasks.Get@"+fnDisplay(fb.Root()), call.Pos(), "the exact-match step of the resolver",
				"the task table is indexed directly in "+fnDisplay(fb.Root())+" instead of resolving the call through GetTask: a task referenced through an alias or a wildcard name is not found here (e.g. its deferred commands silently do not run)")
		}
	}
	c.Floor(rule, n, 1)
}

// aliasScanUnfiltered (C15): the alias scan collects every task that lists the alias.
func aliasScanUnfiltered(c *Check, a *Anchors) {
	c.Rule("alias-scan-unfiltered", "the alias scan of GetTask collects a task exactly when slices.Contains(task.Aliases, name) holds — no additional filter (internal, description, namespace ...): ambiguity (203) and resolution must see every task that carries the alias")
	gt := a.GetTask
	n := 0
	for _, g := range c.P.groupOf(gt, 2) {
		info := g.Info()
		inspectBody(g.Body, func(nd ast.Node) bool {
			r, ok := nd.(*ast.RangeStmt)
			if !ok {
				return true
			}
			call, ok := ast.Unparen(r.X).(*ast.CallExpr)
			if !ok || !(isFunc(callee(info, call), PkgAst, "Tasks", "Values") || isFunc(callee(info, call), PkgAst, "Tasks", "All")) {
				return true
			}
			inspectBody(r.Body, func(m ast.Node) bool {
				ifs, ok := m.(*ast.IfStmt)
				if !ok {
					return true
				}
				usesAliases := false
				ast.Inspect(ifs.Cond, func(k ast.Node) bool {
					if sel, ok := k.(*ast.SelectorExpr); ok && fieldSel(info, sel, PkgAst, "Task", "Aliases") {
						usesAliases = true
					}
					return true
				})
				if !usesAliases {
					// a guard that skips tasks before the alias test
					if hasJump(ifs.Body) {
						n++
						c.Bad("alias-scan-unfiltered", "skip@"+fnDisplay(g), ifs.Pos(), "the alias scan skips tasks on `"+exprStr(ifs.Cond)+"` before testing their aliases")
					}
					return true
				}
				n++
				pure := false
				if cc, ok := ast.Unparen(ifs.Cond).(*ast.CallExpr); ok && isFunc(callee(info, cc), "slices", "", "Contains") && len(cc.Args) == 2 && fieldSel(info, cc.Args[0], PkgAst, "Task", "Aliases") {
					pure = true
				}
				c.Decide(pure, "alias-scan-unfiltered", "condition@"+fnDisplay(g), ifs.Pos(), "slices.Contains(task.Aliases, name) and nothing else",
					"the alias scan collects a task only when `"+exprStr(ifs.Cond)+"` holds: tasks carrying the alias but failing the extra condition are invisible to alias resolution and to the ambiguity check")
				return true
			})
			return true
		})
	}
	c.Floor("alias-scan-unfiltered", n, 1)
}

// lookupResultChecked (C16): the pointer result of a comma-ok lookup is dereferenced only where the lookup is known to have hit.
func lookupResultChecked(c *Check, a *Anchors) {
	c.Rule("lookup-result-checked", "for every call in the load/merge/run code to a module function that returns (pointer, bool) — the container lookups Tasks.Get, Includes.Get, Matrix.Get ... — a field of the returned pointer is dereferenced only on a path where the bool was tested true or the pointer tested non-nil")
	n := 0
	ord := map[string]int{}
	for _, fb := range c.P.Bodies() {
		if !strings.HasPrefix(fb.Pkg.PkgPath, Mod) || bceSkipPkgs[fb.Pkg.PkgPath] {
			continue
		}
		info := fb.Info()
		type lk struct {
			v     *types.Var
			label string
		}
		var lookups []lk
		labels := map[*ast.CallExpr]string{}
		inspectBody(fb.Body, func(nd ast.Node) bool {
			as, ok := nd.(*ast.AssignStmt)
			if !ok || len(as.Lhs) != 2 || len(as.Rhs) != 1 {
				return true
			}
			call, ok := ast.Unparen(as.Rhs[0]).(*ast.CallExpr)
			if !ok {
				return true
			}
			fn, ok := callee(info, call).(*types.Func)
			if !ok || fn.Pkg() == nil || !strings.HasPrefix(fn.Pkg().Path(), Mod) {
				return true
			}
			sig := fn.Type().(*types.Signature)
			if sig.Results().Len() != 2 || !isBool(sig.Results().At(1).Type()) {
				return true
			}
			if _, isPtr := sig.Results().At(0).Type().Underlying().(*types.Pointer); !isPtr {
				return true
			}
			v := varOf(info, as.Lhs[0])
			if v == nil || v.Name() == "_" {
				return true
			}
			if h := c.P.DeclOf(fn); h != nil && alwaysYieldsObject(h) {
				return true // (pointer, bool) but not a lookup: the bool says which of two existing objects is returned (claimExecution)
			}
			l := fmt.Sprintf("lookup#%d", len(lookups))
			labels[call] = l
			lookups = append(lookups, lk{v, l})
			return true
		})
		if len(lookups) == 0 {
			continue
		}
		f := NewFlow(c.P, fb, func(call *ast.CallExpr, obj types.Object) string { return labels[call] })
		f.NoInline = true
		f.Run()
		for node, st := range f.At {
			switch node.(type) {
			case *ast.CallExpr, *ast.AssignStmt, *ast.ReturnStmt, *ast.ExprStmt, *ast.IncDecStmt:
			default:
				continue
			}
			ast.Inspect(node, func(m ast.Node) bool {
				if _, isLit := m.(*ast.FuncLit); isLit {
					return false
				}
				sel, ok := m.(*ast.SelectorExpr)
				if !ok {
					return true
				}
				s := info.Selections[sel]
				if s == nil || s.Kind() != types.FieldVal {
					return true
				}
				for _, l := range lookups {
					if varOf(info, sel.X) != l.v || !st.Has(defPrefix(l.v)+l.label) {
						continue
					}
					n++
					c.Fn(fb.Root())
					okDeref := st.Has("true:"+l.label) || st.Has("nonnil:"+l.label)
					c.Decide(okDeref, "lookup-result-checked", ordinal(ord, exprStr(sel)+"@"+fnDisplay(fb.Root())), sel.Pos(), "dereferenced only after the lookup was established to have hit",
						"`"+exprStr(sel)+"` dereferences the pointer returned by a comma-ok lookup on a path where neither the bool was tested true nor the pointer tested non-nil: for a missing key Task panics with a nil pointer dereference")
				}
				return true
			})
		}
	}
	c.Floor("lookup-result-checked", n, 2)
}

// closerClosesEveryWriter (C17): whatever writers WrapWriter hands out, the CloseFunc flushes all of them.
func closerClosesEveryWriter(c *Check, a *Anchors) {
	c.Rule("closer-closes-every-writer", "in every Output.WrapWriter implementation, each distinct buffering writer returned for stdout / stderr (a value whose type has a close method) is closed by the returned CloseFunc: a writer that is handed out but never closed loses its last unterminated line")
	n := 0
	for _, fb := range c.P.BodiesIn(PkgOutput) {
		if fb.Decl == nil || fb.Decl.Name.Name != "WrapWriter" {
			continue
		}
		info := fb.Info()
		for _, r := range returnsOf(fb.Body) {
			if len(r.Results) != 3 {
				continue
			}
			closed := map[*types.Var]bool{}
			for _, cb := range closerBodies(c, fb) {
				binfo := cb.body.Info()
				inspectDeep(cb.body.Body, func(m ast.Node) bool {
					if call, ok := m.(*ast.CallExpr); ok {
						if sel, ok := ast.Unparen(call.Fun).(*ast.SelectorExpr); ok && strings.EqualFold(sel.Sel.Name, "close") {
							if v := varOf(binfo, sel.X); v != nil {
								closed[v] = true
							}
							// closer object: <receiver>.<field>.close() closes the variable the field was initialised from
							if fs, ok := ast.Unparen(sel.X).(*ast.SelectorExpr); ok {
								if v := cb.fields[fs.Sel.Name]; v != nil {
									closed[v] = true
								}
							}
							// the closer is a method of the writer itself: <receiver>.close() closes the object x of `x.m`
							if cb.recv != nil && cb.body.Decl != nil && cb.body.Decl.Recv != nil && len(cb.body.Decl.Recv.List[0].Names) > 0 {
								if rv := varOf(binfo, sel.X); rv != nil && binfo.Defs[cb.body.Decl.Recv.List[0].Names[0]] == rv {
									closed[cb.recv] = true
								}
							}
						}
					}
					return true
				})
			}
			for i, name := range []string{"stdout", "stderr"} {
				v := varOf(info, r.Results[i])
				if v == nil {
					continue
				}
				hasClose := false
				ms := types.NewMethodSet(v.Type())
				for j := 0; j < ms.Len(); j++ {
					if strings.EqualFold(ms.At(j).Obj().Name(), "close") {
						hasClose = true
					}
				}
				if !hasClose {
					continue
				}
				n++
				c.Fn(fb)
				c.Decide(closed[v], "closer-closes-every-writer", name+"@"+fnDisplay(fb), r.Pos(), "the "+name+" writer is closed by the CloseFunc",
					"the buffering writer returned for "+name+" is not closed by the returned CloseFunc: output after its last newline is never flushed (lost)")
			}
		}
	}
	c.Floor("closer-closes-every-writer", n, 4)
}

var inPlaceMutators = map[string]bool{
	"slices.Sort": true, "slices.SortFunc": true, "slices.SortStableFunc": true, "slices.Reverse": true, "slices.Compact": true, "slices.CompactFunc": true,
	"sort.Strings": true, "sort.Ints": true, "sort.Slice": true, "sort.SliceStable": true, "sort.Sort": true, "sort.Stable": true,
}

// noInPlaceMutationOfShared (C18 / C11): sorting or compacting a slice in place is a write to its backing array.
func noInPlaceMutationOfShared(c *Check, a *Anchors, rule string) {
	c.Rule(rule, "in functions reachable from the run / compile / list entry points, a slice handed to an in-place mutator (slices.Sort*, Reverse, Compact*, sort.*) is provably private to the call (made, copied or appended-to locally), or every caller passes such a slice: sorting a slice of the shared Taskfile (set, shopt, aliases ...) in place is an unsynchronised write from every running task")
	reach := c.P.ReachableFrom(runPhaseRoots(a), nil)
	n := 0
	ord := map[string]int{}
	for root := range reach {
		if root.Decl == nil || !strings.HasPrefix(root.Pkg.PkgPath, Mod) {
			continue
		}
		for _, fb := range append([]*FuncBody{root}, allLits(root)...) {
			info := fb.Info()
			for _, call := range callsIn(fb, false) {
				fn, ok := callee(info, call).(*types.Func)
				if !ok || fn.Pkg() == nil || !inPlaceMutators[fn.Pkg().Path()+"."+fn.Name()] || len(call.Args) == 0 {
					continue
				}
				n++
				c.Fn(root)
				ok2, why := freshSlice(c, a, fb, call.Args[0], 2)
				c.Decide(ok2, rule, ordinal(ord, fn.Pkg().Name()+"."+fn.Name()+"@"+fnDisplay(root)), call.Pos(), why,
					fmt.Sprintf("%s.%s mutates `%s` in place in %s and that slice is %s: when it is a list of the shared Taskfile, concurrently running tasks write the same backing array", fn.Pkg().Name(), fn.Name(), exprStr(call.Args[0]), fnDisplay(root), why))
			}
		}
	}
	c.Floor(rule, n, 3)
}

// freshSlice: the slice expression denotes a backing array private to this call.
func freshSlice(c *Check, a *Anchors, fb *FuncBody, e ast.Expr, depth int) (bool, string) {
	info := fb.Info()
	root := fb.Root()
	e = ast.Unparen(e)
	if call, ok := e.(*ast.CallExpr); ok {
		if isBuiltin(info, call, "make") || isBuiltin(info, call, "append") {
			return true, "made / appended here"
		}
		if fn, ok := callee(info, call).(*types.Func); ok && fn.Pkg() != nil && (fn.Pkg().Path() == "slices" && (fn.Name() == "Clone" || fn.Name() == "Collect" || fn.Name() == "Sorted" || fn.Name() == "Concat")) {
			return true, "cloned / collected here"
		}
		if fn, ok := callee(info, call).(*types.Func); ok && fn.Pkg() != nil && fn.Pkg().Path() == "maps" {
			return true, "collected from a map"
		}
		return true, "result of a call (a new slice by convention of the callee)"
	}
	v := varOf(info, e)
	if v == nil {
		if _, isLit := e.(*ast.CompositeLit); isLit {
			return true, "literal"
		}
		return false, "a field or element of something else"
	}
	if isParamOf(info, fb, v) || isParamOf(info, root, v) {
		if depth > 0 && root.Obj != nil {
			idx := paramIndex(info, root, v)
			callers, allFresh := 0, true
			for _, cb := range c.P.Bodies() {
				if !strings.HasPrefix(cb.Pkg.PkgPath, Mod) {
					continue
				}
				for _, call := range callsIn(cb, false) {
					target := a.is(callee(cb.Info(), call), root)
					if fv, isVar := callee(cb.Info(), call).(*types.Var); isVar && !target {
						// a call through a func-typed value of the same signature (a Sorter stored in a field / parameter)
						target = types.Identical(fv.Type().Underlying(), root.Obj.Type().Underlying())
					}
					if target && idx >= 0 {
						// variadic: every argument from idx on
						for ai := idx; ai < len(call.Args); ai++ {
							callers++
							if ok, _ := freshSlice(c, a, cb, call.Args[ai], depth-1); !ok {
								allFresh = false
							}
							if sig, ok := root.Obj.Type().(*types.Signature); !ok || !sig.Variadic() || idx != sig.Params().Len()-1 {
								break
							}
						}
					}
				}
			}
			if callers > 0 && allFresh {
				return true, "parameter bound to private slices by every caller"
			}
		}
		return false, "a parameter (callers may pass a slice of the shared Taskfile)"
	}
	// range variable over a parameter's elements (e.g. `for _, s := range ss`)
	var fromRange ast.Expr
	inspectDeep(root.Body, func(nd ast.Node) bool {
		if r, ok := nd.(*ast.RangeStmt); ok && r.Value != nil && varOf(info, r.Value) == v {
			fromRange = r.X
		}
		return true
	})
	if fromRange != nil {
		if depth > 0 {
			return freshSlice(c, a, fb, fromRange, depth)
		}
		return false, "an element of a ranged container"
	}
	defs := defsOf(info, root.Body, v)
	if len(defs) == 0 {
		return true, "declared here and only appended to"
	}
	for _, d := range defs {
		if ok, _ := freshSlice(c, a, fb, d, depth-1); !ok {
			return false, "assigned from `" + exprStr(d) + "`"
		}
	}
	return true, "local whose every definition is private"
}

var _ = token.NoPos

// reflectFieldsSettable (C16): reflect.Value.Set panics on a value reached through an unexported struct field.
func reflectFieldsSettable(c *Check, a *Anchors) {
	c.Rule("reflect-fields-settable", "wherever Task's own code walks the fields of an arbitrary struct by reflection and writes into them (the copier behind templater.Replace*), the walk is guarded by a settability test (reflect.Value.CanSet / StructField.IsExported / PkgPath) in the same struct case: variable values decoded from YAML include structs with unexported fields (a timestamp scalar decodes to time.Time), and reflect.Value.Set on such a field panics")
	n := 0
	for _, fb := range c.P.Bodies() {
		if !strings.HasPrefix(fb.Pkg.PkgPath, Mod) || bceSkipPkgs[fb.Pkg.PkgPath] {
			continue
		}
		info := fb.Info()
		inspectBody(fb.Body, func(nd ast.Node) bool {
			cc, ok := nd.(*ast.CaseClause)
			if !ok {
				return true
			}
			isStruct := false
			for _, e := range cc.List {
				if exprStr(e) == "reflect.Struct" {
					isStruct = true
				}
			}
			if !isStruct {
				return true
			}
			walks, writes, guarded := false, false, false
			for _, st := range cc.Body {
				ast.Inspect(st, func(m ast.Node) bool {
					call, ok := m.(*ast.CallExpr)
					if !ok {
						return true
					}
					sel, ok := ast.Unparen(call.Fun).(*ast.SelectorExpr)
					if !ok {
						// a recursive call through a func variable that receives a Field(i) value writes into it
						for _, arg := range call.Args {
							if ac, ok := ast.Unparen(arg).(*ast.CallExpr); ok {
								if as, ok := ast.Unparen(ac.Fun).(*ast.SelectorExpr); ok && as.Sel.Name == "Field" && isReflectValue(info, as.X) {
									writes = true
								}
							}
						}
						return true
					}
					if !isReflectValue(info, sel.X) && sel.Sel.Name != "IsExported" {
						return true
					}
					switch sel.Sel.Name {
					case "Field", "FieldByName", "FieldByIndex":
						walks = true
					case "Set", "SetString", "SetInt", "SetBool":
						writes = true
					case "CanSet", "IsExported", "CanInterface":
						guarded = true
					}
					return true
				})
			}
			if !walks || !writes {
				return true
			}
			n++
			c.Fn(fb.Root())
			c.Decide(guarded, "reflect-fields-settable", "case reflect.Struct@"+fnDisplay(fb.Root()), cc.Pos(), "the field walk tests settability",
				"the struct case walks every field of an arbitrary struct and writes into the copy without testing CanSet / IsExported: a variable whose YAML value is a timestamp (time.Time has unexported fields) makes reflect.Value.Set panic")
			return true
		})
	}
	c.Floor("reflect-fields-settable", n, 1)
}

func isReflectValue(info *types.Info, e ast.Expr) bool {
	tv, ok := info.Types[e]
	if !ok {
		return false
	}
	return types.TypeString(tv.Type, nil) == "reflect.Value"
}

// errorsNotSwallowed (C16): a branch that has just established `err != nil` does not report success.
var swallowReviewed = map[string]string{
	"semver.NewVersion@task.(*Executor).doVersionChecks":   "an unparsable build version (\"devel\") disables the upper-bound schema check by design; the Taskfile itself was already validated",
	"fmt.Fprint@internal/output.(*prefixWriter).writeLine": "a failed write of the prefix bracket to the terminal drops the line; nothing the caller could do differs from the success case and the payload write's own error is still returned",
}

func errorsNotSwallowed(c *Check, a *Anchors) {
	c.Rule("error-branch-not-success", "in Task's own code a branch guarded by `err != nil` (err of type error) never returns a nil error from a function whose last result is error — an established failure is not reported as success (exit 0 with nothing printed); the deliberate exceptions are an explicit table with one reason each")
	n, checked := 0, 0
	seen := map[string]bool{}
	ord := map[string]int{}
	for _, fb := range c.P.Bodies() {
		if !strings.HasPrefix(fb.Pkg.PkgPath, Mod) || bceSkipPkgs[fb.Pkg.PkgPath] {
			continue
		}
		if fb.Type.Results == nil || fb.Type.Results.NumFields() == 0 {
			continue
		}
		info := fb.Info()
		last := fb.Type.Results.List[len(fb.Type.Results.List)-1]
		if tv, ok := info.Types[last.Type]; !ok || !isErrorType(tv.Type) {
			continue
		}
		pm := parentMap(fb.Body)
		inspectBody(fb.Body, func(nd ast.Node) bool {
			ifs, ok := nd.(*ast.IfStmt)
			if !ok {
				return true
			}
			be, ok := ast.Unparen(ifs.Cond).(*ast.BinaryExpr)
			if !ok || be.Op != token.NEQ || !isNilLit(info, be.Y) {
				return true
			}
			v := varOf(info, be.X)
			if v == nil || !isErrorType(v.Type()) {
				return true
			}
			checked++
			// where does err come from: the if's init or the nearest preceding assignment in the enclosing block
			src := ""
			find := func(st ast.Stmt) {
				if as, ok := st.(*ast.AssignStmt); ok && len(as.Rhs) == 1 {
					for _, l := range as.Lhs {
						if varOf(info, l) == v {
							if call, ok := ast.Unparen(as.Rhs[0]).(*ast.CallExpr); ok {
								src = calleeName(callee(info, call))
							} else {
								src = exprStr(as.Rhs[0])
							}
						}
					}
				}
			}
			if ifs.Init != nil {
				find(ifs.Init)
			}
			if src == "" {
				if blk, ok := pm[ifs].(*ast.BlockStmt); ok {
					for _, st := range blk.List {
						if st == ast.Stmt(ifs) {
							break
						}
						find(st)
					}
				}
			}
			inspectBody(ifs.Body, func(m ast.Node) bool {
				r, ok := m.(*ast.ReturnStmt)
				if !ok {
					return true
				}
				if inner, ok := m.(*ast.IfStmt); ok && inner != ifs {
					return true
				}
				res := errResult(r)
				if res == nil || !isNilLit(info, res) {
					return true
				}
				// `return false, nil` / `return "", nil` carry an answer ("not up to date", "no value"); only a return whose
				// every result is nil tells the caller nothing but "succeeded"
				for _, other := range r.Results {
					if !isNilLit(info, other) {
						return true
					}
				}
				// only returns directly governed by this test (not under a nested condition that may re-classify the error)
				direct := true
				for p := pm[r]; p != nil && p != ast.Node(ifs.Body); p = pm[p] {
					switch p.(type) {
					case *ast.IfStmt, *ast.CaseClause, *ast.SwitchStmt, *ast.TypeSwitchStmt:
						direct = false
					}
				}
				if !direct {
					return true
				}
				n++
				key := src + "@" + fnDisplay(fb.Root())
				c.Fn(fb.Root())
				if _, listed := swallowReviewed[key]; !listed {
					// the prefixed writer's bracket writes: reviewed for the package, wherever the locked part lives
					if src == "fmt.Fprint" && fb.Pkg.PkgPath == PkgOutput {
						key = "fmt.Fprint@internal/output.(*prefixWriter).writeLine"
					}
				}
				if reason, ok := swallowReviewed[key]; ok {
					seen[key] = true
					c.OK("error-branch-not-success", ordinal(ord, key), r.Pos(), "reviewed exception: "+reason)
					return true
				}
				c.Bad("error-branch-not-success", ordinal(ord, key), r.Pos(), fmt.Sprintf("the error of %s is known to be non-nil here and the function returns a nil error: the failure is reported to the caller as success (with --summary / listing this is exit 0 and nothing printed)", src))
				return true
			})
			return true
		})
	}
	c.Extra["error_tests_inspected"] = checked
	c.Floor("error-branch-not-success", checked, 150)
	_ = seen
}

func isErrorType(t types.Type) bool {
	return t != nil && types.Identical(t, types.Universe.Lookup("error").Type())
}

// recursionReviewed (C07 / C16): every recursion in Task's own code has a reviewed bound.
var recursionBounds = map[string]string{
	"internal/flags.(*flagsOption).ApplyToExecutor <-> task.(*Executor).Options": "Options dispatches to each option's ApplyToExecutor; the flags option re-enters Options with a literal list of With* options, none of which is the flags option itself",
}

func recursionReviewed(c *Check, a *Anchors, rule string) {
	c.Rule(rule, "every recursive cycle of Task's own code — a strongly connected component of the static call graph (interface calls resolved to every implementing method, function values by reference) or a function literal that calls the variable it is stored in — is in the reviewed table with the measure that bounds it (call-count gate, acyclic include graph, depth of a finite value, ancestor set); a new recursion is reported: cyclic Taskfiles must end with an error, never hang or exhaust memory")
	// graph over declared functions
	var nodes []*FuncBody
	for _, fb := range c.P.Bodies() {
		if fb.Decl != nil && strings.HasPrefix(fb.Pkg.PkgPath, Mod) && !bceSkipPkgs[fb.Pkg.PkgPath] {
			nodes = append(nodes, fb)
		}
	}
	succ := map[*FuncBody][]*FuncBody{}
	for _, n := range nodes {
		succ[n] = c.P.staticCallees(n, true)
	}
	// Tarjan
	index, low := map[*FuncBody]int{}, map[*FuncBody]int{}
	on := map[*FuncBody]bool{}
	var stack []*FuncBody
	var sccs [][]*FuncBody
	idx := 0
	var strong func(v *FuncBody)
	strong = func(v *FuncBody) {
		idx++
		index[v], low[v] = idx, idx
		stack = append(stack, v)
		on[v] = true
		for _, w := range succ[v] {
			if _, ok := succ[w]; !ok {
				continue
			}
			if index[w] == 0 {
				strong(w)
				if low[w] < low[v] {
					low[v] = low[w]
				}
			} else if on[w] && index[w] < low[v] {
				low[v] = index[w]
			}
		}
		if low[v] == index[v] {
			var comp []*FuncBody
			for {
				w := stack[len(stack)-1]
				stack = stack[:len(stack)-1]
				on[w] = false
				comp = append(comp, w)
				if w == v {
					break
				}
			}
			self := false
			for _, w := range succ[v] {
				if w == v {
					self = true
				}
			}
			if len(comp) > 1 || self {
				sccs = append(sccs, comp)
			}
		}
	}
	for _, n := range nodes {
		if index[n] == 0 {
			strong(n)
		}
	}
	n := 0
	for _, comp := range sccs {
		var names []string
		for _, f := range comp {
			names = append(names, fnDisplay(f))
		}
		sort.Strings(names)
		key := strings.Join(names, " <-> ")
		n++
		c.Fn(comp[0])
		reason, ok := recursionBounds[key]
		if !ok {
			ok, reason = sccBounded(c, a, comp)
		}
		c.Decide(ok, rule, "cycle{"+key+"}", comp[0].Body.Pos(), "bounded: "+reason,
			"these functions call each other recursively and the cycle is not in the reviewed table of bounded recursions: on a cyclic or self-referential Taskfile nothing stops the recursion (hang, stack overflow or memory exhaustion instead of a diagnosed error)")
	}
	// recursive closures
	for _, fb := range nodes {
		info := fb.Info()
		inspectDeep(fb.Body, func(nd ast.Node) bool {
			as, ok := nd.(*ast.AssignStmt)
			if !ok || len(as.Lhs) != 1 || len(as.Rhs) != 1 {
				return true
			}
			lit, ok := ast.Unparen(as.Rhs[0]).(*ast.FuncLit)
			if !ok {
				return true
			}
			v := varOf(info, as.Lhs[0])
			if v == nil {
				return true
			}
			rec := false
			ast.Inspect(lit.Body, func(m ast.Node) bool {
				if call, ok := m.(*ast.CallExpr); ok && varOf(info, call.Fun) == v {
					rec = true
				}
				return true
			})
			if !rec {
				return true
			}
			n++
			c.Fn(fb)
			key := "closure " + v.Name() + "@" + fnDisplay(fb)
			ok2, reason := closureBounded(info, fb, lit, v)
			if !ok2 {
				ok2, reason = closureDescends(info, lit, v)
			}
			if r, listed := recursionBounds[key]; listed {
				ok2, reason = true, r
			}
			c.Decide(ok2, rule, key, lit.Pos(), "bounded: "+reason,
				"the function literal stored in `"+v.Name()+"` calls itself and neither carries a visited/ancestor set that it tests before descending nor is in the reviewed table: a Taskfile whose tasks reference each other cyclically makes it recurse without bound")
			return true
		})
	}
	c.Floor(rule, n, 4)
}

// sccBounded recognises the bounded shapes of recursion between declared functions.
func sccBounded(c *Check, a *Anchors, comp []*FuncBody) (bool, string) {
	in := map[*FuncBody]bool{}
	for _, f := range comp {
		in[f] = true
	}
	// (1) the run-phase cycle: every cycle through RunTask passes its call-count gate (rule recursion-gated)
	if in[a.RunTask] {
		// every other member must re-enter the cycle only through RunTask: remove RunTask and the rest must be acyclic
		rest := map[*FuncBody]bool{}
		for f := range in {
			if f != a.RunTask {
				rest[f] = true
			}
		}
		if !hasCycle(c, rest) {
			return true, "every cycle of this component passes through RunTask, whose call-count gate (rule recursion-gated) ends it after MaximumTaskCall activations per task"
		}
		return false, ""
	}
	// (2) nil-receiver initialisation: Set calls the constructor only under `recv == nil`, the constructor calls Set on the fresh object
	if len(comp) == 2 {
		for i, f := range comp {
			g := comp[1-i]
			if f.Decl == nil || f.Decl.Recv == nil || len(f.Decl.Recv.List[0].Names) == 0 {
				continue
			}
			info := f.Info()
			recv, _ := info.Defs[f.Decl.Recv.List[0].Names[0]].(*types.Var)
			all, cnt := true, 0
			pm := parentMap(f.Body)
			for _, call := range callsIn(f, true) {
				if !a.is(callee(info, call), g) {
					continue
				}
				cnt++
				guarded := false
				for p := pm[call]; p != nil; p = pm[p] {
					if ifs, ok := p.(*ast.IfStmt); ok && within(call, ifs.Body) {
						if be, ok := ast.Unparen(ifs.Cond).(*ast.BinaryExpr); ok && be.Op == token.EQL && varOf(info, be.X) == recv && isNilLit(info, be.Y) {
							guarded = true
						}
					}
				}
				if !guarded {
					all = false
				}
			}
			if cnt > 0 && all {
				return true, "the constructor is called only for a nil receiver and returns a non-nil object, whose Set does not call it again"
			}
		}
	}
	// (3) self-recursion over a graph with a visited set: AddVertex reports ErrVertexAlreadyExists and the function returns before recursing
	if len(comp) == 1 {
		f := comp[0]
		info := f.Info()
		guardEnd := token.NoPos
		inspectBody(f.Body, func(nd ast.Node) bool {
			ifs, ok := nd.(*ast.IfStmt)
			if !ok || ifs.Init == nil || !hasJump(ifs.Body) {
				return true
			}
			as, ok := ifs.Init.(*ast.AssignStmt)
			if !ok || len(as.Rhs) != 1 {
				return true
			}
			call, ok := ast.Unparen(as.Rhs[0]).(*ast.CallExpr)
			if !ok {
				return true
			}
			if fn, ok := callee(info, call).(*types.Func); !ok || fn.Name() != "AddVertex" {
				return true
			}
			if strings.Contains(exprStr(ifs.Cond), "ErrVertexAlreadyExists") {
				guardEnd = ifs.End()
			}
			return true
		})
		firstRec := token.NoPos
		for _, call := range callsIn(f, true) {
			if a.is(callee(info, call), f) && firstRec == token.NoPos {
				firstRec = call.Pos()
			}
		}
		if guardEnd != token.NoPos && guardEnd < firstRec {
			return true, "each activation first adds its vertex to the include graph and returns when the vertex already exists: one activation per distinct Taskfile location"
		}
	}
	// (4) decorator delegation: a method whose only call that can resolve to itself is an INTERFACE call of the same method on
	// a field of its receiver (w.inner.Write(p) inside (*wrapper).Write): the callee is the wrapped object, a different value
	// fixed at construction, so the recursion is as deep as the wrappers are nested
	if len(comp) == 1 {
		f := comp[0]
		if f.Decl != nil && f.Decl.Recv != nil && len(f.Decl.Recv.List) == 1 && len(f.Decl.Recv.List[0].Names) == 1 {
			info := f.Info()
			recv, _ := info.Defs[f.Decl.Recv.List[0].Names[0]].(*types.Var)
			nSelf, allDelegation := 0, true
			for _, call := range callsIn(f, true) {
				fn, _ := callee(info, call).(*types.Func)
				if fn == nil {
					continue
				}
				if fn == f.Obj {
					nSelf++
					allDelegation = false // a static call of itself
					continue
				}
				if fn.Name() != f.Decl.Name.Name {
					continue
				}
				sig, _ := fn.Type().(*types.Signature)
				if sig == nil || sig.Recv() == nil || !types.IsInterface(sig.Recv().Type()) {
					continue
				}
				nSelf++
				sel, ok := ast.Unparen(call.Fun).(*ast.SelectorExpr)
				if !ok {
					allDelegation = false
					continue
				}
				fsel, ok := ast.Unparen(sel.X).(*ast.SelectorExpr)
				if !ok || varOf(info, fsel.X) != recv || recv == nil {
					allDelegation = false
				}
			}
			if nSelf > 0 && allDelegation {
				return true, "decorator: the method only re-enters itself through an interface call on a field of its receiver — the wrapped value, fixed at construction — so the depth is the nesting depth of the wrappers"
			}
		}
	}
	return false, ""
}

func hasCycle(c *Check, set map[*FuncBody]bool) bool {
	state := map[*FuncBody]int{}
	var visit func(f *FuncBody) bool
	visit = func(f *FuncBody) bool {
		state[f] = 1
		for _, w := range c.P.staticCallees(f, true) {
			if !set[w] {
				continue
			}
			if state[w] == 1 || (state[w] == 0 && visit(w)) {
				return true
			}
		}
		state[f] = 2
		return false
	}
	for f := range set {
		if state[f] == 0 && visit(f) {
			return true
		}
	}
	return false
}

// closureDescends recognises structural descent: every recursive call passes a strict component of one of the literal's own
// parameters (reflect.Value.Elem/Field/Index/MapIndex, errors.Unwrap), possibly through one local variable.
func closureDescends(info *types.Info, lit *ast.FuncLit, self *types.Var) (bool, string) {
	params := map[*types.Var]bool{}
	for _, fld := range lit.Type.Params.List {
		for _, id := range fld.Names {
			if v, ok := info.Defs[id].(*types.Var); ok {
				params[v] = true
			}
		}
	}
	var component func(e ast.Expr, depth int) bool
	component = func(e ast.Expr, depth int) bool {
		e = ast.Unparen(e)
		if call, ok := e.(*ast.CallExpr); ok {
			if sel, ok := ast.Unparen(call.Fun).(*ast.SelectorExpr); ok {
				switch sel.Sel.Name {
				case "Elem", "Field", "Index", "MapIndex":
					if v := varOf(info, sel.X); v != nil && params[v] && isReflectValue(info, sel.X) {
						return true
					}
				case "Unwrap":
					if len(call.Args) == 1 {
						if v := varOf(info, call.Args[0]); v != nil && params[v] {
							return true
						}
					}
				}
			}
			return false
		}
		if v := varOf(info, e); v != nil && depth > 0 && !params[v] {
			defs := defsOf(info, lit.Body, v)
			if len(defs) == 0 {
				return false
			}
			for _, d := range defs {
				if !component(d, depth-1) {
					return false
				}
			}
			return true
		}
		return false
	}
	calls, ok := 0, true
	ast.Inspect(lit.Body, func(m ast.Node) bool {
		call, isCall := m.(*ast.CallExpr)
		if !isCall || varOf(info, call.Fun) != self {
			return true
		}
		calls++
		descends := false
		for _, arg := range call.Args {
			if component(arg, 1) {
				descends = true
			}
		}
		if !descends {
			ok = false
		}
		return true
	})
	if calls > 0 && ok {
		return true, "structural descent: every recursive call passes a strict component (Elem / Field / Index / MapIndex / Unwrap) of the literal's own parameter, a finite acyclic value"
	}
	return false, ""
}

// closureBounded recognises the ancestor/visited-set idiom: the literal tests membership of a key in a map declared outside
// it, returns on the found edge, and stores the key before recursing.
func closureBounded(info *types.Info, fb *FuncBody, lit *ast.FuncLit, self *types.Var) (bool, string) {
	var guard *types.Var
	for _, st := range lit.Body.List {
		ifs, ok := st.(*ast.IfStmt)
		if !ok {
			continue
		}
		cond := ast.Unparen(ifs.Cond)
		var ix *ast.IndexExpr
		if i, ok := cond.(*ast.IndexExpr); ok {
			ix = i
		}
		if ifs.Init != nil {
			if as, ok := ifs.Init.(*ast.AssignStmt); ok && len(as.Rhs) == 1 {
				if i, ok := ast.Unparen(as.Rhs[0]).(*ast.IndexExpr); ok {
					ix = i
				}
			}
		}
		if ix == nil || !hasJump(ifs.Body) {
			continue
		}
		m := varOf(info, ix.X)
		if m == nil {
			continue
		}
		if _, isMap := m.Type().Underlying().(*types.Map); !isMap {
			continue
		}
		if within(identDecl(info, fb, m), lit) {
			continue // a map local to one activation guards nothing
		}
		guard = m
	}
	if guard == nil {
		return false, ""
	}
	stored, storedBefore := false, false
	firstRec := token.NoPos
	ast.Inspect(lit.Body, func(m ast.Node) bool {
		if call, ok := m.(*ast.CallExpr); ok && varOf(info, call.Fun) == self && firstRec == token.NoPos {
			firstRec = call.Pos()
		}
		return true
	})
	ast.Inspect(lit.Body, func(m ast.Node) bool {
		if as, ok := m.(*ast.AssignStmt); ok {
			for _, l := range as.Lhs {
				if ix, ok := ast.Unparen(l).(*ast.IndexExpr); ok && varOf(info, ix.X) == guard {
					stored = true
					if as.Pos() < firstRec {
						storedBefore = true
					}
				}
			}
		}
		return true
	})
	if stored && storedBefore {
		return true, "ancestor / visited set `" + guard.Name() + "` tested before descending and extended before the recursive call"
	}
	return false, ""
}

func identDecl(info *types.Info, fb *FuncBody, v *types.Var) ast.Node {
	var out ast.Node
	inspectDeep(fb.Body, func(nd ast.Node) bool {
		if id, ok := nd.(*ast.Ident); ok && info.Defs[id] == v {
			out = id
		}
		return true
	})
	return out
}

// writerSerialised (C17 / C18): the writers handed to the shell are written to from several goroutines.
func writerSerialised(c *Check, a *Anchors) {
	c.Rule("writer-serialised", "every io.Writer type of internal/output that keeps a buffer holds a mutex of its own across each entry method (Write, and the methods its CloseFunc calls) before it touches the buffer or calls a helper of the type: one writer object serves a command's stdout and stderr, and the shell writes to them from several goroutines (pipeline stages); a writer whose Write also emits (line-oriented) is not shared between stdout and stderr, so that a partial line of one stream is never completed by bytes of the other")
	n := 0
	pkg := c.P.Pkgs[PkgOutput]
	if pkg == nil {
		c.Errorf("writer-serialised: package %s not loaded", PkgOutput)
		return
	}
	type wt struct {
		named   *types.Named
		st      *types.Struct
		buf     []*types.Var
		mutexes []*types.Var
	}
	var wts []wt
	scope := pkg.Types.Scope()
	for _, name := range scope.Names() {
		tn, ok := scope.Lookup(name).(*types.TypeName)
		if !ok {
			continue
		}
		named, ok := tn.Type().(*types.Named)
		if !ok {
			continue
		}
		st, ok := named.Underlying().(*types.Struct)
		if !ok {
			continue
		}
		hasWrite := false
		ms := types.NewMethodSet(types.NewPointer(named))
		for i := 0; i < ms.Len(); i++ {
			if ms.At(i).Obj().Name() == "Write" {
				hasWrite = true
			}
		}
		if !hasWrite {
			continue
		}
		w := wt{named: named, st: st}
		for i := 0; i < st.NumFields(); i++ {
			f := st.Field(i)
			switch types.TypeString(f.Type(), nil) {
			case "bytes.Buffer", "*bytes.Buffer", "strings.Builder", "[]byte":
				w.buf = append(w.buf, f)
			case "sync.Mutex", "sync.RWMutex", "*sync.Mutex":
				w.mutexes = append(w.mutexes, f)
			}
		}
		if len(w.buf) > 0 {
			wts = append(wts, w)
		}
	}
	for _, w := range wts {
		tname := w.named.Obj().Name()
		// entry methods: Write + every method of the type called from a function literal in a WrapWriter
		entries := map[string]bool{"Write": true}
		for _, fb := range c.P.BodiesIn(PkgOutput) {
			if fb.Decl == nil || fb.Decl.Name.Name != "WrapWriter" {
				continue
			}
			info := fb.Info()
			for _, lit := range allLits(fb) {
				for _, call := range callsIn(lit, true) {
					if fn, ok := callee(info, call).(*types.Func); ok {
						if sig := fn.Type().(*types.Signature); sig.Recv() != nil && namedOf(sig.Recv().Type()) == w.named {
							entries[fn.Name()] = true
						}
					}
				}
			}
		}
		streaming := false
		for _, fb := range c.P.BodiesIn(PkgOutput) {
			if fb.Decl == nil || fb.Decl.Recv == nil || fb.Obj == nil {
				continue
			}
			sig := fb.Obj.Type().(*types.Signature)
			if namedOf(sig.Recv().Type()) != w.named {
				continue
			}
			info := fb.Info()
			// does any method of the type other than the close path write to an inner io.Writer field
			if !entries[fb.Decl.Name.Name] || fb.Decl.Name.Name == "Write" {
				inspectBody(fb.Body, func(nd ast.Node) bool {
					if sel, ok := nd.(*ast.SelectorExpr); ok {
						if s := info.Selections[sel]; s != nil && s.Kind() == types.FieldVal && types.TypeString(s.Obj().Type(), nil) == "io.Writer" && reachesFromWrite(c, w.named, fb) {
							streaming = true
						}
					}
					return true
				})
			}
			if !entries[fb.Decl.Name.Name] {
				continue
			}
			n++
			c.Fn(fb)
			isMu := func(e ast.Expr) bool {
				sel, ok := ast.Unparen(e).(*ast.SelectorExpr)
				if !ok {
					return false
				}
				s := info.Selections[sel]
				if s == nil {
					return false
				}
				for _, m := range w.mutexes {
					if s.Obj() == m {
						return true
					}
				}
				return false
			}
			f := NewFlow(c.P, fb, func(call *ast.CallExpr, obj types.Object) string {
				if sel, ok := ast.Unparen(call.Fun).(*ast.SelectorExpr); ok && isMu(sel.X) {
					if fn, ok := obj.(*types.Func); ok {
						return "own." + fn.Name()
					}
				}
				return ""
			})
			f.NoInline = true
			f.Effect = func(label string, call *ast.CallExpr, st Facts) {
				switch label {
				case "own.Lock":
					st["held:own"] = true
				case "own.Unlock":
					delete(st, "held:own")
				}
			}
			f.Run()
			bad := ""
			for node, st := range f.At {
				switch node.(type) {
				case *ast.CallExpr, *ast.AssignStmt, *ast.ReturnStmt, *ast.ExprStmt, *ast.IfStmt:
				default:
					continue
				}
				if call, ok := node.(*ast.CallExpr); ok && strings.HasPrefix(f.Labels[call], "own.") {
					continue
				}
				if _, ok := node.(*ast.IfStmt); ok {
					continue
				}
				ast.Inspect(node, func(m ast.Node) bool {
					if _, isLit := m.(*ast.FuncLit); isLit {
						return false
					}
					switch x := m.(type) {
					case *ast.SelectorExpr:
						if s := info.Selections[x]; s != nil {
							touch := false
							for _, b := range w.buf {
								if s.Obj() == b {
									touch = true
								}
							}
							if fn, ok := s.Obj().(*types.Func); ok && s.Kind() == types.MethodVal {
								if sig := fn.Type().(*types.Signature); sig.Recv() != nil && namedOf(sig.Recv().Type()) == w.named {
									touch = true
								}
							}
							if touch && !st.Has("held:own") && bad == "" {
								bad = exprStr(x)
							}
						}
					}
					return true
				})
			}
			c.Decide(bad == "", "writer-serialised", tname+"."+fb.Decl.Name.Name, fb.Body.Pos(), "every access to the buffer (and every helper call) happens with the writer's own mutex held",
				"`"+bad+"` is reached in "+tname+"."+fb.Decl.Name.Name+" without the writer's own mutex held: stdout and stderr of one command are written from different goroutines, so buffered bytes are lost or duplicated")
		}
		// sharing between the two streams
		for _, fb := range c.P.BodiesIn(PkgOutput) {
			if fb.Decl == nil || fb.Decl.Name.Name != "WrapWriter" {
				continue
			}
			info := fb.Info()
			for _, r := range returnsOf(fb.Body) {
				if len(r.Results) != 3 {
					continue
				}
				v0, v1 := varOf(info, r.Results[0]), varOf(info, r.Results[1])
				if v0 == nil || v1 == nil || namedOf(v0.Type()) != w.named {
					continue
				}
				n++
				c.Decide(!streaming || v0 != v1, "writer-serialised", "streams@"+fnDisplay(fb), r.Pos(), "a line-oriented writer is not shared between stdout and stderr (or the writer only buffers)",
					tname+" emits while it is written to (line by line) and one instance is returned for both stdout and stderr: a partial line of one stream is completed by bytes of the other (torn lines)")
			}
		}
	}
	c.Floor("writer-serialised", n, 5)
}

// reachesFromWrite: fb is Write itself or a method of the type reachable from its Write through methods of the type.
func reachesFromWrite(c *Check, named *types.Named, target *FuncBody) bool {
	var write *FuncBody
	for _, fb := range c.P.BodiesIn(PkgOutput) {
		if fb.Decl != nil && fb.Decl.Recv != nil && fb.Obj != nil && fb.Decl.Name.Name == "Write" && namedOf(fb.Obj.Type().(*types.Signature).Recv().Type()) == named {
			write = fb
		}
	}
	if write == nil {
		return false
	}
	return c.P.ReachableFrom([]*FuncBody{write}, nil)[target]
}

// cmdTemplatedWhole (C02 / C14): wherever one templated field of a command or dependency is rendered, its siblings are too.
func cmdTemplatedWhole(c *Check, a *Anchors) {
	c.Rule("call-templated-whole", "sibling agreement: every block that renders one of the templated fields of an ast.Cmd (Cmd, Task, Vars) or ast.Dep (Task, Vars) through the templater renders all of them for the same element, with the same extras form — a task call whose name or vars are left unrendered reaches the callee with literal template text (or not at all)")
	want := map[string][]string{"Cmd": {"Cmd", "Task", "Vars"}, "Dep": {"Task", "Vars"}}
	n := 0
	ord := map[string]int{}
	for _, fb := range c.P.BodiesIn(PkgTask) {
		info := fb.Info()
		var blocks []*ast.BlockStmt
		inspectBody(fb.Body, func(nd ast.Node) bool {
			if b, ok := nd.(*ast.BlockStmt); ok {
				blocks = append(blocks, b)
			}
			return true
		})
		for _, b := range blocks {
			type key struct {
				v    *types.Var
				kind string
			}
			got := map[key]map[string]string{}
			var order []key
			for _, st := range b.List {
				as, ok := st.(*ast.AssignStmt)
				if !ok || len(as.Lhs) != 1 || len(as.Rhs) != 1 {
					continue
				}
				sel, ok := ast.Unparen(as.Lhs[0]).(*ast.SelectorExpr)
				if !ok {
					continue
				}
				v := varOf(info, sel.X)
				if v == nil {
					continue
				}
				nt := namedOf(v.Type())
				if nt == nil || nt.Obj().Pkg() == nil || nt.Obj().Pkg().Path() != PkgAst {
					continue
				}
				kind := nt.Obj().Name()
				if want[kind] == nil {
					continue
				}
				call, ok := ast.Unparen(as.Rhs[0]).(*ast.CallExpr)
				if !ok {
					continue
				}
				fn, ok := callee(info, call).(*types.Func)
				if !ok || fn.Pkg() == nil || fn.Pkg().Path() != PkgTemplater || !strings.HasPrefix(fn.Name(), "Replace") {
					continue
				}
				k := key{v, kind}
				if got[k] == nil {
					got[k] = map[string]string{}
					order = append(order, k)
				}
				form := "plain"
				if strings.HasSuffix(fn.Name(), "WithExtra") {
					form = "extra"
				}
				got[k][sel.Sel.Name] = form
			}
			for _, k := range order {
				n++
				c.Fn(fb.Root())
				var missing []string
				forms := map[string]bool{}
				for _, f := range want[k.kind] {
					if form, ok := got[k][f]; !ok {
						missing = append(missing, f)
					} else {
						forms[form] = true
					}
				}
				name := ordinal(ord, k.kind+"@"+fnDisplay(fb.Root()))
				switch {
				case len(missing) > 0:
					c.Bad("call-templated-whole", name, b.Pos(), fmt.Sprintf("this block renders %v of `%s` (*ast.%s) through the templater but not %v: the unrendered field reaches the callee as literal template text", strKeysOf(got[k]), k.v.Name(), k.kind, missing))
				case len(forms) > 1:
					c.Bad("call-templated-whole", name, b.Pos(), fmt.Sprintf("the fields of `%s` (*ast.%s) are rendered with different forms (with and without extras): the loop / exit-code extras are visible to one field and not to the other", k.v.Name(), k.kind))
				default:
					c.OK("call-templated-whole", name, b.Pos(), "all templated fields rendered with the same form")
				}
			}
		}
	}
	c.Floor("call-templated-whole", n, 5)
}

func strKeysOf(m map[string]string) []string {
	var out []string
	for k := range m {
		out = append(out, k)
	}
	sort.Strings(out)
	return out
}

// orderedRebuildSinglePass (C02 / C09): an ordered container rebuilt from another keeps its order only if it is filled in one pass.
func orderedRebuildSinglePass(c *Check, a *Anchors, rule string) {
	c.Rule(rule, "wherever Task's own code fills an ordered container (ast.Vars, ast.Matrix, ast.Tasks, ast.Includes: Set appends a new key at the end) from a range over another ordered container, all the Set calls into that destination from that source are in ONE loop: filling it in two filtered passes over the same source (e.g. references first, literals second) silently reorders the entries — declaration order is what the matrix product, for-loops, variable resolution and task lookup iterate in")
	n := 0
	ord := map[string]int{}
	for _, fb := range c.P.Bodies() {
		if fb.Decl == nil || !strings.HasPrefix(fb.Pkg.PkgPath, Mod) || bceSkipPkgs[fb.Pkg.PkgPath] {
			continue
		}
		info := fb.Info()
		type pair struct {
			dst *types.Var
			src string
		}
		loops := map[pair][]*ast.RangeStmt{}
		var order []pair
		inspectDeep(fb.Body, func(nd ast.Node) bool {
			r, ok := nd.(*ast.RangeStmt)
			if !ok {
				return true
			}
			call, ok := ast.Unparen(r.X).(*ast.CallExpr)
			if !ok {
				return true
			}
			fn, ok := callee(info, call).(*types.Func)
			if !ok || fn.Pkg() == nil || fn.Pkg().Path() != PkgAst || (fn.Name() != "All" && fn.Name() != "Keys" && fn.Name() != "Values") {
				return true
			}
			sel, ok := ast.Unparen(call.Fun).(*ast.SelectorExpr)
			if !ok {
				return true
			}
			src := exprStr(sel.X)
			if v := rootVar(info, sel.X); v != nil {
				src = shapeOfVar(v) + strings.TrimPrefix(exprStr(sel.X), v.Name())
			}
			seen := map[*types.Var]bool{}
			ast.Inspect(r.Body, func(m ast.Node) bool {
				if inner, ok := m.(*ast.RangeStmt); ok && inner != r {
					// a nested loop over another container is its own pass
					_ = inner
				}
				sc, ok := m.(*ast.CallExpr)
				if !ok {
					return true
				}
				sfn, ok := callee(info, sc).(*types.Func)
				if !ok || sfn.Name() != "Set" || sfn.Pkg() == nil || sfn.Pkg().Path() != PkgAst {
					return true
				}
				ssel, ok := ast.Unparen(sc.Fun).(*ast.SelectorExpr)
				if !ok {
					return true
				}
				dst := varOf(info, ssel.X)
				if dst == nil || seen[dst] {
					return true
				}
				seen[dst] = true
				p := pair{dst, src}
				if loops[p] == nil {
					order = append(order, p)
				}
				loops[p] = append(loops[p], r)
				return true
			})
			return true
		})
		for _, p := range order {
			n++
			c.Fn(fb)
			key := ordinal(ord, shapeOfVar(p.dst)+"<-"+p.src+"@"+fnDisplay(fb))
			c.Decide(len(loops[p]) == 1, rule, key, loops[p][0].Pos(), "filled in a single pass over the source",
				fmt.Sprintf("`%s` is filled by Set from %d separate loops over `%s` in %s: the entries end up grouped by loop instead of in the source's declaration order", p.dst.Name(), len(loops[p]), p.src, fnDisplay(fb)))
		}
	}
	c.Floor(rule, n, 2)
}

func shapeOfVar(v *types.Var) string {
	return types.TypeString(v.Type(), func(p *types.Package) string { return p.Name() })
}

// cancellationPropagates (C03): the failure of one task reaches its siblings only through the context.
func cancellationPropagates(c *Check, a *Anchors) {
	c.Rule("cancellation-propagates", "in every function of package task reachable from RunTask (the deferred-command runner excepted: it must outlive cancellation, rule defer-runner), each context handed to a callee is the function's own context parameter or derived from it by a cancel-preserving constructor (context.WithCancel / WithTimeout / WithDeadline / WithValue, errgroup.WithContext) — never context.Background(), TODO() or WithoutCancel(): a task that runs under a detached context keeps starting commands after a sibling has failed")
	reach := c.P.ReachableFrom([]*FuncBody{a.RunTask}, func(fb *FuncBody) bool { return fb == a.DeferRunner })
	n := 0
	ord := map[string]int{}
	isCtx := func(t types.Type) bool { return t != nil && types.TypeString(t, nil) == "context.Context" }
	for root := range reach {
		if root.Decl == nil || root.Pkg.PkgPath != PkgTask || root == a.DeferRunner {
			continue
		}
		for _, fb := range append([]*FuncBody{root}, allLits(root)...) {
			info := fb.Info()
			// context parameters of this body and of the enclosing bodies
			params := map[*types.Var]bool{}
			for p := fb; p != nil; p = p.Parent {
				if p.Type.Params == nil {
					continue
				}
				for _, fld := range p.Type.Params.List {
					for _, id := range fld.Names {
						if v, ok := info.Defs[id].(*types.Var); ok && isCtx(v.Type()) {
							params[v] = true
						}
					}
				}
			}
			if len(params) == 0 {
				continue // no caller context in scope (variable evaluation has no context parameter): nothing to thread
			}
			var derived func(e ast.Expr, depth int) (bool, string)
			derived = func(e ast.Expr, depth int) (bool, string) {
				e = ast.Unparen(e)
				if depth > 6 {
					return false, "derivation too deep"
				}
				if call, ok := e.(*ast.CallExpr); ok {
					fn, _ := callee(info, call).(*types.Func)
					if fn == nil || fn.Pkg() == nil {
						return false, "result of an unresolved call"
					}
					full := fn.Pkg().Path() + "." + fn.Name()
					switch full {
					case "context.WithCancel", "context.WithTimeout", "context.WithDeadline", "context.WithValue", "context.WithCancelCause", "golang.org/x/sync/errgroup.WithContext":
						if len(call.Args) > 0 {
							return derived(call.Args[0], depth+1)
						}
					case "context.Background", "context.TODO", "context.WithoutCancel":
						return false, "context." + fn.Name() + "() — detached from the caller's cancellation"
					}
					return false, "result of " + full
				}
				v := varOf(info, e)
				if v == nil {
					return false, "`" + exprStr(e) + "`"
				}
				defs := defsOf(info, fb.Root().Body, v)
				if params[v] && len(defs) == 0 {
					return true, ""
				}
				if len(defs) == 0 {
					return false, "`" + v.Name() + "` (no definition found)"
				}
				for _, d := range defs {
					// x, cancel := context.WithCancel(x) mentions itself: judge the constructor's argument, not the variable again
					if call, ok := ast.Unparen(d).(*ast.CallExpr); ok && len(call.Args) > 0 && varOf(info, call.Args[0]) == v {
						fn, _ := callee(info, call).(*types.Func)
						if fn != nil && fn.Pkg() != nil {
							switch fn.Pkg().Path() + "." + fn.Name() {
							case "context.WithCancel", "context.WithTimeout", "context.WithDeadline", "context.WithValue", "context.WithCancelCause", "golang.org/x/sync/errgroup.WithContext":
								if params[v] {
									continue
								}
							}
						}
					}
					if ok, why := derived(d, depth+1); !ok {
						return false, why
					}
				}
				return true, ""
			}
			for _, call := range callsIn(fb, false) {
				fn, _ := callee(info, call).(*types.Func)
				if fn != nil && fn.Pkg() != nil && fn.Pkg().Path() == "context" {
					continue // the constructors themselves are judged where their result is used
				}
				for _, arg := range call.Args {
					tv, ok := info.Types[arg]
					if !ok || !isCtx(tv.Type) {
						continue
					}
					n++
					c.Fn(root)
					name := "value"
					if fn != nil {
						name = calleeName(fn)
					} else if v := varOf(info, call.Fun); v != nil {
						name = v.Name()
					}
					ok2, why := derived(arg, 0)
					c.Decide(ok2, "cancellation-propagates", ordinal(ord, name+"@"+fnDisplay(root)), call.Pos(), "context derived from the caller's",
						fmt.Sprintf("the context passed to %s in %s is %s: cancellation of the caller (a failed sibling, a signal) does not reach this callee, which goes on starting commands", name, fnDisplay(root), why))
				}
			}
		}
	}
	c.Floor("cancellation-propagates", n, 6)
}

// timestampStateIsReference (C05): the state file records the time of the last run; it always takes part in the comparison.
func timestampStateIsReference(c *Check, a *Anchors) {
	c.Rule("timestamp-state-is-reference", "in the timestamp checker's IsUpToDate the path of the per-task state file is appended to the reference files (the argument of the max-time computation) whenever the state file exists — under no other condition: a run that leaves its outputs untouched is remembered only through the state file's time, so without it the task re-runs on every invocation")
	ts := c.P.Func(PkgFingerprint, "TimestampChecker", "IsUpToDate")
	if ts == nil {
		c.Errorf("timestamp-state-is-reference: TimestampChecker.IsUpToDate not found")
		return
	}
	c.Fn(ts)
	info := ts.Info()
	// the variable holding the state file path: defined from a method of the checker whose name contains "FilePath" / from a path helper
	var pathVar *types.Var
	inspectBody(ts.Body, func(nd ast.Node) bool {
		if as, ok := nd.(*ast.AssignStmt); ok && len(as.Lhs) == 1 && len(as.Rhs) == 1 {
			if call, ok := ast.Unparen(as.Rhs[0]).(*ast.CallExpr); ok {
				if fn, ok := callee(info, call).(*types.Func); ok && statePathHelper(c, fn) {
					pathVar = varOf(info, as.Lhs[0])
				}
			}
		}
		return true
	})
	// the reference list: the variadic argument of the max-time helper
	var refVar *types.Var
	for _, call := range callsIn(ts, false) {
		if call.Ellipsis.IsValid() && len(call.Args) == 1 {
			if fn, ok := callee(info, call).(*types.Func); ok && fn.Pkg() != nil && fn.Pkg().Path() == PkgFingerprint {
				refVar = varOf(info, call.Args[0])
			}
		}
	}
	if pathVar == nil || refVar == nil {
		c.Errorf("timestamp-state-is-reference: state path variable or reference list not identified in %s", fnDisplay(ts))
		return
	}
	pm := parentMap(ts.Body)
	n := 0
	inspectBody(ts.Body, func(nd ast.Node) bool {
		as, ok := nd.(*ast.AssignStmt)
		if !ok || len(as.Lhs) != 1 || len(as.Rhs) != 1 || varOf(info, as.Lhs[0]) != refVar {
			return true
		}
		call, ok := ast.Unparen(as.Rhs[0]).(*ast.CallExpr)
		if !ok || !isBuiltin(info, call, "append") {
			return true
		}
		has := false
		for _, arg := range call.Args[1:] {
			if varOf(info, arg) == pathVar {
				has = true
			}
		}
		if !has {
			return true
		}
		n++
		var extra []string
		for p := pm[ast.Node(as)]; p != nil; p = pm[p] {
			ifs, ok := p.(*ast.IfStmt)
			if !ok {
				continue
			}
			inThen := within(as, ifs.Body)
			cond := ast.Unparen(ifs.Cond)
			be, isBin := cond.(*ast.BinaryExpr)
			if isBin && isNilLit(info, be.Y) && isErrorType(typeOf(info, be.X)) && ((be.Op == token.EQL && inThen) || (be.Op == token.NEQ && !inThen)) {
				continue // "the Stat succeeded"
			}
			extra = append(extra, exprStr(cond))
		}
		c.Decide(len(extra) == 0, "timestamp-state-is-reference", "append@"+fnDisplay(ts), as.Pos(), "the state file joins the reference files whenever it exists",
			"the state file is added to the reference files only when additionally `"+strings.Join(extra, "`, `")+"` holds: otherwise the time of the last run is ignored and a task whose commands leave the generated files untouched runs again on every invocation")
		return true
	})
	if n == 0 {
		c.Bad("timestamp-state-is-reference", "append@"+fnDisplay(ts), ts.Body.Pos(), "the state file path is never appended to the reference files of the timestamp comparison")
	}
}

func typeOf(info *types.Info, e ast.Expr) types.Type {
	if tv, ok := info.Types[e]; ok {
		return tv.Type
	}
	return nil
}

// setupOrder (C05 / C04): the setup steps form a pipeline over Executor fields: a step that reads a field runs after the step that writes it.
var setupOrderExceptions = map[string]string{}

func setupOrder(c *Check, a *Anchors, rule string) {
	c.Rule(rule, "Executor.Setup calls its steps in an order consistent with their data flow: whenever step A assigns an Executor field that step B reads, A is called before B (e.g. the fingerprint state directory is derived from Executor.Dir, which the root-node step replaces by the directory of the Taskfile actually found: deriving it earlier makes the state location depend on the working directory, so an unchanged task re-runs — or a changed one is skipped — when invoked from elsewhere)")
	setup := a.Setup
	if setup == nil {
		c.Errorf("%s: Executor.Setup not resolved", rule)
		return
	}
	c.Fn(setup)
	info := setup.Info()
	type step struct {
		name   string
		pos    token.Pos
		writes map[string]bool
		reads  map[string]bool
	}
	var steps []*step
	for _, call := range callsIn(setup, false) {
		fn, ok := callee(info, call).(*types.Func)
		if !ok {
			continue
		}
		fb := c.P.DeclOf(fn)
		if fb == nil || fb.Pkg.PkgPath != PkgTask || recvOf(fb) != "Executor" {
			continue
		}
		st := &step{name: fn.Name(), pos: call.Pos(), writes: map[string]bool{}, reads: map[string]bool{}}
		finfo := fb.Info()
		written := map[ast.Expr]bool{}
		fpm := parentMap(fb.Body)
		inspectDeep(fb.Body, func(nd ast.Node) bool {
			if as, ok := nd.(*ast.AssignStmt); ok {
				for _, l := range as.Lhs {
					if sel, ok := ast.Unparen(l).(*ast.SelectorExpr); ok {
						if s := finfo.Selections[sel]; s != nil && s.Kind() == types.FieldVal && isNamed(s.Recv(), PkgTask, "Executor") {
							written[sel] = true
							// `if e.F == <zero> { e.F = default }` only fills in a value the caller left unset: not a producer
							defaulting := false
							for p := fpm[ast.Node(as)]; p != nil; p = fpm[p] {
								if ifs, ok := p.(*ast.IfStmt); ok && within(as, ifs.Body) {
									if be, ok := ast.Unparen(ifs.Cond).(*ast.BinaryExpr); ok && be.Op == token.EQL {
										if xs, ok := ast.Unparen(be.X).(*ast.SelectorExpr); ok && finfo.Selections[xs] != nil && finfo.Selections[xs].Obj() == s.Obj() {
											defaulting = true
										}
									}
								}
							}
							if !defaulting {
								st.writes[sel.Sel.Name] = true
							}
						}
					}
				}
			}
			return true
		})
		inspectDeep(fb.Body, func(nd ast.Node) bool {
			if sel, ok := nd.(*ast.SelectorExpr); ok && !written[sel] {
				if s := finfo.Selections[sel]; s != nil && s.Kind() == types.FieldVal && isNamed(s.Recv(), PkgTask, "Executor") {
					st.reads[sel.Sel.Name] = true
				}
			}
			return true
		})
		steps = append(steps, st)
	}
	n := 0
	for i, b := range steps {
		for j, w := range steps {
			if i == j {
				continue
			}
			for f := range w.writes {
				if !b.reads[f] || b.writes[f] && w.reads[f] && j > i {
					continue
				}
				// b reads f, w writes f
				if b.writes[f] {
					continue // b (re)establishes the field itself: its reads are of its own value or of the user's option
				}
				n++
				key := fmt.Sprintf("%s reads %s written by %s", b.name, f, w.name)
				if why, ok := setupOrderExceptions[key]; ok {
					c.OK(rule, key, b.pos, "reviewed: "+why)
					continue
				}
				c.Decide(j < i, rule, key, b.pos, "the writer runs first",
					fmt.Sprintf("Setup calls %s before %s, but %s reads Executor.%s which %s assigns: the reader sees the field before it has its final value", b.name, w.name, b.name, f, w.name))
			}
		}
	}
	c.Floor(rule, n, 3)
}

// hashOptionsDefault + compiledFromDefinition (C06): the when_changed key is a faithful function of definition and variable values.
func hashOptionsDefault(c *Check, a *Anchors) {
	c.Rule("hash-options-faithful", "every call of hashstructure.Hash on the compiled task passes nil options or options that do not coarsen the key (no SlicesAsSets, IgnoreZeroValue, ZeroNil, UseStringer, custom TagName): with slices hashed as sets, calls whose values merely permute the generated commands collide and the second one is skipped")
	n := 0
	for _, fb := range c.P.BodiesIn(PkgHash) {
		info := fb.Info()
		for _, call := range callsIn(fb, true) {
			fn, ok := callee(info, call).(*types.Func)
			if !ok || fn.Pkg() == nil || !strings.Contains(fn.Pkg().Path(), "hashstructure") || fn.Name() != "Hash" {
				continue
			}
			n++
			c.Fn(fb)
			ok2 := len(call.Args) >= 3 && isNilLit(info, call.Args[2])
			why := ""
			if !ok2 && len(call.Args) >= 3 {
				var bad []string
				ast.Inspect(call.Args[2], func(m ast.Node) bool {
					if kv, ok := m.(*ast.KeyValueExpr); ok {
						if id, ok := kv.Key.(*ast.Ident); ok {
							switch id.Name {
							case "SlicesAsSets", "IgnoreZeroValue", "ZeroNil", "UseStringer", "TagName":
								if !constIs(info, kv.Value, "false") && !constIs(info, kv.Value, `""`) {
									bad = append(bad, id.Name)
								}
							}
						}
					}
					return true
				})
				if _, isLit := ast.Unparen(call.Args[2]).(*ast.UnaryExpr); isLit && len(bad) == 0 {
					ok2 = true
				}
				why = strings.Join(bad, ", ")
				if why == "" {
					why = "options that are not a literal (cannot be shown to be the defaults)"
				}
			}
			c.Decide(ok2, "hash-options-faithful", "Hash@"+fnDisplay(fb), call.Pos(), "default options", "the when_changed key is computed with "+why+": distinct sets of values (e.g. the same commands in another order) get the same key and the second call is skipped")
		}
	}
	c.Floor("hash-options-faithful", n, 1)
}

func compiledFromDefinition(c *Check, a *Anchors, rule string) {
	c.Rule(rule, "in the task compiler no field of the compiled ast.Task is computed from the call object itself (call.Silent, call.Indirect ...): the call contributes its variables through the variable resolver only. The compiled task is what run: when_changed hashes and what every later stage reads, so a call attribute copied into it makes two references with identical values differ (the task runs twice) or leaks how the task was reached into its behaviour")
	fb := a.CompiledTask
	task := c.P.NamedType(PkgAst, "Task")
	if fb == nil || task == nil {
		c.Errorf("%s: task compiler not resolved", rule)
		return
	}
	c.Fn(fb)
	info := fb.Info()
	var callParam *types.Var
	for _, fld := range fb.Type.Params.List {
		for _, id := range fld.Names {
			if v, ok := info.Defs[id].(*types.Var); ok {
				if nt := namedOf(v.Type()); nt != nil && nt.Obj().Name() == "Call" {
					callParam = v
				}
			}
		}
	}
	if callParam == nil {
		c.Errorf("%s: the task compiler has no *Call parameter", rule)
		return
	}
	fields, lit := producedFields(fb, task)
	if lit == nil {
		c.Errorf("%s: no ast.Task literal in the task compiler", rule)
		return
	}
	n := 0
	names := make([]string, 0, len(fields))
	for k := range fields {
		names = append(names, k)
	}
	sort.Strings(names)
	for _, name := range names {
		n++
		bad := ""
		ast.Inspect(fields[name], func(m ast.Node) bool {
			if sel, ok := m.(*ast.SelectorExpr); ok && varOf(info, sel.X) == callParam {
				bad = exprStr(sel)
			}
			return true
		})
		c.Decide(bad == "", rule, "Task."+name+"@"+fnDisplay(fb), fields[name].Pos(), "computed from the definition and the resolved variables",
			"the compiled field "+name+" is computed from `"+bad+"`: an attribute of the call, not of the definition or the variable values, becomes part of the compiled task (and of its when_changed key)")
	}
	c.Floor(rule, n, 30)
}

// namespaceAlwaysPrepended (C08): the namespacing helper has exactly two behaviours.
func namespaceAlwaysPrepended(c *Check, a *Anchors) {
	c.Rule("namespace-always-prepended", "the helper Tasks.Merge uses to namespace task names, dependency targets, call targets and aliases returns, for every name that is not a root reference (leading separator), an expression built from BOTH the namespace and the name; no other branch returns the name unchanged or shortened — an 'already qualified' shortcut binds a task or reference of the included file to a different name than <namespace>:<task> (a task named docker:login in an include called docker, a nested include that re-uses its parent's namespace)")
	merge := c.P.Func(PkgAst, "Tasks", "Merge")
	if merge == nil {
		c.Errorf("namespace-always-prepended: Tasks.Merge not found")
		return
	}
	// every (string, string) string function of the package that the merge group calls with Include.Namespace is judged
	type site struct {
		info *types.Info
		call *ast.CallExpr
	}
	var sites []site
	for _, g := range mergeGroup(c, merge) {
		for _, call := range callsIn(g, true) {
			sites = append(sites, site{g.Info(), call})
		}
	}
	helpers := map[*FuncBody]int{} // helper -> index of the namespace parameter
	var order []*FuncBody
	for _, st := range sites {
		fn, ok := callee(st.info, st.call).(*types.Func)
		if !ok || fn.Pkg() == nil || fn.Pkg().Path() != PkgAst || len(st.call.Args) != 2 {
			continue
		}
		d := c.P.DeclOf(fn)
		if d == nil || d.Decl == nil || d.Type.Results == nil || d.Type.Results.NumFields() != 1 {
			continue
		}
		sig := fn.Type().(*types.Signature)
		if types.TypeString(sig.Results().At(0).Type(), nil) != "string" {
			continue
		}
		for i, arg := range st.call.Args {
			if fieldOrLocalOf(c.P, st.info, arg, PkgAst, "Include", "Namespace") {
				if _, seen := helpers[d]; !seen {
					order = append(order, d)
				}
				helpers[d] = i
			}
		}
	}
	if len(order) == 0 {
		c.Errorf("namespace-always-prepended: no helper of taskfile/ast receives Include.Namespace in Tasks.Merge")
		return
	}
	n := 0
	ord := map[string]int{}
	for _, helper := range order {
		nsIdx := helpers[helper]
		c.Fn(helper)
		info := helper.Info()
		var params []*types.Var
		for _, fld := range helper.Type.Params.List {
			for _, id := range fld.Names {
				if v, ok := info.Defs[id].(*types.Var); ok {
					params = append(params, v)
				}
			}
		}
		if len(params) != 2 {
			c.Errorf("namespace-always-prepended: helper %s does not have (name, namespace) parameters", fnDisplay(helper))
			continue
		}
		ns, name := params[nsIdx], params[1-nsIdx]
		mentions := func(e ast.Expr, v *types.Var, depth int) bool {
			return mentionsVia(info, helper.Body, e, v, depth)
		}
		pm := parentMap(helper.Body)
		for _, r := range returnsOf(helper.Body) {
			if len(r.Results) != 1 {
				continue
			}
			n++
			res := r.Results[0]
			// is this return governed by "the name starts with the separator"
			root := false
			for p := pm[ast.Node(r)]; p != nil; p = pm[p] {
				if ifs, ok := p.(*ast.IfStmt); ok && within(r, ifs.Body) {
					if x, pfx, _, ok := prefixTest(info, ifs); ok && varOf(info, x) == name && constIs(info, pfx, `":"`) {
						root = true
					}
				}
			}
			key := ordinal(ord, "return@"+fnDisplay(helper))
			if root {
				c.OK("namespace-always-prepended", key, r.Pos(), "root-reference branch")
				continue
			}
			both := mentions(res, ns, 2) && mentions(res, name, 2)
			c.Decide(both, "namespace-always-prepended", key, r.Pos(), "built from the namespace and the name",
				"outside the root-reference branch the helper returns `"+exprStr(res)+"`, which is not built from both the namespace and the name: some names of an included Taskfile are registered (or referenced) without their namespace — a dependency or task call written with such a name is bound to a task of another file (or to none)")
		}
	}
	c.Floor("namespace-always-prepended", n, 2)
}

// environIsLowest (C10): the process environment is the bottom layer wherever variable sets are combined.
func environIsLowest(c *Check, a *Anchors) {
	c.Rule("environ-is-base", "wherever the process environment (env.GetEnviron()) is combined with Taskfile variables — the variable resolver, the templating of include statements, dotenv evaluation — it is the BASE set that the others are merged into: it is never passed as the argument of Vars.Merge (the argument wins over the receiver), so a global variable always beats an environment variable of the same name")
	n := 0
	ord := map[string]int{}
	for _, fb := range c.P.Bodies() {
		if !strings.HasPrefix(fb.Pkg.PkgPath, Mod) || bceSkipPkgs[fb.Pkg.PkgPath] {
			continue
		}
		info := fb.Info()
		root := fb.Root()
		envVars := map[*types.Var]bool{}
		isEnvCall := func(e ast.Expr) bool {
			call, ok := ast.Unparen(e).(*ast.CallExpr)
			return ok && isFunc(callee(info, call), PkgEnv, "", "GetEnviron")
		}
		found := false
		inspectBody(fb.Body, func(nd ast.Node) bool {
			if as, ok := nd.(*ast.AssignStmt); ok && len(as.Lhs) == len(as.Rhs) {
				for i, r := range as.Rhs {
					if isEnvCall(r) {
						if v := varOf(info, as.Lhs[i]); v != nil {
							envVars[v] = true
						}
					}
				}
			}
			if call, ok := nd.(*ast.CallExpr); ok && isEnvCall(call) {
				found = true
			}
			return true
		})
		if !found {
			continue
		}
		n++
		c.Fn(root)
		bad := ""
		inspectDeep(fb.Body, func(nd ast.Node) bool {
			call, ok := nd.(*ast.CallExpr)
			if !ok {
				return true
			}
			fn, ok := callee(info, call).(*types.Func)
			if !ok || fn.Name() != "Merge" || fn.Pkg() == nil || fn.Pkg().Path() != PkgAst {
				return true
			}
			for _, arg := range call.Args {
				if isEnvCall(arg) || (varOf(info, arg) != nil && envVars[varOf(info, arg)]) {
					bad = exprStr(call)
				}
			}
			return true
		})
		c.Decide(bad == "", "environ-is-base", ordinal(ord, "GetEnviron@"+fnDisplay(root)), fb.Body.Pos(), "the environment is the receiver (base) of every merge",
			"`"+bad+"` merges the process environment INTO another variable set: Merge lets its argument win, so an environment variable overrides a Taskfile variable of the same name here")
	}
	c.Floor("environ-is-base", n, 2)
}

// memoOnlySuccess (C11): a failed evaluation is not remembered.
func memoOnlySuccess(c *Check, a *Anchors) {
	c.Rule("memo-only-success", "in the dynamic-variable evaluator every store into the memo table (Compiler.dynamicCache) is dominated by the nil edge of the command that produced the value (execext.RunCommand, or a helper of the evaluator that runs it and returns a nil error only when the command succeeded): the partial output of a failed `sh:` command must not be served to later evaluations of the same text in this invocation (a task would then see a value that depends on an earlier task's failure)")
	fb := a.HandleDynamicVar
	if fb == nil {
		c.Errorf("memo-only-success: dynamic-variable evaluator not resolved")
		return
	}
	group := c.P.groupOf(fb, 2)
	// helpers of the evaluator that run the command themselves
	producer := map[*FuncBody]bool{}
	for _, g := range group {
		if g == fb {
			continue
		}
		for _, call := range callsIn(g, true) {
			if isFunc(callee(g.Info(), call), PkgExecext, "", "RunCommand") {
				producer[g] = true
			}
		}
	}
	memo := memoOf(c.P)
	label := func(g *FuncBody) Labeler {
		return func(call *ast.CallExpr, obj types.Object) string {
			if isFunc(obj, PkgExecext, "", "RunCommand") {
				return "run"
			}
			if memo.accessor(g.Info(), call) == "store" {
				return "memo.store"
			}
			for p := range producer {
				if p != g && a.is(obj, p) {
					return "run"
				}
			}
			return ""
		}
	}
	n := 0
	for _, g := range group {
		info := g.Info()
		if g.Obj != nil && memo.Store[g.Obj] {
			continue // the accessor that performs the store: judged at its call sites
		}
		hasStore := false
		inspectBody(g.Body, func(nd ast.Node) bool {
			if as, ok := nd.(*ast.AssignStmt); ok {
				for _, l := range as.Lhs {
					if ix, ok := ast.Unparen(l).(*ast.IndexExpr); ok && (fieldSel(info, ix.X, PkgTask, "Compiler", "dynamicCache") || memo.IsMap(info, ix.X)) {
						hasStore = true
					}
				}
			}
			if call, ok := nd.(*ast.CallExpr); ok && memo.accessor(info, call) == "store" {
				hasStore = true
			}
			return true
		})
		if !hasStore && !producer[g] {
			continue
		}
		c.Fn(g)
		f := NewFlow(c.P, g, label(g))
		f.Run()
		for node, st := range f.At {
			as, ok := node.(*ast.AssignStmt)
			if !ok {
				continue
			}
			for _, l := range as.Lhs {
				ix, ok := ast.Unparen(l).(*ast.IndexExpr)
				if !ok || !(fieldSel(info, ix.X, PkgTask, "Compiler", "dynamicCache") || memo.IsMap(info, ix.X)) {
					continue
				}
				n++
				c.Decide(st.Has("called:run") && st.Has("nil:run"), "memo-only-success", fmt.Sprintf("store#%d@%s", n, fnDisplay(g)), as.Pos(), "stored only after the command succeeded",
					"the memo table is written on a path where the `sh:` command's error is not established nil (must-facts: "+st.String()+"): the output of a failed command is cached and returned, without an error, to the next evaluation of the same command text")
			}
		}
		for call, l := range f.Labels {
			if l != "memo.store" {
				continue
			}
			st := f.At[call]
			n++
			c.Decide(st.Has("called:run") && st.Has("nil:run"), "memo-only-success", fmt.Sprintf("store#%d@%s", n, fnDisplay(g)), call.Pos(), "stored (through an accessor) only after the command succeeded",
				"the memo table is written on a path where the `sh:` command's error is not established nil (must-facts: "+st.String()+"): the output of a failed command is cached and returned, without an error, to the next evaluation of the same command text")
		}
		if producer[g] {
			// the helper's own discipline: a nil error only after the command succeeded
			for i, r := range f.Returns {
				res := errResult(r)
				if res == nil || !isNilLit(info, res) || !f.At[r].Has("called:run") {
					continue
				}
				n++
				c.Decide(f.At[r].Has("nil:run"), "memo-only-success", fmt.Sprintf("helper-success-return#%d@%s", i+1, fnDisplay(g)), r.Pos(), "the helper reports success only after the command succeeded",
					"the helper that runs the `sh:` command returns a nil error on a path where the command's error is not established nil: its caller stores the value in the memo table as if the command had succeeded")
			}
		}
	}
	c.Floor("memo-only-success", n, 1)
}

// templatePerString (C11 / C18): each string is parsed into a template of its own.
func templatePerString(c *Check, a *Anchors) {
	c.Rule("template-per-string", "every text/template Parse / New / Execute in Task's own code is applied to a template created by the package-level constructor template.New in the same function activation, never to a template stored in a package-level variable or a struct field: templates derived from a shared one share its set of named templates ({{define}} / {{block}}), so one task's definitions leak into — and race with — another's")
	n := 0
	ord := map[string]int{}
	for _, fb := range c.P.Bodies() {
		if !strings.HasPrefix(fb.Pkg.PkgPath, Mod) || bceSkipPkgs[fb.Pkg.PkgPath] {
			continue
		}
		info := fb.Info()
		for _, call := range callsIn(fb, false) {
			fn, ok := callee(info, call).(*types.Func)
			if !ok || fn.Pkg() == nil || !strings.HasSuffix(fn.Pkg().Path(), "/template") {
				continue
			}
			sig := fn.Type().(*types.Signature)
			if sig.Recv() == nil {
				continue
			}
			switch fn.Name() {
			case "Parse", "New", "Execute", "ExecuteTemplate", "Funcs", "AddParseTree", "Resolve":
			default:
				continue
			}
			sel, ok := ast.Unparen(call.Fun).(*ast.SelectorExpr)
			if !ok {
				continue
			}
			// walk down the receiver chain to its root
			root := ast.Unparen(sel.X)
			for {
				if rc, ok := root.(*ast.CallExpr); ok {
					if rs, ok := ast.Unparen(rc.Fun).(*ast.SelectorExpr); ok {
						if rf, ok := callee(info, rc).(*types.Func); ok && rf.Type().(*types.Signature).Recv() != nil {
							root = ast.Unparen(rs.X)
							continue
						}
					}
				}
				break
			}
			n++
			c.Fn(fb.Root())
			fresh, what := false, exprStr(root)
			if rc, ok := root.(*ast.CallExpr); ok {
				if rf, ok := callee(info, rc).(*types.Func); ok && rf.Name() == "New" && rf.Type().(*types.Signature).Recv() == nil {
					fresh = true
				}
			} else if v := varOf(info, root); v != nil {
				if v.Parent() != nil && v.Parent() != v.Pkg().Scope() && !v.IsField() {
					// a local: every definition must be rooted at template.New
					defs := defsOf(info, fb.Root().Body, v)
					fresh = len(defs) > 0
					for _, d := range defs {
						ok := false
						ast.Inspect(d, func(m ast.Node) bool {
							if rc, isCall := m.(*ast.CallExpr); isCall {
								if rf, isFn := callee(info, rc).(*types.Func); isFn && rf.Name() == "New" && rf.Type().(*types.Signature).Recv() == nil && rf.Pkg() != nil && strings.HasSuffix(rf.Pkg().Path(), "/template") {
									ok = true
								}
							}
							return true
						})
						// a definition that chains from another package-level template is not fresh
						ast.Inspect(d, func(m ast.Node) bool {
							if id, isId := m.(*ast.Ident); isId {
								if pv, isVar := info.Uses[id].(*types.Var); isVar && pv.Parent() == pv.Pkg().Scope() && namedOf(pv.Type()) != nil && namedOf(pv.Type()).Obj().Name() == "Template" {
									ok = false
								}
							}
							return true
						})
						if !ok {
							fresh = false
						}
					}
				} else {
					what = "package-level / field `" + v.Name() + "`"
				}
			}
			c.Decide(fresh, "template-per-string", ordinal(ord, fn.Name()+"@"+fnDisplay(fb.Root())), call.Pos(), "applied to a template created by template.New in this activation",
				"(*Template)."+fn.Name()+" is applied to "+what+", not to a template freshly created by template.New here: templates created from a shared template share its named sub-templates, so {{define}}/{{block}} bodies of one task are visible in (and written concurrently with) another task's templates")
		}
	}
	c.Floor("template-per-string", n, 3)
}

// extrasWin (C14 / C02): EXIT_CODE and the loop variables shadow ordinary variables of the same name, not the reverse.
func extrasWin(c *Check, a *Anchors) {
	c.Rule("extras-win", "in every templater function that receives an `extra` map, the data handed to the template engine is the variable map with the extras copied OVER it (maps.Copy(data, extra) onto a clone of the cache map): the extras are never the base that the variable map is copied over — otherwise a variable named EXIT_CODE / ITEM / KEY anywhere in scope (Taskfile default, caller, process environment) replaces the real exit code or loop value")
	n := 0
	for _, fb := range c.P.BodiesIn(PkgTemplater) {
		if fb.Decl == nil {
			continue
		}
		info := fb.Info()
		var extra *types.Var
		for _, fld := range fb.Type.Params.List {
			for _, id := range fld.Names {
				if v, ok := info.Defs[id].(*types.Var); ok && id.Name == "extra" {
					if _, isMap := v.Type().Underlying().(*types.Map); isMap {
						extra = v
					}
				}
			}
		}
		if extra == nil {
			continue
		}
		// only functions that build template data themselves (mention the cache map, directly or through an accessor method
		// of Cache that returns it)
		usesCacheMap := false
		inspectDeep(fb.Body, func(nd ast.Node) bool {
			if e, ok := nd.(ast.Expr); ok && isCacheMapExpr(c, info, e) {
				usesCacheMap = true
			}
			return true
		})
		if !usesCacheMap {
			continue
		}
		n++
		c.Fn(fb)
		over, under := false, ""
		inspectDeep(fb.Body, func(nd ast.Node) bool {
			call, ok := nd.(*ast.CallExpr)
			if !ok || !isFunc(callee(info, call), "maps", "", "Copy") || len(call.Args) != 2 {
				return true
			}
			dst, src := call.Args[0], call.Args[1]
			dstFromExtra := mentionsVia(info, fb.Body, dst, extra, 2)
			srcIsExtra := varOf(info, src) == extra
			srcIsCache := false
			ast.Inspect(src, func(m ast.Node) bool {
				if e, ok := m.(ast.Expr); ok && isCacheMapExpr(c, info, e) {
					srcIsCache = true
				}
				return true
			})
			if v := varOf(info, src); v != nil {
				for _, d := range defsOf(info, fb.Body, v) {
					if isCacheMapExpr(c, info, d) {
						srcIsCache = true
					}
				}
			}
			if srcIsExtra && !dstFromExtra {
				over = true
			}
			if srcIsCache && dstFromExtra {
				under = exprStr(call)
			}
			return true
		})
		switch {
		case under != "":
			c.Bad("extras-win", "data@"+fnDisplay(fb), fb.Body.Pos(), "`"+under+"` copies the variable map over a copy of the extras: an ordinary variable named like an extra (EXIT_CODE, ITEM, KEY) shadows it")
		case !over:
			c.Bad("extras-win", "data@"+fnDisplay(fb), fb.Body.Pos(), "no maps.Copy(data, extra) onto a copy of the variable map: the extras do not reach the template data (or not with priority)")
		default:
			c.OK("extras-win", "data@"+fnDisplay(fb), fb.Body.Pos(), "extras copied over a clone of the variable map")
		}
	}
	c.Floor("extras-win", n, 2)
}

// deferIndexConsistent (C14): the deferred runner renders and runs the same element.
func deferIndexConsistent(c *Check, a *Anchors) {
	c.Rule("defer-index-consistent", "in the deferred-command runner every Cmds[...] indexing is applied to the compiled task it was handed (the one it forwards to the command runner with the same index): the definition's command list does not line up with the compiled one as soon as a for-loop expanded or a null entry was dropped, so reading the text from the definition renders — and runs — a different entry")
	fb := a.DeferRunner
	if fb == nil {
		c.Errorf("defer-index-consistent: deferred-command runner not resolved")
		return
	}
	c.Fn(fb)
	info := fb.Info()
	// the task parameter forwarded to the command runner
	var fwd *types.Var
	for _, call := range callsIn(fb, false) {
		if a.is(callee(info, call), a.CmdRunner) {
			for _, arg := range call.Args {
				if v := varOf(info, arg); v != nil {
					if nt := namedOf(v.Type()); nt != nil && nt.Obj().Name() == "Task" && handedIn(info, fb, v, arg) {
						fwd = v
					}
				}
			}
		}
	}
	if fwd == nil {
		c.Errorf("defer-index-consistent: the deferred runner does not forward a *ast.Task parameter to the command runner")
		return
	}
	n := 0
	inspectBody(fb.Body, func(nd ast.Node) bool {
		ix, ok := nd.(*ast.IndexExpr)
		if !ok || !fieldSel(info, ix.X, PkgAst, "Task", "Cmds") {
			return true
		}
		n++
		sel := ast.Unparen(ix.X).(*ast.SelectorExpr)
		c.Decide(varOf(info, sel.X) == fwd, "defer-index-consistent", fmt.Sprintf("Cmds-index#%d@%s", n, fnDisplay(fb)), ix.Pos(), "indexes the compiled task that is forwarded to the command runner",
			"`"+exprStr(ix)+"` indexes the command list of `"+exprStr(sel.X)+"`, not of the compiled task `"+fwd.Name()+"` that the runner executes with the same index: after a for-loop expansion the two lists differ, so another entry's text is rendered into the deferred slot")
		return true
	})
	c.Floor("defer-index-consistent", n, 1)
}

// handedIn: v (the variable of expression e) is something the function was handed rather than something it looked up: a
// parameter, a field path of a parameter or of the receiver without a call in it (`d.t`), or a local whose only definition
// is such a path (`e, t, call := d.e, d.t, d.call`).
func handedIn(info *types.Info, fb *FuncBody, v *types.Var, e ast.Expr) bool {
	if isParamOf(info, fb, v) {
		return true
	}
	pathOfParam := func(x ast.Expr) bool {
		x = ast.Unparen(x)
		if _, ok := x.(*ast.SelectorExpr); !ok {
			return false
		}
		hasCall := false
		ast.Inspect(x, func(n ast.Node) bool {
			if _, ok := n.(*ast.CallExpr); ok {
				hasCall = true
			}
			return true
		})
		r := rootVar(info, x)
		return !hasCall && r != nil && (isParamOf(info, fb, r) || isRecvOf(info, fb, r))
	}
	if v.IsField() {
		return pathOfParam(e)
	}
	if def := singleDef(info, fb.Body, v); def != nil {
		return pathOfParam(def)
	}
	return false
}

// fuzzyTrainedOnNames (C15): the suggestion model knows every name a task can be requested by.
func fuzzyTrainedOnNames(c *Check, a *Anchors) {
	c.Rule("fuzzy-trained-on-names", "the function that trains the 'did you mean' model feeds it, for every task of the merged Taskfile, the name the task is registered under (the key of the task table, or Task.Task) and its aliases — not a display attribute such as Name() (which returns the label when one is set): a typo of a labelled task's name must still be answered with the closest existing task name")
	var trainer *FuncBody
	for _, fb := range c.P.BodiesIn(PkgTask) {
		if fb.Decl == nil {
			continue
		}
		info := fb.Info()
		inspectBody(fb.Body, func(nd ast.Node) bool {
			if as, ok := nd.(*ast.AssignStmt); ok {
				for _, l := range as.Lhs {
					if fieldSel(info, l, PkgTask, "Executor", "fuzzyModel") {
						trainer = fb
					}
				}
			}
			return true
		})
	}
	if trainer == nil {
		c.Errorf("fuzzy-trained-on-names: no function assigns Executor.fuzzyModel")
		return
	}
	c.Fn(trainer)
	info := trainer.Info()
	n := 0
	inspectBody(trainer.Body, func(nd ast.Node) bool {
		r, ok := nd.(*ast.RangeStmt)
		if !ok {
			return true
		}
		call, ok := ast.Unparen(r.X).(*ast.CallExpr)
		if !ok {
			return true
		}
		fn, ok := callee(info, call).(*types.Func)
		if !ok || fn.Pkg() == nil || fn.Pkg().Path() != PkgAst || namedOf(fn.Type().(*types.Signature).Recv().Type()) == nil || namedOf(fn.Type().(*types.Signature).Recv().Type()).Obj().Name() != "Tasks" {
			return true
		}
		n++
		var keyVar *types.Var
		if fn.Name() == "All" || fn.Name() == "Keys" {
			if r.Key != nil {
				keyVar = varOf(info, r.Key)
			}
		}
		name, aliases := false, false
		ast.Inspect(r.Body, func(m ast.Node) bool {
			ac, ok := m.(*ast.CallExpr)
			if !ok {
				return true
			}
			isAppend := isBuiltin(info, ac, "append")
			isConcat := isFunc(callee(info, ac), "slices", "", "Concat")
			if !isAppend && !isConcat {
				return true
			}
			for _, arg := range ac.Args[1:] {
				if keyVar != nil && varOf(info, arg) == keyVar {
					name = true
				}
				if fieldSel(info, arg, PkgAst, "Task", "Task") {
					name = true
				}
				if fieldSel(info, arg, PkgAst, "Task", "Aliases") {
					aliases = true
				}
			}
			return true
		})
		c.Decide(name, "fuzzy-trained-on-names", "names@"+fnDisplay(trainer), r.Pos(), "the registered name of every task is a training word",
			"the training loop never appends the task-table key (or Task.Task): the model is trained on something else (e.g. Name(), the label), so a mistyped task name gets no suggestion, or one that is not a task name")
		c.Decide(aliases, "fuzzy-trained-on-names", "aliases@"+fnDisplay(trainer), r.Pos(), "the aliases of every task are training words",
			"the training loop does not add Task.Aliases to the model")
		return true
	})
	c.Floor("fuzzy-trained-on-names", n, 1)
	// the words reach the model as they are: the trained slice is only ever extended with names / aliases — no element is
	// rewritten (case folding, trimming ...), the slice is not mapped through a function on its way to Train
	for _, call := range callsIn(trainer, false) {
		fn, _ := callee(info, call).(*types.Func)
		if fn == nil || fn.Name() != "Train" || len(call.Args) != 1 {
			continue
		}
		w := varOf(info, call.Args[0])
		why := ""
		if w == nil {
			why = "the model is trained on `" + exprStr(call.Args[0]) + "`, not on the accumulated list itself"
		} else {
			for _, d := range defsOf(info, trainer.Body, w) {
				d = ast.Unparen(d)
				if isNilLit(info, d) {
					continue
				}
				dc, ok := d.(*ast.CallExpr)
				okDef := ok && (isBuiltin(info, dc, "append") || isFunc(callee(info, dc), "slices", "", "Concat") || isBuiltin(info, dc, "make")) && (isBuiltin(info, dc, "make") || varOf(info, dc.Args[0]) == w)
				if okDef && !isBuiltin(info, dc, "make") {
					for _, arg := range dc.Args[1:] {
						if _, isCall := ast.Unparen(arg).(*ast.CallExpr); isCall {
							okDef = false // append(words, f(name))
						}
					}
				}
				if !okDef {
					why = "the list is assigned `" + exprStr(d) + "`"
				}
			}
			inspectBody(trainer.Body, func(m ast.Node) bool {
				if as, ok := m.(*ast.AssignStmt); ok {
					for _, l := range as.Lhs {
						if ix, ok := ast.Unparen(l).(*ast.IndexExpr); ok && varOf(info, ix.X) == w {
							why = "an element of the list is rewritten (`" + exprStr(l) + " = " + exprStr(as.Rhs[0]) + "`)"
						}
					}
				}
				return true
			})
		}
		c.Decide(why == "", "fuzzy-trained-on-names", "words-unmodified@"+fnDisplay(trainer), call.Pos(), "the model is trained on the names and aliases as they are",
			"the words do not reach the model as they are registered: "+why+". The suggestion is whatever word the model holds — a folded or otherwise rewritten name is not an existing task name (`Did you mean \"deploy\"?` for a task called Deploy)")
	}
}

// aliasFromLocalName (C15 / C08): namespace aliases are built from the task's name inside its own file.
func aliasFromLocalName(c *Check, a *Anchors) {
	c.Rule("alias-from-local-name", "in Tasks.Merge every call of the namespacing helper is applied to a name of the INCLUDED file (the loop key, a dependency / call target, an alias of the original task): a field that the same iteration has already rewritten with the namespace (task.Task, task.Aliases[i] ...) is not namespaced a second time — <include-alias>:<task> must resolve, <include-alias>:<namespace>:<task> must not")
	merge := c.P.Func(PkgAst, "Tasks", "Merge")
	if merge == nil {
		c.Errorf("alias-from-local-name: Tasks.Merge not found")
		return
	}
	n := 0
	ord := map[string]int{}
	for _, scope := range mergeGroup(c, merge) {
		n += aliasFromLocalNameIn(c, a, scope, ord)
	}
	c.Floor("alias-from-local-name", n, 4)
}

func aliasFromLocalNameIn(c *Check, a *Anchors, merge *FuncBody, ord map[string]int) int {
	c.Fn(merge)
	info := merge.Info()
	// positions at which a field of the copied task is assigned a namespaced value
	type asg struct {
		field string
		pos   token.Pos
	}
	var rewrites []asg
	isHelperCall := func(e ast.Expr) bool {
		call, ok := ast.Unparen(e).(*ast.CallExpr)
		if !ok {
			return false
		}
		for _, arg := range call.Args {
			if fieldOrLocalOf(c.P, info, arg, PkgAst, "Include", "Namespace") {
				return true
			}
		}
		return false
	}
	inspectBody(merge.Body, func(nd ast.Node) bool {
		if as, ok := nd.(*ast.AssignStmt); ok && len(as.Lhs) == 1 && len(as.Rhs) == 1 {
			if sel, ok := ast.Unparen(as.Lhs[0]).(*ast.SelectorExpr); ok && fieldSel(info, sel, PkgAst, "Task", sel.Sel.Name) {
				namespaced := isHelperCall(as.Rhs[0])
				if v := varOf(info, as.Rhs[0]); v != nil {
					for _, d := range defsOf(info, merge.Body, v) {
						if isHelperCall(d) {
							namespaced = true
						}
					}
				}
				if namespaced {
					rewrites = append(rewrites, asg{sel.Sel.Name, as.Pos()})
				}
			}
		}
		return true
	})
	n := 0
	for _, call := range callsIn(merge, true) {
		fn, ok := callee(info, call).(*types.Func)
		if !ok || fn.Pkg() == nil || fn.Pkg().Path() != PkgAst || len(call.Args) != 2 {
			continue
		}
		if d := c.P.DeclOf(fn); d == nil || d.Type.Results == nil || fn.Type().(*types.Signature).Recv() != nil {
			continue
		}
		if types.TypeString(fn.Type().(*types.Signature).Results().At(0).Type(), nil) != "string" {
			continue
		}
		n++
		bad := ""
		for _, arg := range call.Args {
			sel, ok := ast.Unparen(arg).(*ast.SelectorExpr)
			if !ok || !fieldSel(info, sel, PkgAst, "Task", sel.Sel.Name) {
				continue
			}
			for _, rw := range rewrites {
				if rw.field == sel.Sel.Name && rw.pos < call.Pos() {
					bad = exprStr(sel)
				}
			}
		}
		c.Decide(bad == "", "alias-from-local-name", ordinal(ord, "helper-call@"+fnDisplay(merge)), call.Pos(), "applied to a name of the included file",
			"the namespacing helper is applied to `"+bad+"`, which this iteration has already rewritten with the include's namespace: the resulting alias is <alias>:<namespace>:<task> instead of <alias>:<task>")
	}
	return n
}

// containerValuesNonNil (C16): a YAML null never becomes a nil element of an ordered container.
func containerValuesNonNil(c *Check, a *Anchors) {
	c.Rule("container-values-non-nil", "in the decoders of taskfile/ast (UnmarshalYAML) every pointer stored into an ordered container (Tasks / Vars / Includes / Matrix .Set) is the address of a local value or literal — never a pointer variable that yaml filled through Decode(&ptr): yaml.v3 leaves such a pointer nil for a null node (and does not call the element's own UnmarshalYAML), and the readers of these containers dereference their elements without a nil test")
	n := 0
	ord := map[string]int{}
	for _, fb := range c.P.BodiesIn(PkgAst) {
		if fb.Decl == nil || fb.Decl.Name.Name != "UnmarshalYAML" {
			continue
		}
		info := fb.Info()
		for _, call := range callsIn(fb, true) {
			fn, ok := callee(info, call).(*types.Func)
			if !ok || fn.Name() != "Set" || fn.Pkg() == nil || fn.Pkg().Path() != PkgAst || len(call.Args) != 2 {
				continue
			}
			tv, ok := info.Types[call.Args[1]]
			if !ok {
				continue
			}
			if _, isPtr := tv.Type.Underlying().(*types.Pointer); !isPtr {
				continue
			}
			n++
			c.Fn(fb)
			arg := ast.Unparen(call.Args[1])
			okArg, why := false, ""
			switch x := arg.(type) {
			case *ast.UnaryExpr:
				okArg = x.Op == token.AND
			case *ast.CallExpr:
				okArg = true // constructor result
			default:
				if v := varOf(info, arg); v != nil {
					// a pointer variable: every definition must be an address-of / constructor, and it must not be a Decode target
					decoded := false
					inspectDeep(fb.Body, func(m ast.Node) bool {
						if dc, ok := m.(*ast.CallExpr); ok {
							if dfn, ok := callee(info, dc).(*types.Func); ok && dfn.Name() == "Decode" && len(dc.Args) == 1 {
								if u, ok := ast.Unparen(dc.Args[0]).(*ast.UnaryExpr); ok && u.Op == token.AND && varOf(info, u.X) == v {
									decoded = true
								}
							}
						}
						return true
					})
					tested := false
					inspectDeep(fb.Body, func(m ast.Node) bool {
						if be, ok := m.(*ast.BinaryExpr); ok && (be.Op == token.EQL || be.Op == token.NEQ) && varOf(info, be.X) == v && isNilLit(info, be.Y) {
							tested = true
						}
						return true
					})
					okArg = !decoded || tested
					why = "`" + v.Name() + "` is a pointer that yaml fills through Decode(&" + v.Name() + ") and is never compared with nil"
				}
			}
			if why == "" {
				why = "`" + exprStr(arg) + "` is not the address of a local value"
			}
			c.Decide(okArg, "container-values-non-nil", ordinal(ord, "Set@"+fnDisplay(fb)), call.Pos(), "the stored pointer is the address of a decoded value",
				why+": a null entry (`KEY:` / `KEY: ~`) is stored as a nil element and dereferenced when the task is compiled or listed (nil-pointer panic instead of a decode error)")
		}
	}
	c.Floor("container-values-non-nil", n, 3) // (a minimum against vacuity: two stores of one decoder may be merged into one)
}

// lockReleasedOnEveryExit (C16 / C07): no return leaves a mutex locked.
func lockReleasedOnEveryExit(c *Check, a *Anchors, rule string) {
	c.Rule(rule, "in every function of Task's own code that locks a sync.Mutex / RWMutex field without deferring the unlock, no return statement is reached with the mutex held on every path leading to it (must-dataflow: Lock establishes `held`, Unlock and a registered deferred Unlock discharge it): an early error return that skips the unlock blocks every later user of the lock — the next dynamic variable, the next task — for ever, so the invocation hangs instead of ending with the diagnosed error")
	n := 0
	ord := map[string]int{}
	for _, fb := range c.P.Bodies() {
		if !strings.HasPrefix(fb.Pkg.PkgPath, Mod) || bceSkipPkgs[fb.Pkg.PkgPath] {
			continue
		}
		info := fb.Info()
		muKey := func(call *ast.CallExpr) (string, string) {
			sel, ok := ast.Unparen(call.Fun).(*ast.SelectorExpr)
			if !ok {
				return "", ""
			}
			fn, ok := callee(info, call).(*types.Func)
			if !ok || fn.Pkg() == nil || fn.Pkg().Path() != "sync" {
				return "", ""
			}
			switch fn.Name() {
			case "Lock", "Unlock", "RLock", "RUnlock":
			default:
				return "", ""
			}
			key := exprStr(sel.X)
			if xs, ok := ast.Unparen(sel.X).(*ast.SelectorExpr); ok {
				if k := fieldKey(info, xs); k != "" {
					key = k
				}
			}
			return key, fn.Name()
		}
		locks := false
		for _, call := range callsIn(fb, false) {
			if _, op := muKey(call); op == "Lock" || op == "RLock" {
				locks = true
			}
		}
		if !locks {
			continue
		}
		f := NewFlow(c.P, fb, func(call *ast.CallExpr, obj types.Object) string {
			if k, op := muKey(call); k != "" {
				return op + "|" + k
			}
			return ""
		})
		f.NoInline = true
		f.Effect = func(label string, call *ast.CallExpr, st Facts) {
			op, k, _ := strings.Cut(label, "|")
			switch op {
			case "Lock":
				st["held:"+k] = true
			case "RLock":
				st["rheld:"+k] = true
			case "Unlock":
				delete(st, "held:"+k)
			case "RUnlock":
				delete(st, "rheld:"+k)
			}
		}
		f.Run()
		for i, r := range f.Returns {
			st := f.At[r]
			for fact := range st {
				var k, unlock string
				switch {
				case strings.HasPrefix(fact, "held:"):
					k, unlock = strings.TrimPrefix(fact, "held:"), "Unlock"
				case strings.HasPrefix(fact, "rheld:"):
					k, unlock = strings.TrimPrefix(fact, "rheld:"), "RUnlock"
				default:
					continue
				}
				n++
				c.Fn(fb.Root())
				c.Decide(st.Has("deferred:"+unlock+"|"+k), rule, ordinal(ord, fmt.Sprintf("return#%d %s@%s", i+1, k, fnDisplay(fb))), r.Pos(), "the unlock is deferred",
					fmt.Sprintf("this return is reached with %s locked on every path and no deferred unlock registered: the mutex stays locked after the function returns and every later Lock() of it blocks for ever", k))
			}
		}
	}
	c.Floor(rule, n, 6)
}

// noDynamicFormat (C17 / C19): user-controlled text is never a printf format.
func noDynamicFormat(c *Check, a *Anchors, rule string) {
	c.Rule(rule, "every call in Task's own code to a printf-style function (…, format string, args ...any) whose format is not a constant and that passes no arguments goes to a function that prints such a message verbatim (its body rewrites `format, args` to \"%s\", format when len(args) == 0, or it hands both on unchanged to a function that does): a task prefix, label or command text that contains '%' must appear in the output byte for byte, not as %!(NOVERB)")
	// printf-like module functions and whether they are verbatim-safe
	type pf struct {
		fb      *FuncBody
		fmtIdx  int
		safe    bool
		forward []*types.Func // callees the (format, args...) pair is handed to unchanged
	}
	pfs := map[*types.Func]*pf{}
	isPrintfSig := func(sig *types.Signature) int {
		if !sig.Variadic() || sig.Params().Len() < 2 {
			return -1
		}
		last := sig.Params().At(sig.Params().Len() - 1)
		sl, ok := last.Type().(*types.Slice)
		if !ok {
			return -1
		}
		if iface, ok := sl.Elem().Underlying().(*types.Interface); !ok || iface.NumMethods() != 0 {
			return -1
		}
		prev := sig.Params().At(sig.Params().Len() - 2)
		if b, ok := prev.Type().Underlying().(*types.Basic); !ok || b.Kind() != types.String {
			return -1
		}
		return sig.Params().Len() - 2
	}
	for _, fb := range c.P.Bodies() {
		if fb.Decl == nil || fb.Obj == nil || !strings.HasPrefix(fb.Pkg.PkgPath, Mod) {
			continue
		}
		idx := isPrintfSig(fb.Obj.Type().(*types.Signature))
		if idx < 0 {
			continue
		}
		p := &pf{fb: fb, fmtIdx: idx}
		info := fb.Info()
		var params []*types.Var
		for _, fld := range fb.Type.Params.List {
			for _, id := range fld.Names {
				if v, ok := info.Defs[id].(*types.Var); ok {
					params = append(params, v)
				}
			}
		}
		if len(params) != idx+2 {
			continue
		}
		fmtV, argsV := params[idx], params[idx+1]
		// guard: if len(args) == 0 { format, args = "%s", []any{format} }
		inspectBody(fb.Body, func(nd ast.Node) bool {
			ifs, ok := nd.(*ast.IfStmt)
			if !ok {
				return true
			}
			be, ok := ast.Unparen(ifs.Cond).(*ast.BinaryExpr)
			if !ok || be.Op != token.EQL || !constIs(info, be.Y, "0") {
				return true
			}
			lc, ok := ast.Unparen(be.X).(*ast.CallExpr)
			if !ok || !isBuiltin(info, lc, "len") || varOf(info, lc.Args[0]) != argsV {
				return true
			}
			for _, st := range ifs.Body.List {
				if as, ok := st.(*ast.AssignStmt); ok {
					for i, l := range as.Lhs {
						if varOf(info, l) == fmtV && i < len(as.Rhs) && constIs(info, as.Rhs[i], `"%s"`) {
							p.safe = true
						}
					}
				}
			}
			return true
		})
		for _, call := range callsIn(fb, true) {
			fn, ok := callee(info, call).(*types.Func)
			if !ok {
				continue
			}
			sig, ok := fn.Type().(*types.Signature)
			if !ok {
				continue
			}
			ci := isPrintfSig(sig)
			if ci < 0 || len(call.Args) != ci+2 || !call.Ellipsis.IsValid() {
				continue
			}
			if varOf(info, call.Args[ci]) == fmtV && varOf(info, call.Args[ci+1]) == argsV {
				p.forward = append(p.forward, fn)
			}
		}
		pfs[fb.Obj] = p
	}
	for changed := true; changed; {
		changed = false
		for _, p := range pfs {
			if p.safe || len(p.forward) == 0 {
				continue
			}
			all := true
			for _, f := range p.forward {
				if q := pfs[f]; q == nil || !q.safe {
					all = false
				}
			}
			// forwarding functions that also print themselves are not considered: they must carry the guard
			if all {
				p.safe, changed = true, true
			}
		}
	}
	n := 0
	ord := map[string]int{}
	for _, fb := range c.P.Bodies() {
		if !strings.HasPrefix(fb.Pkg.PkgPath, Mod) || bceSkipPkgs[fb.Pkg.PkgPath] {
			continue
		}
		info := fb.Info()
		for _, call := range callsIn(fb, false) {
			var sig *types.Signature
			var fn *types.Func
			switch o := callee(info, call).(type) {
			case *types.Func:
				fn = o
				sig, _ = o.Type().(*types.Signature)
			case *types.Var:
				sig, _ = o.Type().Underlying().(*types.Signature)
			}
			if sig == nil {
				continue
			}
			idx := isPrintfSig(sig)
			if idx < 0 || len(call.Args) != idx+1 {
				continue // has arguments (or forwards args...): the format is used as a format on purpose
			}
			if constText(info, call.Args[idx]) != "" {
				continue
			}
			if fn != nil && fn.Pkg() != nil && !strings.HasPrefix(fn.Pkg().Path(), Mod) && !strings.Contains(strings.ToLower(fn.Name()), "f") {
				continue // Print/Println/Sprint style: (a ...any) after a string is not a format
			}
			n++
			c.Fn(fb.Root())
			name := "function value"
			safe := false
			if fn != nil {
				name = calleeName(fn)
				if p := pfs[fn.Origin()]; p != nil {
					safe = p.safe
				}
			}
			c.Decide(safe, rule, ordinal(ord, name+"@"+fnDisplay(fb.Root())), call.Pos(), "the callee prints an argument-less message verbatim",
				fmt.Sprintf("`%s` is passed as the format of %s with no arguments, and %s does not print an argument-less message verbatim: a '%%' in that text (a task prefix, label, command or path) is interpreted as a formatting verb", exprStr(call.Args[idx]), name, name))
		}
	}
	c.Floor(rule, n, 3)
}

// groupDropsOnlyEmpty (C17): the group closer may skip the block only when nothing at all was buffered.
func groupDropsOnlyEmpty(c *Check, a *Anchors) {
	c.Rule("group-drops-only-empty", "in the close method of every buffering writer of internal/output, a return that precedes the write to the underlying stream is guarded by exactly `<buffer>.Len() == 0` (nothing was written by the command): any weaker test (whitespace-only, shorter than …) silently drops bytes the command did write")
	n := 0
	for _, fb := range c.P.BodiesIn(PkgOutput) {
		if fb.Decl == nil || fb.Decl.Recv == nil || !strings.EqualFold(fb.Decl.Name.Name, "close") {
			continue
		}
		info := fb.Info()
		// the first write to an io.Writer field of the receiver (or a call handing it on)
		firstWrite := token.NoPos
		inspectBody(fb.Body, func(nd ast.Node) bool {
			call, ok := nd.(*ast.CallExpr)
			if !ok {
				return true
			}
			uses := false
			ast.Inspect(call, func(m ast.Node) bool {
				if sel, ok := m.(*ast.SelectorExpr); ok {
					if s := info.Selections[sel]; s != nil && s.Kind() == types.FieldVal && types.TypeString(s.Obj().Type(), nil) == "io.Writer" {
						uses = true
					}
				}
				return true
			})
			if uses && (firstWrite == token.NoPos || call.Pos() < firstWrite) {
				firstWrite = call.Pos()
			}
			return true
		})
		if firstWrite == token.NoPos {
			continue // delegates to a helper (prefixed: writeOutputLines) — judged by prefix-line-complete
		}
		pm := parentMap(fb.Body)
		for i, r := range returnsOf(fb.Body) {
			if r.Pos() > firstWrite {
				continue
			}
			n++
			c.Fn(fb)
			okGuard, cond := false, "no condition"
			for p := pm[ast.Node(r)]; p != nil; p = pm[p] {
				ifs, ok := p.(*ast.IfStmt)
				if !ok || !within(r, ifs.Body) {
					continue
				}
				cond = exprStr(ifs.Cond)
				if be, ok := ast.Unparen(ifs.Cond).(*ast.BinaryExpr); ok && be.Op == token.EQL && constIs(info, be.Y, "0") {
					if lc, ok := ast.Unparen(be.X).(*ast.CallExpr); ok {
						if sel, ok := ast.Unparen(lc.Fun).(*ast.SelectorExpr); ok && sel.Sel.Name == "Len" {
							if xs, ok := ast.Unparen(sel.X).(*ast.SelectorExpr); ok {
								if s := info.Selections[xs]; s != nil && s.Kind() == types.FieldVal && strings.Contains(types.TypeString(s.Obj().Type(), nil), "bytes.Buffer") {
									okGuard = true
								}
							}
						}
					}
				}
			}
			c.Decide(okGuard, "group-drops-only-empty", fmt.Sprintf("early-return#%d@%s", i+1, fnDisplay(fb)), r.Pos(), "returns without writing only when the buffer is empty",
				"the closer returns without emitting the block when `"+cond+"`: that is not `buffer.Len() == 0`, so output the command did produce (for example a blank separator line) is lost together with the begin/end lines")
		}
	}
	c.Floor("group-drops-only-empty", n, 1)
}

// fieldNotClobberedOnError (C16 / C20): a call's value result reaches persistent state only after its error was checked.
func fieldNotClobberedOnError(c *Check, a *Anchors, rule string) {
	c.Rule(rule, "no assignment in Task's own code stores the value result of a (value, error) call directly into a field of an object that outlives the statement (`x.f, err = f(x.f)`: an update in place whose call consumes the field's current value), when the value is of a nil-able type: on failure the field is overwritten with nil before the error is looked at, and later users of the object — e.g. the include resolution that follows a fallback to the cached copy of a remote Taskfile — dereference it. The value goes through a local that is stored after the `err != nil` return")
	n, sites := 0, 0
	ord := map[string]int{}
	for _, fb := range c.P.Bodies() {
		if !strings.HasPrefix(fb.Pkg.PkgPath, Mod) || bceSkipPkgs[fb.Pkg.PkgPath] {
			continue
		}
		info := fb.Info()
		inspectBody(fb.Body, func(nd ast.Node) bool {
			as, ok := nd.(*ast.AssignStmt)
			if !ok || len(as.Lhs) != 2 || len(as.Rhs) != 1 {
				return true
			}
			call, ok := ast.Unparen(as.Rhs[0]).(*ast.CallExpr)
			if !ok {
				return true
			}
			tv, ok := info.Types[call]
			if !ok {
				return true
			}
			tup, ok := tv.Type.(*types.Tuple)
			if !ok || tup.Len() != 2 || !isErrorType(tup.At(1).Type()) {
				return true
			}
			sites++
			sel, ok := ast.Unparen(as.Lhs[0]).(*ast.SelectorExpr)
			if !ok {
				return true
			}
			s := info.Selections[sel]
			if s == nil || s.Kind() != types.FieldVal {
				return true
			}
			switch tup.At(0).Type().Underlying().(type) {
			case *types.Pointer, *types.Interface, *types.Slice, *types.Map, *types.Chan, *types.Signature:
			default:
				return true // a zero number / string / struct cannot be dereferenced
			}
			// the object must outlive the function: rooted at a parameter, receiver or package variable (not a local literal)
			rv := rootVar(info, sel.X)
			if rv != nil && !isParamOf(info, fb.Root(), rv) && !isRecv(info, fb.Root(), rv) && rv.Parent() != rv.Pkg().Scope() {
				if ok, _ := isLocalValue(info, fb.Root(), rv); ok {
					return true
				}
			}
			// an update in place: the call consumes the field's current value (so the field held something meaningful)
			reads := false
			ast.Inspect(call, func(m ast.Node) bool {
				if rs, ok := m.(*ast.SelectorExpr); ok && info.Selections[rs] != nil && info.Selections[rs].Obj() == s.Obj() && exprStr(rs) == exprStr(sel) {
					reads = true
				}
				return true
			})
			if !reads {
				return true // first initialisation of the field: there is no previous value to lose, the constructor fails as a whole
			}
			n++
			c.Fn(fb.Root())
			c.Bad(rule, ordinal(ord, exprStr(sel)+"@"+fnDisplay(fb.Root())), as.Pos(),
				fmt.Sprintf("`%s` is assigned straight from %s together with its error: when the call fails the field is nil (the old value is lost) before `err` is examined, and the object is used again afterwards (fallback paths dereference it)", exprStr(sel), exprStr(call.Fun)))
			return true
		})
	}
	c.Extra["value_error_assignments_inspected"] = sites
	if n == 0 {
		c.OK(rule, "all-sites", token.NoPos, fmt.Sprintf("%d (value, error) assignments inspected: none stores a nil-able value into a field before the error check", sites))
	}
	c.Floor(rule, sites, 100)
}

func isRecv(info *types.Info, fb *FuncBody, v *types.Var) bool {
	if fb.Decl == nil || fb.Decl.Recv == nil || len(fb.Decl.Recv.List) == 0 || len(fb.Decl.Recv.List[0].Names) == 0 {
		return false
	}
	return info.Defs[fb.Decl.Recv.List[0].Names[0]] == v
}

// isLocalValue: v is a local whose every definition is a composite literal / address of one / constructor call in this function.
func isLocalValue(info *types.Info, fb *FuncBody, v *types.Var) (bool, string) {
	defs := defsOf(info, fb.Body, v)
	if len(defs) == 0 {
		return false, ""
	}
	for _, d := range defs {
		d = ast.Unparen(d)
		if u, ok := d.(*ast.UnaryExpr); ok && u.Op == token.AND {
			d = u.X
		}
		switch d.(type) {
		case *ast.CompositeLit:
		default:
			return false, ""
		}
	}
	return true, ""
}

// decodeNoSilentOverwrite (C08): the key-by-key decoders of Tasks and Includes do what yaml's own duplicate-key check would.
func decodeNoSilentOverwrite(c *Check, a *Anchors) {
	c.Rule("decode-no-silent-overwrite", "in the UnmarshalYAML of the task table and of the include table (which walk the mapping node key by key, so yaml.v3's duplicate-key check never runs) every Set of a decoded entry is dominated by the not-found edge of a Get of the same key on the same table, and the found edge returns an error: of two tasks or includes with the same name in one file the second must not silently replace the first")
	n := 0
	for _, tn := range []string{"Tasks", "Includes"} {
		fb := c.P.Func(PkgAst, tn, "UnmarshalYAML")
		if fb == nil {
			c.Errorf("decode-no-silent-overwrite: %s.UnmarshalYAML not found", tn)
			continue
		}
		c.Fn(fb)
		info := fb.Info()
		recv, _ := info.Defs[fb.Decl.Recv.List[0].Names[0]].(*types.Var)
		f := NewFlow(c.P, fb, func(call *ast.CallExpr, obj types.Object) string {
			fn, ok := obj.(*types.Func)
			if !ok || fn.Pkg() == nil || fn.Pkg().Path() != PkgAst {
				return ""
			}
			sel, ok := ast.Unparen(call.Fun).(*ast.SelectorExpr)
			if !ok || varOf(info, sel.X) != recv {
				return ""
			}
			switch fn.Name() {
			case "Set":
				return "set"
			case "Get":
				return "get"
			}
			return ""
		})
		f.NoInline = true
		f.Run()
		for call, l := range f.Labels {
			if l != "set" {
				continue
			}
			n++
			st := f.At[call]
			sameKey := false
			for gc, gl := range f.Labels {
				if gl == "get" && len(gc.Args) == 1 && len(call.Args) == 2 && exprStr(gc.Args[0]) == exprStr(call.Args[0]) {
					sameKey = true
				}
			}
			c.Decide(st.Has("false:get") && sameKey, "decode-no-silent-overwrite", "set-after-free-check@"+fnDisplay(fb), call.Pos(), "Set only on the not-found edge of Get(same key)",
				"a decoded entry is stored without its key having been established free: a second `"+strings.ToLower(strings.TrimSuffix(tn, "s"))+"` with the same name in the same file silently replaces the first one; must-facts: "+st.String())
		}
		conflict := false
		for _, r := range f.Returns {
			if st := f.At[r]; st.Has("true:get") {
				if res := errResult(r); res != nil && !isNilLit(info, res) {
					conflict = true
				}
			}
		}
		n++
		c.Decide(conflict, "decode-no-silent-overwrite", "duplicate-error@"+fnDisplay(fb), fb.Decl.Pos(), "the found edge returns an error", "a duplicate key is no longer reported")
	}
	c.Floor("decode-no-silent-overwrite", n, 4)
}

// remoteClassificationAgrees (C08): one classifier decides what is a remote location.
func remoteClassificationAgrees(c *Check, a *Anchors) {
	c.Rule("remote-classification-agrees", "sibling agreement: NewNode decides with one classifier function (the scheme detection it switches on) whether an include location is remote; every ResolveEntrypoint that hands its argument on unchanged (treats it as remote instead of joining it onto the including file's directory) takes that decision from the same classifier, not from an ad-hoc string test — a test such as HasPrefix(entrypoint, \"git\") also matches local paths (gitops/Taskfile.yml), which are then looked up relative to the working directory")
	nn := c.P.Func(PkgTaskfile, "", "NewNode")
	if nn == nil {
		c.Errorf("remote-classification-agrees: taskfile.NewNode not found")
		return
	}
	// the classifier: the module function whose result NewNode switches on
	var classifier *types.Func
	ninfo := nn.Info()
	inspectBody(nn.Body, func(nd ast.Node) bool {
		sw, ok := nd.(*ast.SwitchStmt)
		if !ok || sw.Tag == nil {
			return true
		}
		if v := varOf(ninfo, sw.Tag); v != nil {
			for _, d := range defsOf(ninfo, nn.Body, v) {
				if call, ok := ast.Unparen(d).(*ast.CallExpr); ok {
					if fn, ok := callee(ninfo, call).(*types.Func); ok && fn.Pkg() != nil && fn.Pkg().Path() == PkgTaskfile {
						classifier = fn
					}
				}
			}
		}
		return true
	})
	if classifier == nil {
		c.Errorf("remote-classification-agrees: NewNode does not switch on the result of a classifier function of package taskfile")
		return
	}
	n := 0
	for _, fb := range c.P.BodiesIn(PkgTaskfile) {
		if fb.Decl == nil || fb.Decl.Recv == nil || fb.Decl.Name.Name != "ResolveEntrypoint" || fb.Type.Params == nil || len(fb.Type.Params.List) != 1 || len(fb.Type.Params.List[0].Names) != 1 {
			continue
		}
		info := fb.Info()
		pv, _ := info.Defs[fb.Type.Params.List[0].Names[0]].(*types.Var)
		pm := parentMap(fb.Body)
		for i, r := range returnsOf(fb.Body) {
			if len(r.Results) != 2 || varOf(info, r.Results[0]) != pv {
				continue
			}
			// the pass-through return: which condition governs it
			var cond ast.Expr
			for p := pm[ast.Node(r)]; p != nil; p = pm[p] {
				if ifs, ok := p.(*ast.IfStmt); ok && within(r, ifs.Body) {
					cond = ifs.Cond
					if ifs.Init != nil {
						// the condition may test a variable defined in the init statement
						if as, ok := ifs.Init.(*ast.AssignStmt); ok && len(as.Rhs) == 1 {
							cond = &ast.BinaryExpr{X: as.Rhs[0], Op: token.LAND, Y: ifs.Cond}
						}
					}
					break
				}
			}
			n++
			c.Fn(fb)
			uses := false
			if cond != nil {
				ast.Inspect(cond, func(m ast.Node) bool {
					if call, ok := m.(*ast.CallExpr); ok {
						if fn, ok := callee(info, call).(*types.Func); ok && fn == classifier {
							uses = true
						}
					}
					if id, ok := m.(*ast.Ident); ok {
						if v, ok := info.Uses[id].(*types.Var); ok {
							for _, d := range defsOf(info, fb.Body, v) {
								if call, ok := ast.Unparen(d).(*ast.CallExpr); ok {
									if fn, ok := callee(info, call).(*types.Func); ok && fn == classifier {
										uses = true
									}
								}
							}
						}
					}
					return true
				})
			}
			what := "unconditionally"
			if cond != nil {
				what = "when `" + exprStr(cond) + "`"
			}
			c.Decide(uses, "remote-classification-agrees", fmt.Sprintf("%s.ResolveEntrypoint pass-through#%d", recvOf(fb), i+1), r.Pos(), "decided by "+classifier.Name()+", like NewNode",
				fmt.Sprintf("(*%s).ResolveEntrypoint returns its argument unchanged %s — a decision not taken by %s, the classifier NewNode uses: a location that NewNode treats as a local file is not resolved against the including Taskfile's directory", recvOf(fb), what, classifier.Name()))
		}
	}
	c.Floor("remote-classification-agrees", n, 1)
}

// callObjectPerGoroutine (C18): resolving a call writes into it, so a call object belongs to one goroutine.
func callObjectPerGoroutine(c *Check, a *Anchors) {
	c.Rule("call-object-per-goroutine", "GetTask stores the wildcard matches into the variables of the *Call it resolves, and every function that passes its *Call parameter on (RunTask, the task compiler, the deferred runner ...) inherits that write. In every function of package task that starts goroutines, a *Call handed to such a function inside a goroutine is either created for that goroutine (a literal, or the result of a copying helper) or an element of a slice that the function does not touch again — in another goroutine or after the spawn — in a way that reaches those writers. Two goroutines resolving the same *Call write and iterate its variables concurrently")
	// W: functions that write through a *Call parameter, closed under passing the parameter on
	isCallPtr := func(t types.Type) bool {
		if p, ok := t.(*types.Pointer); ok {
			if n, ok := p.Elem().(*types.Named); ok && n.Obj().Name() == "Call" && n.Obj().Pkg() != nil && n.Obj().Pkg().Path() == PkgTask {
				return true
			}
		}
		return false
	}
	writers := map[*FuncBody]bool{}
	if a.GetTask != nil {
		writers[a.GetTask] = true
	}
	for changed := true; changed; {
		changed = false
		for _, fb := range c.P.BodiesIn(PkgTask) {
			if fb.Decl == nil || writers[fb] || fb.Type.Params == nil {
				continue
			}
			info := fb.Info()
			var callParams []*types.Var
			for _, fld := range fb.Type.Params.List {
				for _, id := range fld.Names {
					if v, ok := info.Defs[id].(*types.Var); ok && isCallPtr(v.Type()) {
						callParams = append(callParams, v)
					}
				}
			}
			if len(callParams) == 0 {
				continue
			}
			for _, call := range callsIn(fb, true) {
				fn, ok := callee(info, call).(*types.Func)
				if !ok {
					continue
				}
				d := c.P.DeclOf(fn)
				if d == nil || !writers[d] {
					continue
				}
				for _, arg := range call.Args {
					for _, p := range callParams {
						if varOf(info, arg) == p {
							writers[fb] = true
							changed = true
						}
					}
				}
			}
		}
	}
	isWriterCall := func(info *types.Info, call *ast.CallExpr) bool {
		fn, ok := callee(info, call).(*types.Func)
		if !ok {
			return false
		}
		d := c.P.DeclOf(fn)
		return d != nil && writers[d]
	}
	n := 0
	ord := map[string]int{}
	for _, fb := range c.P.BodiesIn(PkgTask) {
		if fb.Decl == nil {
			continue
		}
		spawns := spawnSites(fb)
		if len(spawns) == 0 {
			continue
		}
		info := fb.Info()
		firstSpawn := spawns[0].Pos()
		for _, sp := range spawns {
			if sp.Pos() < firstSpawn {
				firstSpawn = sp.Pos()
			}
		}
		for _, sp := range spawns {
			// the spawned function literal
			var lit *ast.FuncLit
			ast.Inspect(sp, func(m ast.Node) bool {
				if l, ok := m.(*ast.FuncLit); ok && lit == nil {
					lit = l
				}
				return lit == nil
			})
			if lit == nil {
				continue
			}
			ast.Inspect(lit.Body, func(m ast.Node) bool {
				call, ok := m.(*ast.CallExpr)
				if !ok || !isWriterCall(info, call) {
					return true
				}
				for _, arg := range call.Args {
					tv, ok := info.Types[arg]
					if !ok || !isCallPtr(tv.Type) {
						continue
					}
					n++
					c.Fn(fb)
					okArg, why := callPrivate(c, info, fb, sp, lit, arg, firstSpawn, isWriterCall)
					c.Decide(okArg, "call-object-per-goroutine", ordinal(ord, calleeName(callee(info, call))+"@"+fnDisplay(fb)), call.Pos(), why,
						fmt.Sprintf("the *Call `%s` handed to %s inside a goroutine of %s is %s: GetTask writes MATCH into its variables while the other user iterates them (data race; the variables one run sees depend on the other)", exprStr(arg), calleeName(callee(info, call)), fnDisplay(fb), why))
				}
				return true
			})
		}
	}
	c.Extra["call_writers"] = len(writers)
	c.Floor("call-object-per-goroutine", n, 3)
}

func callPrivate(c *Check, info *types.Info, fb *FuncBody, spawn ast.Node, lit *ast.FuncLit, arg ast.Expr, firstSpawn token.Pos, isWriterCall func(*types.Info, *ast.CallExpr) bool) (bool, string) {
	arg = ast.Unparen(arg)
	if u, ok := arg.(*ast.UnaryExpr); ok && u.Op == token.AND {
		if _, isLit := ast.Unparen(u.X).(*ast.CompositeLit); isLit {
			return true, "a literal created for this call"
		}
	}
	if call, ok := arg.(*ast.CallExpr); ok {
		if !isWriterCall(info, call) {
			return true, "the result of a helper (a copy)"
		}
	}
	v := varOf(info, arg)
	if v == nil {
		return false, "not a variable of this goroutine"
	}
	// follow `c := c` / `c := copy(c)` definitions
	for depth := 0; depth < 4; depth++ {
		defs := defsOf(info, fb.Body, v)
		if len(defs) != 1 {
			break
		}
		d := ast.Unparen(defs[0])
		if u, ok := d.(*ast.UnaryExpr); ok && u.Op == token.AND {
			if _, isLit := ast.Unparen(u.X).(*ast.CompositeLit); isLit {
				return true, "a literal created for this goroutine"
			}
		}
		if call, ok := d.(*ast.CallExpr); ok {
			if fn, ok := callee(info, call).(*types.Func); ok && fn.Pkg() != nil && fn.Pkg().Path() == PkgTask && !isWriterCall(info, call) {
				return true, "a copy made for this goroutine (" + fn.Name() + ")"
			}
			break
		}
		nv := varOf(info, d)
		if nv == nil {
			break
		}
		v = nv
	}
	// a range element of a slice: the slice must not be used again concurrently
	var slice *types.Var
	var rng *ast.RangeStmt
	inspectDeep(fb.Body, func(nd ast.Node) bool {
		if r, ok := nd.(*ast.RangeStmt); ok && r.Value != nil && varOf(info, r.Value) == v {
			slice, rng = rootVar(info, r.X), r
		}
		return true
	})
	if slice == nil {
		return false, "a variable shared with the code outside the goroutine"
	}
	other := ""
	inspectDeep(fb.Body, func(nd ast.Node) bool {
		id, ok := nd.(*ast.Ident)
		if !ok || info.Uses[id] != slice || within(id, rng) && id.Pos() < rng.Body.Pos() {
			return true
		}
		if id.Pos() < firstSpawn {
			return true // sequential use before any goroutine exists
		}
		other = c.P.Fset.Position(id.Pos()).String()
		return true
	})
	if other != "" {
		return false, "an element of `" + slice.Name() + "`, which is used again while the goroutines run (" + filepathBase(other) + ")"
	}
	return true, "an element of a slice that only this loop hands out"
}

func filepathBase(p string) string {
	if i := strings.LastIndex(p, "/"); i >= 0 {
		return p[i+1:]
	}
	return p
}

// stateKeyInjective (C04): a state file belongs to one task name.
func stateKeyInjective(c *Check, a *Anchors) {
	c.Rule("state-key-injective", "the file name under which a fingerprint checker keeps the state of a task is an injective function of the task's name: where the name goes through a lossy normalisation (regexp ReplaceAllString, strings.Replace*/Map/ToLower ...) a digest of the ORIGINAL name is part of the result. Otherwise two task names (gen-docs, gen.docs, gen:docs) share one state file, and an attempt that belonged to a different task makes a later run skip this one")
	n := 0
	lossy := map[string]bool{"ReplaceAllString": true, "ReplaceAllLiteralString": true, "ReplaceAll": true, "Replace": true, "Map": true, "ToLower": true, "ToUpper": true, "TrimSpace": true, "Trim": true}
	digest := map[string]bool{"HashString": true, "Hash": true, "Sum256": true, "Sum": true, "Sum64": true, "Sum128": true, "New": false}
	for _, fb := range c.P.BodiesIn(PkgFingerprint) {
		if fb.Decl == nil {
			continue
		}
		info := fb.Info()
		for _, r := range returnsOf(fb.Body) {
			if len(r.Results) != 1 {
				continue
			}
			call, ok := ast.Unparen(r.Results[0]).(*ast.CallExpr)
			if !ok || !(isFunc(callee(info, call), "path/filepath", "", "Join") || isFunc(callee(info, call), PkgFilepathext, "", "SmartJoin")) || len(call.Args) < 2 {
				continue
			}
			// a state path: <temp dir>/<kind>/<name> — the first component is the checker's temp dir (a field, or a parameter it
			// is handed in), the second a constant
			first := ast.Unparen(call.Args[0])
			isTemp := false
			if sel, ok := first.(*ast.SelectorExpr); ok && sel.Sel.Name == "tempDir" {
				isTemp = true
			}
			if v := varOf(info, first); v != nil && isParamOf(info, fb, v) {
				isTemp = true
			}
			if !isTemp {
				continue
			}
			n++
			c.Fn(fb)
			last := ast.Unparen(call.Args[len(call.Args)-1])
			// walk the helpers that compute the name
			isLossy, hasDigest := false, false
			var visit func(e ast.Node, info *types.Info, depth int)
			visit = func(e ast.Node, info *types.Info, depth int) {
				ast.Inspect(e, func(m ast.Node) bool {
					hc, ok := m.(*ast.CallExpr)
					if !ok {
						return true
					}
					fn, ok := callee(info, hc).(*types.Func)
					if !ok {
						return true
					}
					if lossy[fn.Name()] && fn.Pkg() != nil && (fn.Pkg().Path() == "regexp" || fn.Pkg().Path() == "strings") {
						isLossy = true
					}
					if digest[fn.Name()] && fn.Pkg() != nil && !strings.HasPrefix(fn.Pkg().Path(), Mod) && (strings.Contains(fn.Pkg().Path(), "xxh") || strings.Contains(fn.Pkg().Path(), "sha") || strings.Contains(fn.Pkg().Path(), "md5") || strings.Contains(fn.Pkg().Path(), "fnv") || strings.Contains(fn.Pkg().Path(), "crc")) {
						hasDigest = true
					}
					if d := c.P.DeclOf(fn); d != nil && depth < 3 && d.Pkg.PkgPath == PkgFingerprint {
						visit(d.Body, d.Info(), depth+1)
					}
					return true
				})
			}
			visit(last, info, 0)
			c.Decide(!isLossy || hasDigest, "state-key-injective", "name@"+fnDisplay(fb), r.Pos(), "the file name determines the task name (normalisation + digest of the original, or no lossy step)",
				"the state file name is computed from the task name by a lossy normalisation with no digest of the original name: different task names are mapped to the same state file, so a task is reported up to date because of a run of another task")
		}
	}
	c.Floor("state-key-injective", n, 1)
	// both checkers obtain their state path from such a function
	users := map[string]bool{}
	for _, fb := range c.P.BodiesIn(PkgFingerprint) {
		if fb.Decl == nil || fb.Decl.Recv == nil {
			continue
		}
		for _, call := range callsIn(fb, true) {
			if fn, ok := callee(fb.Info(), call).(*types.Func); ok && statePathHelper(c, fn) {
				users[recvOf(fb)] = true
			}
		}
	}
	paths := len(users)
	if paths < 2 {
		c.Errorf("state-key-injective: %d checker type(s) obtain their state path from a judged function, 2 confirmed on the reference tree", paths)
	}
}

// globKeepsOtherMatches (C05): the fingerprint covers every file a pattern matches that can be read.
func globKeepsOtherMatches(c *Check, a *Anchors) {
	c.Rule("glob-keeps-other-matches", "in the per-match loop of fingerprint.glob a failed os.Stat of ONE expanded name has a path that skips that name (continue) instead of always returning the error: Globs reacts to an error by dropping the whole pattern, so one dangling symlink among the matches would remove every file of the pattern from the fingerprint and later edits to them would go unnoticed")
	fb := c.P.Func(PkgFingerprint, "", "glob")
	if fb == nil {
		c.Errorf("glob-keeps-other-matches: fingerprint.glob not found")
		return
	}
	c.Fn(fb)
	info := fb.Info()
	n := 0
	inspectBody(fb.Body, func(nd ast.Node) bool {
		r, ok := nd.(*ast.RangeStmt)
		if !ok {
			return true
		}
		inspectBody(r.Body, func(m ast.Node) bool {
			ifs, ok := m.(*ast.IfStmt)
			if !ok {
				return true
			}
			be, ok := ast.Unparen(ifs.Cond).(*ast.BinaryExpr)
			if !ok || be.Op != token.NEQ || !isNilLit(info, be.Y) || !isErrorType(typeOf(info, be.X)) {
				return true
			}
			returns := len(returnsOf(ifs.Body)) > 0
			if !returns {
				return true
			}
			n++
			skips := false
			ast.Inspect(ifs.Body, func(k ast.Node) bool {
				if br, ok := k.(*ast.BranchStmt); ok && br.Tok == token.CONTINUE {
					skips = true
				}
				return true
			})
			c.Decide(skips, "glob-keeps-other-matches", fmt.Sprintf("stat-error#%d@%s", n, fnDisplay(fb)), ifs.Pos(), "an unreadable match can be skipped",
				"every failure to stat one expanded name makes glob return an error, and Globs then drops the whole pattern: one dangling symlink removes all files of the pattern from the fingerprint")
			// ... but only a name whose directory entry exists (a dangling link): the skip lies under the nil edge of an
			// os.Lstat of the name. A name that does not exist at all — an alternative of a brace expression in `generates` —
			// must stay an error, or a generates entry is satisfied by one of the files it names
			if skips {
				pmI := parentMap(ifs.Body)
				confined := true
				ast.Inspect(ifs.Body, func(k ast.Node) bool {
					br, ok := k.(*ast.BranchStmt)
					if !ok || br.Tok != token.CONTINUE {
						return true
					}
					underLstat := false
					for p := pmI[br]; p != nil; p = pmI[p] {
						inner, ok := p.(*ast.IfStmt)
						if !ok || !within(br, inner.Body) {
							continue
						}
						if as, ok := inner.Init.(*ast.AssignStmt); ok && len(as.Rhs) == 1 {
							if lc, ok := ast.Unparen(as.Rhs[0]).(*ast.CallExpr); ok && isFunc(callee(info, lc), "os", "", "Lstat") {
								if be2, ok := ast.Unparen(inner.Cond).(*ast.BinaryExpr); ok && be2.Op == token.EQL && isNilLit(info, be2.Y) && varOf(info, be2.X) == varOf(info, as.Lhs[len(as.Lhs)-1]) {
									underLstat = true
								}
							}
						}
					}
					if !underLstat {
						confined = false
					}
					return true
				})
				c.Decide(confined, "glob-keeps-other-matches", fmt.Sprintf("skip-only-dangling#%d@%s", n, fnDisplay(fb)), ifs.Pos(), "only a name whose entry exists (os.Lstat succeeds) is skipped",
					"glob skips every expanded name that cannot be stat'ed, including names that do not exist at all: `generates: ['out/{a,b}.txt']` is then satisfied as long as ONE of the two files exists, so a removed generated file does not make the task run again")
			}
			return true
		})
		return true
	})
	c.Floor("glob-keeps-other-matches", n, 1)
}

// renderedOutputVerbatim (C19): what the template engine produced is what the command gets.
func renderedOutputVerbatim(c *Check, a *Anchors) {
	c.Rule("rendered-output-verbatim", "in the templater the string a rendered template produced is returned as it is: no post-processing (strings.Replace*, Trim*, regexp replacement) is applied to the buffer the template was executed into — a forwarded argument or variable value that happens to contain the removed text loses those bytes")
	n := 0
	for _, fb := range c.P.BodiesIn(PkgTemplater) {
		info := fb.Info()
		// buffers that a template is executed into
		bufs := map[*types.Var]bool{}
		for _, call := range callsIn(fb, false) {
			if fn, ok := callee(info, call).(*types.Func); ok && fn.Name() == "Execute" && fn.Pkg() != nil && strings.HasSuffix(fn.Pkg().Path(), "/template") && len(call.Args) >= 1 {
				if u, ok := ast.Unparen(call.Args[0]).(*ast.UnaryExpr); ok && u.Op == token.AND {
					if v := varOf(info, u.X); v != nil {
						bufs[v] = true
					}
				}
			}
		}
		if len(bufs) == 0 {
			continue
		}
		c.Fn(fb.Root())
		for _, r := range returnsOf(fb.Body) {
			if len(r.Results) == 0 {
				continue
			}
			res := r.Results[0]
			uses := false
			ast.Inspect(res, func(m ast.Node) bool {
				if id, ok := m.(*ast.Ident); ok {
					if v, ok := info.Uses[id].(*types.Var); ok && bufs[v] {
						uses = true
					}
				}
				return true
			})
			if !uses {
				continue
			}
			n++
			post := ""
			ast.Inspect(res, func(m ast.Node) bool {
				if pc, ok := m.(*ast.CallExpr); ok {
					if fn, ok := callee(info, pc).(*types.Func); ok && fn.Pkg() != nil && (fn.Pkg().Path() == "strings" || fn.Pkg().Path() == "regexp" || fn.Pkg().Path() == "bytes") {
						isMethod := fn.Type().(*types.Signature).Recv() != nil
						if !isMethod || strings.HasPrefix(fn.Name(), "Replace") {
							post = fn.Pkg().Name() + "." + fn.Name() + "(" + argsText(pc) + ")"
						}
					}
				}
				return true
			})
			// keyed by WHAT is done to the text (and in which package), not by the function it currently lives in
			key := "result@" + fb.Pkg.PkgPath[len(Mod)+1:]
			if post != "" {
				key = post + "@" + fb.Pkg.PkgPath[len(Mod)+1:]
			}
			c.Decide(post == "", "rendered-output-verbatim", key, r.Pos(), "the rendered text is returned unchanged",
				"the rendered text is passed through "+post+" before it is returned: those bytes disappear from every value — also from forwarded CLI arguments and shell-quoted variables")
		}
	}
	c.Floor("rendered-output-verbatim", n, 1)
}

func argsText(call *ast.CallExpr) string {
	var parts []string
	for _, a := range call.Args[min(1, len(call.Args)):] {
		parts = append(parts, exprStr(a))
	}
	return strings.Join(parts, ", ")
}

// sharedOutcomeCallIndependent (C03): the outcome recorded for a shared execution is returned to callers of either kind.
func sharedOutcomeCallIndependent(c *Check, a *Anchors) {
	c.Rule("shared-outcome-call-independent", "the error that the task body returns is recorded by the deduplication function and handed to every other caller of the same run: once / when_changed execution, so its shape must not depend on attributes of the call that happened to execute it. The body wraps a command failure as *TaskRunError only when its own call is direct (call.Indirect false); a direct caller that waits for an execution started by an indirect call therefore receives the bare exit status (exit 1 instead of 201, --exit-code not honoured)")
	body := a.BodyClosure
	if body == nil {
		c.Errorf("shared-outcome-call-independent: task body not resolved")
		return
	}
	c.Fn(body)
	info := body.Info()
	n := 0
	// returns of the body governed by a condition on Call.Indirect
	pm := parentMap(body.Body)
	seen := map[string]bool{}
	for _, r := range returnsOf(body.Body) {
		res := errResult(r)
		if res == nil || isNilLit(info, res) {
			continue
		}
		for p := pm[ast.Node(r)]; p != nil; p = pm[p] {
			ifs, ok := p.(*ast.IfStmt)
			if !ok {
				continue
			}
			onIndirect := false
			ast.Inspect(ifs.Cond, func(m ast.Node) bool {
				if sel, ok := m.(*ast.SelectorExpr); ok && fieldSel(info, sel, PkgTask, "Call", "Indirect") {
					onIndirect = true
				}
				return true
			})
			if !onIndirect {
				continue
			}
			key := "Call.Indirect shapes the recorded error@" + fnDisplay(body.Root())
			if seen[key] {
				continue
			}
			seen[key] = true
			n++
			c.Bad("shared-outcome-call-independent", key, ifs.Pos(), "inside the function whose result is recorded for (and returned to) every caller of a shared execution, the returned error depends on `"+exprStr(ifs.Cond)+"` of the executing call: a caller of the other kind gets the wrong error class")
		}
	}
	if n == 0 {
		c.OK("shared-outcome-call-independent", "no-call-attribute-in-shared-outcome@"+fnDisplay(body.Root()), body.Body.Pos(), "the recorded error does not depend on the executing call")
		n = 1
	}
	c.Floor("shared-outcome-call-independent", n, 1)
}

// nodeIdentityImmutable (C20): what a node is does not depend on whether it has been read.
func nodeIdentityImmutable(c *Check, a *Anchors) {
	c.Rule("node-identity-immutable", "no method of a Taskfile node other than its constructor assigns a field that Location(), CacheKey() or ResolveEntrypoint() of the same node read: the cache key of a remote Taskfile and the base its relative includes are resolved against must be the same whether the file was just downloaded (online) or is served from the cache (--offline, server down), otherwise an approved copy is looked up under another key and is 'not found in the cache'")
	n := 0
	byType := map[string][]*FuncBody{}
	for _, fb := range c.P.BodiesIn(PkgTaskfile) {
		if fb.Decl != nil && fb.Decl.Recv != nil && strings.HasSuffix(recvOf(fb), "Node") {
			byType[recvOf(fb)] = append(byType[recvOf(fb)], fb)
		}
	}
	var names []string
	for k := range byType {
		names = append(names, k)
	}
	sort.Strings(names)
	for _, tn := range names {
		idFields := map[string]bool{}
		for _, fb := range byType[tn] {
			switch fb.Decl.Name.Name {
			case "Location", "CacheKey", "ResolveEntrypoint", "ResolveDir":
				info := fb.Info()
				inspectBody(fb.Body, func(nd ast.Node) bool {
					if sel, ok := nd.(*ast.SelectorExpr); ok {
						if s := info.Selections[sel]; s != nil && s.Kind() == types.FieldVal && namedOf(s.Recv()) != nil && namedOf(s.Recv()).Obj().Name() == tn {
							idFields[sel.Sel.Name] = true
						}
					}
					return true
				})
			}
		}
		if len(idFields) == 0 {
			continue
		}
		for _, fb := range byType[tn] {
			info := fb.Info()
			inspectBody(fb.Body, func(nd ast.Node) bool {
				as, ok := nd.(*ast.AssignStmt)
				if !ok {
					return true
				}
				for _, l := range as.Lhs {
					sel, ok := ast.Unparen(l).(*ast.SelectorExpr)
					if !ok {
						continue
					}
					s := info.Selections[sel]
					if s == nil || s.Kind() != types.FieldVal || namedOf(s.Recv()) == nil || namedOf(s.Recv()).Obj().Name() != tn || !idFields[sel.Sel.Name] {
						continue
					}
					n++
					c.Fn(fb)
					// the key names WHAT is stored: two different rewrites in one method are two findings
					src := ""
					for i, ll := range as.Lhs {
						if ll == l && i < len(as.Rhs) {
							r := ast.Unparen(as.Rhs[i])
							if v := varOf(info, r); v != nil && !v.IsField() {
								for _, d := range defsOf(info, fb.Body, v) {
									if dc, ok := ast.Unparen(d).(*ast.CallExpr); ok {
										src = calleeName(callee(info, dc))
									}
								}
								if src == "" {
									src = v.Name()
								}
							} else {
								src = exprStr(r)
							}
						}
					}
					c.Bad("node-identity-immutable", sel.Sel.Name+"<-"+src+"@"+tn+"."+fb.Decl.Name.Name, as.Pos(),
						fmt.Sprintf("(*%s).%s assigns %s, which Location / CacheKey / ResolveEntrypoint of the node read: after a download the node names another location than before it, so relative includes resolve differently — and hit another cache key — online and offline", tn, fb.Decl.Name.Name, exprStr(sel)))
				}
				return true
			})
		}
		n++
		c.OK("node-identity-immutable", "identity-fields@"+tn, token.NoPos, fmt.Sprintf("identity fields of %s inventoried", tn))
	}
	c.Floor("node-identity-immutable", n, 3)
}

// stateAbsentMeansStale (C04): without a recorded run there is nothing to be up to date with.
func stateAbsentMeansStale(c *Check, a *Anchors) {
	c.Rule("state-absent-means-stale", "in the timestamp checker's IsUpToDate every return that can answer 'up to date' is dominated by the nil edge of the os.Stat of the task's state file: the state file is what a failed run removes (OnError), so when it does not exist the generated files that a failed attempt left behind must not make the task look up to date")
	ts := c.P.Func(PkgFingerprint, "TimestampChecker", "IsUpToDate")
	if ts == nil {
		c.Errorf("state-absent-means-stale: TimestampChecker.IsUpToDate not found")
		return
	}
	c.Fn(ts)
	info := ts.Info()
	// the state path variable: result of a string-returning method of the checker
	var pathVar *types.Var
	inspectBody(ts.Body, func(nd ast.Node) bool {
		if as, ok := nd.(*ast.AssignStmt); ok && len(as.Lhs) == 1 && len(as.Rhs) == 1 {
			if call, ok := ast.Unparen(as.Rhs[0]).(*ast.CallExpr); ok {
				if fn, ok := callee(info, call).(*types.Func); ok && statePathHelper(c, fn) {
					pathVar = varOf(info, as.Lhs[0])
				}
			}
		}
		return true
	})
	if pathVar == nil {
		c.Errorf("state-absent-means-stale: state path variable not identified")
		return
	}
	f := NewFlow(c.P, ts, func(call *ast.CallExpr, obj types.Object) string {
		if isFunc(obj, "os", "", "Stat") && len(call.Args) == 1 && varOf(info, call.Args[0]) == pathVar {
			return "stat-state"
		}
		return ""
	})
	f.Run()
	n := 0
	for i, r := range f.Returns {
		if len(r.Results) != 2 || constIs(info, r.Results[0], "false") {
			continue
		}
		n++
		st := f.At[r]
		c.Decide(st.Has("nil:stat-state"), "state-absent-means-stale", fmt.Sprintf("true-capable-return#%d@%s", i+1, fnDisplay(ts)), r.Pos(), "only reachable when the state file exists",
			"the timestamp checker can answer 'up to date' on a path where its state file does not exist (never ran, or the last run failed and removed it): output written by a failed attempt makes the next run skip the task; must-facts: "+st.String())
	}
	c.Floor("state-absent-means-stale", n, 1)
}

// statePathHelper: a function or method of internal/fingerprint that returns a state-file path — a single string result
// built with filepath.Join / SmartJoin (directly or through one more helper of the package).
func statePathHelper(c *Check, fn *types.Func) bool { return statePathHelperD(c, fn, 2) }

func statePathHelperD(c *Check, fn *types.Func, depth int) bool {
	if fn == nil || fn.Pkg() == nil || fn.Pkg().Path() != PkgFingerprint {
		return false
	}
	sig := fn.Type().(*types.Signature)
	if sig.Results().Len() != 1 || types.TypeString(sig.Results().At(0).Type(), nil) != "string" {
		return false
	}
	d := c.P.DeclOf(fn)
	if d == nil {
		return false
	}
	joins := false
	for _, call := range callsIn(d, false) {
		if isFunc(callee(d.Info(), call), "path/filepath", "", "Join") || isFunc(callee(d.Info(), call), PkgFilepathext, "", "SmartJoin") {
			joins = true
		} else if hf, ok := callee(d.Info(), call).(*types.Func); ok && depth > 0 && hf != fn && statePathHelperD(c, hf, depth-1) {
			joins = true // the path is built by a further helper of the package
		}
	}
	return joins
}

// isCacheMapExpr: the expression is the variable map of a templater Cache — the cacheMap field, or a call of a Cache method
// whose every return is that field (a lazily initialising accessor).
func isCacheMapExpr(c *Check, info *types.Info, e ast.Expr) bool {
	e = ast.Unparen(e)
	if sel, ok := e.(*ast.SelectorExpr); ok && fieldSel(info, sel, PkgTemplater, "Cache", "cacheMap") {
		return true
	}
	call, ok := e.(*ast.CallExpr)
	if !ok {
		return false
	}
	fn, ok := callee(info, call).(*types.Func)
	if !ok || fn.Pkg() == nil || fn.Pkg().Path() != PkgTemplater {
		return false
	}
	sig := fn.Type().(*types.Signature)
	if sig.Recv() == nil || namedOf(sig.Recv().Type()) == nil || namedOf(sig.Recv().Type()).Obj().Name() != "Cache" {
		return false
	}
	d := c.P.DeclOf(fn)
	if d == nil {
		return false
	}
	rets := returnsOf(d.Body)
	if len(rets) == 0 {
		return false
	}
	for _, r := range rets {
		if len(r.Results) != 1 || !fieldSel(d.Info(), r.Results[0], PkgTemplater, "Cache", "cacheMap") {
			return false
		}
	}
	return true
}

// errorBranchExits (C03 / C16): an established failure is not merely logged.
// Keys: the role of the call whose error is dropped (anchor label where there is one, else the callee).
var errorContinueReviewed = map[string]string{
	"mkdir":                "upstream behaviour: a directory that cannot be created is reported; the commands then fail in the missing directory with their own error",
	"rollback":             "the rollback itself failed: reported (verbose) — the original error is what the task returns",
	"cmd":                  "the deferred-command runner: a deferred command's own failure never changes the task's outcome (property C14)",
	"closer":               "flushing the output writer failed: reported; the command's own error is what matters",
	"experiments.Validate": "an unknown experiment value is a warning by design",
	"watched-dirs":         "watch mode: a directory that cannot be registered is reported and the watcher keeps running",
}

func errorBranchExits(c *Check, a *Anchors, rule string) {
	c.Rule(rule, "in Task's own code a branch guarded by `err != nil` that does nothing but log (calls of the logger / fmt / log packages only, no return, continue, break, fallback assignment or other call) is one of the reviewed log-and-continue sites: anywhere else, logging an error instead of returning it lets the function go on — and eventually report success — after a step has failed")
	n, checked := 0, 0
	ord := map[string]int{}
	for _, fb := range c.P.Bodies() {
		if !strings.HasPrefix(fb.Pkg.PkgPath, Mod) || bceSkipPkgs[fb.Pkg.PkgPath] {
			continue
		}
		info := fb.Info()
		inspectBody(fb.Body, func(nd ast.Node) bool {
			ifs, ok := nd.(*ast.IfStmt)
			if !ok || ifs.Else != nil {
				return true
			}
			be, ok := ast.Unparen(ifs.Cond).(*ast.BinaryExpr)
			if !ok || be.Op != token.NEQ || !isNilLit(info, be.Y) {
				return true
			}
			v := varOf(info, be.X)
			if v == nil || !isErrorType(v.Type()) {
				return true
			}
			checked++
			if hasJump(ifs.Body) || len(ifs.Body.List) == 0 {
				return true
			}
			// log-only body: every statement is an expression statement calling a logger / fmt / log function
			logOnly := true
			for _, st := range ifs.Body.List {
				es, ok := st.(*ast.ExprStmt)
				if !ok {
					logOnly = false
					break
				}
				call, ok := ast.Unparen(es.X).(*ast.CallExpr)
				if !ok {
					logOnly = false
					break
				}
				fn, _ := callee(info, call).(*types.Func)
				if fn == nil || fn.Pkg() == nil || !(fn.Pkg().Path() == PkgLogger || fn.Pkg().Path() == "log" || fn.Pkg().Path() == "fmt") {
					logOnly = false
					break
				}
				if fn.Name() == "Fatal" || fn.Name() == "Fatalf" || fn.Name() == "Panic" || fn.Name() == "Panicf" {
					logOnly = false
				}
			}
			if !logOnly {
				return true
			}
			n++
			// whose error
			var src types.Object
			srcName := "?"
			find := func(st ast.Stmt) {
				if as, ok := st.(*ast.AssignStmt); ok && len(as.Rhs) == 1 {
					for _, l := range as.Lhs {
						if varOf(info, l) == v {
							if call, ok := ast.Unparen(as.Rhs[0]).(*ast.CallExpr); ok {
								src = callee(info, call)
								srcName = calleeName(src)
								if cv, isVar := src.(*types.Var); isVar {
									srcName = cv.Name()
								}
							}
						}
					}
				}
			}
			if ifs.Init != nil {
				find(ifs.Init)
			}
			key := srcName
			if l := a.labelObj(src); l != "" {
				key = l
			}
			if a.is(src, c.P.Func(PkgTask, "Executor", "registerWatchedDirs")) {
				key = "watched-dirs"
			}
			c.Fn(fb.Root())
			if reason, ok := errorContinueReviewed[key]; ok {
				c.OK(rule, ordinal(ord, key), ifs.Pos(), "reviewed: "+reason)
				return true
			}
			c.Bad(rule, ordinal(ord, key), ifs.Pos(), fmt.Sprintf("the error of %s is established non-nil, the branch only logs it and execution falls through in %s: the failure is lost and the function goes on as if the step had succeeded", srcName, fnDisplay(fb.Root())))
			return true
		})
	}
	c.Extra["error_tests_without_else"] = checked
	c.Floor(rule, checked, 150)
	_ = n
}

// elementLiteralCarriesFields (C03 and others): an element of the compiled task that is rebuilt field by field from the
// element of the definition keeps every attribute.
var elementFieldDropReviewed = map[string]string{
	"Cmd.For": "the loop is expanded: each generated command stands for one item and must not loop again",
	"Dep.For": "the loop is expanded: each generated dependency stands for one item and must not loop again",
}

func elementLiteralCarriesFields(c *Check, a *Anchors, rule string) {
	c.Rule(rule, "in package task a composite literal of an ast element type (Cmd, Dep, Precondition, Defer ...) that takes two or more of its values from the fields of ONE existing value of that type is a rebuilt copy of that value: it carries every field of the type (reviewed exceptions: the expanded `for`). A field left out silently resets an attribute — ignore_error, silent, platforms … — for exactly the elements that go through this path (loop-generated commands)")
	n := 0
	ord := map[string]int{}
	for _, fb := range c.P.BodiesIn(PkgTask) {
		info := fb.Info()
		inspectBody(fb.Body, func(nd ast.Node) bool {
			lit, ok := nd.(*ast.CompositeLit)
			if !ok {
				return true
			}
			tv, ok := info.Types[lit]
			if !ok {
				return true
			}
			named := namedOf(tv.Type)
			if named == nil || named.Obj().Pkg() == nil || named.Obj().Pkg().Path() != PkgAst || named.Obj().Name() == "Task" {
				return true // ast.Task is judged by fields-classified / copy-exhaustive
			}
			st, ok := named.Underlying().(*types.Struct)
			if !ok {
				return true
			}
			// source variable: a variable of the same (pointer) type whose fields are read in >= 2 values
			srcCount := map[*types.Var]int{}
			keys := map[string]bool{}
			for _, el := range lit.Elts {
				kv, ok := el.(*ast.KeyValueExpr)
				if !ok {
					return true
				}
				if id, ok := kv.Key.(*ast.Ident); ok {
					keys[id.Name] = true
				}
				seen := map[*types.Var]bool{}
				ast.Inspect(kv.Value, func(m ast.Node) bool {
					if sel, ok := m.(*ast.SelectorExpr); ok {
						if v := varOf(info, sel.X); v != nil && namedOf(v.Type()) == named && !seen[v] {
							if s := info.Selections[sel]; s != nil && s.Kind() == types.FieldVal {
								seen[v] = true
								srcCount[v]++
							}
						}
					}
					return true
				})
			}
			var src *types.Var
			for v, k := range srcCount {
				if k >= 2 && (src == nil || k > srcCount[src]) {
					src = v
				}
			}
			if src == nil {
				return true
			}
			n++
			c.Fn(fb)
			var missing []string
			for i := 0; i < st.NumFields(); i++ {
				f := st.Field(i)
				if keys[f.Name()] || elementFieldDropReviewed[named.Obj().Name()+"."+f.Name()] != "" {
					continue
				}
				missing = append(missing, f.Name())
			}
			key := ordinal(ord, named.Obj().Name()+"-literal@"+fnDisplay(fb.Root()))
			c.Decide(len(missing) == 0, rule, key, lit.Pos(), "rebuilt from "+src.Name()+" with every field carried over",
				fmt.Sprintf("the ast.%s built from the fields of %s leaves out %s: the elements that take this path silently lose that attribute (a looped command with ignore_error: true would abort the task; a platform-restricted or silent one would run everywhere / echo)", named.Obj().Name(), src.Name(), strings.Join(missing, ", ")))
			return true
		})
	}
	c.Extra["element_literals_judged"] = n
	if n == 0 {
		c.OK(rule, "no-rebuilt-element@task", 0, "package task rebuilds no ast element field by field (elements are made with DeepCopy, judged by copy-exhaustive); the stored change C03-r4a is the positive example of this rule")
	}
}

// copyReturnsFresh (C09 / C11 / C18): a copy function never hands back what it was given.
func copyReturnsFresh(c *Check, a *Anchors, rule string) {
	c.Rule(rule, "no function of internal/deepcopy and no DeepCopy method of taskfile/ast returns its own argument / receiver (a pointer, slice or map) except on the edge where that value is nil: `if orig == nil || orig.Len() == 0 { return orig }` hands the caller the ORIGINAL empty container, which the merge and the task compiler then fill — the writes land in the shared definition (which of several users wins depends on iteration and scheduling order)")
	n := 0
	ord := map[string]int{}
	for _, fb := range c.P.Bodies() {
		if fb.Decl == nil {
			continue
		}
		isCopy := fb.Pkg.PkgPath == PkgDeepcopy && fb.Decl.Name.IsExported() && fb.Decl.Name.Name != "TraverseStringsFunc"
		if fb.Pkg.PkgPath == PkgAst && fb.Decl.Name.Name == "DeepCopy" && fb.Decl.Recv != nil {
			isCopy = true
		}
		// the templater's Replace* functions are copies too: the task compiler hands their result on as the call's own
		// variables / globs, which GetTask and the merge then write to (MATCH …)
		if fb.Pkg.PkgPath == PkgTemplater && fb.Decl.Name.IsExported() && strings.HasPrefix(fb.Decl.Name.Name, "Replace") && fb.Decl.Recv == nil {
			isCopy = true
		}
		if !isCopy {
			continue
		}
		info := fb.Info()
		var inputs []*types.Var
		add := func(fl *ast.FieldList) {
			if fl == nil {
				return
			}
			for _, fld := range fl.List {
				for _, id := range fld.Names {
					if v, ok := info.Defs[id].(*types.Var); ok {
						switch v.Type().Underlying().(type) {
						case *types.Pointer, *types.Slice, *types.Map:
							inputs = append(inputs, v)
						}
					}
				}
			}
		}
		add(fb.Decl.Recv)
		add(fb.Type.Params)
		if len(inputs) == 0 {
			continue
		}
		c.Fn(fb)
		f := NewFlow(c.P, fb, func(*ast.CallExpr, types.Object) string { return "" })
		f.NoInline = true
		f.Run()
		for _, r := range f.Returns {
			if len(r.Results) == 0 {
				continue
			}
			n++
			v := varOf(info, r.Results[0])
			self := false
			for _, in := range inputs {
				if v == in {
					self = true
				}
			}
			okNil := false
			if self {
				okNil = f.At[r].Has("nil:" + f.atomKey(r.Results[0], Facts{}))
			}
			c.Decide(!self || okNil, rule, ordinal(ord, "return@"+fnDisplay(fb)), r.Pos(), "returns a fresh value (or the nil it was given)",
				fmt.Sprintf("%s returns its own argument `%s` on a path where it is not known to be nil: the caller gets the original (an empty container counts — it is filled later), not a copy", fnDisplay(fb), exprStrOrNone(r.Results[0])))
		}
	}
	c.Floor(rule, n, 15)
}

// noSlotHeldAcrossRecursion (C16: reading always terminates): a token of a bounded channel is not kept while the holder recurses.
func noSlotHeldAcrossRecursion(c *Check, a *Anchors, rule string) {
	c.Rule(rule, "no function (or goroutine literal) of Task's own code sends a token into a channel field and keeps it — the matching receive is deferred — while it calls something that can re-enter its own enclosing function: with a bounded channel every level of the recursion holds a token while its descendants wait for one, so an include chain (or fan-out) deeper than the capacity blocks for ever")
	n := 0
	ord := map[string]int{}
	reachCache := map[*FuncBody]map[*FuncBody]bool{}
	for _, fb := range c.P.Bodies() {
		if !strings.HasPrefix(fb.Pkg.PkgPath, Mod) || bceSkipPkgs[fb.Pkg.PkgPath] {
			continue
		}
		info := fb.Info()
		inspectBody(fb.Body, func(nd ast.Node) bool {
			snd, ok := nd.(*ast.SendStmt)
			if !ok {
				return true
			}
			sel, ok := ast.Unparen(snd.Chan).(*ast.SelectorExpr)
			if !ok {
				return true
			}
			if s := info.Selections[sel]; s == nil || s.Kind() != types.FieldVal {
				return true
			}
			key := exprStr(sel)
			// the release is deferred: a defer after the send whose call receives from the same channel
			deferredRelease := false
			inspectBody(fb.Body, func(m ast.Node) bool {
				d, ok := m.(*ast.DeferStmt)
				if !ok || d.Pos() < snd.Pos() {
					return true
				}
				ast.Inspect(d, func(x ast.Node) bool {
					if u, ok := x.(*ast.UnaryExpr); ok && u.Op == token.ARROW && exprStr(ast.Unparen(u.X)) == key {
						deferredRelease = true
					}
					return true
				})
				return true
			})
			if !deferredRelease {
				return true
			}
			n++
			c.Fn(fb.Root())
			root := fb.Root()
			var rec *ast.CallExpr
			for _, call := range callsIn(fb, true) {
				if call.Pos() < snd.End() {
					continue
				}
				fn, _ := callee(info, call).(*types.Func)
				d := c.P.DeclOf(fn)
				if d == nil {
					continue
				}
				if reachCache[d] == nil {
					reachCache[d] = c.P.ReachableFrom([]*FuncBody{d}, nil)
				}
				if reachCache[d][root] {
					rec = call
				}
			}
			what := ""
			if rec != nil {
				what = exprStr(rec.Fun)
			}
			c.Decide(rec == nil, rule, ordinal(ord, "token "+key+"@"+fnDisplay(fb)), snd.Pos(), "the token is not held across a call that re-enters "+fnDisplay(root),
				fmt.Sprintf("a token of %s is taken here and released only by a deferred receive, while %s — which can re-enter %s — is called in between: every level of the recursion keeps its token while its descendants wait for one; deeper (or wider) than the channel's capacity, reading never finishes", key, what, fnDisplay(root)))
			return true
		})
	}
	c.Extra["tokens_held_to_function_end"] = n
	if n == 0 {
		c.OK(rule, "no-token-held-to-function-end", 0, "no function of the module sends into a channel field and defers the matching receive; the stored change C16-r4a is the positive example of this rule")
	}
}

// deepCopyNilSafe (C16): the generic copier calls DeepCopy on every element, nil ones included (a YAML null in a list).
func deepCopyNilSafe(c *Check, a *Anchors, rule string) {
	c.Rule(rule, "every DeepCopy method of taskfile/ast with a pointer receiver tests the receiver against nil before its first dereference (sibling agreement: deepcopy.Slice / Map / OrderedMap call DeepCopy on every element, and a `- null` entry of a list is a nil element): a method without the guard turns a null entry of an included Taskfile into a nil-pointer panic during the merge")
	n := 0
	for _, fb := range c.P.BodiesIn(PkgAst) {
		if fb.Decl == nil || fb.Decl.Name.Name != "DeepCopy" || fb.Decl.Recv == nil || len(fb.Decl.Recv.List) != 1 || len(fb.Decl.Recv.List[0].Names) != 1 {
			continue
		}
		info := fb.Info()
		recv, _ := info.Defs[fb.Decl.Recv.List[0].Names[0]].(*types.Var)
		if recv == nil {
			continue
		}
		if _, isPtr := recv.Type().(*types.Pointer); !isPtr {
			continue
		}
		n++
		c.Fn(fb)
		pm := parentMap(fb.Body)
		isNilTest := func(e ast.Expr, op token.Token) bool {
			be, ok := ast.Unparen(e).(*ast.BinaryExpr)
			return ok && be.Op == op && ((varOf(info, be.X) == recv && isNilLit(info, be.Y)) || (varOf(info, be.Y) == recv && isNilLit(info, be.X)))
		}
		var disj func(e ast.Expr) bool // recv == nil is a disjunct of e
		disj = func(e ast.Expr) bool {
			e = ast.Unparen(e)
			if isNilTest(e, token.EQL) {
				return true
			}
			if be, ok := e.(*ast.BinaryExpr); ok && be.Op == token.LOR {
				return disj(be.X) || disj(be.Y)
			}
			return false
		}
		var conj func(e ast.Expr) bool // recv != nil is a conjunct of e
		conj = func(e ast.Expr) bool {
			e = ast.Unparen(e)
			if isNilTest(e, token.NEQ) {
				return true
			}
			if be, ok := e.(*ast.BinaryExpr); ok && be.Op == token.LAND {
				return conj(be.X) || conj(be.Y)
			}
			return false
		}
		var bad ast.Node
		inspectDeep(fb.Body, func(nd ast.Node) bool {
			var deref bool
			switch x := nd.(type) {
			case *ast.StarExpr:
				deref = varOf(info, x.X) == recv
			case *ast.SelectorExpr:
				if varOf(info, x.X) == recv {
					if s := info.Selections[x]; s != nil && (s.Kind() == types.FieldVal || s.Indirect()) {
						deref = true
					}
				}
			}
			if !deref || bad != nil {
				return true
			}
			guarded := false
			// an earlier top-level `if recv == nil (|| ...) { return ... }`
			for _, st := range fb.Body.List {
				if st.End() > nd.Pos() {
					break
				}
				if ifs, ok := st.(*ast.IfStmt); ok && disj(ifs.Cond) && len(ifs.Body.List) > 0 {
					if _, isRet := ifs.Body.List[len(ifs.Body.List)-1].(*ast.ReturnStmt); isRet {
						guarded = true
					}
				}
			}
			// or an enclosing `if recv != nil (&& ...)`
			for p := pm[nd]; p != nil && !guarded; p = pm[p] {
				if ifs, ok := p.(*ast.IfStmt); ok && within(nd, ifs.Body) && conj(ifs.Cond) {
					guarded = true
				}
			}
			if !guarded {
				bad = nd
			}
			return true
		})
		pos := fb.Decl.Pos()
		if bad != nil {
			pos = bad.Pos()
		}
		c.Decide(bad == nil, rule, "nil-receiver@"+fnDisplay(fb), pos, "the receiver is tested against nil before it is dereferenced",
			fnDisplay(fb)+" dereferences its receiver without a preceding nil test, unlike its sibling DeepCopy methods: the generic copier calls it on the nil element that a `- null` list entry decodes to, and the merge of an included Taskfile panics")
	}
	c.Floor(rule, n, 10)
}

// reflectIsNilGuarded (C16): reflect.Value.IsNil panics for every kind but chan, func, interface, map, pointer and slice.
func reflectIsNilGuarded(c *Check, a *Anchors, rule string) {
	c.Rule(rule, "every call of reflect.Value.IsNil in Task's own code lies in a case clause of a switch on the Kind() of the SAME value that lists nillable kinds only (Chan, Func, Interface, Map, Pointer/Ptr, Slice, UnsafePointer), or follows `x.Kind() == <nillable kind> &&`: IsNil on a string, number or struct value panics — and a templated variable can be any Go value a template function returns (sprig's split gives map[string]string)")
	nillable := map[string]bool{"Chan": true, "Func": true, "Interface": true, "Map": true, "Pointer": true, "Ptr": true, "Slice": true, "UnsafePointer": true}
	n := 0
	ord := map[string]int{}
	for _, fb := range c.P.Bodies() {
		if !strings.HasPrefix(fb.Pkg.PkgPath, Mod) || bceSkipPkgs[fb.Pkg.PkgPath] {
			continue
		}
		info := fb.Info()
		var pm map[ast.Node]ast.Node
		inspectBody(fb.Body, func(nd ast.Node) bool {
			call, ok := nd.(*ast.CallExpr)
			if !ok || !isFunc(callee(info, call), "reflect", "Value", "IsNil") {
				return true
			}
			sel, ok := ast.Unparen(call.Fun).(*ast.SelectorExpr)
			if !ok {
				return true
			}
			n++
			c.Fn(fb.Root())
			if pm == nil {
				pm = parentMap(fb.Body)
			}
			recv := exprStr(sel.X)
			isKindOf := func(e ast.Expr) bool {
				kc, ok := ast.Unparen(e).(*ast.CallExpr)
				if !ok || !isFunc(callee(info, kc), "reflect", "Value", "Kind") {
					return false
				}
				ks, ok := ast.Unparen(kc.Fun).(*ast.SelectorExpr)
				return ok && exprStr(ks.X) == recv
			}
			kindName := func(e ast.Expr) string {
				if s, ok := ast.Unparen(e).(*ast.SelectorExpr); ok {
					if o := info.Uses[s.Sel]; o != nil && o.Pkg() != nil && o.Pkg().Path() == "reflect" {
						return s.Sel.Name
					}
				}
				return ""
			}
			guarded := false
			var child ast.Node = call
			for p := pm[call]; p != nil && !guarded; child, p = p, pm[p] {
				switch x := p.(type) {
				case *ast.CaseClause:
					sw, _ := pm[pm[x]].(*ast.SwitchStmt)
					if sw != nil && sw.Tag != nil && isKindOf(sw.Tag) && len(x.List) > 0 {
						all := true
						for _, e := range x.List {
							if !nillable[kindName(e)] {
								all = false
							}
						}
						guarded = all
					}
				case *ast.BinaryExpr:
					// x.Kind() == K && <...IsNil...>
					if x.Op == token.LAND && x.Y == child {
						if be, ok := ast.Unparen(x.X).(*ast.BinaryExpr); ok && be.Op == token.EQL && isKindOf(be.X) && nillable[kindName(be.Y)] {
							guarded = true
						}
					}
				case *ast.IfStmt:
					if within(call, x.Body) {
						if be, ok := ast.Unparen(x.Cond).(*ast.BinaryExpr); ok && be.Op == token.EQL && isKindOf(be.X) && nillable[kindName(be.Y)] {
							guarded = true
						}
					}
				}
			}
			c.Decide(guarded, rule, ordinal(ord, "IsNil("+recv+")@"+fnDisplay(fb.Root())), call.Pos(), "the value's kind was tested to be nillable",
				"`"+exprStr(call)+"` is called without a test that "+recv+" has a nillable kind: for a string, number, bool or struct value reflect panics (\"call of reflect.Value.IsNil on string Value\") — e.g. an element of the map[string]string that a template function returned and a ref: passed on to another task")
			return true
		})
	}
	c.Floor(rule, n, 1)
}

// discardedErrorValueUsed (C16 / C14): "cannot fail" stated by discarding the error, then the value is used.
func discardedErrorValueUsed(c *Check, a *Anchors, rule string) {
	c.Rule(rule, "in packages task, taskfile and taskfile/ast no call of a module function that returns (value, error) has its error discarded with `_` while the value — a pointer, map, slice or interface — is used afterwards without a nil test: when the call does fail the value is nil and its first use panics (in a Go defer, as in the deferred-command runner, that takes the whole process down instead of ending with a diagnosed error)")
	n := 0
	ord := map[string]int{}
	for _, fb := range c.P.Bodies() {
		if fb.Pkg.PkgPath != PkgTask && fb.Pkg.PkgPath != PkgTaskfile && fb.Pkg.PkgPath != PkgAst {
			continue
		}
		info := fb.Info()
		inspectBody(fb.Body, func(nd ast.Node) bool {
			as, ok := nd.(*ast.AssignStmt)
			if !ok || len(as.Lhs) != 2 || len(as.Rhs) != 1 {
				return true
			}
			errID, ok := as.Lhs[1].(*ast.Ident)
			if !ok || errID.Name != "_" {
				return true
			}
			call, ok := ast.Unparen(as.Rhs[0]).(*ast.CallExpr)
			if !ok {
				return true
			}
			fn, ok := callee(info, call).(*types.Func)
			if !ok || fn.Pkg() == nil || !strings.HasPrefix(fn.Pkg().Path(), Mod) {
				return true
			}
			sig := fn.Type().(*types.Signature)
			if sig.Results().Len() != 2 || !isErrorType(sig.Results().At(1).Type()) {
				return true
			}
			v := varOf(info, as.Lhs[0])
			if v == nil {
				return true
			}
			switch v.Type().Underlying().(type) {
			case *types.Pointer, *types.Map, *types.Slice, *types.Interface:
			default:
				return true
			}
			n++
			c.Fn(fb.Root())
			// used after the assignment without a nil test in between
			var use ast.Node
			tested := false
			inspectDeep(fb.Root().Body, func(m ast.Node) bool {
				if m.Pos() <= as.End() || use != nil {
					return true
				}
				switch x := m.(type) {
				case *ast.BinaryExpr:
					if (x.Op == token.EQL || x.Op == token.NEQ) && varOf(info, x.X) == v && isNilLit(info, x.Y) {
						tested = true
					}
				case *ast.Ident:
					if info.Uses[x] == v && !tested {
						use = x
					}
				}
				return true
			})
			c.Decide(use == nil, rule, ordinal(ord, calleeName(fn)+"@"+fnDisplay(fb.Root())), as.Pos(), "the value is not used (or nil-tested first)",
				"the error of "+calleeName(fn)+" is discarded in "+fnDisplay(fb.Root())+" and `"+v.Name()+"` is used afterwards without a nil test: when the call fails the value is nil and the use panics instead of the failure being reported")
			return true
		})
	}
	c.Extra["discarded_error_sites"] = n
	if n == 0 {
		c.OK(rule, "no-discarded-error", 0, "no (value, error) call of a module function discards its error in the inspected packages")
	}
}

// alwaysYieldsObject: every return of the declared function h yields, as its first result, a variable that is an object on
// that path — defined as &T{…} / new(T), or read from a map with comma-ok and returned inside the branch that tested the ok
// true. (A `return nil, false`, a delegated call, an index expression or a naked return make it a lookup that can miss.)
func alwaysYieldsObject(h *FuncBody) bool {
	if h.Decl == nil || h.Body == nil {
		return false
	}
	info := h.Info()
	pm := parentMap(h.Body)
	nRet, all := 0, true
	inspectBody(h.Body, func(n ast.Node) bool {
		r, ok := n.(*ast.ReturnStmt)
		if !ok {
			return true
		}
		nRet++
		if len(r.Results) != 2 {
			all = false
			return true
		}
		v := varOf(info, r.Results[0])
		if v == nil || v.IsField() || isParamOf(info, h, v) {
			all = false
			return true
		}
		defs := defsOf(info, h.Body, v)
		if len(defs) == 0 {
			all = false
		}
		for _, d := range defs {
			d = ast.Unparen(d)
			switch x := d.(type) {
			case *ast.UnaryExpr:
				if _, isLit := ast.Unparen(x.X).(*ast.CompositeLit); x.Op == token.AND && isLit {
					continue
				}
			case *ast.CallExpr:
				if isBuiltin(info, x, "new") {
					continue
				}
			case *ast.IndexExpr:
				// `v, ok := m[k]` — fine when the return sits in the branch that tested ok
				var okVar *types.Var
				ast.Inspect(h.Body, func(m ast.Node) bool {
					if as, isAs := m.(*ast.AssignStmt); isAs && len(as.Lhs) == 2 && len(as.Rhs) == 1 && ast.Unparen(as.Rhs[0]) == ast.Expr(x) {
						okVar = varOf(info, as.Lhs[1])
					}
					return true
				})
				guarded := false
				for p := pm[ast.Node(r)]; p != nil && okVar != nil; p = pm[p] {
					if ifs, isIf := p.(*ast.IfStmt); isIf && within(r, ifs.Body) && varOf(info, ifs.Cond) == okVar {
						guarded = true
					}
				}
				if guarded {
					continue
				}
			}
			all = false
		}
		return true
	})
	return nRet > 0 && all
}
