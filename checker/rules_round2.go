package main

// Rules added after the second round of independently seeded changes.

import (
	"sort"
	"fmt"
	"go/ast"
	"go/token"
	"go/types"
	"strings"
)

// copierNeverAliases (C11): the reflect-based copier behind every templater.Replace* call never puts the ORIGINAL value
// of a reference kind (pointer, interface, slice, map) into the copy.
func copierNeverAliases(c *Check, a *Anchors) {
	c.Rule("copier-never-aliases", "in deepcopy.TraverseStringsFunc the cases for reference kinds (Ptr, Interface, Slice, Map) set the copy only to freshly made values (reflect.New / MakeSlice / MakeMap / a recursively built copy), never to the original value: templating must give every call its own variables, including empty maps and slices")
	fb := c.P.Func(PkgDeepcopy, "", "TraverseStringsFunc")
	if fb == nil {
		c.Errorf("copier-never-aliases: deepcopy.TraverseStringsFunc not found")
		return
	}
	c.Fn(fb)
	info := fb.Info()
	n := 0
	for _, lit := range allLits(fb) {
		if lit.Type.Params == nil || lit.Type.Params.NumFields() != 2 {
			continue
		}
		var orig *types.Var // second parameter: the original value
		ids := []*ast.Ident{}
		for _, fld := range lit.Type.Params.List {
			ids = append(ids, fld.Names...)
		}
		if len(ids) == 2 {
			orig, _ = info.Defs[ids[1]].(*types.Var)
		}
		if orig == nil {
			continue
		}
		inspectBody(lit.Body, func(nd ast.Node) bool {
			sw, ok := nd.(*ast.SwitchStmt)
			if !ok {
				return true
			}
			for _, cl := range sw.Body.List {
				cc := cl.(*ast.CaseClause)
				refKind := ""
				for _, e := range cc.List {
					s := exprStr(e)
					for _, k := range []string{"reflect.Ptr", "reflect.Pointer", "reflect.Interface", "reflect.Slice", "reflect.Map"} {
						if s == k {
							refKind = k
						}
					}
				}
				if refKind == "" {
					continue
				}
				n++
				alias := ""
				for _, st := range cc.Body {
					ast.Inspect(st, func(m ast.Node) bool {
						call, ok := m.(*ast.CallExpr)
						if !ok {
							return true
						}
						if sel, ok := ast.Unparen(call.Fun).(*ast.SelectorExpr); ok && (sel.Sel.Name == "Set" || sel.Sel.Name == "SetMapIndex") && len(call.Args) >= 1 {
							last := call.Args[len(call.Args)-1]
							if varOf(info, last) == orig {
								alias = exprStr(call)
							}
						}
						return true
					})
				}
				c.Decide(alias == "", "copier-never-aliases", "case "+refKind+"@"+fnDisplay(fb), cc.Pos(), "the copy is built from freshly made values",
					"in the "+refKind+" case the copier stores the ORIGINAL value (`"+alias+"`): the templated copy aliases the shared definition, so a template function that mutates it (or a later writer) changes what other tasks see")
			}
			return false
		})
	}
	c.Floor("copier-never-aliases", n, 4)
}

// resolvesThroughGetTask (C14 / C15): inside package task a task is looked up by name only through the resolver
// (FindMatchingTasks / GetTask: exact, wildcard, alias) — never by indexing the task table directly.
func resolvesThroughGetTask(c *Check, a *Anchors, rule string) {
	c.Rule(rule, "in package task the only direct lookup in the Taskfile's task table (Tasks.Get on Executor.Taskfile.Tasks) is the exact-match step of FindMatchingTasks; every other site resolves a call through GetTask, so aliases and wildcard names work everywhere a task can be referenced (deferred commands, watch, summary)")
	n := 0
	for _, fb := range c.P.BodiesIn(PkgTask) {
		info := fb.Info()
		for _, call := range callsIn(fb, false) {
			if !isFunc(callee(info, call), PkgAst, "Tasks", "Get") {
				continue
			}
			sel, ok := ast.Unparen(call.Fun).(*ast.SelectorExpr)
			if !ok || !fieldSel(info, sel.X, PkgAst, "Taskfile", "Tasks") {
				continue
			}
			n++
			c.Fn(fb.Root())
			c.Decide(fb.Root() == a.FindMatching, rule, "Tasks.Get@"+fnDisplay(fb.Root()), call.Pos(), "the exact-match step of the resolver",
				"the task table is indexed directly in "+fnDisplay(fb.Root())+" instead of resolving the call through GetTask: a task referenced through an alias or a wildcard name is not found here (e.g. its deferred commands silently do not run)")
		}
	}
	c.Floor(rule, n, 1)
}

// aliasScanUnfiltered (C15): the alias scan collects every task that lists the alias.
func aliasScanUnfiltered(c *Check, a *Anchors) {
	c.Rule("alias-scan-unfiltered", "the alias scan of GetTask collects a task exactly when slices.Contains(task.Aliases, name) holds — no additional filter (internal, description, namespace ...): ambiguity (203) and resolution must see every task that carries the alias")
	gt := a.GetTask
	n := 0
	for _, g := range c.P.groupOf(gt, 2) {
		info := g.Info()
		inspectBody(g.Body, func(nd ast.Node) bool {
			r, ok := nd.(*ast.RangeStmt)
			if !ok {
				return true
			}
			call, ok := ast.Unparen(r.X).(*ast.CallExpr)
			if !ok || !(isFunc(callee(info, call), PkgAst, "Tasks", "Values") || isFunc(callee(info, call), PkgAst, "Tasks", "All")) {
				return true
			}
			inspectBody(r.Body, func(m ast.Node) bool {
				ifs, ok := m.(*ast.IfStmt)
				if !ok {
					return true
				}
				usesAliases := false
				ast.Inspect(ifs.Cond, func(k ast.Node) bool {
					if sel, ok := k.(*ast.SelectorExpr); ok && fieldSel(info, sel, PkgAst, "Task", "Aliases") {
						usesAliases = true
					}
					return true
				})
				if !usesAliases {
					// a guard that skips tasks before the alias test
					if hasJump(ifs.Body) {
						n++
						c.Bad("alias-scan-unfiltered", "skip@"+fnDisplay(g), ifs.Pos(), "the alias scan skips tasks on `"+exprStr(ifs.Cond)+"` before testing their aliases")
					}
					return true
				}
				n++
				pure := false
				if cc, ok := ast.Unparen(ifs.Cond).(*ast.CallExpr); ok && isFunc(callee(info, cc), "slices", "", "Contains") && len(cc.Args) == 2 && fieldSel(info, cc.Args[0], PkgAst, "Task", "Aliases") {
					pure = true
				}
				c.Decide(pure, "alias-scan-unfiltered", "condition@"+fnDisplay(g), ifs.Pos(), "slices.Contains(task.Aliases, name) and nothing else",
					"the alias scan collects a task only when `"+exprStr(ifs.Cond)+"` holds: tasks carrying the alias but failing the extra condition are invisible to alias resolution and to the ambiguity check")
				return true
			})
			return true
		})
	}
	c.Floor("alias-scan-unfiltered", n, 1)
}

// lookupResultChecked (C16): the pointer result of a comma-ok lookup is dereferenced only where the lookup is known to have hit.
func lookupResultChecked(c *Check, a *Anchors) {
	c.Rule("lookup-result-checked", "for every call in the load/merge/run code to a module function that returns (pointer, bool) — the container lookups Tasks.Get, Includes.Get, Matrix.Get ... — a field of the returned pointer is dereferenced only on a path where the bool was tested true or the pointer tested non-nil")
	n := 0
	ord := map[string]int{}
	for _, fb := range c.P.Bodies() {
		if !strings.HasPrefix(fb.Pkg.PkgPath, Mod) || bceSkipPkgs[fb.Pkg.PkgPath] {
			continue
		}
		info := fb.Info()
		type lk struct {
			v     *types.Var
			label string
		}
		var lookups []lk
		labels := map[*ast.CallExpr]string{}
		inspectBody(fb.Body, func(nd ast.Node) bool {
			as, ok := nd.(*ast.AssignStmt)
			if !ok || len(as.Lhs) != 2 || len(as.Rhs) != 1 {
				return true
			}
			call, ok := ast.Unparen(as.Rhs[0]).(*ast.CallExpr)
			if !ok {
				return true
			}
			fn, ok := callee(info, call).(*types.Func)
			if !ok || fn.Pkg() == nil || !strings.HasPrefix(fn.Pkg().Path(), Mod) {
				return true
			}
			sig := fn.Type().(*types.Signature)
			if sig.Results().Len() != 2 || !isBool(sig.Results().At(1).Type()) {
				return true
			}
			if _, isPtr := sig.Results().At(0).Type().Underlying().(*types.Pointer); !isPtr {
				return true
			}
			v := varOf(info, as.Lhs[0])
			if v == nil || v.Name() == "_" {
				return true
			}
			l := fmt.Sprintf("lookup#%d", len(lookups))
			labels[call] = l
			lookups = append(lookups, lk{v, l})
			return true
		})
		if len(lookups) == 0 {
			continue
		}
		f := NewFlow(c.P, fb, func(call *ast.CallExpr, obj types.Object) string { return labels[call] })
		f.NoInline = true
		f.Run()
		for node, st := range f.At {
			switch node.(type) {
			case *ast.CallExpr, *ast.AssignStmt, *ast.ReturnStmt, *ast.ExprStmt, *ast.IncDecStmt:
			default:
				continue
			}
			ast.Inspect(node, func(m ast.Node) bool {
				if _, isLit := m.(*ast.FuncLit); isLit {
					return false
				}
				sel, ok := m.(*ast.SelectorExpr)
				if !ok {
					return true
				}
				s := info.Selections[sel]
				if s == nil || s.Kind() != types.FieldVal {
					return true
				}
				for _, l := range lookups {
					if varOf(info, sel.X) != l.v || !st.Has(defPrefix(l.v)+l.label) {
						continue
					}
					n++
					c.Fn(fb.Root())
					okDeref := st.Has("true:"+l.label) || st.Has("nonnil:"+l.label)
					c.Decide(okDeref, "lookup-result-checked", ordinal(ord, exprStr(sel)+"@"+fnDisplay(fb.Root())), sel.Pos(), "dereferenced only after the lookup was established to have hit",
						"`"+exprStr(sel)+"` dereferences the pointer returned by a comma-ok lookup on a path where neither the bool was tested true nor the pointer tested non-nil: for a missing key Task panics with a nil pointer dereference")
				}
				return true
			})
		}
	}
	c.Floor("lookup-result-checked", n, 2)
}

// closerClosesEveryWriter (C17): whatever writers WrapWriter hands out, the CloseFunc flushes all of them.
func closerClosesEveryWriter(c *Check, a *Anchors) {
	c.Rule("closer-closes-every-writer", "in every Output.WrapWriter implementation, each distinct buffering writer returned for stdout / stderr (a value whose type has a close method) is closed by the returned CloseFunc: a writer that is handed out but never closed loses its last unterminated line")
	n := 0
	for _, fb := range c.P.BodiesIn(PkgOutput) {
		if fb.Decl == nil || fb.Decl.Name.Name != "WrapWriter" {
			continue
		}
		info := fb.Info()
		for _, r := range returnsOf(fb.Body) {
			if len(r.Results) != 3 {
				continue
			}
			closed := map[*types.Var]bool{}
			if fl, ok := ast.Unparen(r.Results[2]).(*ast.FuncLit); ok {
				inspectDeep(fl.Body, func(m ast.Node) bool {
					if call, ok := m.(*ast.CallExpr); ok {
						if sel, ok := ast.Unparen(call.Fun).(*ast.SelectorExpr); ok && strings.EqualFold(sel.Sel.Name, "close") {
							if v := varOf(info, sel.X); v != nil {
								closed[v] = true
							}
						}
					}
					return true
				})
			}
			for i, name := range []string{"stdout", "stderr"} {
				v := varOf(info, r.Results[i])
				if v == nil {
					continue
				}
				hasClose := false
				ms := types.NewMethodSet(v.Type())
				for j := 0; j < ms.Len(); j++ {
					if strings.EqualFold(ms.At(j).Obj().Name(), "close") {
						hasClose = true
					}
				}
				if !hasClose {
					continue
				}
				n++
				c.Fn(fb)
				c.Decide(closed[v], "closer-closes-every-writer", name+"@"+fnDisplay(fb), r.Pos(), "the "+name+" writer is closed by the CloseFunc",
					"the buffering writer returned for "+name+" is not closed by the returned CloseFunc: output after its last newline is never flushed (lost)")
			}
		}
	}
	c.Floor("closer-closes-every-writer", n, 4)
}

var inPlaceMutators = map[string]bool{
	"slices.Sort": true, "slices.SortFunc": true, "slices.SortStableFunc": true, "slices.Reverse": true, "slices.Compact": true, "slices.CompactFunc": true,
	"sort.Strings": true, "sort.Ints": true, "sort.Slice": true, "sort.SliceStable": true, "sort.Sort": true, "sort.Stable": true,
}

// noInPlaceMutationOfShared (C18 / C11): sorting or compacting a slice in place is a write to its backing array.
func noInPlaceMutationOfShared(c *Check, a *Anchors, rule string) {
	c.Rule(rule, "in functions reachable from the run / compile / list entry points, a slice handed to an in-place mutator (slices.Sort*, Reverse, Compact*, sort.*) is provably private to the call (made, copied or appended-to locally), or every caller passes such a slice: sorting a slice of the shared Taskfile (set, shopt, aliases ...) in place is an unsynchronised write from every running task")
	reach := c.P.ReachableFrom(runPhaseRoots(a), nil)
	n := 0
	ord := map[string]int{}
	for root := range reach {
		if root.Decl == nil || !strings.HasPrefix(root.Pkg.PkgPath, Mod) {
			continue
		}
		for _, fb := range append([]*FuncBody{root}, allLits(root)...) {
			info := fb.Info()
			for _, call := range callsIn(fb, false) {
				fn, ok := callee(info, call).(*types.Func)
				if !ok || fn.Pkg() == nil || !inPlaceMutators[fn.Pkg().Path()+"."+fn.Name()] || len(call.Args) == 0 {
					continue
				}
				n++
				c.Fn(root)
				ok2, why := freshSlice(c, a, fb, call.Args[0], 2)
				c.Decide(ok2, rule, ordinal(ord, fn.Pkg().Name()+"."+fn.Name()+"@"+fnDisplay(root)), call.Pos(), why,
					fmt.Sprintf("%s.%s mutates `%s` in place in %s and that slice is %s: when it is a list of the shared Taskfile, concurrently running tasks write the same backing array", fn.Pkg().Name(), fn.Name(), exprStr(call.Args[0]), fnDisplay(root), why))
			}
		}
	}
	c.Floor(rule, n, 3)
}

// freshSlice: the slice expression denotes a backing array private to this call.
func freshSlice(c *Check, a *Anchors, fb *FuncBody, e ast.Expr, depth int) (bool, string) {
	info := fb.Info()
	root := fb.Root()
	e = ast.Unparen(e)
	if call, ok := e.(*ast.CallExpr); ok {
		if isBuiltin(info, call, "make") || isBuiltin(info, call, "append") {
			return true, "made / appended here"
		}
		if fn, ok := callee(info, call).(*types.Func); ok && fn.Pkg() != nil && (fn.Pkg().Path() == "slices" && (fn.Name() == "Clone" || fn.Name() == "Collect" || fn.Name() == "Sorted" || fn.Name() == "Concat")) {
			return true, "cloned / collected here"
		}
		if fn, ok := callee(info, call).(*types.Func); ok && fn.Pkg() != nil && fn.Pkg().Path() == "maps" {
			return true, "collected from a map"
		}
		return true, "result of a call (a new slice by convention of the callee)"
	}
	v := varOf(info, e)
	if v == nil {
		if _, isLit := e.(*ast.CompositeLit); isLit {
			return true, "literal"
		}
		return false, "a field or element of something else"
	}
	if isParamOf(info, fb, v) || isParamOf(info, root, v) {
		if depth > 0 && root.Obj != nil {
			idx := paramIndex(info, root, v)
			callers, allFresh := 0, true
			for _, cb := range c.P.Bodies() {
				if !strings.HasPrefix(cb.Pkg.PkgPath, Mod) {
					continue
				}
				for _, call := range callsIn(cb, false) {
					target := a.is(callee(cb.Info(), call), root)
					if fv, isVar := callee(cb.Info(), call).(*types.Var); isVar && !target {
						// a call through a func-typed value of the same signature (a Sorter stored in a field / parameter)
						target = types.Identical(fv.Type().Underlying(), root.Obj.Type().Underlying())
					}
					if target && idx >= 0 {
						// variadic: every argument from idx on
						for ai := idx; ai < len(call.Args); ai++ {
							callers++
							if ok, _ := freshSlice(c, a, cb, call.Args[ai], depth-1); !ok {
								allFresh = false
							}
							if sig, ok := root.Obj.Type().(*types.Signature); !ok || !sig.Variadic() || idx != sig.Params().Len()-1 {
								break
							}
						}
					}
				}
			}
			if callers > 0 && allFresh {
				return true, "parameter bound to private slices by every caller"
			}
		}
		return false, "a parameter (callers may pass a slice of the shared Taskfile)"
	}
	// range variable over a parameter's elements (e.g. `for _, s := range ss`)
	var fromRange ast.Expr
	inspectDeep(root.Body, func(nd ast.Node) bool {
		if r, ok := nd.(*ast.RangeStmt); ok && r.Value != nil && varOf(info, r.Value) == v {
			fromRange = r.X
		}
		return true
	})
	if fromRange != nil {
		if depth > 0 {
			return freshSlice(c, a, fb, fromRange, depth)
		}
		return false, "an element of a ranged container"
	}
	defs := defsOf(info, root.Body, v)
	if len(defs) == 0 {
		return true, "declared here and only appended to"
	}
	for _, d := range defs {
		if ok, _ := freshSlice(c, a, fb, d, depth-1); !ok {
			return false, "assigned from `" + exprStr(d) + "`"
		}
	}
	return true, "local whose every definition is private"
}

var _ = token.NoPos

// reflectFieldsSettable (C16): reflect.Value.Set panics on a value reached through an unexported struct field.
func reflectFieldsSettable(c *Check, a *Anchors) {
	c.Rule("reflect-fields-settable", "wherever Task's own code walks the fields of an arbitrary struct by reflection and writes into them (the copier behind templater.Replace*), the walk is guarded by a settability test (reflect.Value.CanSet / StructField.IsExported / PkgPath) in the same struct case: variable values decoded from YAML include structs with unexported fields (a timestamp scalar decodes to time.Time), and reflect.Value.Set on such a field panics")
	n := 0
	for _, fb := range c.P.Bodies() {
		if !strings.HasPrefix(fb.Pkg.PkgPath, Mod) || bceSkipPkgs[fb.Pkg.PkgPath] {
			continue
		}
		info := fb.Info()
		inspectBody(fb.Body, func(nd ast.Node) bool {
			cc, ok := nd.(*ast.CaseClause)
			if !ok {
				return true
			}
			isStruct := false
			for _, e := range cc.List {
				if exprStr(e) == "reflect.Struct" {
					isStruct = true
				}
			}
			if !isStruct {
				return true
			}
			walks, writes, guarded := false, false, false
			for _, st := range cc.Body {
				ast.Inspect(st, func(m ast.Node) bool {
					call, ok := m.(*ast.CallExpr)
					if !ok {
						return true
					}
					sel, ok := ast.Unparen(call.Fun).(*ast.SelectorExpr)
					if !ok {
						// a recursive call through a func variable that receives a Field(i) value writes into it
						for _, arg := range call.Args {
							if ac, ok := ast.Unparen(arg).(*ast.CallExpr); ok {
								if as, ok := ast.Unparen(ac.Fun).(*ast.SelectorExpr); ok && as.Sel.Name == "Field" && isReflectValue(info, as.X) {
									writes = true
								}
							}
						}
						return true
					}
					if !isReflectValue(info, sel.X) && sel.Sel.Name != "IsExported" {
						return true
					}
					switch sel.Sel.Name {
					case "Field", "FieldByName", "FieldByIndex":
						walks = true
					case "Set", "SetString", "SetInt", "SetBool":
						writes = true
					case "CanSet", "IsExported", "CanInterface":
						guarded = true
					}
					return true
				})
			}
			if !walks || !writes {
				return true
			}
			n++
			c.Fn(fb.Root())
			c.Decide(guarded, "reflect-fields-settable", "case reflect.Struct@"+fnDisplay(fb.Root()), cc.Pos(), "the field walk tests settability",
				"the struct case walks every field of an arbitrary struct and writes into the copy without testing CanSet / IsExported: a variable whose YAML value is a timestamp (time.Time has unexported fields) makes reflect.Value.Set panic")
			return true
		})
	}
	c.Floor("reflect-fields-settable", n, 1)
}

func isReflectValue(info *types.Info, e ast.Expr) bool {
	tv, ok := info.Types[e]
	if !ok {
		return false
	}
	return types.TypeString(tv.Type, nil) == "reflect.Value"
}

// errorsNotSwallowed (C16): a branch that has just established `err != nil` does not report success.
var swallowReviewed = map[string]string{
	"semver.NewVersion@task.(*Executor).doVersionChecks": "an unparsable build version (\"devel\") disables the upper-bound schema check by design; the Taskfile itself was already validated",
	"fmt.Fprint@internal/output.(*prefixWriter).writeLine": "a failed write of the prefix bracket to the terminal drops the line; nothing the caller could do differs from the success case and the payload write's own error is still returned",
}

func errorsNotSwallowed(c *Check, a *Anchors) {
	c.Rule("error-branch-not-success", "in Task's own code a branch guarded by `err != nil` (err of type error) never returns a nil error from a function whose last result is error — an established failure is not reported as success (exit 0 with nothing printed); the deliberate exceptions are an explicit table with one reason each")
	n, checked := 0, 0
	seen := map[string]bool{}
	ord := map[string]int{}
	for _, fb := range c.P.Bodies() {
		if !strings.HasPrefix(fb.Pkg.PkgPath, Mod) || bceSkipPkgs[fb.Pkg.PkgPath] {
			continue
		}
		if fb.Type.Results == nil || fb.Type.Results.NumFields() == 0 {
			continue
		}
		info := fb.Info()
		last := fb.Type.Results.List[len(fb.Type.Results.List)-1]
		if tv, ok := info.Types[last.Type]; !ok || !isErrorType(tv.Type) {
			continue
		}
		pm := parentMap(fb.Body)
		inspectBody(fb.Body, func(nd ast.Node) bool {
			ifs, ok := nd.(*ast.IfStmt)
			if !ok {
				return true
			}
			be, ok := ast.Unparen(ifs.Cond).(*ast.BinaryExpr)
			if !ok || be.Op != token.NEQ || !isNilLit(info, be.Y) {
				return true
			}
			v := varOf(info, be.X)
			if v == nil || !isErrorType(v.Type()) {
				return true
			}
			checked++
			// where does err come from: the if's init or the nearest preceding assignment in the enclosing block
			src := ""
			find := func(st ast.Stmt) {
				if as, ok := st.(*ast.AssignStmt); ok && len(as.Rhs) == 1 {
					for _, l := range as.Lhs {
						if varOf(info, l) == v {
							if call, ok := ast.Unparen(as.Rhs[0]).(*ast.CallExpr); ok {
								src = calleeName(callee(info, call))
							} else {
								src = exprStr(as.Rhs[0])
							}
						}
					}
				}
			}
			if ifs.Init != nil {
				find(ifs.Init)
			}
			if src == "" {
				if blk, ok := pm[ifs].(*ast.BlockStmt); ok {
					for _, st := range blk.List {
						if st == ast.Stmt(ifs) {
							break
						}
						find(st)
					}
				}
			}
			inspectBody(ifs.Body, func(m ast.Node) bool {
				r, ok := m.(*ast.ReturnStmt)
				if !ok {
					return true
				}
				if inner, ok := m.(*ast.IfStmt); ok && inner != ifs {
					return true
				}
				res := errResult(r)
				if res == nil || !isNilLit(info, res) {
					return true
				}
				// `return false, nil` / `return "", nil` carry an answer ("not up to date", "no value"); only a return whose
				// every result is nil tells the caller nothing but "succeeded"
				for _, other := range r.Results {
					if !isNilLit(info, other) {
						return true
					}
				}
				// only returns directly governed by this test (not under a nested condition that may re-classify the error)
				direct := true
				for p := pm[r]; p != nil && p != ast.Node(ifs.Body); p = pm[p] {
					switch p.(type) {
					case *ast.IfStmt, *ast.CaseClause, *ast.SwitchStmt, *ast.TypeSwitchStmt:
						direct = false
					}
				}
				if !direct {
					return true
				}
				n++
				key := src + "@" + fnDisplay(fb.Root())
				c.Fn(fb.Root())
				if reason, ok := swallowReviewed[key]; ok {
					seen[key] = true
					c.OK("error-branch-not-success", ordinal(ord, key), r.Pos(), "reviewed exception: "+reason)
					return true
				}
				c.Bad("error-branch-not-success", ordinal(ord, key), r.Pos(), fmt.Sprintf("the error of %s is known to be non-nil here and the function returns a nil error: the failure is reported to the caller as success (with --summary / listing this is exit 0 and nothing printed)", src))
				return true
			})
			return true
		})
	}
	c.Extra["error_tests_inspected"] = checked
	c.Floor("error-branch-not-success", checked, 150)
	_ = seen
}

func isErrorType(t types.Type) bool {
	return t != nil && types.Identical(t, types.Universe.Lookup("error").Type())
}

// recursionReviewed (C07 / C16): every recursion in Task's own code has a reviewed bound.
var recursionBounds = map[string]string{
	"internal/flags.(*flagsOption).ApplyToExecutor <-> task.(*Executor).Options": "Options dispatches to each option's ApplyToExecutor; the flags option re-enters Options with a literal list of With* options, none of which is the flags option itself",
}

func recursionReviewed(c *Check, a *Anchors, rule string) {
	c.Rule(rule, "every recursive cycle of Task's own code — a strongly connected component of the static call graph (interface calls resolved to every implementing method, function values by reference) or a function literal that calls the variable it is stored in — is in the reviewed table with the measure that bounds it (call-count gate, acyclic include graph, depth of a finite value, ancestor set); a new recursion is reported: cyclic Taskfiles must end with an error, never hang or exhaust memory")
	// graph over declared functions
	var nodes []*FuncBody
	for _, fb := range c.P.Bodies() {
		if fb.Decl != nil && strings.HasPrefix(fb.Pkg.PkgPath, Mod) && !bceSkipPkgs[fb.Pkg.PkgPath] {
			nodes = append(nodes, fb)
		}
	}
	succ := map[*FuncBody][]*FuncBody{}
	for _, n := range nodes {
		succ[n] = c.P.staticCallees(n, true)
	}
	// Tarjan
	index, low := map[*FuncBody]int{}, map[*FuncBody]int{}
	on := map[*FuncBody]bool{}
	var stack []*FuncBody
	var sccs [][]*FuncBody
	idx := 0
	var strong func(v *FuncBody)
	strong = func(v *FuncBody) {
		idx++
		index[v], low[v] = idx, idx
		stack = append(stack, v)
		on[v] = true
		for _, w := range succ[v] {
			if _, ok := succ[w]; !ok {
				continue
			}
			if index[w] == 0 {
				strong(w)
				if low[w] < low[v] {
					low[v] = low[w]
				}
			} else if on[w] && index[w] < low[v] {
				low[v] = index[w]
			}
		}
		if low[v] == index[v] {
			var comp []*FuncBody
			for {
				w := stack[len(stack)-1]
				stack = stack[:len(stack)-1]
				on[w] = false
				comp = append(comp, w)
				if w == v {
					break
				}
			}
			self := false
			for _, w := range succ[v] {
				if w == v {
					self = true
				}
			}
			if len(comp) > 1 || self {
				sccs = append(sccs, comp)
			}
		}
	}
	for _, n := range nodes {
		if index[n] == 0 {
			strong(n)
		}
	}
	n := 0
	for _, comp := range sccs {
		var names []string
		for _, f := range comp {
			names = append(names, fnDisplay(f))
		}
		sort.Strings(names)
		key := strings.Join(names, " <-> ")
		n++
		c.Fn(comp[0])
		reason, ok := recursionBounds[key]
		if !ok {
			ok, reason = sccBounded(c, a, comp)
		}
		c.Decide(ok, rule, "cycle{"+key+"}", comp[0].Body.Pos(), "bounded: "+reason,
			"these functions call each other recursively and the cycle is not in the reviewed table of bounded recursions: on a cyclic or self-referential Taskfile nothing stops the recursion (hang, stack overflow or memory exhaustion instead of a diagnosed error)")
	}
	// recursive closures
	for _, fb := range nodes {
		info := fb.Info()
		inspectDeep(fb.Body, func(nd ast.Node) bool {
			as, ok := nd.(*ast.AssignStmt)
			if !ok || len(as.Lhs) != 1 || len(as.Rhs) != 1 {
				return true
			}
			lit, ok := ast.Unparen(as.Rhs[0]).(*ast.FuncLit)
			if !ok {
				return true
			}
			v := varOf(info, as.Lhs[0])
			if v == nil {
				return true
			}
			rec := false
			ast.Inspect(lit.Body, func(m ast.Node) bool {
				if call, ok := m.(*ast.CallExpr); ok && varOf(info, call.Fun) == v {
					rec = true
				}
				return true
			})
			if !rec {
				return true
			}
			n++
			c.Fn(fb)
			key := "closure " + v.Name() + "@" + fnDisplay(fb)
			ok2, reason := closureBounded(info, fb, lit, v)
			if !ok2 {
				ok2, reason = closureDescends(info, lit, v)
			}
			if r, listed := recursionBounds[key]; listed {
				ok2, reason = true, r
			}
			c.Decide(ok2, rule, key, lit.Pos(), "bounded: "+reason,
				"the function literal stored in `"+v.Name()+"` calls itself and neither carries a visited/ancestor set that it tests before descending nor is in the reviewed table: a Taskfile whose tasks reference each other cyclically makes it recurse without bound")
			return true
		})
	}
	c.Floor(rule, n, 4)
}

// sccBounded recognises the bounded shapes of recursion between declared functions.
func sccBounded(c *Check, a *Anchors, comp []*FuncBody) (bool, string) {
	in := map[*FuncBody]bool{}
	for _, f := range comp {
		in[f] = true
	}
	// (1) the run-phase cycle: every cycle through RunTask passes its call-count gate (rule recursion-gated)
	if in[a.RunTask] {
		// every other member must re-enter the cycle only through RunTask: remove RunTask and the rest must be acyclic
		rest := map[*FuncBody]bool{}
		for f := range in {
			if f != a.RunTask {
				rest[f] = true
			}
		}
		if !hasCycle(c, rest) {
			return true, "every cycle of this component passes through RunTask, whose call-count gate (rule recursion-gated) ends it after MaximumTaskCall activations per task"
		}
		return false, ""
	}
	// (2) nil-receiver initialisation: Set calls the constructor only under `recv == nil`, the constructor calls Set on the fresh object
	if len(comp) == 2 {
		for i, f := range comp {
			g := comp[1-i]
			if f.Decl == nil || f.Decl.Recv == nil || len(f.Decl.Recv.List[0].Names) == 0 {
				continue
			}
			info := f.Info()
			recv, _ := info.Defs[f.Decl.Recv.List[0].Names[0]].(*types.Var)
			all, cnt := true, 0
			pm := parentMap(f.Body)
			for _, call := range callsIn(f, true) {
				if !a.is(callee(info, call), g) {
					continue
				}
				cnt++
				guarded := false
				for p := pm[call]; p != nil; p = pm[p] {
					if ifs, ok := p.(*ast.IfStmt); ok && within(call, ifs.Body) {
						if be, ok := ast.Unparen(ifs.Cond).(*ast.BinaryExpr); ok && be.Op == token.EQL && varOf(info, be.X) == recv && isNilLit(info, be.Y) {
							guarded = true
						}
					}
				}
				if !guarded {
					all = false
				}
			}
			if cnt > 0 && all {
				return true, "the constructor is called only for a nil receiver and returns a non-nil object, whose Set does not call it again"
			}
		}
	}
	// (3) self-recursion over a graph with a visited set: AddVertex reports ErrVertexAlreadyExists and the function returns before recursing
	if len(comp) == 1 {
		f := comp[0]
		info := f.Info()
		guardEnd := token.NoPos
		inspectBody(f.Body, func(nd ast.Node) bool {
			ifs, ok := nd.(*ast.IfStmt)
			if !ok || ifs.Init == nil || !hasJump(ifs.Body) {
				return true
			}
			as, ok := ifs.Init.(*ast.AssignStmt)
			if !ok || len(as.Rhs) != 1 {
				return true
			}
			call, ok := ast.Unparen(as.Rhs[0]).(*ast.CallExpr)
			if !ok {
				return true
			}
			if fn, ok := callee(info, call).(*types.Func); !ok || fn.Name() != "AddVertex" {
				return true
			}
			if strings.Contains(exprStr(ifs.Cond), "ErrVertexAlreadyExists") {
				guardEnd = ifs.End()
			}
			return true
		})
		firstRec := token.NoPos
		for _, call := range callsIn(f, true) {
			if a.is(callee(info, call), f) && firstRec == token.NoPos {
				firstRec = call.Pos()
			}
		}
		if guardEnd != token.NoPos && guardEnd < firstRec {
			return true, "each activation first adds its vertex to the include graph and returns when the vertex already exists: one activation per distinct Taskfile location"
		}
	}
	return false, ""
}

func hasCycle(c *Check, set map[*FuncBody]bool) bool {
	state := map[*FuncBody]int{}
	var visit func(f *FuncBody) bool
	visit = func(f *FuncBody) bool {
		state[f] = 1
		for _, w := range c.P.staticCallees(f, true) {
			if !set[w] {
				continue
			}
			if state[w] == 1 || (state[w] == 0 && visit(w)) {
				return true
			}
		}
		state[f] = 2
		return false
	}
	for f := range set {
		if state[f] == 0 && visit(f) {
			return true
		}
	}
	return false
}

// closureDescends recognises structural descent: every recursive call passes a strict component of one of the literal's own
// parameters (reflect.Value.Elem/Field/Index/MapIndex, errors.Unwrap), possibly through one local variable.
func closureDescends(info *types.Info, lit *ast.FuncLit, self *types.Var) (bool, string) {
	params := map[*types.Var]bool{}
	for _, fld := range lit.Type.Params.List {
		for _, id := range fld.Names {
			if v, ok := info.Defs[id].(*types.Var); ok {
				params[v] = true
			}
		}
	}
	var component func(e ast.Expr, depth int) bool
	component = func(e ast.Expr, depth int) bool {
		e = ast.Unparen(e)
		if call, ok := e.(*ast.CallExpr); ok {
			if sel, ok := ast.Unparen(call.Fun).(*ast.SelectorExpr); ok {
				switch sel.Sel.Name {
				case "Elem", "Field", "Index", "MapIndex":
					if v := varOf(info, sel.X); v != nil && params[v] && isReflectValue(info, sel.X) {
						return true
					}
				case "Unwrap":
					if len(call.Args) == 1 {
						if v := varOf(info, call.Args[0]); v != nil && params[v] {
							return true
						}
					}
				}
			}
			return false
		}
		if v := varOf(info, e); v != nil && depth > 0 && !params[v] {
			defs := defsOf(info, lit.Body, v)
			if len(defs) == 0 {
				return false
			}
			for _, d := range defs {
				if !component(d, depth-1) {
					return false
				}
			}
			return true
		}
		return false
	}
	calls, ok := 0, true
	ast.Inspect(lit.Body, func(m ast.Node) bool {
		call, isCall := m.(*ast.CallExpr)
		if !isCall || varOf(info, call.Fun) != self {
			return true
		}
		calls++
		descends := false
		for _, arg := range call.Args {
			if component(arg, 1) {
				descends = true
			}
		}
		if !descends {
			ok = false
		}
		return true
	})
	if calls > 0 && ok {
		return true, "structural descent: every recursive call passes a strict component (Elem / Field / Index / MapIndex / Unwrap) of the literal's own parameter, a finite acyclic value"
	}
	return false, ""
}

// closureBounded recognises the ancestor/visited-set idiom: the literal tests membership of a key in a map declared outside
// it, returns on the found edge, and stores the key before recursing.
func closureBounded(info *types.Info, fb *FuncBody, lit *ast.FuncLit, self *types.Var) (bool, string) {
	var guard *types.Var
	for _, st := range lit.Body.List {
		ifs, ok := st.(*ast.IfStmt)
		if !ok {
			continue
		}
		cond := ast.Unparen(ifs.Cond)
		var ix *ast.IndexExpr
		if i, ok := cond.(*ast.IndexExpr); ok {
			ix = i
		}
		if ifs.Init != nil {
			if as, ok := ifs.Init.(*ast.AssignStmt); ok && len(as.Rhs) == 1 {
				if i, ok := ast.Unparen(as.Rhs[0]).(*ast.IndexExpr); ok {
					ix = i
				}
			}
		}
		if ix == nil || !hasJump(ifs.Body) {
			continue
		}
		m := varOf(info, ix.X)
		if m == nil {
			continue
		}
		if _, isMap := m.Type().Underlying().(*types.Map); !isMap {
			continue
		}
		if within(identDecl(info, fb, m), lit) {
			continue // a map local to one activation guards nothing
		}
		guard = m
	}
	if guard == nil {
		return false, ""
	}
	stored, storedBefore := false, false
	firstRec := token.NoPos
	ast.Inspect(lit.Body, func(m ast.Node) bool {
		if call, ok := m.(*ast.CallExpr); ok && varOf(info, call.Fun) == self && firstRec == token.NoPos {
			firstRec = call.Pos()
		}
		return true
	})
	ast.Inspect(lit.Body, func(m ast.Node) bool {
		if as, ok := m.(*ast.AssignStmt); ok {
			for _, l := range as.Lhs {
				if ix, ok := ast.Unparen(l).(*ast.IndexExpr); ok && varOf(info, ix.X) == guard {
					stored = true
					if as.Pos() < firstRec {
						storedBefore = true
					}
				}
			}
		}
		return true
	})
	if stored && storedBefore {
		return true, "ancestor / visited set `" + guard.Name() + "` tested before descending and extended before the recursive call"
	}
	return false, ""
}

func identDecl(info *types.Info, fb *FuncBody, v *types.Var) ast.Node {
	var out ast.Node
	inspectDeep(fb.Body, func(nd ast.Node) bool {
		if id, ok := nd.(*ast.Ident); ok && info.Defs[id] == v {
			out = id
		}
		return true
	})
	return out
}

// writerSerialised (C17 / C18): the writers handed to the shell are written to from several goroutines.
func writerSerialised(c *Check, a *Anchors) {
	c.Rule("writer-serialised", "every io.Writer type of internal/output that keeps a buffer holds a mutex of its own across each entry method (Write, and the methods its CloseFunc calls) before it touches the buffer or calls a helper of the type: one writer object serves a command's stdout and stderr, and the shell writes to them from several goroutines (pipeline stages); a writer whose Write also emits (line-oriented) is not shared between stdout and stderr, so that a partial line of one stream is never completed by bytes of the other")
	n := 0
	pkg := c.P.Pkgs[PkgOutput]
	if pkg == nil {
		c.Errorf("writer-serialised: package %s not loaded", PkgOutput)
		return
	}
	type wt struct {
		named   *types.Named
		st      *types.Struct
		buf     []*types.Var
		mutexes []*types.Var
	}
	var wts []wt
	scope := pkg.Types.Scope()
	for _, name := range scope.Names() {
		tn, ok := scope.Lookup(name).(*types.TypeName)
		if !ok {
			continue
		}
		named, ok := tn.Type().(*types.Named)
		if !ok {
			continue
		}
		st, ok := named.Underlying().(*types.Struct)
		if !ok {
			continue
		}
		hasWrite := false
		ms := types.NewMethodSet(types.NewPointer(named))
		for i := 0; i < ms.Len(); i++ {
			if ms.At(i).Obj().Name() == "Write" {
				hasWrite = true
			}
		}
		if !hasWrite {
			continue
		}
		w := wt{named: named, st: st}
		for i := 0; i < st.NumFields(); i++ {
			f := st.Field(i)
			switch types.TypeString(f.Type(), nil) {
			case "bytes.Buffer", "*bytes.Buffer", "strings.Builder", "[]byte":
				w.buf = append(w.buf, f)
			case "sync.Mutex", "sync.RWMutex", "*sync.Mutex":
				w.mutexes = append(w.mutexes, f)
			}
		}
		if len(w.buf) > 0 {
			wts = append(wts, w)
		}
	}
	for _, w := range wts {
		tname := w.named.Obj().Name()
		// entry methods: Write + every method of the type called from a function literal in a WrapWriter
		entries := map[string]bool{"Write": true}
		for _, fb := range c.P.BodiesIn(PkgOutput) {
			if fb.Decl == nil || fb.Decl.Name.Name != "WrapWriter" {
				continue
			}
			info := fb.Info()
			for _, lit := range allLits(fb) {
				for _, call := range callsIn(lit, true) {
					if fn, ok := callee(info, call).(*types.Func); ok {
						if sig := fn.Type().(*types.Signature); sig.Recv() != nil && namedOf(sig.Recv().Type()) == w.named {
							entries[fn.Name()] = true
						}
					}
				}
			}
		}
		streaming := false
		for _, fb := range c.P.BodiesIn(PkgOutput) {
			if fb.Decl == nil || fb.Decl.Recv == nil || fb.Obj == nil {
				continue
			}
			sig := fb.Obj.Type().(*types.Signature)
			if namedOf(sig.Recv().Type()) != w.named {
				continue
			}
			info := fb.Info()
			// does any method of the type other than the close path write to an inner io.Writer field
			if !entries[fb.Decl.Name.Name] || fb.Decl.Name.Name == "Write" {
				inspectBody(fb.Body, func(nd ast.Node) bool {
					if sel, ok := nd.(*ast.SelectorExpr); ok {
						if s := info.Selections[sel]; s != nil && s.Kind() == types.FieldVal && types.TypeString(s.Obj().Type(), nil) == "io.Writer" && reachesFromWrite(c, w.named, fb) {
							streaming = true
						}
					}
					return true
				})
			}
			if !entries[fb.Decl.Name.Name] {
				continue
			}
			n++
			c.Fn(fb)
			isMu := func(e ast.Expr) bool {
				sel, ok := ast.Unparen(e).(*ast.SelectorExpr)
				if !ok {
					return false
				}
				s := info.Selections[sel]
				if s == nil {
					return false
				}
				for _, m := range w.mutexes {
					if s.Obj() == m {
						return true
					}
				}
				return false
			}
			f := NewFlow(c.P, fb, func(call *ast.CallExpr, obj types.Object) string {
				if sel, ok := ast.Unparen(call.Fun).(*ast.SelectorExpr); ok && isMu(sel.X) {
					if fn, ok := obj.(*types.Func); ok {
						return "own." + fn.Name()
					}
				}
				return ""
			})
			f.NoInline = true
			f.Effect = func(label string, call *ast.CallExpr, st Facts) {
				switch label {
				case "own.Lock":
					st["held:own"] = true
				case "own.Unlock":
					delete(st, "held:own")
				}
			}
			f.Run()
			bad := ""
			for node, st := range f.At {
				switch node.(type) {
				case *ast.CallExpr, *ast.AssignStmt, *ast.ReturnStmt, *ast.ExprStmt, *ast.IfStmt:
				default:
					continue
				}
				if call, ok := node.(*ast.CallExpr); ok && strings.HasPrefix(f.Labels[call], "own.") {
					continue
				}
				if _, ok := node.(*ast.IfStmt); ok {
					continue
				}
				ast.Inspect(node, func(m ast.Node) bool {
					if _, isLit := m.(*ast.FuncLit); isLit {
						return false
					}
					switch x := m.(type) {
					case *ast.SelectorExpr:
						if s := info.Selections[x]; s != nil {
							touch := false
							for _, b := range w.buf {
								if s.Obj() == b {
									touch = true
								}
							}
							if fn, ok := s.Obj().(*types.Func); ok && s.Kind() == types.MethodVal {
								if sig := fn.Type().(*types.Signature); sig.Recv() != nil && namedOf(sig.Recv().Type()) == w.named {
									touch = true
								}
							}
							if touch && !st.Has("held:own") && bad == "" {
								bad = exprStr(x)
							}
						}
					}
					return true
				})
			}
			c.Decide(bad == "", "writer-serialised", tname+"."+fb.Decl.Name.Name, fb.Body.Pos(), "every access to the buffer (and every helper call) happens with the writer's own mutex held",
				"`"+bad+"` is reached in "+tname+"."+fb.Decl.Name.Name+" without the writer's own mutex held: stdout and stderr of one command are written from different goroutines, so buffered bytes are lost or duplicated")
		}
		// sharing between the two streams
		for _, fb := range c.P.BodiesIn(PkgOutput) {
			if fb.Decl == nil || fb.Decl.Name.Name != "WrapWriter" {
				continue
			}
			info := fb.Info()
			for _, r := range returnsOf(fb.Body) {
				if len(r.Results) != 3 {
					continue
				}
				v0, v1 := varOf(info, r.Results[0]), varOf(info, r.Results[1])
				if v0 == nil || v1 == nil || namedOf(v0.Type()) != w.named {
					continue
				}
				n++
				c.Decide(!streaming || v0 != v1, "writer-serialised", "streams@"+fnDisplay(fb), r.Pos(), "a line-oriented writer is not shared between stdout and stderr (or the writer only buffers)",
					tname+" emits while it is written to (line by line) and one instance is returned for both stdout and stderr: a partial line of one stream is completed by bytes of the other (torn lines)")
			}
		}
	}
	c.Floor("writer-serialised", n, 5)
}

// reachesFromWrite: fb is Write itself or a method of the type reachable from its Write through methods of the type.
func reachesFromWrite(c *Check, named *types.Named, target *FuncBody) bool {
	var write *FuncBody
	for _, fb := range c.P.BodiesIn(PkgOutput) {
		if fb.Decl != nil && fb.Decl.Recv != nil && fb.Obj != nil && fb.Decl.Name.Name == "Write" && namedOf(fb.Obj.Type().(*types.Signature).Recv().Type()) == named {
			write = fb
		}
	}
	if write == nil {
		return false
	}
	return c.P.ReachableFrom([]*FuncBody{write}, nil)[target]
}

// cmdTemplatedWhole (C02 / C14): wherever one templated field of a command or dependency is rendered, its siblings are too.
func cmdTemplatedWhole(c *Check, a *Anchors) {
	c.Rule("call-templated-whole", "sibling agreement: every block that renders one of the templated fields of an ast.Cmd (Cmd, Task, Vars) or ast.Dep (Task, Vars) through the templater renders all of them for the same element, with the same extras form — a task call whose name or vars are left unrendered reaches the callee with literal template text (or not at all)")
	want := map[string][]string{"Cmd": {"Cmd", "Task", "Vars"}, "Dep": {"Task", "Vars"}}
	n := 0
	ord := map[string]int{}
	for _, fb := range c.P.BodiesIn(PkgTask) {
		info := fb.Info()
		var blocks []*ast.BlockStmt
		inspectBody(fb.Body, func(nd ast.Node) bool {
			if b, ok := nd.(*ast.BlockStmt); ok {
				blocks = append(blocks, b)
			}
			return true
		})
		for _, b := range blocks {
			type key struct {
				v    *types.Var
				kind string
			}
			got := map[key]map[string]string{}
			var order []key
			for _, st := range b.List {
				as, ok := st.(*ast.AssignStmt)
				if !ok || len(as.Lhs) != 1 || len(as.Rhs) != 1 {
					continue
				}
				sel, ok := ast.Unparen(as.Lhs[0]).(*ast.SelectorExpr)
				if !ok {
					continue
				}
				v := varOf(info, sel.X)
				if v == nil {
					continue
				}
				nt := namedOf(v.Type())
				if nt == nil || nt.Obj().Pkg() == nil || nt.Obj().Pkg().Path() != PkgAst {
					continue
				}
				kind := nt.Obj().Name()
				if want[kind] == nil {
					continue
				}
				call, ok := ast.Unparen(as.Rhs[0]).(*ast.CallExpr)
				if !ok {
					continue
				}
				fn, ok := callee(info, call).(*types.Func)
				if !ok || fn.Pkg() == nil || fn.Pkg().Path() != PkgTemplater || !strings.HasPrefix(fn.Name(), "Replace") {
					continue
				}
				k := key{v, kind}
				if got[k] == nil {
					got[k] = map[string]string{}
					order = append(order, k)
				}
				form := "plain"
				if strings.HasSuffix(fn.Name(), "WithExtra") {
					form = "extra"
				}
				got[k][sel.Sel.Name] = form
			}
			for _, k := range order {
				n++
				c.Fn(fb.Root())
				var missing []string
				forms := map[string]bool{}
				for _, f := range want[k.kind] {
					if form, ok := got[k][f]; !ok {
						missing = append(missing, f)
					} else {
						forms[form] = true
					}
				}
				name := ordinal(ord, k.kind+"@"+fnDisplay(fb.Root()))
				switch {
				case len(missing) > 0:
					c.Bad("call-templated-whole", name, b.Pos(), fmt.Sprintf("this block renders %v of `%s` (*ast.%s) through the templater but not %v: the unrendered field reaches the callee as literal template text", strKeysOf(got[k]), k.v.Name(), k.kind, missing))
				case len(forms) > 1:
					c.Bad("call-templated-whole", name, b.Pos(), fmt.Sprintf("the fields of `%s` (*ast.%s) are rendered with different forms (with and without extras): the loop / exit-code extras are visible to one field and not to the other", k.v.Name(), k.kind))
				default:
					c.OK("call-templated-whole", name, b.Pos(), "all templated fields rendered with the same form")
				}
			}
		}
	}
	c.Floor("call-templated-whole", n, 5)
}

func strKeysOf(m map[string]string) []string {
	var out []string
	for k := range m {
		out = append(out, k)
	}
	sort.Strings(out)
	return out
}
