package main

import (
	"fmt"
	"go/ast"
	"go/token"
	"go/types"
	"strconv"
	"strings"
)

func init() { register("C15", checkC15) }

func checkC15(c *Check, a *Anchors) {
	c.NotDecided = []string{
		"quality of the 'did you mean' suggestion; semantics of the regexp engine (value level)",
	}
	c15ExactFirst(c, a)
	c15PatternLiteral(c, a)
	c15Fuzzy(c, a)
	nilContradictions(c, a, "checked-then-dereferenced", []string{PkgTask})
	aliasScanUnfiltered(c, a)
	fuzzyTrainedOnNames(c, a)
	aliasFromLocalName(c, a)
	resolvesThroughGetTask(c, a, "resolves-through-GetTask")
}

func c15ExactFirst(c *Check, a *Anchors) {
	c.Rule("exact-first", "FindMatchingTasks returns the exact Tasks.Get hit before looking at wildcards and scans wildcards over Tasks.All(nil) (definition order, parent file first: never a sorter); GetTask takes element 0 of the matches, scans aliases (over Tasks.Values(nil)) only after the no-match test, returns *TaskNameConflictError for more than one alias hit and *TaskNotFoundError (with the fuzzy model's suggestion) for none")
	fm := a.FindMatching
	c.Fn(fm)
	info := fm.Info()
	f := NewFlow(c.P, fm, func(call *ast.CallExpr, obj types.Object) string {
		switch {
		case isFunc(obj, PkgAst, "Tasks", "Get"):
			return "get"
		case isFunc(obj, PkgAst, "Tasks", "All"):
			return "all"
		case isFunc(obj, PkgAst, "Task", "WildcardMatch"):
			return "wildcard"
		}
		return ""
	})
	f.Run()
	nAll := 0
	for call, l := range f.Labels {
		if l != "all" {
			continue
		}
		nAll++
		st := f.At[call]
		c.Decide(st.Has("false:get"), "exact-first", "wildcards-after-exact@"+fnDisplay(fm), call.Pos(), "the wildcard scan is reached only when the exact lookup missed", "the wildcard scan can run although an exact match exists (or before the exact lookup)")
		defOrder := len(call.Args) == 1 && isNilLit(info, call.Args[0])
		c.Decide(defOrder, "exact-first", "definition-order@"+fnDisplay(fm), call.Pos(), "Tasks.All(nil): definition order", "the wildcard scan iterates Tasks.All("+argStr(call)+"): with a sorter the FIRST matching pattern is no longer the first in Taskfile order (parent file first)")
	}
	if nAll == 0 {
		c.Bad("exact-first", "wildcards-after-exact@"+fnDisplay(fm), fm.Decl.Pos(), "FindMatchingTasks no longer scans Tasks.All for wildcard matches")
	}
	exactReturns := false
	for _, r := range f.Returns {
		if st := f.At[r]; st.Has("true:get") && !st.Has("called:all") {
			exactReturns = true
		}
	}
	c.Decide(exactReturns, "exact-first", "exact-returns@"+fnDisplay(fm), fm.Decl.Pos(), "the exact hit returns immediately", "an exact name match no longer returns before the wildcard scan")

	gt := a.GetTask
	c.Fn(gt)
	ginfo := gt.Info()
	var matches *types.Var
	var firstIf *ast.IfStmt
	var aliasLoop *ast.RangeStmt
	var aliasInfo *types.Info
	for _, s := range gt.Body.List {
		switch x := s.(type) {
		case *ast.AssignStmt:
			if len(x.Rhs) == 1 {
				if call, ok := ast.Unparen(x.Rhs[0]).(*ast.CallExpr); ok && a.is(callee(ginfo, call), fm) {
					matches = varOf(ginfo, x.Lhs[0])
				}
			}
		case *ast.IfStmt:
			if firstIf == nil && matches != nil && strings.Contains(exprStr(x.Cond), "len("+matches.Name()+") > 0") {
				firstIf = x
			}
		}
	}
	// the alias scan: a loop over Tasks.Values/All in GetTask itself or in a helper it delegates to
	var aliasPos token.Pos
	for _, g := range c.P.groupOf(gt, 2) {
		if g == fm || (fm != nil && c.P.ReachableFrom([]*FuncBody{fm}, nil)[g]) {
			continue
		}
		inspectBody(g.Body, func(nd ast.Node) bool {
			x, ok := nd.(*ast.RangeStmt)
			if !ok || aliasLoop != nil {
				return true
			}
			if call, ok := ast.Unparen(x.X).(*ast.CallExpr); ok && (isFunc(callee(g.Info(), call), PkgAst, "Tasks", "Values") || isFunc(callee(g.Info(), call), PkgAst, "Tasks", "All")) {
				usesAliases := false
				inspectBody(x.Body, func(m ast.Node) bool {
					if sel, ok := m.(*ast.SelectorExpr); ok && fieldSel(g.Info(), sel, PkgAst, "Task", "Aliases") {
						usesAliases = true
					}
					return true
				})
				if !usesAliases {
					return true
				}
				aliasLoop, aliasInfo = x, g.Info()
				c.Fn(g)
				if g == gt {
					aliasPos = x.Pos()
				} else {
					// position of the delegating call in GetTask
					for _, call := range callsIn(gt, false) {
						if fn, ok := callee(ginfo, call).(*types.Func); ok {
							if d := c.P.DeclOf(fn); d != nil && (d == g || c.P.ReachableFrom([]*FuncBody{d}, nil)[g]) {
								aliasPos = call.Pos()
							}
						}
					}
				}
			}
			return true
		})
	}
	name := fnDisplay(gt)
	okFirst := false
	if firstIf != nil {
		for _, r := range returnsOf(firstIf.Body) {
			if len(r.Results) == 2 {
				if sel, ok := ast.Unparen(r.Results[0]).(*ast.SelectorExpr); ok {
					if ix, ok := ast.Unparen(sel.X).(*ast.IndexExpr); ok && constIs(ginfo, ix.Index, "0") && varOf(ginfo, ix.X) == matches {
						okFirst = true
					}
				}
			}
		}
	}
	c.Decide(okFirst, "exact-first", "first-match-wins@"+name, gt.Decl.Pos(), "returns matches[0].Task when there is any match", "GetTask no longer returns the first element of the match list when a match exists")
	okAlias := aliasLoop != nil && firstIf != nil && aliasPos.IsValid() && firstIf.End() < aliasPos
	if aliasLoop != nil {
		call := ast.Unparen(aliasLoop.X).(*ast.CallExpr)
		okAlias = okAlias && len(call.Args) == 1 && isNilLit(aliasInfo, call.Args[0])
	}
	c.Decide(okAlias, "exact-first", "alias-last@"+name, gt.Decl.Pos(), "the alias scan follows the returning match test and iterates in definition order", "aliases are consulted before (or without) the exact/wildcard match test, or in sorter order")
	// error classes: which outcome for which number of alias hits — abstract evaluation of the if / switch statements on
	// len(<hit list>) over the counts {0, 1, 2, 3}
	conflict, notFound, suggestion := false, false, false
	{
		outcome := map[string]map[int]bool{}
		record := func(kind string, set map[int]bool) {
			if outcome[kind] == nil {
				outcome[kind] = map[int]bool{}
			}
			for n := range set {
				outcome[kind][n] = true
			}
		}
		info := gt.Info()
		// the hit list(s): the slices the alias scan appends to (names, or the tasks themselves)
		hitVars := map[*types.Var]bool{}
		if aliasLoop != nil {
			inspectBody(aliasLoop.Body, func(m ast.Node) bool {
				if as, ok := m.(*ast.AssignStmt); ok && len(as.Lhs) == 1 && len(as.Rhs) == 1 {
					if call, ok := ast.Unparen(as.Rhs[0]).(*ast.CallExpr); ok && isBuiltin(aliasInfo, call, "append") {
						if v := varOf(aliasInfo, as.Lhs[0]); v != nil {
							hitVars[v] = true
						}
					}
				}
				return true
			})
		}
		// ... and, when the scan lives in a helper, the variables of GetTask's group that are assigned from a call of it
		if aliasLoop != nil {
			var scanFn *FuncBody
			for _, g := range c.P.groupOf(gt, 2) {
				if g != gt && within(aliasLoop, g.Body) {
					scanFn = g
				}
			}
			if scanFn != nil {
				for _, g := range c.P.groupOf(gt, 2) {
					ginf := g.Info()
					inspectBody(g.Body, func(m ast.Node) bool {
						if as, ok := m.(*ast.AssignStmt); ok && len(as.Rhs) == 1 {
							if call, ok := ast.Unparen(as.Rhs[0]).(*ast.CallExpr); ok && a.is(callee(ginf, call), scanFn) {
								for _, l := range as.Lhs {
									if v := varOf(ginf, l); v != nil {
										if _, isSlice := v.Type().Underlying().(*types.Slice); isSlice {
											hitVars[v] = true
										}
									}
								}
							}
						}
						return true
					})
				}
			}
		}
		lenOf := func(e ast.Expr) bool {
			call, ok := ast.Unparen(e).(*ast.CallExpr)
			if !ok || !isBuiltin(info, call, "len") || len(call.Args) != 1 {
				return false
			}
			if v := varOf(info, call.Args[0]); v != nil && hitVars[v] {
				return true
			}
			tv, ok := info.Types[call.Args[0]]
			return ok && types.TypeString(tv.Type, nil) == "[]string"
		}
		constInt := func(e ast.Expr) (int, bool) {
			if t := constText(info, e); t != "" {
				if n, err := strconv.Atoi(t); err == nil {
					return n, true
				}
			}
			return 0, false
		}
		kindOf := func(r *ast.ReturnStmt) string {
			res := errResult(r)
			if res == nil {
				return ""
			}
			if isNilLit(info, res) {
				return "ok"
			}
			s := exprStr(res)
			switch {
			case strings.Contains(s, "TaskNameConflictError"):
				return "conflict"
			case strings.Contains(s, "TaskNotFoundError"):
				return "notfound"
			}
			return "other"
		}
		var walk func(list []ast.Stmt, set map[int]bool) map[int]bool // returns the counts that fall through
		walk = func(list []ast.Stmt, set map[int]bool) map[int]bool {
			for _, st := range list {
				if len(set) == 0 {
					return set
				}
				switch x := st.(type) {
				case *ast.ReturnStmt:
					record(kindOf(x), set)
					return map[int]bool{}
				case *ast.IfStmt:
					be, isBin := ast.Unparen(x.Cond).(*ast.BinaryExpr)
					k, isK := 0, false
					if isBin {
						k, isK = constInt(be.Y)
					}
					if !isBin || !lenOf(be.X) || !isK {
						// a condition about something else: both branches see the same counts
						fall := walk(x.Body.List, set)
						if x.Else != nil {
							if eb, ok := x.Else.(*ast.BlockStmt); ok {
								for n := range walk(eb.List, set) {
									fall[n] = true
								}
							}
						} else {
							for n := range set {
								fall[n] = true
							}
						}
						set = fall
						continue
					}
					tset, fset := map[int]bool{}, map[int]bool{}
					for n := range set {
						holds := false
						switch be.Op {
						case token.GTR:
							holds = n > k
						case token.GEQ:
							holds = n >= k
						case token.LSS:
							holds = n < k
						case token.LEQ:
							holds = n <= k
						case token.EQL:
							holds = n == k
						case token.NEQ:
							holds = n != k
						}
						if holds {
							tset[n] = true
						} else {
							fset[n] = true
						}
					}
					fall := walk(x.Body.List, tset)
					if x.Else != nil {
						if eb, ok := x.Else.(*ast.BlockStmt); ok {
							for n := range walk(eb.List, fset) {
								fall[n] = true
							}
						} else if ei, ok := x.Else.(*ast.IfStmt); ok {
							for n := range walk([]ast.Stmt{ei}, fset) {
								fall[n] = true
							}
						}
					} else {
						for n := range fset {
							fall[n] = true
						}
					}
					set = fall
				case *ast.SwitchStmt:
					if x.Tag == nil || !lenOf(x.Tag) {
						continue
					}
					rest := map[int]bool{}
					for n := range set {
						rest[n] = true
					}
					fall := map[int]bool{}
					var def *ast.CaseClause
					for _, cl := range x.Body.List {
						cc := cl.(*ast.CaseClause)
						if cc.List == nil {
							def = cc
							continue
						}
						cs := map[int]bool{}
						for _, e := range cc.List {
							if k, ok := constInt(e); ok && set[k] {
								cs[k] = true
								delete(rest, k)
							}
						}
						for n := range walk(cc.Body, cs) {
							fall[n] = true
						}
					}
					if def != nil {
						for n := range walk(def.Body, rest) {
							fall[n] = true
						}
					} else {
						for n := range rest {
							fall[n] = true
						}
					}
					set = fall
				}
			}
			return set
		}
		// start at the first top-level statement that tests the number of alias hits (the scan itself may live in a helper);
		// the whole alias half of GetTask may have been moved into a method of the package: evaluate where the tests are
		var tail []ast.Stmt
		evalFn := gt
		for _, g := range c.P.groupOf(gt, 2) {
			has := false
			for _, st := range g.Body.List {
				ast.Inspect(st, func(m ast.Node) bool {
					if e, ok := m.(ast.Expr); ok && lenOf(e) {
						has = true
					}
					return true
				})
			}
			if has {
				evalFn = g
				break
			}
		}
		for i, st := range evalFn.Body.List {
			tests := false
			ast.Inspect(st, func(m ast.Node) bool {
				if e, ok := m.(ast.Expr); ok && lenOf(e) {
					tests = true
				}
				return true
			})
			if tests && tail == nil {
				tail = evalFn.Body.List[i:]
			}
		}
		if tail != nil {
			walk(tail, map[int]bool{0: true, 1: true, 2: true, 3: true})
		}
		eq := func(m map[int]bool, want ...int) bool {
			if len(m) != len(want) {
				return false
			}
			for _, w := range want {
				if !m[w] {
					return false
				}
			}
			return true
		}
		conflict = eq(outcome["conflict"], 2, 3)
		notFound = eq(outcome["notfound"], 0) && eq(outcome["ok"], 1)
	}
	for _, g := range c.P.groupOf(gt, 2) {
		inspectBody(g.Body, func(nd ast.Node) bool {
			if call, ok := nd.(*ast.CallExpr); ok {
				if fn, ok := callee(g.Info(), call).(*types.Func); ok && fn.Name() == "SpellCheck" {
					if sel, ok := ast.Unparen(call.Fun).(*ast.SelectorExpr); ok && fieldSel(g.Info(), sel.X, PkgTask, "Executor", "fuzzyModel") {
						suggestion = true
					}
				}
			}
			return true
		})
	}
	c.Decide(conflict, "exact-first", "alias-conflict-203@"+name, gt.Decl.Pos(), "more than one alias hit -> *TaskNameConflictError", "*TaskNameConflictError is not returned exactly when more than one task carries the alias (abstract evaluation of the conditions on the hit count over 0..3)")
	c.Decide(notFound && suggestion, "exact-first", "not-found-200@"+name, gt.Decl.Pos(), "no hit -> *TaskNotFoundError with fuzzyModel.SpellCheck", fmt.Sprintf("an unknown name no longer yields *TaskNotFoundError with the fuzzy suggestion (not found: %v, suggestion from the model: %v)", notFound, suggestion))
}

func argStr(call *ast.CallExpr) string {
	var s []string
	for _, a := range call.Args {
		s = append(s, exprStr(a))
	}
	return strings.Join(s, ", ")
}

func c15PatternLiteral(c *Check, a *Anchors) {
	c.Rule("pattern-literal", "in WildcardMatch the pattern handed to the regexp compiler is `^` + parts joined by a capture group + `$`, where parts are the '*'-separated pieces of the task name each passed through regexp.QuoteMeta (the raw name reaches the compiler through no other route); a positive answer is given only after the anchored regexp matched, and the wildcards are its sub-matches")
	fb := c.P.Func(PkgAst, "Task", "WildcardMatch")
	if fb == nil {
		c.Errorf("pattern-literal: Task.WildcardMatch not found")
		return
	}
	c.Fn(fb)
	info := fb.Info()
	name := fnDisplay(fb)
	// WildcardMatch may hand its work, with the task's name, to a function of the package (`return wildcardMatch(t.Task, name)`):
	// the rule is then decided on that function, whose parameter stands for the name
	var nameParam *types.Var
	if len(fb.Body.List) == 1 {
		if ret, ok := fb.Body.List[0].(*ast.ReturnStmt); ok && len(ret.Results) == 1 {
			if call, ok := ast.Unparen(ret.Results[0]).(*ast.CallExpr); ok {
				if fn, ok := callee(info, call).(*types.Func); ok {
					if h := c.P.DeclOf(fn); h != nil && h.Decl != nil && h.Pkg == fb.Pkg {
						for i, arg := range call.Args {
							if fieldSel(info, arg, PkgAst, "Task", "Task") {
								if pv := paramAt(info, h, i); pv != nil {
									nameParam = pv
								}
							}
						}
						if nameParam != nil {
							fb = h
							c.Fn(fb)
						}
					}
				}
			}
		}
	}
	isName := func(e ast.Expr) bool {
		if fieldSel(info, e, PkgAst, "Task", "Task") {
			return true
		}
		v := varOf(info, e)
		return v != nil && v == nameParam
	}
	// provenance of the string handed to the regexp compiler: constants, QuoteMeta'd values, or raw pieces of the name
	nCompile := 0
	var pieces []rxPiece
	// the compile site: in WildcardMatch, or in the helper of the package it obtains the regexp from
	group := c.P.groupOf(fb, 1)
	compileFb := fb
	for _, g := range group {
		ginfo := g.Info()
		inspectBody(g.Body, func(nd ast.Node) bool {
			call, ok := nd.(*ast.CallExpr)
			if !ok {
				return true
			}
			fn, ok := callee(ginfo, call).(*types.Func)
			if !ok || fn.Pkg() == nil || fn.Pkg().Path() != "regexp" || !(fn.Name() == "MustCompile" || fn.Name() == "Compile") {
				return true
			}
			nCompile++
			compileFb = g
			c.Fn(g)
			pieces = rxProvenance(ginfo, g, call.Args[0], 0)
			return true
		})
	}
	raw, nQuoted := "", 0
	var consts []string
	for _, p := range pieces {
		switch p.kind {
		case "raw":
			raw = p.text
		case "quoted":
			nQuoted++
		case "const":
			consts = append(consts, p.text)
		}
	}
	splitOnStar := false
	cinfo := compileFb.Info()
	inspectBody(compileFb.Body, func(nd ast.Node) bool {
		if call, ok := nd.(*ast.CallExpr); ok && isFunc(callee(cinfo, call), "strings", "", "Split") && len(call.Args) == 2 && constIs(cinfo, call.Args[1], `"*"`) {
			if isName(call.Args[0]) {
				splitOnStar = true
			} else if pv := varOf(cinfo, call.Args[0]); pv != nil && compileFb != fb && isParamOf(cinfo, compileFb, pv) {
				// the helper's parameter: bound to the task's name at the call in WildcardMatch
				for _, hc := range callsIn(fb, false) {
					if a.is(callee(info, hc), compileFb) {
						for _, arg := range hc.Args {
							if isName(arg) {
								splitOnStar = true
							}
						}
					}
				}
			}
		}
		return true
	})
	anchored, dotAll := false, false
	if len(consts) > 0 {
		first, last := consts[0], consts[len(consts)-1]
		flags := ""
		for strings.HasPrefix(first, "(?") {
			end := strings.Index(first, ")")
			if end < 0 || strings.ContainsAny(first[2:end], ":<=!P") {
				break
			}
			flags += first[2:end]
			first = first[end+1:]
		}
		if len(consts) == 1 {
			last = first
		}
		anchored = (strings.HasPrefix(first, "^") || strings.HasPrefix(first, `\A`)) && (strings.HasSuffix(last, "$") || strings.HasSuffix(last, `\z`))
		dotAll = strings.Contains(flags, "s")
		for _, k := range consts {
			if strings.Contains(k, `[\s\S]`) {
				dotAll = true
			}
		}
	}
	c.Decide(splitOnStar && raw == "" && nQuoted > 0 && nCompile == 1, "pattern-literal", "quoted-parts@"+name, fb.Decl.Pos(), "only QuoteMeta'd pieces of the name (and constants) reach the regexp compiler",
		fmt.Sprintf("the task name reaches the regexp compiler unquoted (split on '*': %v, unquoted piece: %q, QuoteMeta'd pieces: %d): '.', '(', '+' ... in a task name are interpreted as regexp syntax (wrong matches, or a panic in MustCompile)", splitOnStar, raw, nQuoted))
	c.Decide(anchored, "pattern-literal", "anchored@"+name, fb.Decl.Pos(), "pattern is ^...$", "the pattern is no longer anchored with ^ and $")
	// the group a '*' becomes: any run of characters, the empty one included (`start-*` matches `start-`)
	groupOK, grp := false, ""
	for _, k := range consts {
		if strings.HasPrefix(k, "(") && !strings.HasPrefix(k, "(?") {
			grp = k
			groupOK = k == "(.*)" || k == `([\s\S]*)` || k == "(.*?)"
			if !groupOK {
				break
			}
		}
	}
	c.Decide(groupOK, "pattern-literal", "wildcard-matches-empty@"+name, fb.Decl.Pos(), "the wildcard group is `"+grp+"`", "the group a '*' is turned into is `"+grp+"`, not `(.*)`: a wildcard no longer matches every substring (the empty one: `start-*` must match `start-` with an empty .MATCH element), so a name falls through to a later pattern or to 'task not found'")
	c.Decide(dotAll, "pattern-literal", "wildcard-matches-any-character@"+name, fb.Decl.Pos(), "the wildcard group matches every character (s flag)", "the wildcard is `.*` without the s flag: '*' does not match a newline, so it is not true that only '*' is special and every other character literal")
	// a positive answer only after the regexp matched
	f := NewFlow(c.P, fb, func(call *ast.CallExpr, obj types.Object) string {
		if fn, ok := obj.(*types.Func); ok && fn.Pkg() != nil && fn.Pkg().Path() == "regexp" && strings.HasPrefix(fn.Name(), "Find") {
			return "regexp-match"
		}
		return ""
	})
	f.Run()
	n := 0
	for i, r := range f.Returns {
		if len(r.Results) != 2 || constText(info, r.Results[0]) == "false" {
			continue // (every return that is not the constant false can be a positive answer)
		}
		n++
		st := f.At[r]
		var derives func(e ast.Expr, depth int) bool
		derives = func(e ast.Expr, depth int) bool {
			found := false
			ast.Inspect(e, func(m ast.Node) bool {
				if found {
					return false
				}
				switch x := m.(type) {
				case *ast.CallExpr:
					if f.Labels[x] == "regexp-match" {
						found = true
					}
				case *ast.Ident:
					if v, ok := info.Uses[x].(*types.Var); ok && depth > 0 && !v.IsField() {
						for _, d := range defsOf(info, fb.Body, v) {
							if d != e && derives(d, depth-1) {
								found = true
							}
						}
					}
				}
				return true
			})
			return found
		}
		fromMatch := derives(r.Results[1], 3)
		c.Decide(st.Has("called:regexp-match") && fromMatch, "pattern-literal", fmt.Sprintf("match-by-regexp#%d@%s", i+1, name), r.Pos(), "`true` is returned only after the anchored regexp matched; wildcards are its sub-matches",
			"WildcardMatch can answer `true` on a path that did not consult the anchored regexp (or returns wildcards that are not its sub-matches): such a shortcut is not equivalent for overlapping prefix/suffix, so a wrong task matches")
	}
	c.Floor("pattern-literal", n+3, 4)
	// the regexp that is matched is compiled from the task's CURRENT name in this very call: a regexp kept in a field was
	// compiled from the name the task had when it was stored (before Tasks.Merge gave an included task its namespace)
	for call, l := range f.Labels {
		if l != "regexp-match" {
			continue
		}
		sel, ok := ast.Unparen(call.Fun).(*ast.SelectorExpr)
		if !ok {
			continue
		}
		stale := ""
		var judge func(e ast.Expr, depth int)
		judge = func(e ast.Expr, depth int) {
			e = ast.Unparen(e)
			switch x := e.(type) {
			case *ast.CallExpr:
				// a compile call, or a helper of the package: fine (the provenance of its argument is judged above)
			case *ast.SelectorExpr:
				if s := info.Selections[x]; s != nil && s.Kind() == types.FieldVal {
					stale = exprStr(x)
				}
			case *ast.Ident:
				if v, ok := info.Uses[x].(*types.Var); ok && !v.IsField() && depth > 0 {
					for _, d := range defsOf(info, fb.Body, v) {
						judge(d, depth-1)
					}
				}
			}
		}
		judge(sel.X, 3)
		c.Decide(stale == "", "pattern-literal", "pattern-from-current-name@"+name, call.Pos(), "the matched regexp is compiled in this call",
			"the regexp that is matched can be the stored `"+stale+"`: it was compiled from the name the task had when it was stored, so after an included task was renamed to <namespace>:<name> the pattern still describes the old name — `inc:say-hello` does not match `inc:say-*`, and the un-namespaced `say-hello` does")
	}
}

func c15Fuzzy(c *Check, a *Anchors) {
	c.Rule("fuzzy-initialised", "the function that trains the fuzzy model returns early only when the Taskfile is nil, assigns Executor.fuzzyModel otherwise, and Setup calls it after the Taskfile was read")
	var fb *FuncBody
	for _, b := range c.P.BodiesIn(PkgTask) {
		if b.Decl == nil {
			continue
		}
		inspectBody(b.Body, func(nd ast.Node) bool {
			if as, ok := nd.(*ast.AssignStmt); ok && len(as.Lhs) == 1 && fieldSel(b.Info(), as.Lhs[0], PkgTask, "Executor", "fuzzyModel") && !isNilLit(b.Info(), as.Rhs[0]) {
				fb = b
			}
			return true
		})
	}
	if fb == nil {
		c.Bad("fuzzy-initialised", "assign", 0, "Executor.fuzzyModel is never assigned: unknown task names get no suggestion")
		return
	}
	c.Fn(fb)
	f := NewFlow(c.P, fb, func(*ast.CallExpr, types.Object) string { return "" })
	f.Run()
	var assignPos token.Pos
	inspectBody(fb.Body, func(nd ast.Node) bool {
		if as, ok := nd.(*ast.AssignStmt); ok && len(as.Lhs) == 1 && fieldSel(fb.Info(), as.Lhs[0], PkgTask, "Executor", "fuzzyModel") {
			assignPos = as.Pos()
		}
		return true
	})
	okRet := true
	for _, r := range f.Returns {
		// go/cfg adds a synthetic return at the closing brace; only exits before the assignment matter
		if r.Pos() < assignPos && !f.At[r].Has("nil:field:Executor.Taskfile") {
			okRet = false
		}
	}
	assigned := false
	for node, st := range f.At {
		if as, ok := node.(*ast.AssignStmt); ok && len(as.Lhs) == 1 && fieldSel(fb.Info(), as.Lhs[0], PkgTask, "Executor", "fuzzyModel") {
			direct := false
			for _, s := range fb.Body.List {
				if s == ast.Stmt(as) {
					direct = true
				}
			}
			assigned = direct && !st.Has("nil:field:Executor.Taskfile")
		}
	}
	c.Decide(okRet && assigned, "fuzzy-initialised", "trained-when-taskfile@"+fnDisplay(fb), fb.Decl.Pos(), "early return only on a nil Taskfile; model assigned otherwise",
		fmt.Sprintf("the fuzzy model is not built exactly when a Taskfile is present (early returns only under `Taskfile == nil`: %v, unconditional assignment afterwards: %v): 'did you mean' never appears, or a nil Taskfile is dereferenced", okRet, assigned))
	// Setup calls it after reading the Taskfile
	setup := a.Setup
	c.Fn(setup)
	fs := NewFlow(c.P, setup, func(call *ast.CallExpr, obj types.Object) string {
		if a.is(obj, fb) {
			return "fuzzy"
		}
		if fn, ok := obj.(*types.Func); ok && fn.Name() == "readTaskfile" {
			return "read"
		}
		return ""
	})
	fs.Run()
	called := false
	for call, l := range fs.Labels {
		if l == "fuzzy" {
			called = fs.At[call].Has("nil:read") || fs.At[call].Has("called:read")
		}
	}
	c.Decide(called, "fuzzy-initialised", "called-from-setup@"+fnDisplay(setup), setup.Decl.Pos(), "Setup trains the model after the Taskfile was read", "Setup no longer trains the fuzzy model after reading the Taskfile")
}

// nilContradictions: a selector path established nil by a test and dereferenced on that very edge.
func nilContradictions(c *Check, a *Anchors, rule string, pkgs []string) {
	c.Rule(rule, "contradiction rule: a field path that a dominating test established to be nil is not dereferenced on that edge (a test and a dereference that contradict each other mean one of them is wrong)")
	n, bad := 0, 0
	for _, pkg := range pkgs {
		for _, fb := range c.P.BodiesIn(pkg) {
			info := fb.Info()
			hasNilTest := false
			inspectBody(fb.Body, func(nd ast.Node) bool {
				if be, ok := nd.(*ast.BinaryExpr); ok && (be.Op == token.EQL || be.Op == token.NEQ) && (isNilExpr(info, ast.Unparen(be.Y)) || isNilExpr(info, ast.Unparen(be.X))) {
					if _, isSel := ast.Unparen(be.X).(*ast.SelectorExpr); isSel {
						hasNilTest = true
					}
				}
				return true
			})
			if !hasNilTest {
				continue
			}
			n++
			f := NewFlow(c.P, fb, func(*ast.CallExpr, types.Object) string { return "" })
			f.Run()
			for node, st := range f.At {
				var scan ast.Node
				switch x := node.(type) {
				case *ast.CallExpr:
					scan = x
				case *ast.AssignStmt:
					scan = x
				case *ast.ReturnStmt:
					scan = x
				default:
					continue
				}
				ast.Inspect(scan, func(m ast.Node) bool {
					if _, isLit := m.(*ast.FuncLit); isLit {
						return false
					}
					sel, ok := m.(*ast.SelectorExpr)
					if !ok {
						return true
					}
					inner, ok := ast.Unparen(sel.X).(*ast.SelectorExpr)
					if !ok {
						return true
					}
					k := fieldKey(info, inner)
					if k == "" || !st.Has("nil:"+k) {
						return true
					}
					// method values on nil-safe receivers (methods with explicit nil guards) are fine: only field loads dereference
					if s := info.Selections[sel]; s == nil || s.Kind() != types.FieldVal {
						return true
					}
					if _, isPtr := info.TypeOf(inner).Underlying().(*types.Pointer); !isPtr {
						return true
					}
					bad++
					c.Bad(rule, fmt.Sprintf("deref-of-nil %s@%s", exprStr(sel), fnDisplay(fb)), sel.Pos(), "`"+exprStr(inner)+"` was established nil by a dominating test and is dereferenced here (`"+exprStr(sel)+"`): either the test is inverted or the dereference panics")
					return true
				})
			}
		}
	}
	if bad == 0 {
		c.OK(rule, "package task", 0, fmt.Sprintf("no contradiction in %d function bodies that test a field path against nil", n))
	}
	c.Floor(rule, n, 3)
}

// rxPiece: one component of a string expression — a constant, a value that went through regexp.QuoteMeta, or anything else.
type rxPiece struct{ kind, text string }

// rxProvenance flattens a string-building expression (+, fmt.Sprintf, strings.Join, variables and the slices they are built
// from) into its components in order.
func rxProvenance(info *types.Info, fb *FuncBody, e ast.Expr, depth int) []rxPiece {
	e = ast.Unparen(e)
	if depth > 6 {
		return []rxPiece{{"raw", exprStr(e)}}
	}
	if v := constText(info, e); v != "" {
		if t, err := strconv.Unquote(v); err == nil {
			return []rxPiece{{"const", t}}
		}
		return []rxPiece{{"const", v}}
	}
	switch x := e.(type) {
	case *ast.BinaryExpr:
		if x.Op == token.ADD {
			return append(rxProvenance(info, fb, x.X, depth+1), rxProvenance(info, fb, x.Y, depth+1)...)
		}
	case *ast.CallExpr:
		fn, _ := callee(info, x).(*types.Func)
		switch {
		case fn != nil && fn.Pkg() != nil && fn.Pkg().Path() == "regexp" && fn.Name() == "QuoteMeta":
			return []rxPiece{{"quoted", exprStr(x)}}
		case fn != nil && fn.Pkg() != nil && fn.Pkg().Path() == "fmt" && fn.Name() == "Sprintf" && len(x.Args) >= 1:
			// the format is split at its verbs; each verb is replaced by the provenance of its argument
			format := constText(info, x.Args[0])
			if t, err := strconv.Unquote(format); err == nil {
				var out []rxPiece
				segs := strings.Split(t, "%s")
				for i, seg := range segs {
					if seg != "" {
						out = append(out, rxPiece{"const", seg})
					}
					if i < len(segs)-1 {
						if i+1 < len(x.Args) {
							out = append(out, rxProvenance(info, fb, x.Args[i+1], depth+1)...)
						} else {
							out = append(out, rxPiece{"raw", "missing Sprintf argument"})
						}
					}
				}
				return out
			}
		case fn != nil && fn.Pkg() != nil && fn.Pkg().Path() == "strings" && fn.Name() == "String" && recvName(fn.Type().(*types.Signature).Recv().Type()) == "Builder":
			// sb.String(): everything written to the local builder, in source order
			if sel, ok := ast.Unparen(x.Fun).(*ast.SelectorExpr); ok {
				if sb := varOf(info, sel.X); sb != nil && !sb.IsField() {
					var out []rxPiece
					okAll := true
					inspectBody(fb.Body, func(nd ast.Node) bool {
						wc, ok := nd.(*ast.CallExpr)
						if !ok {
							return true
						}
						ws, ok := ast.Unparen(wc.Fun).(*ast.SelectorExpr)
						if !ok || varOf(info, ws.X) != sb {
							// the builder handed to something else (fmt.Fprintf(&sb, ...)): not followed
							for _, arg := range wc.Args {
								arg = ast.Unparen(arg)
								if u, ok := arg.(*ast.UnaryExpr); ok && u.Op == token.AND {
									arg = ast.Unparen(u.X)
								}
								if varOf(info, arg) == sb {
									okAll = false
								}
							}
							return true
						}
						switch ws.Sel.Name {
						case "WriteString":
							out = append(out, rxProvenance(info, fb, wc.Args[0], depth+1)...)
						case "WriteByte", "WriteRune":
							if v := constText(info, wc.Args[0]); v != "" {
								if n, err := strconv.Atoi(v); err == nil {
									out = append(out, rxPiece{"const", string(rune(n))})
								} else {
									out = append(out, rxPiece{"const", v})
								}
							} else {
								out = append(out, rxPiece{"raw", exprStr(wc.Args[0])})
							}
						case "String", "Len", "Grow", "Cap":
						default:
							okAll = false
						}
						return true
					})
					if okAll && len(out) > 0 {
						return out
					}
				}
			}
		case fn != nil && fn.Pkg() != nil && fn.Pkg().Path() == "strings" && fn.Name() == "Join" && len(x.Args) == 2:
			elems := rxSliceProvenance(info, fb, x.Args[0], depth+1)
			sep := rxProvenance(info, fb, x.Args[1], depth+1)
			// elem sep elem
			out := append([]rxPiece{}, elems...)
			out = append(out, sep...)
			out = append(out, elems...)
			return out
		}
	case *ast.Ident:
		if v, ok := info.Uses[x].(*types.Var); ok && !v.IsField() {
			defs := defsOf(info, fb.Body, v)
			if len(defs) == 1 {
				return rxProvenance(info, fb, defs[0], depth+1)
			}
		}
	}
	return []rxPiece{{"raw", exprStr(e)}}
}

// rxSliceProvenance: what the elements of a []string are made of (element assignments, appends, the Split it started as).
func rxSliceProvenance(info *types.Info, fb *FuncBody, e ast.Expr, depth int) []rxPiece {
	v := varOf(info, e)
	if v == nil || depth > 6 {
		return []rxPiece{{"raw", exprStr(e)}}
	}
	var out []rxPiece
	add := func(ps []rxPiece) {
		for _, p := range ps {
			dup := false
			for _, q := range out {
				if q.kind == p.kind && (p.kind != "raw" || q.text == p.text) {
					dup = true
				}
			}
			if !dup {
				out = append(out, p)
			}
		}
	}
	overwrittenAll := false
	inspectBody(fb.Body, func(nd ast.Node) bool {
		switch x := nd.(type) {
		case *ast.AssignStmt:
			for i, l := range x.Lhs {
				if ix, ok := ast.Unparen(l).(*ast.IndexExpr); ok && varOf(info, ix.X) == v && i < len(x.Rhs) {
					add(rxProvenance(info, fb, x.Rhs[i], depth+1))
				}
				if varOf(info, l) == v && i < len(x.Rhs) {
					if ac, ok := ast.Unparen(x.Rhs[i]).(*ast.CallExpr); ok && isBuiltin(info, ac, "append") {
						for _, a := range ac.Args[1:] {
							add(rxProvenance(info, fb, a, depth+1))
						}
					}
				}
			}
		case *ast.RangeStmt:
			// for i, p := range v { v[i] = f(p) } overwrites every element: the initial contents do not survive
			if varOf(info, x.X) == v && x.Key != nil {
				for _, st := range x.Body.List {
					if as, ok := st.(*ast.AssignStmt); ok && len(as.Lhs) == 1 {
						if ix, ok := ast.Unparen(as.Lhs[0]).(*ast.IndexExpr); ok && varOf(info, ix.X) == v && varOf(info, ix.Index) == varOf(info, x.Key) && unconditionalIn(x.Body.List, as) {
							overwrittenAll = true
						}
					}
				}
			}
		}
		return true
	})
	// the initial value
	for _, d := range defsOf(info, fb.Body, v) {
		d = ast.Unparen(d)
		if call, ok := d.(*ast.CallExpr); ok {
			if isBuiltin(info, call, "make") || isBuiltin(info, call, "append") {
				continue
			}
			if !overwrittenAll {
				add([]rxPiece{{"raw", exprStr(d)}})
			}
			continue
		}
		if _, ok := d.(*ast.CompositeLit); ok {
			continue
		}
		if !overwrittenAll {
			add([]rxPiece{{"raw", exprStr(d)}})
		}
	}
	if len(out) == 0 {
		return []rxPiece{{"raw", exprStr(e)}}
	}
	return out
}

// paramAt: the i-th parameter variable of a declared function.
func paramAt(info *types.Info, fb *FuncBody, i int) *types.Var {
	k := 0
	for _, fld := range fb.Type.Params.List {
		for _, id := range fld.Names {
			if k == i {
				v, _ := info.Defs[id].(*types.Var)
				return v
			}
			k++
		}
		if len(fld.Names) == 0 {
			k++
		}
	}
	return nil
}
