package main

import (
	"fmt"
	"go/ast"
	"go/token"
	"go/types"
	"strconv"
	"strings"
)

func init() { register("C15", checkC15) }

func checkC15(c *Check, a *Anchors) {
	c.NotDecided = []string{
		"quality of the 'did you mean' suggestion; semantics of the regexp engine (value level)",
	}
	c15ExactFirst(c, a)
	c15PatternLiteral(c, a)
	c15Fuzzy(c, a)
	nilContradictions(c, a, "checked-then-dereferenced", []string{PkgTask})
	aliasScanUnfiltered(c, a)
	fuzzyTrainedOnNames(c, a)
	aliasFromLocalName(c, a)
	resolvesThroughGetTask(c, a, "resolves-through-GetTask")
}

func c15ExactFirst(c *Check, a *Anchors) {
	c.Rule("exact-first", "FindMatchingTasks returns the exact Tasks.Get hit before looking at wildcards and scans wildcards over Tasks.All(nil) (definition order, parent file first: never a sorter); GetTask takes element 0 of the matches, scans aliases (over Tasks.Values(nil)) only after the no-match test, returns *TaskNameConflictError for more than one alias hit and *TaskNotFoundError (with the fuzzy model's suggestion) for none")
	fm := a.FindMatching
	c.Fn(fm)
	info := fm.Info()
	f := NewFlow(c.P, fm, func(call *ast.CallExpr, obj types.Object) string {
		switch {
		case isFunc(obj, PkgAst, "Tasks", "Get"):
			return "get"
		case isFunc(obj, PkgAst, "Tasks", "All"):
			return "all"
		case isFunc(obj, PkgAst, "Task", "WildcardMatch"):
			return "wildcard"
		}
		return ""
	})
	f.Run()
	nAll := 0
	for call, l := range f.Labels {
		if l != "all" {
			continue
		}
		nAll++
		st := f.At[call]
		c.Decide(st.Has("false:get"), "exact-first", "wildcards-after-exact@"+fnDisplay(fm), call.Pos(), "the wildcard scan is reached only when the exact lookup missed", "the wildcard scan can run although an exact match exists (or before the exact lookup)")
		defOrder := len(call.Args) == 1 && isNilLit(info, call.Args[0])
		c.Decide(defOrder, "exact-first", "definition-order@"+fnDisplay(fm), call.Pos(), "Tasks.All(nil): definition order", "the wildcard scan iterates Tasks.All("+argStr(call)+"): with a sorter the FIRST matching pattern is no longer the first in Taskfile order (parent file first)")
	}
	if nAll == 0 {
		c.Bad("exact-first", "wildcards-after-exact@"+fnDisplay(fm), fm.Decl.Pos(), "FindMatchingTasks no longer scans Tasks.All for wildcard matches")
	}
	exactReturns := false
	for _, r := range f.Returns {
		if st := f.At[r]; st.Has("true:get") && !st.Has("called:all") {
			exactReturns = true
		}
	}
	c.Decide(exactReturns, "exact-first", "exact-returns@"+fnDisplay(fm), fm.Decl.Pos(), "the exact hit returns immediately", "an exact name match no longer returns before the wildcard scan")

	gt := a.GetTask
	c.Fn(gt)
	ginfo := gt.Info()
	var matches *types.Var
	var firstIf *ast.IfStmt
	var aliasLoop *ast.RangeStmt
	var aliasInfo *types.Info
	for _, s := range gt.Body.List {
		switch x := s.(type) {
		case *ast.AssignStmt:
			if len(x.Rhs) == 1 {
				if call, ok := ast.Unparen(x.Rhs[0]).(*ast.CallExpr); ok && a.is(callee(ginfo, call), fm) {
					matches = varOf(ginfo, x.Lhs[0])
				}
			}
		case *ast.IfStmt:
			if firstIf == nil && matches != nil && strings.Contains(exprStr(x.Cond), "len("+matches.Name()+") > 0") {
				firstIf = x
			}
		}
	}
	// the alias scan: a loop over Tasks.Values/All in GetTask itself or in a helper it delegates to
	var aliasPos token.Pos
	for _, g := range c.P.groupOf(gt, 2) {
		if g == fm || (fm != nil && c.P.ReachableFrom([]*FuncBody{fm}, nil)[g]) {
			continue
		}
		inspectBody(g.Body, func(nd ast.Node) bool {
			x, ok := nd.(*ast.RangeStmt)
			if !ok || aliasLoop != nil {
				return true
			}
			if call, ok := ast.Unparen(x.X).(*ast.CallExpr); ok && (isFunc(callee(g.Info(), call), PkgAst, "Tasks", "Values") || isFunc(callee(g.Info(), call), PkgAst, "Tasks", "All")) {
				usesAliases := false
				inspectBody(x.Body, func(m ast.Node) bool {
					if sel, ok := m.(*ast.SelectorExpr); ok && fieldSel(g.Info(), sel, PkgAst, "Task", "Aliases") {
						usesAliases = true
					}
					return true
				})
				if !usesAliases {
					return true
				}
				aliasLoop, aliasInfo = x, g.Info()
				c.Fn(g)
				if g == gt {
					aliasPos = x.Pos()
				} else {
					// position of the delegating call in GetTask
					for _, call := range callsIn(gt, false) {
						if fn, ok := callee(ginfo, call).(*types.Func); ok {
							if d := c.P.DeclOf(fn); d != nil && (d == g || c.P.ReachableFrom([]*FuncBody{d}, nil)[g]) {
								aliasPos = call.Pos()
							}
						}
					}
				}
			}
			return true
		})
	}
	name := fnDisplay(gt)
	okFirst := false
	if firstIf != nil {
		for _, r := range returnsOf(firstIf.Body) {
			if len(r.Results) == 2 {
				if sel, ok := ast.Unparen(r.Results[0]).(*ast.SelectorExpr); ok {
					if ix, ok := ast.Unparen(sel.X).(*ast.IndexExpr); ok && constIs(ginfo, ix.Index, "0") && varOf(ginfo, ix.X) == matches {
						okFirst = true
					}
				}
			}
		}
	}
	c.Decide(okFirst, "exact-first", "first-match-wins@"+name, gt.Decl.Pos(), "returns matches[0].Task when there is any match", "GetTask no longer returns the first element of the match list when a match exists")
	okAlias := aliasLoop != nil && firstIf != nil && aliasPos.IsValid() && firstIf.End() < aliasPos
	if aliasLoop != nil {
		call := ast.Unparen(aliasLoop.X).(*ast.CallExpr)
		okAlias = okAlias && len(call.Args) == 1 && isNilLit(aliasInfo, call.Args[0])
	}
	c.Decide(okAlias, "exact-first", "alias-last@"+name, gt.Decl.Pos(), "the alias scan follows the returning match test and iterates in definition order", "aliases are consulted before (or without) the exact/wildcard match test, or in sorter order")
	// error classes
	conflict, notFound, suggestion := false, false, false
	inspectBody(gt.Body, func(nd ast.Node) bool {
		ifs, ok := nd.(*ast.IfStmt)
		if !ok {
			return true
		}
		cond := exprStr(ifs.Cond)
		for _, r := range returnsOf(ifs.Body) {
			res := errResult(r)
			if res == nil {
				continue
			}
			s := exprStr(res)
			if strings.Contains(cond, "> 1") && strings.Contains(s, "TaskNameConflictError") {
				conflict = true
			}
			if strings.Contains(cond, "== 0") && strings.Contains(s, "TaskNotFoundError") {
				notFound = true
			}
		}
		return true
	})
	for _, g := range c.P.groupOf(gt, 2) {
		inspectBody(g.Body, func(nd ast.Node) bool {
			if call, ok := nd.(*ast.CallExpr); ok {
				if fn, ok := callee(g.Info(), call).(*types.Func); ok && fn.Name() == "SpellCheck" {
					if sel, ok := ast.Unparen(call.Fun).(*ast.SelectorExpr); ok && fieldSel(g.Info(), sel.X, PkgTask, "Executor", "fuzzyModel") {
						suggestion = true
					}
				}
			}
			return true
		})
	}
	c.Decide(conflict, "exact-first", "alias-conflict-203@"+name, gt.Decl.Pos(), "more than one alias hit -> *TaskNameConflictError", "ambiguous aliases no longer yield *TaskNameConflictError under `> 1`")
	c.Decide(notFound && suggestion, "exact-first", "not-found-200@"+name, gt.Decl.Pos(), "no hit -> *TaskNotFoundError with fuzzyModel.SpellCheck", fmt.Sprintf("an unknown name no longer yields *TaskNotFoundError with the fuzzy suggestion (not found: %v, suggestion from the model: %v)", notFound, suggestion))
}

func argStr(call *ast.CallExpr) string {
	var s []string
	for _, a := range call.Args {
		s = append(s, exprStr(a))
	}
	return strings.Join(s, ", ")
}

func c15PatternLiteral(c *Check, a *Anchors) {
	c.Rule("pattern-literal", "in WildcardMatch the pattern handed to the regexp compiler is `^` + parts joined by a capture group + `$`, where parts are the '*'-separated pieces of the task name each passed through regexp.QuoteMeta (the raw name reaches the compiler through no other route); a positive answer is given only after the anchored regexp matched, and the wildcards are its sub-matches")
	fb := c.P.Func(PkgAst, "Task", "WildcardMatch")
	if fb == nil {
		c.Errorf("pattern-literal: Task.WildcardMatch not found")
		return
	}
	c.Fn(fb)
	info := fb.Info()
	name := fnDisplay(fb)
	// parts := strings.Split(t.Task, "*")
	var parts *types.Var
	inspectBody(fb.Body, func(nd ast.Node) bool {
		if as, ok := nd.(*ast.AssignStmt); ok && len(as.Rhs) == 1 {
			if call, ok := ast.Unparen(as.Rhs[0]).(*ast.CallExpr); ok && isFunc(callee(info, call), "strings", "", "Split") && len(call.Args) == 2 && fieldSel(info, call.Args[0], PkgAst, "Task", "Task") && constIs(info, call.Args[1], `"*"`) {
				parts = varOf(info, as.Lhs[0])
			}
		}
		return true
	})
	quoted := false
	if parts != nil {
		inspectBody(fb.Body, func(nd ast.Node) bool {
			r, ok := nd.(*ast.RangeStmt)
			if !ok || varOf(info, r.X) != parts {
				return true
			}
			for _, s := range r.Body.List {
				if as, ok := s.(*ast.AssignStmt); ok && len(as.Lhs) == 1 && len(as.Rhs) == 1 {
					ix, isIx := ast.Unparen(as.Lhs[0]).(*ast.IndexExpr)
					call, isCall := ast.Unparen(as.Rhs[0]).(*ast.CallExpr)
					if isIx && isCall && varOf(info, ix.X) == parts && isFunc(callee(info, call), "regexp", "", "QuoteMeta") && r.Value != nil && varOf(info, call.Args[0]) == varOf(info, r.Value) && unconditionalIn(r.Body.List, as) {
						quoted = true
					}
				}
			}
			return true
		})
	}
	// compile argument
	compileOK, anchored, dotAll := false, false, false
	nCompile := 0
	inspectBody(fb.Body, func(nd ast.Node) bool {
		call, ok := nd.(*ast.CallExpr)
		if !ok {
			return true
		}
		fn, ok := callee(info, call).(*types.Func)
		if !ok || fn.Pkg() == nil || fn.Pkg().Path() != "regexp" || !(fn.Name() == "MustCompile" || fn.Name() == "Compile") {
			return true
		}
		nCompile++
		arg := call.Args[0]
		if v := varOf(info, arg); v != nil {
			if d := singleDef(info, fb.Body, v); d != nil {
				arg = d
			}
		}
		rawName := false
		usesParts := false
		ast.Inspect(arg, func(m ast.Node) bool {
			switch x := m.(type) {
			case *ast.SelectorExpr:
				if fieldSel(info, x, PkgAst, "Task", "Task") {
					rawName = true
				}
			case *ast.Ident:
				if parts != nil && info.Uses[x] == parts {
					usesParts = true
				}
			case *ast.BasicLit:
				if x.Kind == token.STRING {
					if v := constText(info, x); v != "" {
						if t, err := strconv.Unquote(v); err == nil {
							// leading inline flag groups such as (?s) do not affect anchoring
							flags := ""
							for strings.HasPrefix(t, "(?") {
								end := strings.Index(t, ")")
								if end < 0 || strings.ContainsAny(t[2:end], ":<=!P") {
									break
								}
								flags += t[2:end]
								t = t[end+1:]
							}
							if (strings.HasPrefix(t, "^") || strings.HasPrefix(t, `\A`)) && (strings.HasSuffix(t, "$") || strings.HasSuffix(t, `\z`)) {
								anchored = true
								if strings.Contains(flags, "s") {
									dotAll = true
								}
							}
							if strings.Contains(t, `[\s\S]`) {
								dotAll = true
							}
						}
					}
				}
			}
			return true
		})
		compileOK = usesParts && !rawName
		return true
	})
	c.Decide(parts != nil && quoted && compileOK && nCompile == 1, "pattern-literal", "quoted-parts@"+name, fb.Decl.Pos(), "only QuoteMeta'd pieces of the name reach the regexp compiler",
		fmt.Sprintf("the task name reaches the regexp compiler unquoted (split on '*': %v, every piece QuoteMeta'd: %v, pattern built from the pieces only: %v): '.', '(', '+' ... in a task name are interpreted as regexp syntax (wrong matches, or a panic in MustCompile)", parts != nil, quoted, compileOK))
	c.Decide(anchored, "pattern-literal", "anchored@"+name, fb.Decl.Pos(), "pattern is ^...$", "the pattern is no longer anchored with ^ and $")
	c.Decide(dotAll, "pattern-literal", "wildcard-matches-any-character@"+name, fb.Decl.Pos(), "the wildcard group matches every character (s flag)", "the wildcard is `.*` without the s flag: '*' does not match a newline, so it is not true that only '*' is special and every other character literal")
	// a positive answer only after the regexp matched
	f := NewFlow(c.P, fb, func(call *ast.CallExpr, obj types.Object) string {
		if fn, ok := obj.(*types.Func); ok && fn.Pkg() != nil && fn.Pkg().Path() == "regexp" && strings.HasPrefix(fn.Name(), "Find") {
			return "regexp-match"
		}
		return ""
	})
	f.Run()
	n := 0
	for i, r := range f.Returns {
		if len(r.Results) != 2 || exprStr(r.Results[0]) != "true" {
			continue
		}
		n++
		st := f.At[r]
		var derives func(e ast.Expr, depth int) bool
		derives = func(e ast.Expr, depth int) bool {
			found := false
			ast.Inspect(e, func(m ast.Node) bool {
				if found {
					return false
				}
				switch x := m.(type) {
				case *ast.CallExpr:
					if f.Labels[x] == "regexp-match" {
						found = true
					}
				case *ast.Ident:
					if v, ok := info.Uses[x].(*types.Var); ok && depth > 0 && !v.IsField() {
						for _, d := range defsOf(info, fb.Body, v) {
							if d != e && derives(d, depth-1) {
								found = true
							}
						}
					}
				}
				return true
			})
			return found
		}
		fromMatch := derives(r.Results[1], 3)
		c.Decide(st.Has("called:regexp-match") && fromMatch, "pattern-literal", fmt.Sprintf("match-by-regexp#%d@%s", i+1, name), r.Pos(), "`true` is returned only after the anchored regexp matched; wildcards are its sub-matches",
			"WildcardMatch can answer `true` on a path that did not consult the anchored regexp (or returns wildcards that are not its sub-matches): such a shortcut is not equivalent for overlapping prefix/suffix, so a wrong task matches")
	}
	c.Floor("pattern-literal", n+2, 3)
}

func c15Fuzzy(c *Check, a *Anchors) {
	c.Rule("fuzzy-initialised", "the function that trains the fuzzy model returns early only when the Taskfile is nil, assigns Executor.fuzzyModel otherwise, and Setup calls it after the Taskfile was read")
	var fb *FuncBody
	for _, b := range c.P.BodiesIn(PkgTask) {
		if b.Decl == nil {
			continue
		}
		inspectBody(b.Body, func(nd ast.Node) bool {
			if as, ok := nd.(*ast.AssignStmt); ok && len(as.Lhs) == 1 && fieldSel(b.Info(), as.Lhs[0], PkgTask, "Executor", "fuzzyModel") && !isNilLit(b.Info(), as.Rhs[0]) {
				fb = b
			}
			return true
		})
	}
	if fb == nil {
		c.Bad("fuzzy-initialised", "assign", 0, "Executor.fuzzyModel is never assigned: unknown task names get no suggestion")
		return
	}
	c.Fn(fb)
	f := NewFlow(c.P, fb, func(*ast.CallExpr, types.Object) string { return "" })
	f.Run()
	var assignPos token.Pos
	inspectBody(fb.Body, func(nd ast.Node) bool {
		if as, ok := nd.(*ast.AssignStmt); ok && len(as.Lhs) == 1 && fieldSel(fb.Info(), as.Lhs[0], PkgTask, "Executor", "fuzzyModel") {
			assignPos = as.Pos()
		}
		return true
	})
	okRet := true
	for _, r := range f.Returns {
		// go/cfg adds a synthetic return at the closing brace; only exits before the assignment matter
		if r.Pos() < assignPos && !f.At[r].Has("nil:field:Executor.Taskfile") {
			okRet = false
		}
	}
	assigned := false
	for node, st := range f.At {
		if as, ok := node.(*ast.AssignStmt); ok && len(as.Lhs) == 1 && fieldSel(fb.Info(), as.Lhs[0], PkgTask, "Executor", "fuzzyModel") {
			direct := false
			for _, s := range fb.Body.List {
				if s == ast.Stmt(as) {
					direct = true
				}
			}
			assigned = direct && !st.Has("nil:field:Executor.Taskfile")
		}
	}
	c.Decide(okRet && assigned, "fuzzy-initialised", "trained-when-taskfile@"+fnDisplay(fb), fb.Decl.Pos(), "early return only on a nil Taskfile; model assigned otherwise",
		fmt.Sprintf("the fuzzy model is not built exactly when a Taskfile is present (early returns only under `Taskfile == nil`: %v, unconditional assignment afterwards: %v): 'did you mean' never appears, or a nil Taskfile is dereferenced", okRet, assigned))
	// Setup calls it after reading the Taskfile
	setup := a.Setup
	c.Fn(setup)
	fs := NewFlow(c.P, setup, func(call *ast.CallExpr, obj types.Object) string {
		if a.is(obj, fb) {
			return "fuzzy"
		}
		if fn, ok := obj.(*types.Func); ok && fn.Name() == "readTaskfile" {
			return "read"
		}
		return ""
	})
	fs.Run()
	called := false
	for call, l := range fs.Labels {
		if l == "fuzzy" {
			called = fs.At[call].Has("nil:read") || fs.At[call].Has("called:read")
		}
	}
	c.Decide(called, "fuzzy-initialised", "called-from-setup@"+fnDisplay(setup), setup.Decl.Pos(), "Setup trains the model after the Taskfile was read", "Setup no longer trains the fuzzy model after reading the Taskfile")
}

// nilContradictions: a selector path established nil by a test and dereferenced on that very edge.
func nilContradictions(c *Check, a *Anchors, rule string, pkgs []string) {
	c.Rule(rule, "contradiction rule: a field path that a dominating test established to be nil is not dereferenced on that edge (a test and a dereference that contradict each other mean one of them is wrong)")
	n, bad := 0, 0
	for _, pkg := range pkgs {
		for _, fb := range c.P.BodiesIn(pkg) {
			info := fb.Info()
			hasNilTest := false
			inspectBody(fb.Body, func(nd ast.Node) bool {
				if be, ok := nd.(*ast.BinaryExpr); ok && (be.Op == token.EQL || be.Op == token.NEQ) && (isNilExpr(info, ast.Unparen(be.Y)) || isNilExpr(info, ast.Unparen(be.X))) {
					if _, isSel := ast.Unparen(be.X).(*ast.SelectorExpr); isSel {
						hasNilTest = true
					}
				}
				return true
			})
			if !hasNilTest {
				continue
			}
			n++
			f := NewFlow(c.P, fb, func(*ast.CallExpr, types.Object) string { return "" })
			f.Run()
			for node, st := range f.At {
				var scan ast.Node
				switch x := node.(type) {
				case *ast.CallExpr:
					scan = x
				case *ast.AssignStmt:
					scan = x
				case *ast.ReturnStmt:
					scan = x
				default:
					continue
				}
				ast.Inspect(scan, func(m ast.Node) bool {
					if _, isLit := m.(*ast.FuncLit); isLit {
						return false
					}
					sel, ok := m.(*ast.SelectorExpr)
					if !ok {
						return true
					}
					inner, ok := ast.Unparen(sel.X).(*ast.SelectorExpr)
					if !ok {
						return true
					}
					k := fieldKey(info, inner)
					if k == "" || !st.Has("nil:"+k) {
						return true
					}
					// method values on nil-safe receivers (methods with explicit nil guards) are fine: only field loads dereference
					if s := info.Selections[sel]; s == nil || s.Kind() != types.FieldVal {
						return true
					}
					if _, isPtr := info.TypeOf(inner).Underlying().(*types.Pointer); !isPtr {
						return true
					}
					bad++
					c.Bad(rule, fmt.Sprintf("deref-of-nil %s@%s", exprStr(sel), fnDisplay(fb)), sel.Pos(), "`"+exprStr(inner)+"` was established nil by a dominating test and is dereferenced here (`"+exprStr(sel)+"`): either the test is inverted or the dereference panics")
					return true
				})
			}
		}
	}
	if bad == 0 {
		c.OK(rule, "package task", 0, fmt.Sprintf("no contradiction in %d function bodies that test a field path against nil", n))
	}
	c.Floor(rule, n, 3)
}
