package main

// Engine MUT: inventory of filesystem-mutating call sites and of the dry guards that dominate them.

import (
	"go/ast"
	"go/types"
	"strings"
)

var fsMutators = map[string]bool{
	"os.WriteFile": true, "os.Create": true, "os.OpenFile": true, "os.Chtimes": true, "os.Mkdir": true, "os.MkdirAll": true,
	"os.Remove": true, "os.RemoveAll": true, "os.Rename": true, "os.Truncate": true, "os.Symlink": true, "os.Link": true,
	"os.Chmod": true, "os.Chown": true, "os.CreateTemp": true, "os.MkdirTemp": true, "os.Lchown": true,
	"io/ioutil.WriteFile": true, "io/ioutil.TempFile": true, "io/ioutil.TempDir": true,
}

type MutSite struct {
	FB     *FuncBody
	Call   *ast.CallExpr
	Callee string
	Facts  Facts
	P      *Prog
}

func dryFact(st Facts) (bool, string) {
	for k := range st {
		if strings.HasPrefix(k, "false:field:") {
			f := strings.TrimPrefix(k, "false:field:")
			if strings.HasSuffix(f, ".dry") || strings.HasSuffix(f, ".Dry") {
				return true, f
			}
		}
	}
	return false, ""
}

// DryGuarded reports whether the site is on the false edge of some dry flag — in its own function, or at every call site of
// its function (a helper that only writes, extracted from under the guard; followed through two levels of callers).
func (s *MutSite) DryGuarded() (bool, string) {
	if ok, f := dryFact(s.Facts); ok {
		return true, f
	}
	if s.P != nil {
		if ok, f := callersDryGuarded(s.P, s.FB.Root(), 2); ok {
			return true, f + " (at every call site of " + fnDisplay(s.FB.Root()) + ")"
		}
	}
	return false, ""
}

type cdgKey struct {
	fb    *FuncBody
	depth int
}
type cdgVal struct {
	ok bool
	by string
}

var cdgCache = map[*Prog]map[cdgKey]cdgVal{}
var cdgFlows = map[*Prog]map[*FuncBody]*Flow{}

func callersDryGuarded(p *Prog, fb *FuncBody, depth int) (bool, string) {
	if fb == nil || fb.Obj == nil || fb.Obj.Exported() {
		return false, "" // an exported function can be called from anywhere
	}
	if cdgCache[p] == nil {
		cdgCache[p] = map[cdgKey]cdgVal{}
		cdgFlows[p] = map[*FuncBody]*Flow{}
	}
	if v, ok := cdgCache[p][cdgKey{fb, depth}]; ok {
		return v.ok, v.by
	}
	ok, by := callersDryGuardedUncached(p, fb, depth)
	cdgCache[p][cdgKey{fb, depth}] = cdgVal{ok, by}
	return ok, by
}

func callersDryGuardedUncached(p *Prog, fb *FuncBody, depth int) (bool, string) {
	n, by := 0, ""
	for _, cb := range p.Bodies() {
		if cb.Pkg != fb.Pkg {
			continue
		}
		info := cb.Info()
		var sites []*ast.CallExpr
		for _, call := range callsIn(cb, false) {
			if fn, ok := callee(info, call).(*types.Func); ok && (fn == fb.Obj || fn.Origin() == fb.Obj) {
				sites = append(sites, call)
			}
		}
		if len(sites) == 0 {
			continue
		}
		// a reference that is not a call (method value handed around) cannot be judged
		f := cdgFlows[p][cb]
		if f == nil {
			f = NewFlow(p, cb, func(call *ast.CallExpr, obj types.Object) string { return "" })
			f.NoInline = true
			f.Run()
			cdgFlows[p][cb] = f
		}
		for _, call := range sites {
			n++
			ok, g := dryFact(f.At[call])
			if !ok && depth > 0 {
				ok, g = callersDryGuarded(p, cb.Root(), depth-1)
			}
			if !ok {
				return false, ""
			}
			by = g
		}
	}
	return n > 0, by
}

func isFSMutator(obj types.Object) (string, bool) {
	fn, ok := obj.(*types.Func)
	if !ok || fn.Pkg() == nil {
		return "", false
	}
	full := fn.Pkg().Path() + "." + fn.Name()
	if fsMutators[full] {
		return fn.Pkg().Name() + "." + fn.Name(), true
	}
	return "", false
}

// mutSites lists the FS-mutating call sites of one function body (own body and literals) with the must-facts holding there.
func mutSites(p *Prog, fb *FuncBody) []*MutSite {
	var out []*MutSite
	var bodies []*FuncBody
	var collect func(b *FuncBody)
	collect = func(b *FuncBody) {
		bodies = append(bodies, b)
		for _, l := range b.Lits() {
			collect(l)
		}
	}
	collect(fb)
	for _, b := range bodies {
		info := b.Info()
		has := false
		inspectBody(b.Body, func(n ast.Node) bool {
			if call, ok := n.(*ast.CallExpr); ok {
				if _, ok := isFSMutator(callee(info, call)); ok {
					has = true
				}
			}
			return true
		})
		if !has {
			continue
		}
		f := NewFlow(p, b, func(call *ast.CallExpr, obj types.Object) string { return "" })
		f.Run()
		inspectBody(b.Body, func(n ast.Node) bool {
			if call, ok := n.(*ast.CallExpr); ok {
				if name, ok := isFSMutator(callee(info, call)); ok {
					if name == "os.OpenFile" && !openForWrite(info, call) {
						return true
					}
					out = append(out, &MutSite{FB: b, Call: call, Callee: name, Facts: f.At[call], P: p})
				}
			}
			return true
		})
	}
	return out
}

func openForWrite(info *types.Info, call *ast.CallExpr) bool {
	if len(call.Args) < 2 {
		return true
	}
	s := exprStr(call.Args[1])
	return strings.Contains(s, "O_WRONLY") || strings.Contains(s, "O_RDWR") || strings.Contains(s, "O_CREATE") || strings.Contains(s, "O_APPEND") || strings.Contains(s, "O_TRUNC") || !strings.Contains(s, "O_RDONLY")
}

// dryArgOK classifies the expression passed as a checker's dry flag.
func dryArgKind(info *types.Info, fb *FuncBody, e ast.Expr) string {
	e = ast.Unparen(e)
	if id, ok := e.(*ast.Ident); ok {
		if c, ok := info.Uses[id].(*types.Const); ok && c.Val().String() == "true" {
			return "true"
		}
		if c, ok := info.Uses[id].(*types.Const); ok && c.Val().String() == "false" {
			return "false"
		}
		if v, ok := info.Uses[id].(*types.Var); ok {
			// a bool parameter of the enclosing function (the dry flag handed down)
			for _, fld := range fb.Root().Type.Params.List {
				for _, nm := range fld.Names {
					if info.Defs[nm] == v {
						return "param"
					}
				}
			}
			if fb.Lit != nil {
				for _, fld := range fb.Type.Params.List {
					for _, nm := range fld.Names {
						if info.Defs[nm] == v {
							return "param"
						}
					}
				}
			}
		}
	}
	if fieldSel(info, e, PkgTask, "Executor", "Dry") {
		return "Executor.Dry"
	}
	if fieldSel(info, e, PkgFingerprint, "CheckerConfig", "dry") {
		return "CheckerConfig.dry"
	}
	return "other:" + exprStr(e)
}
