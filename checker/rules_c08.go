package main

import (
	"fmt"
	"go/ast"
	"go/token"
	"go/types"
	"sort"
	"strings"
)

func init() { register("C08", checkC08) }

func checkC08(c *Check, a *Anchors) {
	c.NotDecided = []string{
		"that the right file is read for an include path; dir/vars resolution values (value level, C10)",
		"behaviour of the third-party graph library beyond PreventCycles being requested",
	}
	c08CopyExhaustive(c, a)
	namespaceAlwaysPrepended(c, a)
	decodeNoSilentOverwrite(c, a)
	remoteClassificationAgrees(c, a)
	aliasFromLocalName(c, a)
	c10PhaseSources(c, a) // "sees the include's vars": the included-Taskfile variables of a merged task come from the included file, the include variables from the include statement
	c08UnmarshalExhaustive(c, a)
	c08NamespaceRewrite(c, a)
	c08NoSilentOverwrite(c, a)
	c08CycleVersionMissing(c, a)
	c08RootRef(c, a)
	c08IncludeBase(c, a)
	c08IncludeAttrsRegardlessOfFlatten(c, a)
	c08IncludeDirAlwaysResolved(c, a)
	c08SpecialDirByName(c, a)
}

// c08IncludeBase: sibling agreement between ResolveEntrypoint and ResolveDir of the local node types.
func c08IncludeBase(c *Check, a *Anchors) {
	c.Rule("include-base-agrees", "for every node type that resolves a relative include path by joining it onto a local directory, ResolveDir (the include's `dir:`) joins onto the SAME base expression as ResolveEntrypoint (the include's `taskfile:`): both are relative to the file that contains the include statement")
	n := 0
	types_ := map[string]map[string]string{}
	for _, fb := range c.P.BodiesIn(PkgTaskfile) {
		if fb.Decl == nil || fb.Decl.Recv == nil || (fb.Decl.Name.Name != "ResolveDir" && fb.Decl.Name.Name != "ResolveEntrypoint") {
			continue
		}
		info := fb.Info()
		base := ""
		for _, r := range returnsOf(fb.Body) {
			if len(r.Results) != 2 {
				continue
			}
			call, ok := ast.Unparen(r.Results[0]).(*ast.CallExpr)
			if !ok {
				continue
			}
			if fn, ok := callee(info, call).(*types.Func); ok && fn.Name() == "SmartJoin" && len(call.Args) == 2 {
				e := call.Args[0]
				if v := varOf(info, e); v != nil {
					if d := singleDef(info, fb.Body, v); d != nil {
						e = d
					}
				}
				base = shapeOf(info, e)
			}
		}
		// every successful return of a local resolver is a function of the argument (the argument itself when absolute, the
		// join otherwise): a return that ignores it resolves some spelling of the path (empty, ".") onto another base
		if base != "" && fb.Type.Params != nil && len(fb.Type.Params.List) == 1 && len(fb.Type.Params.List[0].Names) == 1 {
			if pv, ok := info.Defs[fb.Type.Params.List[0].Names[0]].(*types.Var); ok {
				for i, r := range returnsOf(fb.Body) {
					if len(r.Results) != 2 || !isNilLit(info, r.Results[1]) {
						continue
					}
					n++
					c.Decide(mentionsVia(info, fb.Body, r.Results[0], pv, 3), "include-base-agrees", fmt.Sprintf("%s.%s-return#%d", recvOf(fb), fb.Decl.Name.Name, i+1), r.Pos(), "the result is computed from the path argument",
						fmt.Sprintf("(*%s).%s returns `%s` without using its path argument on this branch: for that spelling of the path the include is resolved against a different base (the node's own directory depends on which include reached the file first)", recvOf(fb), fb.Decl.Name.Name, exprStr(r.Results[0])))
				}
			}
		}
		if types_[recvOf(fb)] == nil {
			types_[recvOf(fb)] = map[string]string{}
		}
		types_[recvOf(fb)][fb.Decl.Name.Name] = base
		c.Fn(fb)
	}
	for tn, m := range types_ {
		if m["ResolveEntrypoint"] == "" || m["ResolveDir"] == "" {
			continue // remote node types build URLs, not local joins
		}
		n++
		c.Decide(m["ResolveEntrypoint"] == m["ResolveDir"], "include-base-agrees", tn, 0, "both join onto "+m["ResolveDir"],
			fmt.Sprintf("(*%s).ResolveDir joins a relative `dir:` onto %s but ResolveEntrypoint joins a relative `taskfile:` onto %s: an included Taskfile's tasks run in a directory that is not relative to the file containing the include", tn, m["ResolveDir"], m["ResolveEntrypoint"]))
	}
	c.Floor("include-base-agrees", n, 2)
}

// structFields lists the fields of a named struct that carry data (sync primitives excluded).
func dataFields(t *types.Named) []*types.Var {
	st, ok := t.Underlying().(*types.Struct)
	if !ok {
		return nil
	}
	var out []*types.Var
	for i := 0; i < st.NumFields(); i++ {
		f := st.Field(i)
		if strings.HasPrefix(types.TypeString(f.Type(), nil), "sync.") {
			continue
		}
		out = append(out, f)
	}
	return out
}

// producedFields: the fields of T written in fb on the object built by a composite literal of T (keys + later x.f = assignments).
func producedFields(fb *FuncBody, t *types.Named) (map[string]ast.Expr, *ast.CompositeLit) {
	info := fb.Info()
	fields := map[string]ast.Expr{}
	var lit *ast.CompositeLit
	var holder *types.Var
	inspectBody(fb.Body, func(nd ast.Node) bool {
		cl, ok := nd.(*ast.CompositeLit)
		if !ok || (lit != nil && len(cl.Elts) <= len(lit.Elts)) {
			return true
		}
		tv, ok := info.Types[cl]
		if !ok || namedOf(tv.Type) != t {
			return true
		}
		if _, isPtr := tv.Type.(*types.Pointer); isPtr {
			return true
		}
		lit = cl
		fields = map[string]ast.Expr{}
		for _, e := range cl.Elts {
			if kv, ok := e.(*ast.KeyValueExpr); ok {
				if id, ok := kv.Key.(*ast.Ident); ok {
					fields[id.Name] = kv.Value
				}
			}
		}
		return true
	})
	if lit == nil {
		// struct-copy form: `n := *recv` writes every field with the receiver's own value (aliases for reference types)
		if fb.Decl != nil && fb.Decl.Recv != nil && len(fb.Decl.Recv.List[0].Names) > 0 {
			recv, _ := info.Defs[fb.Decl.Recv.List[0].Names[0]].(*types.Var)
			inspectBody(fb.Body, func(nd ast.Node) bool {
				as, ok := nd.(*ast.AssignStmt)
				if !ok || len(as.Lhs) != 1 || len(as.Rhs) != 1 || holder != nil {
					return true
				}
				if st, ok := ast.Unparen(as.Rhs[0]).(*ast.StarExpr); ok && recv != nil && varOf(info, st.X) == recv {
					holder = varOf(info, as.Lhs[0])
					if stt, ok := t.Underlying().(*types.Struct); ok {
						for i := 0; i < stt.NumFields(); i++ {
							fields[stt.Field(i).Name()] = &ast.SelectorExpr{X: st.X, Sel: ast.NewIdent(stt.Field(i).Name())}
						}
					}
					lit = &ast.CompositeLit{Lbrace: as.Pos(), Rbrace: as.End()}
				}
				return true
			})
			if holder != nil {
				inspectBody(fb.Body, func(nd ast.Node) bool {
					if as, ok := nd.(*ast.AssignStmt); ok {
						for i, l := range as.Lhs {
							if sel, ok := ast.Unparen(l).(*ast.SelectorExpr); ok && varOf(info, sel.X) == holder {
								if i < len(as.Rhs) {
									fields[sel.Sel.Name] = as.Rhs[i]
								} else {
									fields[sel.Sel.Name] = as.Rhs[0]
								}
							}
						}
					}
					return true
				})
				return fields, lit
			}
		}
		return fields, nil
	}
	// variable holding the literal
	inspectBody(fb.Body, func(nd ast.Node) bool {
		switch s := nd.(type) {
		case *ast.AssignStmt:
			for i, r := range s.Rhs {
				e := ast.Unparen(r)
				if u, ok := e.(*ast.UnaryExpr); ok {
					e = ast.Unparen(u.X)
				}
				if e == ast.Expr(lit) && i < len(s.Lhs) {
					holder = varOf(info, s.Lhs[i])
				}
			}
		}
		return true
	})
	if holder != nil {
		inspectBody(fb.Body, func(nd ast.Node) bool {
			if as, ok := nd.(*ast.AssignStmt); ok {
				for i, l := range as.Lhs {
					if sel, ok := ast.Unparen(l).(*ast.SelectorExpr); ok && varOf(info, sel.X) == holder {
						if _, seen := fields[sel.Sel.Name]; !seen {
							if i < len(as.Rhs) {
								fields[sel.Sel.Name] = as.Rhs[i]
							} else {
								fields[sel.Sel.Name] = as.Rhs[0]
							}
						}
					}
				}
			}
			return true
		})
	}
	return fields, lit
}

func isRefType(t types.Type) bool {
	switch t.Underlying().(type) {
	case *types.Pointer, *types.Slice, *types.Map, *types.Interface:
		return true
	}
	return false
}

func c08CopyExhaustive(c *Check, a *Anchors) {
	c.Rule("copy-exhaustive", "every DeepCopy method of taskfile/ast writes every data field of its type, and for fields of reference type (pointer, slice, map) whose referent is mutable the written value is a copy (a DeepCopy()/deepcopy call), never the receiver's own reference; the task compiler writes every field of ast.Task; the include rebuilt by the reader writes every field of ast.Include; the variable replacer writes every field of ast.Var")
	shareOK := map[string]string{
		"VarsWithValidation.Enum": "allowed values are never modified after decoding",
		"Task.Prompt":             "Prompt is a []string that is only replaced wholesale (templater returns a new slice), never written in place",
		"For.List":                "handled by deepcopy.Slice", // placeholder, not reached when a call is used
		"Task.IncludeVars":        "",
	}
	delete(shareOK, "For.List")
	delete(shareOK, "Task.IncludeVars")
	n := 0
	for _, fb := range c.P.BodiesIn(PkgAst) {
		if fb.Decl == nil || fb.Decl.Name.Name != "DeepCopy" || fb.Decl.Recv == nil {
			continue
		}
		t := c.P.NamedType(PkgAst, recvOf(fb))
		if t == nil {
			continue
		}
		if _, isStruct := t.Underlying().(*types.Struct); !isStruct {
			continue
		}
		c.Fn(fb)
		info := fb.Info()
		fields, lit := producedFields(fb, t)
		if lit == nil {
			c.Errorf("copy-exhaustive: no composite literal of %s in %s", t.Obj().Name(), fnDisplay(fb))
			continue
		}
		var recv *types.Var
		if len(fb.Decl.Recv.List[0].Names) > 0 {
			recv, _ = info.Defs[fb.Decl.Recv.List[0].Names[0]].(*types.Var)
		}
		for _, f := range dataFields(t) {
			n++
			key := t.Obj().Name() + "." + f.Name() + "@DeepCopy"
			v, written := fields[f.Name()]
			if !written {
				c.Bad("copy-exhaustive", key, lit.Pos(), fmt.Sprintf("(*%s).DeepCopy does not copy field %s: every task/include that goes through a merge loses this attribute", t.Obj().Name(), f.Name()))
				continue
			}
			// aliasing: bare receiver selector on a reference-typed field
			if isRefType(f.Type()) && recv != nil {
				if sel, ok := ast.Unparen(v).(*ast.SelectorExpr); ok && varOf(info, sel.X) == recv {
					why, allowed := shareOK[t.Obj().Name()+"."+f.Name()]
					if allowed && why != "" {
						c.OK("copy-exhaustive", key, v.Pos(), "shared by design: "+why)
						continue
					}
					if isImmutableRef(f.Type()) {
						c.OK("copy-exhaustive", key, v.Pos(), "copied by reference (referent is never mutated: "+types.TypeString(f.Type(), shortQual)+")")
						continue
					}
					c.Bad("copy-exhaustive", key, v.Pos(), fmt.Sprintf("(*%s).DeepCopy copies the reference-typed field %s by reference (`%s`): the copies made for different includes share it, so a value written for one include (vars, namespaced names) shows up in another", t.Obj().Name(), f.Name(), exprStr(v)))
					continue
				}
			}
			// a shallow clone of a container of mutable elements: Copy / Clone methods of a library container, slices.Clone,
			// maps.Clone, append([]T(nil), x...) applied to the receiver's field copy the container but share the elements
			if isRefType(f.Type()) && recv != nil {
				if call, ok := ast.Unparen(v).(*ast.CallExpr); ok && mentions(info, call, recv) {
					fn, _ := callee(info, call).(*types.Func)
					shallow := false
					switch {
					case fn != nil && fn.Pkg() != nil && !strings.HasPrefix(fn.Pkg().Path(), Mod) && (fn.Name() == "Copy" || fn.Name() == "Clone"):
						shallow = true
					case isBuiltin(info, call, "append"):
						shallow = true
					}
					if shallow && hasMutableElems(f.Type()) {
						c.Bad("copy-exhaustive", key, v.Pos(), fmt.Sprintf("(*%s).DeepCopy copies field %s with `%s`, which clones the container but shares its elements (pointers to mutable values): what one user of the copy writes into an element (a resolved matrix row, a templated value) is seen by every other user and by the definition", t.Obj().Name(), f.Name(), exprStr(v)))
						continue
					}
				}
			}
			c.OK("copy-exhaustive", key, v.Pos(), "copied")
		}
	}
	c.Floor("copy-exhaustive", n, 60)
	// producers outside DeepCopy
	type prod struct {
		fb    *FuncBody
		pkg   string
		typ   string
		allow map[string]string
	}
	var readerInclude *FuncBody
	for _, fb := range c.P.BodiesIn(PkgTaskfile) {
		if fb.Decl != nil && recvOf(fb) == "Reader" {
			for _, l := range allLits(fb) {
				if f, lit := producedFields(l, c.P.NamedType(PkgAst, "Include")); lit != nil && len(f) > 3 {
					readerInclude = l
				}
			}
		}
	}
	replaceVar := c.P.Func(PkgTemplater, "", "ReplaceVarWithExtra")
	prods := []prod{
		{a.CompiledTask, PkgAst, "Task", map[string]string{"Status": "assigned conditionally below (len(origTask.Status) > 0)", "Cmds": "built by the expansion loops", "Deps": "built by the expansion loops", "Preconditions": "built below"}},
		{readerInclude, PkgAst, "Include", nil},
		{replaceVar, PkgAst, "Var", nil},
	}
	for _, p := range prods {
		if p.fb == nil {
			c.Errorf("copy-exhaustive: producer of %s not found", p.typ)
			continue
		}
		c.Fn(p.fb)
		t := c.P.NamedType(p.pkg, p.typ)
		fields, lit := producedFields(p.fb, t)
		if lit == nil {
			c.Errorf("copy-exhaustive: no %s literal in %s", p.typ, fnDisplay(p.fb))
			continue
		}
		for _, f := range dataFields(t) {
			key := p.typ + "." + f.Name() + "@" + fnDisplay(p.fb.Root())
			_, written := fields[f.Name()]
			c.Decide(written, "copy-exhaustive", key, lit.Pos(), "written", fmt.Sprintf("%s builds an ast.%s without setting field %s: the attribute is lost for every %s that passes through here", fnDisplay(p.fb.Root()), p.typ, f.Name(), strings.ToLower(p.typ)))
		}
	}
}

func allLits(fb *FuncBody) []*FuncBody {
	var out []*FuncBody
	for _, l := range fb.Lits() {
		out = append(out, l)
		out = append(out, allLits(l)...)
	}
	return out
}

// isImmutableRef: reference types whose referent the code base never mutates in place.
func isImmutableRef(t types.Type) bool {
	switch x := t.Underlying().(type) {
	case *types.Pointer:
		// *string (Var.Sh) is replaced, never written through
		if b, ok := x.Elem().Underlying().(*types.Basic); ok && b.Kind() == types.String {
			return true
		}
	case *types.Interface:
		return true // `any` values decoded from YAML are treated as immutable
	}
	return false
}

func c08UnmarshalExhaustive(c *Check, a *Anchors) {
	c.Rule("unmarshal-exhaustive", "in every UnmarshalYAML of taskfile/ast that decodes into a temporary struct, every field of the temporary struct is read afterwards (flows to the receiver): no key of the Taskfile schema is silently dropped")
	n := 0
	for _, fb := range c.P.BodiesIn(PkgAst) {
		if fb.Decl == nil || fb.Decl.Name.Name != "UnmarshalYAML" {
			continue
		}
		info := fb.Info()
		// local vars of (anonymous or named) struct type that are passed by address to Decode
		inspectDeep(fb.Body, func(nd ast.Node) bool {
			call, ok := nd.(*ast.CallExpr)
			if !ok {
				return true
			}
			fn, ok := callee(info, call).(*types.Func)
			if !ok || fn.Name() != "Decode" || len(call.Args) != 1 {
				return true
			}
			u, ok := ast.Unparen(call.Args[0]).(*ast.UnaryExpr)
			if !ok || u.Op != token.AND {
				return true
			}
			v := varOf(info, u.X)
			if v == nil {
				return true
			}
			st, ok := v.Type().Underlying().(*types.Struct)
			if !ok || namedOf(v.Type()) != nil {
				return true // only anonymous temporaries: named targets are their own decoders
			}
			c.Fn(fb)
			used := map[string]bool{}
			inspectDeep(fb.Body, func(m ast.Node) bool {
				if sel, ok := m.(*ast.SelectorExpr); ok && varOf(info, sel.X) == v {
					used[sel.Sel.Name] = true
				}
				return true
			})
			for i := 0; i < st.NumFields(); i++ {
				f := st.Field(i)
				n++
				key := recvOf(fb) + "." + v.Name() + "." + f.Name() + "@UnmarshalYAML"
				if c.seen["unmarshal-exhaustive/"+key] {
					continue
				}
				c.Decide(used[f.Name()], "unmarshal-exhaustive", key, call.Pos(), "read after decoding", fmt.Sprintf("(*%s).UnmarshalYAML decodes the key %q into a temporary struct and never reads it: the setting is silently ignored", recvOf(fb), strings.ToLower(f.Name())))
			}
			return true
		})
	}
	c.Floor("unmarshal-exhaustive", n, 40)
}

func tasksMerge(c *Check) *FuncBody { return c.P.Func(PkgAst, "Tasks", "Merge") }

func c08NamespaceRewrite(c *Check, a *Anchors) {
	c.Rule("namespace-rewrite", "in Tasks.Merge (non-flatten branch) the task name, every dependency target, every task-call target and every alias are reassigned from the namespacing helper applied to the include's namespace; Internal is or-ed with the include's; an excluded task is skipped before anything is stored; the merged object is a DeepCopy of the included task")
	fb := tasksMerge(c)
	if fb == nil {
		c.Errorf("namespace-rewrite: Tasks.Merge not found")
		return
	}
	c.Fn(fb)
	info := fb.Info()
	name := fnDisplay(fb)
	helper := namespaceHelper(c, a)
	if helper == nil {
		c.Errorf("namespace-rewrite: namespacing helper not found")
		return
	}
	isNS := func(e ast.Expr, field string, typ string) bool {
		call, ok := ast.Unparen(e).(*ast.CallExpr)
		if !ok || !a.is(callee(info, call), helper) || len(call.Args) != 2 {
			return false
		}
		if !fieldOrLocalOf(c.P, info, call.Args[1], PkgAst, "Include", "Namespace") {
			return false
		}
		return typ == "" || fieldSel(info, call.Args[0], PkgAst, typ, field)
	}
	type want struct{ key, typ, field string }
	found := map[string]bool{}
	// the rewrite may live in a helper of Merge (applyNamespace(task, orig, name, include)): judge Merge and the functions of
	// the package it calls as one body (the obligations are about field types, not about variable identity)
	var groupBodies []*FuncBody
	for _, g := range mergeGroup(c, fb) {
		if g != helper {
			groupBodies = append(groupBodies, g)
		}
	}
	for _, gb := range groupBodies {
		gb := gb
		inspectBody(gb.Body, func(nd ast.Node) bool {
			as, ok := nd.(*ast.AssignStmt)
			if !ok || len(as.Lhs) != 1 || len(as.Rhs) != 1 {
				return true
			}
			l, r := as.Lhs[0], as.Rhs[0]
			switch {
			case fieldSel(info, l, PkgAst, "Dep", "Task") && isNS(r, "Task", "Dep"):
				found["dep-target"] = true
			case fieldSel(info, l, PkgAst, "Cmd", "Task") && isNS(r, "Task", "Cmd"):
				found["call-target"] = true
			case isNS(r, "", ""):
				if ix, ok := ast.Unparen(l).(*ast.IndexExpr); ok && fieldSel(info, ix.X, PkgAst, "Task", "Aliases") {
					found["aliases"] = true
				}
				if v := varOf(info, l); v != nil {
					// taskName = helper(name, ns); later task.Task = taskName
					inspectBody(gb.Body, func(m ast.Node) bool {
						if as2, ok := m.(*ast.AssignStmt); ok && len(as2.Lhs) == 1 && fieldSel(info, as2.Lhs[0], PkgAst, "Task", "Task") && varOf(info, as2.Rhs[0]) == v {
							found["task-name"] = true
						}
						// … or handed to a function of the group that stores its parameter as the task's name
						// (task.moveIntoNamespace(taskName, …))
						if hc, ok := m.(*ast.CallExpr); ok {
							fn, _ := callee(info, hc).(*types.Func)
							for _, h := range groupBodies {
								if fn == nil || h.Obj != fn {
									continue
								}
								for i, arg := range hc.Args {
									pv := paramAt(info, h, i)
									if varOf(info, arg) != v || pv == nil {
										continue
									}
									inspectBody(h.Body, func(k ast.Node) bool {
										if as3, ok := k.(*ast.AssignStmt); ok && len(as3.Lhs) == 1 && len(as3.Rhs) == 1 && fieldSel(info, as3.Lhs[0], PkgAst, "Task", "Task") && varOf(info, as3.Rhs[0]) == pv {
											found["task-name"] = true
										}
										return true
									})
								}
							}
						}
						return true
					})
				}
			case fieldSel(info, l, PkgAst, "Task", "Task") && isNS(r, "", ""):
				found["task-name"] = true
			case fieldSel(info, l, PkgAst, "Task", "Internal"):
				s := exprStr(r)
				if strings.Contains(s, "||") && strings.Contains(s, ".Internal") && strings.Count(s, ".Internal") >= 2 {
					found["internal-or"] = true
				}
			case fieldSel(info, l, PkgAst, "Task", "Namespace") && fieldOrLocalOf(c.P, info, r, PkgAst, "Include", "Namespace"):
				found["namespace-recorded"] = true
			}
			return true
		})
	}
	for _, k := range []string{"task-name", "dep-target", "call-target", "aliases", "internal-or", "namespace-recorded"} {
		c.Decide(found[k], "namespace-rewrite", k+"@"+name, fb.Decl.Pos(), "rewritten from the include's namespace", "Tasks.Merge no longer rewrites "+k+" with the include's namespace: included tasks would be bound to tasks of another file or not be callable as <namespace>:<task>")
	}
	// excludes: continue before Set; DeepCopy of the value
	f := NewFlow(c.P, fb, func(call *ast.CallExpr, obj types.Object) string {
		if fn, ok := obj.(*types.Func); ok && fn.Pkg() != nil {
			if fn.Pkg().Path() == "slices" && fn.Name() == "Contains" && len(call.Args) == 2 && fieldSel(info, call.Args[0], PkgAst, "Include", "Excludes") {
				return "excluded"
			}
			if isFunc(fn, PkgAst, "Tasks", "Set") {
				return "set"
			}
			if isFunc(fn, PkgAst, "Tasks", "Get") {
				return "get"
			}
		}
		return ""
	})
	f.Run()
	// the excludes list names tasks as the included file declares them: the name tested is the key of the loop over the
	// included tasks (a task that the included file got from an include of its own is `inner:name` there, and LocalName()
	// of it is `name` — which would exclude it together with, or instead of, the file's own `name`)
	pmMerge := parentMap(fb.Body)
	for call, l := range f.Labels {
		if l != "excluded" {
			continue
		}
		tested := varOf(info, call.Args[1])
		isKey := false
		for p := pmMerge[ast.Node(call)]; p != nil; p = pmMerge[p] {
			if r, ok := p.(*ast.RangeStmt); ok && r.Key != nil && tested != nil && varOf(info, r.Key) == tested {
				isKey = true
			}
		}
		c.Decide(isKey, "namespace-rewrite", "excludes-by-declared-name@"+name, call.Pos(), "the excludes list is matched against the key of the loop over the included tasks",
			"the include's excludes list is matched against `"+exprStr(call.Args[1])+"`, not against the name the included Taskfile registers the task under (the key of the loop): a nested task `inner:build` is dropped by `excludes: [build]`, or the wrong task is kept")
	}
	nSet := 0
	for call, l := range f.Labels {
		if l != "set" {
			continue
		}
		nSet++
		st := f.At[call]
		c.Decide(st.Has("false:excluded"), "namespace-rewrite", "excludes-before-set@"+name, call.Pos(), "an excluded task never reaches Set", "a task can be stored although the include's excludes list was not tested false on the path")
		fresh := len(call.Args) == 2 && isFreshExpr(info, fb.Body, call.Args[1], 2)
		c.Decide(fresh, "namespace-rewrite", "stores-a-copy@"+name, call.Pos(), "the stored task is a DeepCopy", "Tasks.Merge stores the included file's own task object: namespacing one include rewrites the definition seen by every other include of the same file")
	}
	if nSet == 0 {
		c.Errorf("namespace-rewrite: no Set call in Tasks.Merge")
	}
}

func c08NoSilentOverwrite(c *Check, a *Anchors) {
	c.Rule("no-silent-overwrite", "every Set into the parent's task table in Tasks.Merge is dominated by the false edge of a Get of the receiver table (the name is free); the found edge returns a conflict error")
	fb := tasksMerge(c)
	if fb == nil {
		return
	}
	info := fb.Info()
	f := NewFlow(c.P, fb, func(call *ast.CallExpr, obj types.Object) string {
		if isFunc(obj, PkgAst, "Tasks", "Set") {
			return "set"
		}
		if isFunc(obj, PkgAst, "Tasks", "Get") {
			if sel, ok := ast.Unparen(call.Fun).(*ast.SelectorExpr); ok {
				if v := varOf(info, sel.X); v != nil && len(fb.Decl.Recv.List[0].Names) > 0 && info.Defs[fb.Decl.Recv.List[0].Names[0]] == v {
					return "get"
				}
			}
		}
		return ""
	})
	f.Run()
	n := 0
	for call, l := range f.Labels {
		if l != "set" {
			continue
		}
		n++
		st := f.At[call]
		sameKey := false
		for gc, gl := range f.Labels {
			if gl == "get" && len(gc.Args) == 1 && len(call.Args) == 2 && exprStr(gc.Args[0]) == exprStr(call.Args[0]) {
				sameKey = true
			}
		}
		c.Decide(st.Has("false:get") && sameKey, "no-silent-overwrite", "set-after-free-check@"+fnDisplay(fb), call.Pos(), "Set only on the not-found edge of Get(same key)",
			"a task is stored into the parent's table without the name having been established free on every path: a task of the parent (or of another include) with the same name is silently overwritten; must-facts: "+st.String())
	}
	c.Floor("no-silent-overwrite", n, 1)
	conflict := false
	for _, r := range f.Returns {
		if st := f.At[r]; st.Has("true:get") {
			if res := errResult(r); res != nil && !isNilLit(info, res) {
				conflict = true
			}
		}
	}
	c.Decide(conflict, "no-silent-overwrite", "conflict-error@"+fnDisplay(fb), fb.Decl.Pos(), "the found edge returns an error", "a name collision no longer returns an error")
}

func c08CycleVersionMissing(c *Check, a *Anchors) {
	c.Rule("cycle-version-missing", "the include graph is created with PreventCycles and ErrEdgeCreatesCycle becomes TaskfileCycleError; Taskfile.Merge compares schema versions before merging anything; in the reader an error of NewNode is swallowed only when the include is optional, and an error of the recursive include is always returned")
	// PreventCycles
	ok := false
	for _, fb := range c.P.BodiesIn(PkgAst) {
		for _, call := range callsIn(fb, true) {
			if fn, isFn := callee(fb.Info(), call).(*types.Func); isFn && fn.Name() == "PreventCycles" {
				ok = true
				c.Fn(fb)
			}
		}
	}
	c.Decide(ok, "cycle-version-missing", "prevent-cycles", 0, "graph.PreventCycles() is requested", "the include graph is no longer created with PreventCycles: an include cycle would recurse without bound")
	// version check before merge
	tm := c.P.Func(PkgAst, "Taskfile", "Merge")
	if tm == nil {
		c.Errorf("cycle-version-missing: Taskfile.Merge not found")
		return
	}
	c.Fn(tm)
	f := NewFlow(c.P, tm, func(call *ast.CallExpr, obj types.Object) string {
		if fn, ok := obj.(*types.Func); ok {
			switch {
			case fn.Name() == "Equal" && strings.Contains(exprStr(call.Fun), "Version"):
				return "version-equal"
			case fn.Name() == "Merge":
				return "merge"
			}
		}
		return ""
	})
	f.Run()
	n := 0
	for call, l := range f.Labels {
		if l == "merge" {
			n++
			st := f.At[call]
			c.Decide(st.Has("true:version-equal"), "cycle-version-missing", ordinalKeyN(c, "cycle-version-missing", "version-before-merge@"+fnDisplay(tm)), call.Pos(), "after the version equality test", "Taskfile.Merge merges before (or without) establishing that the schema versions are equal")
		}
	}
	c.Floor("cycle-version-missing", n, 3)
	// reader include closure
	var inc *FuncBody
	for _, fb := range c.P.BodiesIn(PkgTaskfile) {
		if fb.Lit == nil {
			continue
		}
		for _, call := range callsIn(fb, false) {
			if isFunc(callee(fb.Info(), call), PkgTaskfile, "", "NewNode") {
				inc = fb
			}
		}
	}
	if inc == nil {
		c.Errorf("cycle-version-missing: the reader's include closure (calls NewNode) not found")
		return
	}
	c.Fn(inc)
	info := inc.Info()
	root := inc.Root()
	fl := NewFlow(c.P, inc, func(call *ast.CallExpr, obj types.Object) string {
		switch {
		case isFunc(obj, PkgTaskfile, "", "NewNode"):
			return "newnode"
		case a.is(obj, root):
			return "recurse"
		case isFunc(obj, PkgErrors, "", "Is") && len(call.Args) == 2 && strings.Contains(exprStr(call.Args[1]), "ErrEdgeCreatesCycle"):
			return "iscycle"
		}
		return ""
	})
	fl.Run()
	nn := 0
	for i, r := range fl.Returns {
		st := fl.At[r]
		res := errResult(r)
		if res == nil {
			continue
		}
		switch {
		case st.Has("nonnil:newnode") && isNilLit(info, res):
			nn++
			c.Decide(st.Has("true:field:Include.Optional"), "cycle-version-missing", fmt.Sprintf("missing-only-if-optional#%d@%s", i+1, fnDisplay(inc)), r.Pos(), "swallowed only for optional includes", "a failing include location is ignored although the include is not optional")
		case st.Has("nonnil:recurse"):
			nn++
			c.Decide(!isNilLit(info, res), "cycle-version-missing", fmt.Sprintf("recursive-error-returned#%d@%s", i+1, fnDisplay(inc)), r.Pos(), "the error of the recursive include is returned", "an error while loading an included Taskfile (decode error, cycle, version) is swallowed: the file stays in the graph half-read")
		case st.Has("true:iscycle"):
			nn++
			isCycle := strings.Contains(exprStr(res), "TaskfileCycleError")
			c.Decide(isCycle, "cycle-version-missing", fmt.Sprintf("cycle-error#%d@%s", i+1, fnDisplay(inc)), r.Pos(), "ErrEdgeCreatesCycle -> TaskfileCycleError", "an include cycle is not reported as TaskfileCycleError")
		}
	}
	// the cycle test may live in a method of the reader that the closure hands the edge update to
	for _, fb := range c.P.BodiesIn(PkgTaskfile) {
		if fb == inc || fb.Decl == nil {
			continue
		}
		has := false
		for _, call := range callsIn(fb, false) {
			if isFunc(callee(fb.Info(), call), PkgErrors, "", "Is") && len(call.Args) == 2 && strings.Contains(exprStr(call.Args[1]), "ErrEdgeCreatesCycle") {
				has = true
			}
		}
		if !has {
			continue
		}
		c.Fn(fb)
		hf := NewFlow(c.P, fb, func(call *ast.CallExpr, obj types.Object) string {
			if isFunc(obj, PkgErrors, "", "Is") && len(call.Args) == 2 && strings.Contains(exprStr(call.Args[1]), "ErrEdgeCreatesCycle") {
				return "iscycle"
			}
			return ""
		})
		hf.Run()
		for i, r := range hf.Returns {
			if res := errResult(r); res != nil && hf.At[r].Has("true:iscycle") {
				nn++
				c.Decide(strings.Contains(exprStr(res), "TaskfileCycleError"), "cycle-version-missing", fmt.Sprintf("cycle-error#%d@%s", i+1, fnDisplay(fb)), r.Pos(), "ErrEdgeCreatesCycle -> TaskfileCycleError", "an include cycle is not reported as TaskfileCycleError")
			}
		}
	}
	c.Floor("cycle-version-missing", nn+n+1, 7)
	// the recursion error must be tested at all
	tested := false
	for _, r := range fl.Returns {
		if fl.At[r].Has("nonnil:recurse") {
			tested = true
		}
	}
	c.Decide(tested, "cycle-version-missing", "recursive-error-tested@"+fnDisplay(inc), inc.Body.Pos(), "the recursive include's error has an error edge that returns", "the error of the recursive include is never returned on its error edge")
}

func ordinalKeyN(c *Check, rule, base string) string {
	k := base
	for i := 2; c.seen[rule+"/"+k]; i++ {
		k = fmt.Sprintf("%s#%d", base, i)
	}
	return k
}

func c08RootRef(c *Check, a *Anchors) {
	c.Rule("root-ref-absorbing", "Tasks.Merge is applied once per include level, so the namespacing helper must be stable under repetition: on the branch where it recognises a root reference (leading separator) the result must still be recognisable as one; two-point abstract evaluation over {marked, unmarked} names")
	helper := namespaceHelper(c, a)
	if helper == nil {
		c.Errorf("root-ref-absorbing: namespacing helper not found")
		return
	}
	c.Fn(helper)
	info := helper.Info()
	var marked *ast.IfStmt
	var cutVar *types.Var
	inspectBody(helper.Body, func(nd ast.Node) bool {
		if ifs, ok := nd.(*ast.IfStmt); ok {
			if _, _, cv, ok := prefixTest(info, ifs); ok {
				marked, cutVar = ifs, cv
			}
		}
		return true
	})
	if marked == nil {
		c.Bad("root-ref-absorbing", "marked-branch@"+fnDisplay(helper), helper.Decl.Pos(), "the namespacing helper no longer recognises ':'-prefixed (root) references")
		return
	}
	stripped := false
	for _, r := range returnsOf(marked.Body) {
		if call, ok := ast.Unparen(r.Results[0]).(*ast.CallExpr); ok && isFunc(callee(info, call), "strings", "", "TrimPrefix") {
			stripped = true
		}
		if cutVar != nil && varOf(info, r.Results[0]) == cutVar {
			stripped = true // the first result of strings.CutPrefix
		}
	}
	// number of merge levels: the graph merge walks every non-root vertex
	c.Decide(!stripped, "root-ref-absorbing", "marked-stays-marked@namespacing-helper", marked.Pos(), "a root reference stays marked until the merge into the root",
		"f(marked) = unmarked and f(unmarked) = namespace:unmarked: the root marker is stripped at the FIRST merge, so a ':foo' reference written two includes deep is namespaced by the outer include at the second merge and is bound to <outer namespace>:foo instead of the root Taskfile's foo")
	_ = sort.Strings
}

// namespaceHelper resolves the namespacing helper by what it does: the (string, string) string function of taskfile/ast that
// Tasks.Merge (or a function Merge hands the rewrite to) calls with Include.Namespace as one of its arguments.
func namespaceHelper(c *Check, a *Anchors) *FuncBody {
	merge := c.P.Func(PkgAst, "Tasks", "Merge")
	if merge == nil {
		return nil
	}
	for _, g := range mergeGroup(c, merge) {
		info := g.Info()
		for _, call := range callsIn(g, true) {
			fn, ok := callee(info, call).(*types.Func)
			if !ok || fn.Pkg() == nil || fn.Pkg().Path() != PkgAst || len(call.Args) != 2 {
				continue
			}
			sig := fn.Type().(*types.Signature)
			if sig.Recv() != nil || sig.Results().Len() != 1 || types.TypeString(sig.Results().At(0).Type(), nil) != "string" {
				continue
			}
			for _, arg := range call.Args {
				if fieldSel(info, arg, PkgAst, "Include", "Namespace") {
					return c.P.DeclOf(fn)
				}
				// ... or a local that holds it (`ns := include.Namespace`)
				if v := varOf(info, arg); v != nil && !v.IsField() {
					if d := singleDef(info, g.Root().Body, v); d != nil && fieldSel(info, d, PkgAst, "Include", "Namespace") {
						return c.P.DeclOf(fn)
					}
				}
			}
		}
	}
	return nil
}

// mergeGroup: Tasks.Merge and the functions / methods of taskfile/ast it hands part of the work to — not the methods of the
// ordered containers (Get / Set / All ... implement the table, they are not part of the merge logic).
func mergeGroup(c *Check, merge *FuncBody) []*FuncBody {
	containers := map[string]bool{"Tasks": true, "Vars": true, "Includes": true, "Matrix": true}
	var out []*FuncBody
	for _, g := range c.P.groupOf(merge, 2) {
		if g.Pkg.PkgPath != PkgAst {
			continue
		}
		if g == merge || !containers[recvOf(g)] {
			out = append(out, g)
		}
	}
	return out
}

// c08IncludeAttrsRegardlessOfFlatten: flatten only decides whether names get the namespace; every other attribute of the
// include statement (internal, excludes, dir, vars) applies to flattened includes as well.
func c08IncludeAttrsRegardlessOfFlatten(c *Check, a *Anchors) {
	c.Rule("include-attrs-regardless-of-flatten", "in Tasks.Merge (and its helpers) the code that is conditional on Include.Flatten reads only the naming attributes of the include (Namespace, Aliases): internal, excludes, dir and vars are applied outside it, so a flattened include that is marked internal still hides its tasks; and the task's Internal flag is assigned from Include.Internal")
	tm := c.P.Func(PkgAst, "Tasks", "Merge")
	if tm == nil {
		c.Errorf("include-attrs-regardless-of-flatten: Tasks.Merge not found")
		return
	}
	naming := map[string]bool{"Namespace": true, "Aliases": true, "Flatten": true}
	nIf, nInternal := 0, 0
	ord := map[string]int{}
	for _, fb := range c.P.groupOf(tm, 2) {
		if fb.Pkg.PkgPath != PkgAst {
			continue
		}
		info := fb.Info()
		inspectDeep(fb.Body, func(nd ast.Node) bool {
			switch x := nd.(type) {
			case *ast.IfStmt:
				onFlatten := false
				ast.Inspect(x.Cond, func(m ast.Node) bool {
					if sel, ok := m.(*ast.SelectorExpr); ok && fieldSel(info, sel, PkgAst, "Include", "Flatten") {
						onFlatten = true
					}
					return true
				})
				if !onFlatten {
					return true
				}
				nIf++
				c.Fn(fb)
				var bad []string
				branches := []ast.Node{x.Body}
				if x.Else != nil {
					branches = append(branches, x.Else)
				}
				for _, br := range branches {
					ast.Inspect(br, func(m ast.Node) bool {
						if sel, ok := m.(*ast.SelectorExpr); ok {
							if s := info.Selections[sel]; s != nil && s.Kind() == types.FieldVal && isNamed(s.Recv(), PkgAst, "Include") && !naming[sel.Sel.Name] {
								bad = append(bad, "Include."+sel.Sel.Name)
							}
						}
						return true
					})
				}
				c.Decide(len(bad) == 0, "include-attrs-regardless-of-flatten", ordinal(ord, "flatten-branch@"+fnDisplay(fb)), x.Pos(), "the branch on Include.Flatten only namespaces names",
					"the branch on Include.Flatten applies "+strings.Join(bad, ", ")+": for a flattened include that attribute is ignored (a flattened include marked internal exposes its tasks: they can be called directly and are listed)")
			case *ast.AssignStmt:
				for i, l := range x.Lhs {
					if sel, ok := ast.Unparen(l).(*ast.SelectorExpr); ok && fieldSel(info, sel, PkgAst, "Task", "Internal") && i < len(x.Rhs) {
						ast.Inspect(x.Rhs[i], func(m ast.Node) bool {
							if s, ok := m.(*ast.SelectorExpr); ok && fieldSel(info, s, PkgAst, "Include", "Internal") {
								nInternal++
							}
							return true
						})
					}
				}
			}
			return true
		})
	}
	c.Decide(nInternal > 0, "include-attrs-regardless-of-flatten", "internal-inherited@"+fnDisplay(tm), tm.Decl.Pos(), "Task.Internal is assigned from Include.Internal", "the merge no longer marks the tasks of an internal include as internal")
	c.Floor("include-attrs-regardless-of-flatten", nIf, 1)
}

// hasMutableElems: the container type (pointer to / slice / map / generic library container) holds elements that are
// themselves references to mutable values.
func hasMutableElems(t types.Type) bool {
	switch x := t.(type) {
	case *types.Pointer:
		return hasMutableElems(x.Elem())
	case *types.Alias:
		return hasMutableElems(types.Unalias(x))
	case *types.Slice:
		return isRefType(x.Elem()) && !isImmutableRef(x.Elem())
	case *types.Map:
		return isRefType(x.Elem()) && !isImmutableRef(x.Elem())
	case *types.Named:
		if ta := x.TypeArgs(); ta != nil {
			for i := 0; i < ta.Len(); i++ {
				if isRefType(ta.At(i)) && !isImmutableRef(ta.At(i)) {
					return true
				}
			}
			return false
		}
		return hasMutableElems(x.Underlying())
	}
	return false
}

// c08IncludeDirAlwaysResolved: an include without `dir:` runs in the directory of the Taskfile that declares it.
func c08IncludeDirAlwaysResolved(c *Check, a *Anchors) {
	c.Rule("include-dir-always-resolved", "in the reader, the directory of every include goes through the including node's ResolveDir unconditionally (an empty `dir:` resolves to the directory of the Taskfile that contains the include statement): resolving only a non-empty dir leaves nested includes of a Taskfile in a sub-directory with an empty directory, and their tasks run wherever the outer include or the executor happens to be")
	n := 0
	for _, fb := range c.P.BodiesIn(PkgTaskfile) {
		info := fb.Info()
		for _, call := range callsIn(fb, false) {
			fn, ok := callee(info, call).(*types.Func)
			if !ok || fn.Name() != "ResolveDir" || len(call.Args) != 1 || !fieldOrLocalOf(c.P, info, call.Args[0], PkgAst, "Include", "Dir") {
				continue
			}
			n++
			c.Fn(fb.Root())
			// no enclosing condition between the call and the function body
			pm := parentMap(fb.Body)
			cond := ""
			for p := pm[call]; p != nil; p = pm[p] {
				switch x := p.(type) {
				case *ast.IfStmt:
					if within(call, x.Body) || (x.Else != nil && within(call, x.Else)) {
						cond = exprStr(x.Cond)
					}
				case *ast.CaseClause:
					cond = "a switch case"
				}
			}
			c.Decide(cond == "", "include-dir-always-resolved", "ResolveDir@"+fnDisplay(fb.Root()), call.Pos(), "resolved for every include",
				"the include's directory is resolved only under `"+cond+"`: an include that does not satisfy it keeps its raw (empty or relative) directory")
		}
	}
	c.Floor("include-dir-always-resolved", n, 1)
}

// c08SpecialDirByName: an included task's own `dir:` that is written with one of the absolute special variables is not joined
// onto the include's directory.
func c08SpecialDirByName(c *Check, a *Anchors) {
	c.Rule("special-dir-by-name", "filepathext's test for \"this dir is built from an absolute special variable\" looks for the variable NAME itself (`.ROOT_DIR`, `.TASKFILE_DIR`, `.USER_WORKING_DIR` — the elements of its table, undecorated) anywhere in the text: a needle that spells one particular template form (`{{.X}}`) misses `{{ .X }}`, `{{joinPath .X \"gen\"}}` …, so Tasks.Merge joins the include's directory in front of an absolute path and the task runs in a directory that task silently creates")
	var fb *FuncBody
	for _, b := range c.P.BodiesIn(PkgFilepathext) {
		if b.Decl == nil {
			continue
		}
		// the predicate: a bool function that ranges over a package-level []string and calls strings.Contains
		if b.Type.Results == nil || b.Type.Results.NumFields() != 1 {
			continue
		}
		for _, call := range callsIn(b, false) {
			if isFunc(callee(b.Info(), call), "strings", "", "Contains") {
				inspectBody(b.Body, func(nd ast.Node) bool {
					if r, ok := nd.(*ast.RangeStmt); ok {
						if v := varOf(b.Info(), r.X); v != nil && v.Parent() == v.Pkg().Scope() {
							fb = b
						}
					}
					return true
				})
			}
		}
	}
	if fb == nil {
		c.Errorf("special-dir-by-name: the special-directory predicate of internal/filepathext was not found")
		return
	}
	c.Fn(fb)
	info := fb.Info()
	n := 0
	inspectBody(fb.Body, func(nd ast.Node) bool {
		r, ok := nd.(*ast.RangeStmt)
		if !ok || r.Value == nil {
			return true
		}
		el := varOf(info, r.Value)
		inspectBody(r.Body, func(m ast.Node) bool {
			call, ok := m.(*ast.CallExpr)
			if !ok || !isFunc(callee(info, call), "strings", "", "Contains") || len(call.Args) != 2 {
				return true
			}
			n++
			c.Decide(el != nil && varOf(info, call.Args[1]) == el, "special-dir-by-name", "needle@"+fnDisplay(fb), call.Pos(), "the needle is the variable name from the table",
				"the needle is `"+exprStr(call.Args[1])+"`, not the bare variable name: only one spelling of the template is recognised as an absolute special directory")
			return true
		})
		return true
	})
	c.Floor("special-dir-by-name", n, 1)
}
